import GB.Base.Proto
import GB.C04.Spec
import GB.C04.Refine
import GB.C04.StageOracle
import GB.C04.WF
import GB.C04.Order
/-
  C04 driver: parses one case line of harness/c04 (schema, binding, body, path/query parameters and the
  post-library oracles), runs the model `transcode` / `streamTranscode`, judges the implementation's
  result against model and specification, and requires the three registry configurations to agree.
-/
namespace GB.C04
open GB GB.Proto

abbrev P := StateT (List String) Option

def tok : P String := fun s => match s with
  | [] => none
  | t :: rest => some (t, rest)

def expectTok (x : String) : P Unit := do
  let t ← tok
  if t == x then pure () else failure

def natTok : P Nat := do
  let t ← tok
  match t.toNat? with
  | some n => pure n
  | none => failure

def intTok : P Int := do
  let t ← tok
  match t.toInt? with
  | some n => pure n
  | none => failure

def hexTok : P Bytes := do
  let t ← tok
  match parseHex t with
  | some b => pure b
  | none => failure

def nameTok : P Name := do
  let t ← tok
  pure (ascii t)

def repeatP {α} (n : Nat) (p : P α) : P (List α) :=
  match n with
  | 0 => pure []
  | k + 1 => do
    let a ← p
    let rest ← repeatP k p
    pure (a :: rest)

def kindOf (k : String) (ref : Name) : Option Kind :=
  match k with
  | "bool" => some .bool
  | "int32" | "sint32" | "sfixed32" => some .int32
  | "int64" | "sint64" | "sfixed64" => some .int64
  | "uint32" | "fixed32" => some .uint32
  | "uint64" | "fixed64" => some .uint64
  | "float" => some .float
  | "double" => some .double
  | "string" => some .string
  | "bytes" => some .bytes
  | "enum" => some (.enum ref)
  | "message" => some (.message ref)
  | _ => none

def fieldP : P Field := do
  expectTok "F"
  let name ← nameTok
  let json ← nameTok
  let num ← natTok
  let k ← tok
  let card ← tok
  let pres ← tok
  let oneof ← tok
  let ref ← nameTok
  let kind ← (match kindOf k ref with
    | some x => pure x
    | none => failure : P Kind)
  let c ← (match card with
    | "s" => pure Card.single
    | "l" => pure Card.list
    | other =>
      if other.startsWith "m:" then
        match kindOf ((other.drop 2).toString) [] with
        | some kk => pure (Card.map kk)
        | none => failure
      else failure : P Card)
  let o ← (if oneof == "-" then pure none
    else match ((oneof.drop 1).toString).toNat? with
      -- "o<i>" = real oneof i; "p<i>" = proto3 optional (synthetic, one member): numbered from 1000
      | some n => pure (some (if oneof.startsWith "p" then 1000 + n else n))
      | none => failure : P (Option Nat))
  pure { name := name, json := json, number := num, kind := kind, card := c, presence := pres == "1", oneof := o }

def schemaP : P Schema := do
  expectTok "S"
  let ne ← natTok
  let enums ← repeatP ne (do
    expectTok "E"
    let n ← nameTok
    let nv ← natTok
    let vals ← repeatP nv (do
      let vn ← nameTok
      let num ← intTok
      pure (vn, num))
    pure ({ name := n, values := vals } : EnumDesc))
  let nm ← natTok
  let msgs ← repeatP nm (do
    expectTok "M"
    let n ← nameTok
    let nf ← natTok
    let fs ← repeatP nf fieldP
    pure ({ name := n, fields := fs } : MsgDesc))
  pure { enums := enums, msgs := msgs }

def valOfTok (t : String) : Option Val :=
  match t.toList with
  | 'b' :: ['0'] => some (.bool false)
  | 'b' :: ['1'] => some (.bool true)
  | 'i' :: rest => (String.ofList rest).toInt?.map .int
  | 'x' :: _ => (parseHex t).map .bytes
  | 'o' :: rest => (hexDecodeChars rest).map .opaque
  | _ => none

def valP : P Val := do
  let t ← tok
  match valOfTok t with
  | some v => pure v
  | none => failure

def entryP : P (Path × Cell) := do
  let pb ← hexTok
  let path := splitDot pb
  let c ← tok
  match c with
  | "p" => pure (path, .present)
  | "s" => do
    let v ← valP
    pure (path, .single v)
  | "l" => do
    let n ← natTok
    let vs ← repeatP n valP
    pure (path, .list vs)
  | "m" => do
    let n ← natTok
    let es ← repeatP n (do
      let k ← valP
      let v ← valP
      pure (k, v))
    pure (path, .map es)
  | _ => failure

def entriesP : P Msg := do
  let n ← natTok
  repeatP n entryP

inductive DecX where
  | dec (d : Dec)
  | trav
  | panic

def decP : P DecX := do
  let t ← tok
  match t with
  | "none" => pure (.dec .none)
  | "err" => pure (.dec .err)
  | "eof" => pure (.dec .eof)
  | "trav" => pure .trav
  | "panic" => pure .panic
  | "ok" => do
    let es ← entriesP
    pure (.dec (.ok es))
  | _ => failure

def oracleEntryP : P (Name × Bytes × Parsed) := do
  let tag ← nameTok
  let text ← hexTok
  let r ← tok
  match r with
  | "err" => pure (tag, text, .err)
  | "okv" => do
    let v ← valP
    pure (tag, text, .val v)
  | "okm" => do
    let b ← valP
    let es ← entriesP
    match b with
    | .opaque blob => pure (tag, text, .msg blob es)
    | _ => failure
  | _ => failure

def mkOracle (tbl : List (Name × Bytes × Parsed)) : Oracle := fun tag text =>
  (tbl.find? (fun e => e.1 == tag && e.2.1 == text)).map (·.2.2)

inductive Res where
  | ok (m : Msg)
  | err (e : String)
  | other (s : String)     -- panic / build failure / …

def resP : P Res := do
  let t ← tok
  match t with
  | "ok" => do
    let es ← entriesP
    pure (.ok es)
  | "err" => do
    let e ← tok
    pure (.err e)
  | "panic" => do
    let _ ← tok
    pure (.other "panic")
  | "buildfail" => do
    let _ ← tok
    pure (.other "buildfail")
  | other => pure (.other other)

/-! canonical rendering (driver-side normalisation; order of entries / map keys is not significant) -/

def renderVal : Val → String
  | .bool b => if b then "b1" else "b0"
  | .int i => s!"i{i}"
  | .bytes b => toHex b
  | .opaque b => "o" ++ toHex b

def renderPath (p : Path) : String := String.intercalate "." (p.map toHex)

def sortStrings (l : List String) : List String := l.mergeSort (fun a b => decide (a ≤ b))

def renderCell : Cell → String
  | .present => "p"
  | .single v => "s " ++ renderVal v
  | .list vs => "l " ++ String.intercalate "," (vs.map renderVal)
  | .map es => "m " ++ String.intercalate "," (sortStrings (es.map (fun e => renderVal e.1 ++ "=" ++ renderVal e.2)))

def renderLeaves (m : Msg) : List String :=
  sortStrings ((leaves m).map (fun e => renderPath e.1 ++ " " ++ renderCell e.2))

def renderFull (m : Msg) : List String :=
  sortStrings (m.map (fun e => renderPath e.1 ++ " " ++ renderCell e.2))

def errName : Err → String
  | .invalidArgument => "InvalidArgument"
  | .internal => "Internal"
  | .eof => "eof"
  | .fault => "FAULT"

def showRes : Except Err Msg → String
  | .ok m => "ok[" ++ String.intercalate ";" (renderFull m) ++ "]"
  | .error e => "err:" ++ errName e

def showImpl : Res → String
  | .ok m => "ok[" ++ String.intercalate ";" (renderFull m) ++ "]"
  | .err e => "err:" ++ e
  | .other s => s

/-- does the implementation's result equal this model result? (full message, presence included) -/
def sameRes (impl : Res) (model : Except Err Msg) : Bool :=
  match impl, model with
  | .ok a, .ok b => renderFull a == renderFull b
  | .err e, .error f => e == errName f
  | _, _ => false

def permutations {α} : List α → List (List α)
  | [] => [[]]
  | x :: xs => (permutations xs).flatMap (fun p => (List.range (p.length + 1)).map (fun i => p.take i ++ x :: p.drop i))

/-- Go map iteration order is a free choice: the orders of path parameters and of query keys the model is
    tried with (given order first; all permutations while that stays small). -/
def orders (rq : Request) : List Request :=
  let pps := if rq.pathParams.length ≤ 3 then permutations rq.pathParams else [rq.pathParams]
  let qs := if rq.query.length ≤ 4 then permutations rq.query else [rq.query]
  rq :: pps.flatMap (fun p => qs.map (fun q => { pathParams := p, query := q }))

structure Case where
  sch : Schema
  root : MsgDesc
  bd : Binding
  rq : Request

def caseHeadP : P (Schema × Name × Bytes) := do
  let sch ← schemaP
  expectTok "R"
  let root ← nameTok
  expectTok "B"
  let bp ← hexTok
  let _ ← hexTok          -- body bytes: not interpreted by the model (see `D`)
  pure (sch, root, bp)

def paramsP : P Request := do
  expectTok "PP"
  let n ← natTok
  let pp ← repeatP n (do
    let k ← hexTok
    let v ← hexTok
    pure (k, v))
  expectTok "Q"
  let nq ← natTok
  let q ← repeatP nq (do
    let k ← hexTok
    let nv ← natTok
    let vs ← repeatP nv hexTok
    pure (k, vs))
  pure { pathParams := pp, query := q }

def oracleP : P Oracle := do
  expectTok "O"
  let n ← natTok
  let tbl ← repeatP n oracleEntryP
  pure (mkOracle tbl)

def otherResP (tag : String) (ra : Res) : P (Option Res) := do
  expectTok tag
  match (← get) with
  | "same" :: rest => do
    set rest
    pure none
  | _ => do
    let r ← resP
    let _ := ra
    pure (some r)

def specName : Option (Except Err Msg) → String
  | none => "free"
  | some (.ok m) => "ok[" ++ String.intercalate ";" (renderLeaves m) ++ "]"
  | some (.error e) => "err:" ++ errName e

/-- judge one call: implementation result vs specification, then vs model (over the permitted orders) -/
def judge (c : Case) (orc : Oracle) (stream : Bool) (dec : Dec) (impl : Res) : String :=
  let sp := expect c.sch orc c.root c.bd dec c.rq
  let specViol : Option String :=
    match impl with
    | .other s => some s!"impl-{s}"
    | .err e =>
      let ee : Option Err := if e == "InvalidArgument" then some .invalidArgument else if e == "Internal" then some .internal
        else if e == "eof" then some .eof else none
      match ee with
      | none => some s!"error-code {e}"
      | some ee =>
        if !errorAllowed c.sch c.root c.bd dec stream ee then some s!"error-code {e} not permitted here"
        else match sp with
          | some (.ok _) =>
            let tag := if pathVarOverBodyOptional c.sch c.root c.bd dec c.rq then "path-variable-over-body-optional: " else ""
            some s!"{tag}rejected a request the binding rules accept: impl=err:{e} spec={specName sp}"
          | some (.error se) => if se == ee then none else some s!"wrong error impl=err:{e} spec={specName sp}"
          | none => none
    | .ok m =>
      if !frameOK c.sch c.root c.bd dec c.rq m then some "frame: a populated field is not accounted for by body, path variables or unfiltered query parameters"
      else if mustFail c.sch orc c.root c.rq then some "accepted a path variable that does not parse"
      else match sp with
        | some (.ok l) => if renderLeaves m == renderLeaves l then none else some s!"fields differ from the binding rules: spec={specName sp}"
        | some (.error _) => some s!"accepted a request the binding rules reject: spec={specName sp}"
        | none => none
  -- does C04_refines / C04_order_independent cover this request? (counted in the branch histogram)
  -- Inside the theorem's hypotheses the case is judged by `stageExpect`, the executable oracle PROVED to be the
  -- declarative StageSpec (`C04_stage_oracle_accepts/_rejects/_defined`); `expect` (above) IS `stageExpect` there
  -- (`C04_expect_in_domain`), the per-field rules `expectRules` must agree with it when both speak.
  let st := stageExpect c.sch orc c.root c.bd dec c.rq
  let thm := st.isSome
  let stageViol : Option String :=
    match st, impl with
    | some (.ok l), .ok m =>
      if renderLeaves m == renderLeaves l then none
      else some s!"stage-spec: populated fields differ from StageSpec (C04_refines): spec={specName st}"
    | some (.ok _), .err e => some s!"stage-spec: rejected a request StageSpec (C04_refines) accepts: impl=err:{e} spec={specName st}"
    | some (.error se), .ok _ => some s!"stage-spec: accepted a request StageSpec (C04_refines) rejects: spec=err:{errName se}"
    | some (.error se), .err e => if e == errName se then none else some s!"stage-spec: wrong error impl=err:{e} spec=err:{errName se}"
    | _, _ => none
  let oraclesDisagree : Bool :=
    match st, expectRules c.sch orc c.root c.bd dec c.rq with
    | some (.ok l), some (.ok l') => renderLeaves l != renderLeaves l'
    | some (.error e), some (.error e') => !(e == e')
    | some (.ok _), some (.error _) => true
    | some (.error _), some (.ok _) => true
    | _, _ => false
  let specViol := match specViol with
    | some w => some w
    | none => stageViol
  match specViol with
  | some why => s!"VIOL {why} model={showRes (transcodeSorted c.sch orc c.root c.bd dec c.rq)}"
  | none =>
    if oraclesDisagree then s!"BAD the two specification oracles disagree: expectRules={specName (expectRules c.sch orc c.root c.bd dec c.rq)} stageExpect={specName st}" else
    if !wfInputs c.sch orc c.root c.rq then "BAD model inputs not well formed (dangling reference, illegal map key kind or oracle miss)"
    else
    -- The code as fixed (fc13e30) applies the keys in SORTED order: the model is `transcodeSorted`, a plain
    -- comparison (no allowance for Go map order any more — a recurrence of D4d is a DIFF). The pre-fix
    -- any-order semantics is still enumerated, as a sanity check of the theorems about it only.
    let model := transcodeSorted c.sch orc c.root c.bd dec c.rq
    let models := (orders c.rq).map (fun rq => transcode c.sch orc c.root c.bd dec rq)
    let okLeaves : List (List String) := models.filterMap (fun r => match r with
      | .ok m => some (renderLeaves m)
      | .error _ => none)
    let orderDependent : Bool := match okLeaves with
      | [] => false
      | l :: rest => rest.any (fun l' => l' != l)
    let isFault : Except Err Msg → Bool := fun r => match r with
      | .error .fault => true
      | _ => false
    if models.any isFault || isFault model then "BAD model-fault although the inputs are well formed (contradicts C04_no_fault)"
    else if thm && orderDependent then "BAD order-dependent although C04_order_independent applies"
    else if (c.rq.pathParams.length ≤ 3 && c.rq.query.length ≤ 4) && !(models.any (fun r => showRes r == showRes model)) then
      "BAD the sorted-order model is none of the any-order outcomes (contradicts C04_sorted_is_some_order)"
    else if sameRes impl model then
      let t := if thm then "-thm" else if orderDependent then "-ovl" else ""
      let br := match impl, sp with
        | .ok _, some _ => s!"ok-spec{t}"
        | .ok _, none => s!"ok-free{t}"
        | .err e, _ => s!"err-{e}{t}"
        | _, _ => "other"
      let nt := match impl with
        | .ok m => if (leaves m).isEmpty then "" else " nt"
        | _ => ""
      s!"OK{nt} b={br}"
    else s!"DIFF model={showRes model} impl={showImpl impl}"

def combine (vs : List String) : String :=
  match vs.find? (fun v => v.startsWith "VIOL") with
  | some v => v
  | none =>
    match vs.find? (fun v => v.startsWith "BAD") with
    | some v => v
    | none =>
      match vs.find? (fun v => v.startsWith "DIFF") with
      | some v => v
      | none =>
        let nt := if vs.any (fun v => (v.splitOn " ").contains "nt") then " nt" else ""
        let b := match vs.getLast? with
          | some v => (v.splitOn " ").filter (fun t => t.startsWith "b=")
          | none => []
        "OK" ++ nt ++ " " ++ String.intercalate " " b

def resEq (a b : Res) : Bool :=
  match a, b with
  | .ok x, .ok y => renderFull x == renderFull y
  | .err x, .err y => x == y
  | .other x, .other y => x == y
  | _, _ => false

/-- The three registry configurations are judged independently (Go map iteration order may differ between
    the runs, so the results need not be literally equal); the model and the specification have no registry,
    hence a configuration that is judged differently from configuration A is a dependence on the registry. -/
def registryVerdict (vA : String) (vB vC : Option String) : String :=
  let isOK (v : String) : Bool := v.startsWith "OK"
  let bad (o : Option String) : Option String := match o with
    | some v => if isOK v then none else some v
    | none => none
  let good (o : Option String) : Bool := match o with
    | some v => isOK v
    | none => false
  if isOK vA then
    match bad vB, bad vC with
    | some v, _ => "VIOL registry-dependence: with the target's types ALSO registered in the global registry the request is handled differently: " ++ v
    | _, some v => "VIOL registry-dependence: with unrelated same-named types in the global registry the request is handled differently: " ++ v
    | none, none => vA
  else if good vB || good vC then
    "VIOL registry-dependence: handled correctly only when the types are in the global registry; target-only types: " ++ vA
  else vA

def tcP : P String := do
  let (sch, rootN, bp) ← caseHeadP
  let rq ← paramsP
  let outs ← get
  -- the output fields follow the input fields in the same token list, separated by "=>" (see `handle`)
  expectTok "=>"
  let _ := outs
  expectTok "D"
  let d ← decP
  let orc ← oracleP
  expectTok "RA"
  let ra ← resP
  let rb ← otherResP "RB" ra
  let rc ← otherResP "RC" ra
  match sch.findMsg rootN with
  | none => pure "BAD root message not in schema"
  | some root =>
    let c : Case := { sch := sch, root := root, bd := { bodyPath := bp }, rq := rq }
    let j (r : Res) : String := match d with
      | .panic => "OK b=body-codec-panic"      -- the JSON codec panicked on the body alone: property C09/C17, not judged here
      | .trav => judge c orc false .none r
      | .dec dd => judge c orc false dd r
    pure (registryVerdict (j ra) (rb.map j) (rc.map j))

def tsP : P String := do
  let sch ← schemaP
  expectTok "R"
  let rootN ← nameTok
  expectTok "B"
  let bp ← hexTok
  let _ ← hexTok
  expectTok "N"
  let _ ← natTok
  let rq ← paramsP
  expectTok "=>"
  expectTok "D"
  let ds ← (do
    match (← get) with
    | "panic" :: rest => do
      set rest
      pure [DecX.panic]
    | _ => do
      let nd ← natTok
      repeatP nd decP : P (List DecX))
  let orc ← oracleP
  let listP : P (List Res) := do
    let n ← natTok
    repeatP n resP
  expectTok "RA"
  let ra ← listP
  let other (tag : String) : P (Option (List Res)) := do
    expectTok tag
    match (← get) with
    | "same" :: rest => do
      set rest
      pure none
    | _ => do
      let l ← listP
      pure (some l)
  let rb ← other "RB"
  let rc ← other "RC"
  match sch.findMsg rootN with
  | none => pure "BAD root message not in schema"
  | some root =>
    let c : Case := { sch := sch, root := root, bd := { bodyPath := bp }, rq := rq }
    let j (ra : List Res) : String :=
      if ds.any (fun d => match d with
          | .panic => true
          | _ => false) then "OK b=body-codec-panic"
      else
        let decs : List Dec := ds.map (fun d => match d with
          | .dec dd => dd
          | _ => Dec.none)
        -- the implementation stops at its first error; the decode oracle may have gone on
        let stoppedEarly := ra.length < decs.length && (match ra.getLast? with
          | some (.err _) => true
          | _ => false)
        let decs := if stoppedEarly then decs.take ra.length else decs
        if decs.length != ra.length then s!"DIFF stream: {ra.length} results for {decs.length} decoded bodies"
        else
          -- the stream model is `streamTranscode`; each call is judged like a unary call (C04_stream)
          let viaStream := streamTranscodeSorted c.sch orc c.root c.bd c.rq decs
          let viaMap := decs.map (fun d => transcodeSorted c.sch orc c.root c.bd d c.rq)
          if viaStream.map showRes != viaMap.map showRes then "BAD stream model differs from per-message model"
          else combine ((decs.zip ra).map (fun p => judge c orc true p.1 p.2))
    pure (registryVerdict (j ra) (rb.map j) (rc.map j))

/-- the messages of the google/protobuf files every generated target ships (harness/c04 wktFiles) -/
def wktFileMsgs : List Name := ["Timestamp", "Duration", "DoubleValue", "FloatValue", "Int64Value", "UInt64Value", "Int32Value",
  "UInt32Value", "BoolValue", "StringValue", "BytesValue", "FieldMask", "Struct", "Struct.FieldsEntry", "Value", "ListValue",
  "Empty", "Any"].map wkt

def pkgPlaceholder : Bytes := ascii "@PKG@."

/-- `anyres <schema> <url>`: does the production-built target resolve the Any type URL? -/
def anyresP : P String := do
  let sch ← schemaP
  let url ← hexTok
  expectTok "=>"
  let out ← tok
  let name := urlTypeName url
  -- user types are package-free on the line; the URL names them through the package placeholder
  let userMsgs := (sch.msgs.map (·.name)).filter (fun n => !((ascii "google.protobuf.").isPrefixOf n))
  let targetMsgs : List Name := userMsgs.map (fun n => pkgPlaceholder ++ n) ++ wktFileMsgs
  let m := if anyResolves targetMsgs url then "found" else "notfound"
  let _ := name
  if out == m then pure s!"OK nt b=anyres-{m}"
  else pure s!"VIOL any-resolution-not-target-only: the target's TypeResolver answers {out} for a type URL whose message the target's own files {if m == "found" then "define" else "do not define"}"

/-- `st …`: k client messages on one WebSocket stream through the real bridge and forwarder; `RS` = what the target was sent -/
def stP : P String := do
  let sch ← schemaP
  expectTok "R"
  let rootN ← nameTok
  expectTok "B"
  let bp ← hexTok
  let _ ← hexTok
  expectTok "F"
  let nf ← natTok
  let _ ← repeatP nf hexTok
  let rq ← paramsP
  expectTok "=>"
  expectTok "D"
  let ds ← (do
    match (← get) with
    | "panic" :: rest => do
      set rest
      pure [DecX.panic]
    | _ => do
      let nd ← natTok
      repeatP nd decP : P (List DecX))
  let orc ← oracleP
  expectTok "RS"
  let n ← natTok
  let rs ← repeatP n resP
  match sch.findMsg rootN with
  | none => pure "BAD root message not in schema"
  | some root =>
    let c : Case := { sch := sch, root := root, bd := { bodyPath := bp }, rq := rq }
    if ds.any (fun d => match d with
        | .panic => true
        | _ => false) then pure "OK b=body-codec-panic"
    else
      let decs : List Dec := ds.map (fun d => match d with
        | .dec dd => dd
        | _ => Dec.none)
      if rs.length > decs.length then pure s!"VIOL binding-accumulated-across-messages: the target was sent {rs.length} messages for {decs.length} client messages"
      else
        -- message i must be transcode(binding, path, query, body_i), independently of the messages before it
        let verdicts := (decs.zip rs).zipIdx.map (fun ((d, r), i) =>
          let v := judge c orc true d r
          if v.startsWith "OK" || i == 0 then v
          else if v.startsWith "VIOL path-variable-over-body-optional" then v
          else s!"VIOL binding-accumulated-across-messages: message {i + 1} sent to the target is not transcode(binding, path, query, body_{i + 1}) — it depends on earlier messages of the stream: {v}")
        -- the stream may end early only at a message that is rejected
        let endV : List String :=
          if rs.length == decs.length then []
          else match decs[rs.length]? with
            | none => []
            | some d =>
              let v1 := judge c orc true d (.err "InvalidArgument")
              let v2 := judge c orc true d (.err "Internal")
              if v1.startsWith "OK" then [v1] else if v2.startsWith "OK" then [v2]
              else if rs.length == 0 then [v1]
              else if v1.startsWith "VIOL path-variable-over-body-optional" then [v1]
              else [s!"VIOL binding-accumulated-across-messages: message {rs.length + 1} of the stream was refused although transcode(binding, path, query, body_{rs.length + 1}) accepts it: {v1}"]
        pure (combine (verdicts ++ endV))

/-- fixed schema of the `pf` op (mirrors harness/c04 pfSchema) -/
def pfEnum : EnumDesc := { name := ascii "PE", values := [(ascii "PE_ZERO", 0), (ascii "PE_ONE", 1), (ascii "PE_NEG", -1), (ascii "PE_MAX", 2147483647), (ascii "ALIAS", 1)] }
def pfSchema : Schema := { enums := [pfEnum], msgs := [] }

def pfKind (k : String) : Option (Sum Kind Name) :=
  match k with
  | "enum" => some (.inl (.enum (ascii "PE")))
  | "Int64Value" | "Int32Value" | "UInt64Value" | "UInt32Value" | "BoolValue" | "StringValue" | "BytesValue" | "FieldMask" | "Duration" => some (.inr (wkt k))
  | other => (kindOf other []).map .inl

def noOracle : Oracle := fun _ _ => none

def handlePF (k : String) (text : Bytes) (out : List String) : String :=
  match pfKind k with
  | none => "BAD pf kind"
  | some (.inl kind) =>
    -- the pf fields are proto3-optional (presence), so zero values stay visible
    let m := match parseScalar pfSchema noOracle kind text with
      | .ok v => "ok " ++ renderVal v
      | .error _ => "err"
    let o := String.intercalate " " out
    if o == m then (if m == "err" then "OK b=pf-err" else "OK nt b=pf-ok") else s!"VIOL text form of {k}: impl={o} model/spec={m}"
  | some (.inr ref) =>
    -- Duration texts whose fraction Go rounds through float64 are outside the exact model (oracle territory in tc/ts)
    if ref == wDuration && (parseDurationGo text).isNone then "OK b=pf-duration-float-rounding" else
    match parseMessage noOracle ref text, out with
    | .error _, ["err"] => "OK b=pf-err"
    | .ok es, "okm" :: rest =>
      match (entriesP.run rest) with
      | some (ies, []) => if renderFull ies == renderFull es then "OK nt b=pf-ok" else s!"VIOL text form of {k}: model={showRes (.ok es)}"
      | _ => "BAD pf entries"
    | r, _ => s!"VIOL text form of {k}: model={showRes r}"

def handle : Handler
  | "tc" :: ins, outs =>
    match tcP.run (ins ++ "=>" :: outs) with
    | some (v, []) => v
    | some (_, _) => "BAD trailing tokens"
    | none => "BAD tc parse"
  | "st" :: ins, outs =>
    match stP.run (ins ++ "=>" :: outs) with
    | some (v, []) => v
    | some (_, _) => "BAD trailing tokens"
    | none => "BAD st parse"
  | "anyres" :: ins, outs =>
    match anyresP.run (ins ++ "=>" :: outs) with
    | some (v, []) => v
    | some (_, _) => "BAD trailing tokens"
    | none => "BAD anyres parse"
  | "ts" :: ins, outs =>
    match tsP.run (ins ++ "=>" :: outs) with
    | some (v, []) => v
    | some (_, _) => "BAD trailing tokens"
    | none => "BAD ts parse"
  | ["pf", k, hx], outs =>
    match parseHex hx with
    | some t => handlePF k t outs
    | none => "BAD hex"
  | "hcp" :: _ :: rest, [out] =>
    match rest.mapM parseHex with
    | none => "BAD hex"
    | some bs =>
      match bs.reverse with
      | seq :: seqsRev =>
        let m := hasCommonPrefix (seqsRev.reverse.map splitDot) (splitDot seq)
        let ms := if m then "true" else "false"
        if out == ms then s!"OK nt b=hcp-{ms}" else s!"VIOL query filter prefix test: impl={out} spec={ms}"
      | [] => "BAD hcp"
  | _, _ => "BAD c04 line"

end GB.C04
