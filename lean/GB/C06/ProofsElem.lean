import GB.C06.Elem
import GB.C06.Proofs
/-
  C06 — the element-level model (Elem.lean) refines to `PatState`: every primitive, both loops of `addTarget`,
  `removeTarget` and a whole step commute with `erase`, for ALL states whose back-links of the target operated on are
  attached (`Tied`).
-/
set_option linter.unusedSimpArgs false
set_option linter.unusedVariables false
namespace GB.C06

theorem eCommit_upd (rt : ETable) (m : HMethod) (v : Option (List Elem)) :
    eCommit (upd rt m v) = upd (eCommit rt) m (v.map (List.map Elem.val)) := by
  funext x
  by_cases c : x = m <;> simp [eCommit, upd, c]

theorem map_val_filter (l : List Elem) (i : Nat) (n : Name) (h : ∀ e ∈ l, (e.id = i ↔ e.val.name = n)) :
    (l.filter (fun e => decide (e.id ≠ i))).map Elem.val =
      (l.map Elem.val).filter (fun g => decide (g.name ≠ n)) := by
  induction l with
  | nil => rfl
  | cons e es ih =>
    have he := h e (List.mem_cons_self ..)
    have ih' := ih (fun x hx => h x (List.mem_cons_of_mem _ hx))
    have ih'' : List.map Elem.val (List.filter (fun e => !decide (e.id = i)) es) =
        List.filter (fun g => !decide (g.name = n)) (List.map Elem.val es) := by simpa using ih'
    by_cases c : e.id = i
    · have hn : e.val.name = n := he.mp c
      simp [List.filter, c, hn, ih'']
    · have hn : e.val.name ≠ n := fun x => c (he.mpr x)
      simp [List.filter, c, hn, ih'']

theorem map_val_set (l : List Elem) (i : Nat) (g : Group) (h : ∀ e ∈ l, (e.id = i ↔ e.val.name = g.name)) :
    (l.map (fun e => if e.id = i then (⟨i, g⟩ : Elem) else e)).map Elem.val =
      (l.map Elem.val).map (fun g0 => if g0.name = g.name then g else g0) := by
  induction l with
  | nil => rfl
  | cons e es ih =>
    have he := h e (List.mem_cons_self ..)
    have ih' := ih (fun x hx => h x (List.mem_cons_of_mem _ hx))
    by_cases c : e.id = i
    · have hn : e.val.name = g.name := he.mp c
      simp [c, hn, ih']
    · have hn : e.val.name ≠ g.name := fun x => c (he.mpr x)
      simp [c, hn, ih']

/-- `removeRoute` through an attached link = "drop the target's element" -/
theorem eRemoveRoute_sim (rt : ETable) (f : Bool) (m : HMethod) (i : Nat) (n : Name)
    (h : ∀ e ∈ sliceOf (rt m), (e.id = i ↔ e.val.name = n)) :
    eCommit (eRemoveRoute rt f m i).1 = (removeRoute (eCommit rt) f m n).1 ∧
    (eRemoveRoute rt f m i).2 = (removeRoute (eCommit rt) f m n).2 := by
  unfold eRemoveRoute removeRoute
  cases hr : rt m with
  | none => simp [eCommit, hr]
  | some l =>
    have hc : eCommit rt m = some (l.map Elem.val) := by simp [eCommit, hr]
    have hm := map_val_filter l i n (by simpa [sliceOf, hr] using h)
    simp only [hc]
    cases hf : l.filter (fun e => decide (e.id ≠ i)) with
    | nil =>
      rw [hf] at hm
      rw [← hm]
      simp [eCommit_upd]
    | cons x xs =>
      rw [hf] at hm
      rw [← hm]
      simp [eCommit_upd]

/-- `link.link.Value = v` through an attached link = "replace the target's element in place" -/
theorem eSetValue_sim (rt : ETable) (m : HMethod) (i : Nat) (g : Group)
    (h : ∀ e ∈ sliceOf (rt m), (e.id = i ↔ e.val.name = g.name)) :
    eCommit (eSetValue rt m i g) = setGroup (eCommit rt) m g := by
  unfold eSetValue setGroup
  cases hr : rt m with
  | none => simp [eCommit, hr]
  | some l =>
    have hc : eCommit rt m = some (l.map Elem.val) := by simp [eCommit, hr]
    have hm := map_val_set l i g (by simpa [sliceOf, hr] using h)
    simp only [hc, eCommit_upd, Option.map, hm]

/-- `PushBack` needs no hypothesis -/
theorem eAddRoute_sim (rt : ETable) (m : HMethod) (i : Nat) (g : Group) :
    eCommit (eAddRoute rt m i g) = addRoute (eCommit rt) m g := by
  unfold eAddRoute addRoute
  cases hr : rt m with
  | none => simp [eCommit, hr, eCommit_upd]
  | some l =>
    have hc : eCommit rt m = some (l.map Elem.val) := by simp [eCommit, hr]
    simp [hc, eCommit_upd]

/-! ### `Tied` survives the primitives (ids and names of surviving elements do not change) -/

theorem sliceOf_upd_self (rt : ETable) (m : HMethod) (v : Option (List Elem)) : sliceOf (upd rt m v m) = sliceOf v := by
  simp [upd]

theorem mem_removeRoute (rt : ETable) (f : Bool) (m : HMethod) (i : Nat) (m' : HMethod) (e : Elem)
    (he : e ∈ sliceOf ((eRemoveRoute rt f m i).1 m')) : e ∈ sliceOf (rt m') := by
  unfold eRemoveRoute at he
  split at he
  · exact he
  · rename_i l hr
    split at he
    · by_cases c : m' = m
      · subst c; simp [upd, sliceOf] at he
      · simpa [upd, c] using he
    · by_cases c : m' = m
      · subst c
        simp only [upd, if_true, sliceOf] at he
        simp [hr, sliceOf, (List.mem_filter.mp he).1]
      · simpa [upd, c] using he

theorem Tied_removeRoute {rt : ETable} {n : Name} {ls : List Link} (h : Tied rt n ls) (f : Bool) (m : HMethod) (i : Nat) :
    Tied (eRemoveRoute rt f m i).1 n ls :=
  fun p hp e he => h p hp e (mem_removeRoute rt f m i p.1 e he)

theorem Tied_setValue {rt : ETable} {n : Name} {ls : List Link} (h : Tied rt n ls) (m : HMethod) (i : Nat) (g : Group)
    (hg : g.name = n) (hi : ∀ e ∈ sliceOf (rt m), (e.id = i ↔ e.val.name = n)) :
    Tied (eSetValue rt m i g) n ls := by
  intro p hp e he
  unfold eSetValue at he
  cases hr : rt m with
  | none => rw [hr] at he; exact h p hp e he
  | some l =>
    rw [hr] at he
    by_cases c : p.1 = m
    · rw [c] at he
      simp only [upd, if_true, sliceOf, List.mem_map] at he
      obtain ⟨e0, he0, rfl⟩ := he
      have h0 := h p hp e0 (by rw [c]; simpa [sliceOf, hr] using he0)
      have h1 := hi e0 (by simpa [sliceOf, hr] using he0)
      by_cases d : e0.id = i
      · simp only [d, if_true]
        rw [hg]
        have : e0.val.name = n := h1.mp d
        constructor
        · intro _; rfl
        · intro _; rw [← d]; exact h0.mpr this
      · simpa [d] using h0
    · have : sliceOf (upd rt m (some (l.map (fun e => if e.id = i then (⟨i, g⟩ : Elem) else e))) p.1) = sliceOf (rt p.1) := by
        simp [upd, c]
      rw [this] at he
      exact h p hp e he

theorem Tied_tail {rt : ETable} {n : Name} {p : Link} {ls : List Link} (h : Tied rt n (p :: ls)) : Tied rt n ls :=
  fun q hq => h q (List.mem_cons_of_mem _ hq)

/-! ### the loops -/

/-- erased accumulator -/
def EAcc.erase (a : EAcc) : AddAcc := ⟨eCommit a.rt, a.fault, a.newLinks.map Prod.fst, a.rem⟩

theorem eAddLoop1_sim (n : Name) (v : Ver) (bm : HMethod → Option (List Route)) :
    ∀ (ls : List Link) (a : EAcc), Tied a.rt n ls →
      (eAddLoop1 n v bm ls a).erase = addLoop1 n v bm (ls.map Prod.fst) a.erase ∧
      (eAddLoop1 n v bm ls a).next = a.next
  | [], a, _ => ⟨rfl, rfl⟩
  | (m, i) :: ls, a, ht => by
    have hi : ∀ e ∈ sliceOf (a.rt m), (e.id = i ↔ e.val.name = n) := ht (m, i) (List.mem_cons_self ..)
    simp only [eAddLoop1, List.map_cons, addLoop1]
    have hrem : a.erase.rem = a.rem := rfl
    rw [hrem]
    cases hb : (if m ∈ a.rem then bm m else none) with
    | none =>
      obtain ⟨s1, s2⟩ := eRemoveRoute_sim a.rt a.fault m i n hi
      have ih := eAddLoop1_sim n v bm ls
        ⟨(eRemoveRoute a.rt a.fault m i).1, (eRemoveRoute a.rt a.fault m i).2, a.newLinks, a.rem, a.next⟩
        (Tied_removeRoute (Tied_tail ht) _ _ _)
      simp only []
      rw [ih.1]
      refine ⟨?_, ih.2⟩
      congr 1
      simp only [EAcc.erase, s1, s2]
    | some prs =>
      have s := eSetValue_sim a.rt m i ⟨n, v, prs⟩ hi
      have ih := eAddLoop1_sim n v bm ls
        ⟨eSetValue a.rt m i ⟨n, v, prs⟩, a.fault, a.newLinks ++ [(m, i)], a.rem.filter (fun k => decide (k ≠ m)), a.next⟩
        (Tied_setValue (Tied_tail ht) m i ⟨n, v, prs⟩ rfl hi)
      simp only []
      rw [ih.1]
      refine ⟨?_, ih.2⟩
      congr 1
      simp only [EAcc.erase, s, List.map_append, List.map_cons, List.map_nil]

theorem eAddLoop2_sim (n : Name) (v : Ver) (bm : HMethod → Option (List Route)) :
    ∀ (ms : List HMethod) (a : EAcc), (eAddLoop2 n v bm ms a).erase = addLoop2 n v bm ms a.erase
  | [], a => rfl
  | m :: ms, a => by
    simp only [eAddLoop2, addLoop2]
    cases hb : bm m with
    | none => exact eAddLoop2_sim n v bm ms a
    | some prs =>
      simp only []
      rw [eAddLoop2_sim n v bm ms]
      congr 1
      simp only [EAcc.erase, eAddRoute_sim, List.map_append, List.map_cons, List.map_nil]

theorem eRemLoop_sim (n : Name) :
    ∀ (ls : List Link) (p : ETable × Bool), Tied p.1 n ls →
      eCommit (eRemLoop ls p).1 = (remLoop n (ls.map Prod.fst) (eCommit p.1, p.2)).1 ∧
      (eRemLoop ls p).2 = (remLoop n (ls.map Prod.fst) (eCommit p.1, p.2)).2
  | [], p, _ => ⟨rfl, rfl⟩
  | (m, i) :: ls, p, ht => by
    have hi : ∀ e ∈ sliceOf (p.1 m), (e.id = i ↔ e.val.name = n) := ht (m, i) (List.mem_cons_self ..)
    obtain ⟨s1, s2⟩ := eRemoveRoute_sim p.1 p.2 m i n hi
    have ih := eRemLoop_sim n ls (eRemoveRoute p.1 p.2 m i) (Tied_removeRoute (Tied_tail ht) _ _ _)
    simp only [eRemLoop, List.map_cons, remLoop]
    have : removeRoute (eCommit p.1) p.2 m n = (eCommit (eRemoveRoute p.1 p.2 m i).1, (eRemoveRoute p.1 p.2 m i).2) := by
      rw [s1, s2]
    rw [this]
    exact ih

/-! ### whole operations -/

theorem sliceOf_map_fst (o : Option (List Link)) : sliceOf (o.map (List.map Prod.fst)) = (sliceOf o).map Prod.fst := by
  cases o <;> rfl

theorem erase_links_upd (links : Name → Option (List Link)) (n : Name) (v : Option (List Link)) :
    (fun x => (upd links n v x).map (List.map Prod.fst)) =
      upd (fun x => (links x).map (List.map Prod.fst)) n (v.map (List.map Prod.fst)) := by
  funext x
  by_cases c : x = n <;> simp [upd, c]

theorem addTarget_sim (st : EState) (n : Name) (v : Ver) (bm : HMethod → Option (List Route)) (keys : List HMethod)
    (ht : Tied st.routes n (sliceOf (st.links n))) :
    (st.addTarget n v bm keys).erase = st.erase.addTarget n v bm keys := by
  have h1 := eAddLoop1_sim n v bm (sliceOf (st.links n)) ⟨st.routes, st.fault, [], keys, st.next⟩ ht
  have h2 := eAddLoop2_sim n v bm (eAddLoop1 n v bm (sliceOf (st.links n)) ⟨st.routes, st.fault, [], keys, st.next⟩).rem
    (eAddLoop1 n v bm (sliceOf (st.links n)) ⟨st.routes, st.fault, [], keys, st.next⟩)
  rw [h1.1] at h2
  have hrem : (eAddLoop1 n v bm (sliceOf (st.links n)) ⟨st.routes, st.fault, [], keys, st.next⟩).rem =
      (addLoop1 n v bm ((sliceOf (st.links n)).map Prod.fst) (EAcc.erase ⟨st.routes, st.fault, [], keys, st.next⟩)).rem := by
    rw [← h1.1]; rfl
  unfold EState.addTarget PatState.addTarget
  simp only [EState.erase, sliceOf_map_fst, erase_links_upd]
  rw [hrem] at h2 ⊢
  have e0 : EAcc.erase ⟨st.routes, st.fault, [], keys, st.next⟩ = ⟨eCommit st.routes, st.fault, [], keys⟩ := rfl
  rw [e0] at h2 ⊢
  rw [← h2]
  simp [EAcc.erase]

theorem removeTarget_sim (st : EState) (n : Name) (ht : Tied st.routes n (sliceOf (st.links n))) :
    (st.removeTarget n).erase = st.erase.removeTarget n := by
  obtain ⟨h1, h2⟩ := eRemLoop_sim n (sliceOf (st.links n)) (st.routes, st.fault) ht
  unfold EState.removeTarget PatState.removeTarget
  simp only [EState.erase, sliceOf_map_fst, erase_links_upd]
  simp only [h1, h2, Option.map]

/-- all back-links of all targets are attached -/
def AllTied (st : EState) : Prop := ∀ n, Tied st.routes n (sliceOf (st.links n))

/-- **one operation commutes with forgetting the element ids**, from ANY state whose back-links are attached -/
theorem step_sim (valid : Bytes → Bool) (st : EState) (op : Op) (ht : AllTied st) :
    ((st.step valid op).1).erase = (st.erase.step valid op).1 ∧ (st.step valid op).2 = (st.erase.step valid op).2 := by
  cases op with
  | watch n =>
    simp only [EState.step, PatState.step]
    have : st.erase.watching n = st.watching n := rfl
    rw [this]
    cases st.watching n <;> simp [EState.erase]
  | update n d =>
    simp only [EState.step, PatState.step]
    have : st.erase.watching n = st.watching n := rfl
    rw [this]
    cases st.watching n
    · simp
    · by_cases c : d.name = n
      · simp only [c, Bool.not_true, ne_eq, not_true_eq_false, if_false]
        have := addTarget_sim st n d.ver (built valid d) (builtKeys valid d) (ht n)
        simp [this]
      · simp [c]
  | close n =>
    simp only [EState.step, PatState.step]
    have : st.erase.watching n = st.watching n := rfl
    rw [this]
    cases st.watching n
    · simp
    · simp only [Bool.not_true, if_false]
      have := removeTarget_sim st n (ht n)
      refine ⟨?_, rfl⟩
      rw [← this]
      simp [EState.erase, EState.removeTarget]

end GB.C06
