import GB.C06.Model
/-
  C06 driver instance of the opaque matcher: a small matcher for the *restricted* template
  language the C06/C14 generators use — `/seg/seg…[:verb]` with `seg` a literal, `*` or `{ident}` —
  and the verb handling of the closure in `PatternRouter.RouteHTTP`.  (The full template language and
  matcher are C20's/C03's; here they only serve to drive the table with realistic bindings.)
-/
namespace GB.C06

inductive Seg
  | lit (b : Bytes)
  | star
deriving DecidableEq, Repr

structure Tmpl where
  segs : List Seg
  verb : Bytes
deriving DecidableEq, Repr

def splitOnByte (sep : UInt8) : Bytes → List Bytes
  | [] => [[]]
  | c :: cs =>
    match splitOnByte sep cs with
    | [] => [[c]]        -- unreachable: the result is never empty
    | x :: xs => if c = sep then [] :: x :: xs else (c :: x) :: xs

def isIdentByte (c : UInt8) : Bool :=
  (97 ≤ c && c ≤ 122) || (65 ≤ c && c ≤ 90) || (48 ≤ c && c ≤ 57) || c = 95

def isLitByte (c : UInt8) : Bool := isIdentByte c || c = 46 || c = 45

def parseSeg (s : Bytes) : Option Seg :=
  if s = [42] then some .star
  else match s with
    | 123 :: rest =>
      match rest.reverse with
      | 125 :: inner => if !inner.isEmpty && inner.all isIdentByte then some .star else none
      | _ => none
    | _ => if !s.isEmpty && s.all isLitByte then some (.lit s) else none

/-- split `seg:verb` at the last ':' -/
def splitVerb (s : Bytes) : Bytes × Bytes :=
  match (splitOnByte 58 s).reverse with
  | [] => (s, [])
  | [_] => (s, [])
  | v :: restRev => ((restRev.reverse.intersperse [58]).flatten, v)

def parseTmpl (t : Bytes) : Option Tmpl :=
  match t with
  | 47 :: rest =>
    let comps := splitOnByte 47 rest
    match comps.reverse with
    | [] => none
    | last :: initRev =>
      let (lseg, verb) := splitVerb last
      if (splitOnByte 58 last).length > 2 then none
      else if (splitOnByte 58 last).length = 2 && !( !verb.isEmpty && verb.all isIdentByte) then none
      else
        let segs := (initRev.reverse ++ [lseg]).map parseSeg
        if segs.all Option.isSome then some ⟨segs.filterMap id, verb⟩ else none
  | _ => none

def validSimple (t : Bytes) : Bool := (parseTmpl t).isSome

/-- gateway `unescape` well-formedness scan: a '%' must be followed by two hex digits -/
def malformedEsc : Bytes → Bool
  | [] => false
  | c :: rest =>
    if c = 37 then
      match rest with
      | a :: b :: _ =>
        let hx := fun (x : UInt8) => (48 ≤ x && x ≤ 57) || (97 ≤ x && x ≤ 102) || (65 ≤ x && x ≤ 70)
        if hx a && hx b then malformedEsc rest else true
      | _ => true
    else malformedEsc rest

/-- the opcode interpreter of `Pattern.MatchAndEscape` on literal / single-segment-wildcard programs -/
def matchSegs : List Seg → List Bytes → Outcome
  | [], [] => .hit
  | [], _ :: _ => .skip
  | _ :: _, [] => .skip
  | .lit l :: ss, c :: cs => if c = l then matchSegs ss cs else .skip
  | .star :: ss, c :: cs => if malformedEsc c then .abort codeInvalidArgument else matchSegs ss cs

def endsWith (s suf : Bytes) : Bool := suf.length ≤ s.length && s.drop (s.length - suf.length) = suf

/-- the closure inside `RouteHTTP` for one route (current code: a last segment that is only
    `:verb` stops the search with NotFound — C03's D3; the C06 probes never contain such a segment) -/
def evalSimple (path : Bytes) (r : Route) : Outcome :=
  match parseTmpl r.pattern, path with
  | some t, 47 :: rest =>
    let comps := splitOnByte 47 rest
    if t.verb.isEmpty then matchSegs t.segs comps
    else
      match comps.reverse with
      | [] => .skip
      | last :: initRev =>
        if endsWith last (58 :: t.verb) then
          let idx := last.length - t.verb.length - 1
          if idx = 0 then .abort codeNotFound
          else matchSegs t.segs (initRev.reverse ++ [last.take idx])
        else .skip
  | _, _ => .skip

end GB.C06
