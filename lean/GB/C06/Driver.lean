import GB.Base.Proto
namespace GB.C06
open GB GB.Proto

/-- stub: replaced when the C06 slice is built -/
def handle : Handler := fun _ _ => "BAD c06 unimplemented"

end GB.C06
