import GB.Base.Proto
import GB.C06.Hist
namespace GB.C06
open GB GB.Proto

/-- area c06: history lines (see GB/C06/Hist.lean for the format) -/
def handle : Handler
  | "hist" :: inp, out => Hist.judgeHist inp out
  | ["tmpl", hx], [out] =>
    -- ties the driver's instance of the opaque `valid` parameter to routing.buildPattern on the generator's pool
    match parseHex hx with
    | none => "BAD hex"
    | some t =>
      let m := if validSimple t then "1" else "0"
      if out = m then s!"OK b=tmpl-{m}" else s!"DIFF model={m} (restricted template language of the C06 driver)"
  | _, _ => "BAD c06 line"

end GB.C06
