import GB.C06.ProofsElem
/-
  C06 — the attachedness invariant of the element-level model holds after EVERY history, hence the refinement
  `erase (EState.run h) = PatState.run h` is unconditional.

  Inductive invariant `EInv st ps`: `erase st = ps`; every back-link of every target points at an element that IS in the
  list of the link's method and carries that target's routes (`AttL`); element ids are unique inside a list and below the
  allocator (`Good`).  With the name-uniqueness of `PatState` (`UInv`) this gives `Tied` for every target (`AllTied_of`).
-/
set_option linter.unusedSimpArgs false
set_option linter.unusedVariables false
namespace GB.C06

/-! ### what each primitive does to each list -/

theorem eRemoveRoute_other (rt : ETable) (f : Bool) (m : HMethod) (i : Nat) (m' : HMethod) (h : m' ≠ m) :
    (eRemoveRoute rt f m i).1 m' = rt m' := by
  unfold eRemoveRoute
  cases hr : rt m with
  | none => rfl
  | some l =>
    simp only []
    cases hf : l.filter (fun e => decide (e.id ≠ i)) with
    | nil => simp [upd, h]
    | cons x xs => simp [upd, h]

theorem eRemoveRoute_self (rt : ETable) (f : Bool) (m : HMethod) (i : Nat) :
    sliceOf ((eRemoveRoute rt f m i).1 m) = (sliceOf (rt m)).filter (fun e => decide (e.id ≠ i)) := by
  unfold eRemoveRoute
  cases hr : rt m with
  | none => simp [hr, sliceOf]
  | some l =>
    simp only [sliceOf]
    cases hf : l.filter (fun e => decide (e.id ≠ i)) with
    | nil => simp [upd, sliceOf]
    | cons x xs => simp [upd, sliceOf]

theorem eSetValue_other (rt : ETable) (m : HMethod) (i : Nat) (g : Group) (m' : HMethod) (h : m' ≠ m) :
    eSetValue rt m i g m' = rt m' := by
  unfold eSetValue
  cases hr : rt m with
  | none => rfl
  | some l => simp [upd, h]

theorem eSetValue_self (rt : ETable) (m : HMethod) (i : Nat) (g : Group) :
    sliceOf (eSetValue rt m i g m) = (sliceOf (rt m)).map (fun e => if e.id = i then (⟨i, g⟩ : Elem) else e) := by
  unfold eSetValue
  cases hr : rt m with
  | none => simp [hr, sliceOf]
  | some l => simp [upd, sliceOf]

theorem eAddRoute_other (rt : ETable) (m : HMethod) (i : Nat) (g : Group) (m' : HMethod) (h : m' ≠ m) :
    eAddRoute rt m i g m' = rt m' := by
  unfold eAddRoute
  cases hr : rt m with
  | none => simp [upd, h]
  | some l => simp [upd, h]

theorem eAddRoute_self (rt : ETable) (m : HMethod) (i : Nat) (g : Group) :
    sliceOf (eAddRoute rt m i g m) = sliceOf (rt m) ++ [⟨i, g⟩] := by
  unfold eAddRoute
  cases hr : rt m with
  | none => simp [upd, sliceOf]
  | some l => simp [upd, sliceOf]

/-! ### `Good`: ids unique per list and below the allocator -/

def Good (rt : ETable) (k : Nat) : Prop :=
  ∀ m, ((sliceOf (rt m)).map Elem.id).Nodup ∧ ∀ e ∈ sliceOf (rt m), e.id < k

theorem Good_removeRoute {rt : ETable} {k : Nat} (h : Good rt k) (f : Bool) (m : HMethod) (i : Nat) :
    Good (eRemoveRoute rt f m i).1 k := by
  intro m'
  by_cases c : m' = m
  · subst c
    rw [eRemoveRoute_self]
    refine ⟨(h m').1.sublist ((List.filter_sublist).map Elem.id), fun e he => (h m').2 e (List.mem_filter.mp he).1⟩
  · rw [eRemoveRoute_other rt f m i m' c]; exact h m'

theorem map_id_set (l : List Elem) (i : Nat) (g : Group) :
    (l.map (fun e => if e.id = i then (⟨i, g⟩ : Elem) else e)).map Elem.id = l.map Elem.id := by
  induction l with
  | nil => rfl
  | cons e es ih =>
    by_cases c : e.id = i <;> simp [c, ih]

theorem Good_setValue {rt : ETable} {k : Nat} (h : Good rt k) (m : HMethod) (i : Nat) (g : Group) :
    Good (eSetValue rt m i g) k := by
  intro m'
  by_cases c : m' = m
  · subst c
    rw [eSetValue_self, map_id_set]
    refine ⟨(h m').1, fun e he => ?_⟩
    obtain ⟨e0, he0, rfl⟩ := List.mem_map.mp he
    have := (h m').2 e0 he0
    by_cases d : e0.id = i
    · simp only [d, if_true]; omega
    · simpa [d] using this
  · rw [eSetValue_other rt m i g m' c]; exact h m'

theorem Good_addRoute {rt : ETable} {k : Nat} (h : Good rt k) (m : HMethod) (g : Group) :
    Good (eAddRoute rt m k g) (k + 1) := by
  intro m'
  by_cases c : m' = m
  · subst c
    rw [eAddRoute_self]
    refine ⟨?_, fun e he => ?_⟩
    · rw [List.map_append, List.nodup_append]
      refine ⟨(h m').1, by simp, ?_⟩
      intro a ha b hb
      obtain ⟨e, he, rfl⟩ := List.mem_map.mp ha
      have := (h m').2 e he
      simp at hb
      omega
    · rcases List.mem_append.mp he with he | he
      · have := (h m').2 e he; omega
      · simp at he; subst he; simp
  · rw [eAddRoute_other rt m k g m' c]
    exact ⟨(h m').1, fun e he => by have := (h m').2 e he; omega⟩

theorem Good_loop1 (n : Name) (v : Ver) (bm : HMethod → Option (List Route)) (k : Nat) :
    ∀ (ls : List Link) (a : EAcc), Good a.rt k → Good (eAddLoop1 n v bm ls a).rt k
  | [], a, h => h
  | (m, i) :: ls, a, h => by
    simp only [eAddLoop1]
    split
    · exact Good_loop1 n v bm k ls _ (Good_removeRoute h _ _ _)
    · exact Good_loop1 n v bm k ls _ (Good_setValue h _ _ _)

theorem Good_loop2 (n : Name) (v : Ver) (bm : HMethod → Option (List Route)) :
    ∀ (ms : List HMethod) (a : EAcc), Good a.rt a.next → Good (eAddLoop2 n v bm ms a).rt (eAddLoop2 n v bm ms a).next
  | [], a, h => h
  | m :: ms, a, h => by
    simp only [eAddLoop2]
    split
    · exact Good_loop2 n v bm ms a h
    · exact Good_loop2 n v bm ms _ (Good_addRoute h _ _)

theorem Good_remLoop (k : Nat) : ∀ (ls : List Link) (p : ETable × Bool), Good p.1 k → Good (eRemLoop ls p).1 k
  | [], p, h => h
  | (m, i) :: ls, p, h => by
    simp only [eRemLoop]
    exact Good_remLoop k ls _ (Good_removeRoute h _ _ _)

/-! ### `EKeeps`: elements of OTHER targets stay where they are -/

def EKeeps (n : Name) (rt rt' : ETable) : Prop :=
  ∀ m e, e.val.name ≠ n → e ∈ sliceOf (rt m) → e ∈ sliceOf (rt' m)

theorem EKeeps.refl (n : Name) (rt : ETable) : EKeeps n rt rt := fun _ _ _ h => h

theorem EKeeps.trans {n : Name} {a b c : ETable} (h1 : EKeeps n a b) (h2 : EKeeps n b c) : EKeeps n a c :=
  fun m e hn he => h2 m e hn (h1 m e hn he)

theorem EKeeps_removeRoute (n : Name) (rt : ETable) (f : Bool) (m : HMethod) (i : Nat)
    (hi : ∀ e ∈ sliceOf (rt m), (e.id = i ↔ e.val.name = n)) : EKeeps n rt (eRemoveRoute rt f m i).1 := by
  intro m' e hn he
  by_cases c : m' = m
  · subst c
    rw [eRemoveRoute_self]
    exact List.mem_filter.mpr ⟨he, by simpa using fun x => hn ((hi e he).mp x)⟩
  · rw [eRemoveRoute_other rt f m i m' c]; exact he

theorem EKeeps_setValue (n : Name) (rt : ETable) (m : HMethod) (i : Nat) (g : Group)
    (hi : ∀ e ∈ sliceOf (rt m), (e.id = i ↔ e.val.name = n)) : EKeeps n rt (eSetValue rt m i g) := by
  intro m' e hn he
  by_cases c : m' = m
  · subst c
    rw [eSetValue_self]
    refine List.mem_map.mpr ⟨e, he, ?_⟩
    have : e.id ≠ i := fun x => hn ((hi e he).mp x)
    simp [this]
  · rw [eSetValue_other rt m i g m' c]; exact he

theorem mem_addRoute_mono (rt : ETable) (m : HMethod) (i : Nat) (g : Group) (m' : HMethod) (e : Elem)
    (he : e ∈ sliceOf (rt m')) : e ∈ sliceOf (eAddRoute rt m i g m') := by
  by_cases c : m' = m
  · subst c; rw [eAddRoute_self]; exact List.mem_append_left _ he
  · rw [eAddRoute_other rt m i g m' c]; exact he

theorem EKeeps_loop1 (n : Name) (v : Ver) (bm : HMethod → Option (List Route)) :
    ∀ (ls : List Link) (a : EAcc), Tied a.rt n ls → EKeeps n a.rt (eAddLoop1 n v bm ls a).rt
  | [], a, _ => EKeeps.refl _ _
  | (m, i) :: ls, a, ht => by
    have hi : ∀ e ∈ sliceOf (a.rt m), (e.id = i ↔ e.val.name = n) := ht (m, i) (List.mem_cons_self ..)
    simp only [eAddLoop1]
    split
    · exact (EKeeps_removeRoute n a.rt a.fault m i hi).trans
        (EKeeps_loop1 n v bm ls ⟨(eRemoveRoute a.rt a.fault m i).1, (eRemoveRoute a.rt a.fault m i).2, a.newLinks, a.rem, a.next⟩
          (Tied_removeRoute (Tied_tail ht) _ _ _))
    · rename_i prs _
      exact (EKeeps_setValue n a.rt m i ⟨n, v, prs⟩ hi).trans
        (EKeeps_loop1 n v bm ls
          ⟨eSetValue a.rt m i ⟨n, v, prs⟩, a.fault, a.newLinks ++ [(m, i)], a.rem.filter (fun k => decide (k ≠ m)), a.next⟩
          (Tied_setValue (Tied_tail ht) m i ⟨n, v, prs⟩ rfl hi))

theorem EKeeps_loop2 (n : Name) (v : Ver) (bm : HMethod → Option (List Route)) :
    ∀ (ms : List HMethod) (a : EAcc), EKeeps n a.rt (eAddLoop2 n v bm ms a).rt
  | [], a => EKeeps.refl _ _
  | m :: ms, a => by
    simp only [eAddLoop2]
    split
    · exact EKeeps_loop2 n v bm ms a
    · rename_i prs _
      exact EKeeps.trans (fun m' e _ he => mem_addRoute_mono a.rt m a.next ⟨n, v, prs⟩ m' e he)
        (EKeeps_loop2 n v bm ms ⟨eAddRoute a.rt m a.next ⟨n, v, prs⟩, a.fault, a.newLinks ++ [(m, a.next)], a.rem, a.next + 1⟩)

theorem EKeeps_remLoop (n : Name) : ∀ (ls : List Link) (p : ETable × Bool), Tied p.1 n ls → EKeeps n p.1 (eRemLoop ls p).1
  | [], p, _ => EKeeps.refl _ _
  | (m, i) :: ls, p, ht => by
    have hi : ∀ e ∈ sliceOf (p.1 m), (e.id = i ↔ e.val.name = n) := ht (m, i) (List.mem_cons_self ..)
    simp only [eRemLoop]
    exact (EKeeps_removeRoute n p.1 p.2 m i hi).trans
      (EKeeps_remLoop n ls (eRemoveRoute p.1 p.2 m i) (Tied_removeRoute (Tied_tail ht) _ _ _))

/-! ### `AttL`: the links point at elements that are in their lists -/

def AttL (n : Name) (rt : ETable) (ls : List Link) : Prop :=
  ∀ p ∈ ls, ∃ e ∈ sliceOf (rt p.1), e.id = p.2 ∧ e.val.name = n

theorem AttL_congr {n : Name} {rt rt' : ETable} {ls : List Link} (h : AttL n rt ls)
    (hm : ∀ p ∈ ls, rt' p.1 = rt p.1) : AttL n rt' ls := by
  intro p hp
  obtain ⟨e, he, h1, h2⟩ := h p hp
  exact ⟨e, by rw [hm p hp]; exact he, h1, h2⟩

theorem Att_loop1 (n : Name) (v : Ver) (bm : HMethod → Option (List Route)) :
    ∀ (ls : List Link) (a : EAcc), Tied a.rt n ls → AttL n a.rt ls → AttL n a.rt a.newLinks →
      (ls.map Prod.fst).Nodup → (∀ p ∈ a.newLinks, ∀ q ∈ ls, p.1 ≠ q.1) →
      AttL n (eAddLoop1 n v bm ls a).rt (eAddLoop1 n v bm ls a).newLinks
  | [], a, _, _, hn, _, _ => hn
  | (m, i) :: ls, a, ht, hl, hn, hnd, hdis => by
    have hi : ∀ e ∈ sliceOf (a.rt m), (e.id = i ↔ e.val.name = n) := ht (m, i) (List.mem_cons_self ..)
    have hnd0 : m ∉ ls.map Prod.fst ∧ (ls.map Prod.fst).Nodup := by
      simpa only [List.map_cons, List.nodup_cons] using hnd
    have hnd' : (ls.map Prod.fst).Nodup := hnd0.2
    have hm_ls : ∀ q ∈ ls, q.1 ≠ m := by
      intro q hq e
      exact hnd0.1 (List.mem_map.mpr ⟨q, hq, e⟩)
    have hm_new : ∀ p ∈ a.newLinks, p.1 ≠ m := fun p hp => hdis p hp (m, i) (List.mem_cons_self ..)
    have hdis' : ∀ p ∈ a.newLinks, ∀ q ∈ ls, p.1 ≠ q.1 := fun p hp q hq => hdis p hp q (List.mem_cons_of_mem _ hq)
    have hl' : AttL n a.rt ls := fun q hq => hl q (List.mem_cons_of_mem _ hq)
    simp only [eAddLoop1]
    split
    · refine Att_loop1 n v bm ls _ (Tied_removeRoute (Tied_tail ht) _ _ _) ?_ ?_ hnd' hdis'
      · exact AttL_congr hl' (fun q hq => eRemoveRoute_other _ _ _ _ _ (hm_ls q hq))
      · exact AttL_congr hn (fun p hp => eRemoveRoute_other _ _ _ _ _ (hm_new p hp))
    · rename_i prs _
      refine Att_loop1 n v bm ls _ (Tied_setValue (Tied_tail ht) m i ⟨n, v, prs⟩ rfl hi) ?_ ?_ hnd' ?_
      · exact AttL_congr hl' (fun q hq => eSetValue_other _ _ _ _ _ (hm_ls q hq))
      · intro p hp
        rcases List.mem_append.mp hp with hp | hp
        · exact AttL_congr hn (fun p hp => eSetValue_other _ _ _ _ _ (hm_new p hp)) p hp
        · simp only [List.mem_singleton] at hp
          subst hp
          obtain ⟨e0, he0, hid, _⟩ := hl (m, i) (List.mem_cons_self ..)
          refine ⟨⟨i, ⟨n, v, prs⟩⟩, ?_, rfl, rfl⟩
          show _ ∈ sliceOf (eSetValue a.rt m i ⟨n, v, prs⟩ m)
          rw [eSetValue_self]
          exact List.mem_map.mpr ⟨e0, he0, by simp at hid; simp [hid]⟩
      · intro p hp q hq
        rcases List.mem_append.mp hp with hp | hp
        · exact hdis' p hp q hq
        · simp only [List.mem_singleton] at hp
          subst hp
          exact fun e => hm_ls q hq e.symm

theorem Att_loop2 (n : Name) (v : Ver) (bm : HMethod → Option (List Route)) :
    ∀ (ms : List HMethod) (a : EAcc), AttL n a.rt a.newLinks →
      AttL n (eAddLoop2 n v bm ms a).rt (eAddLoop2 n v bm ms a).newLinks
  | [], a, h => h
  | m :: ms, a, h => by
    simp only [eAddLoop2]
    split
    · exact Att_loop2 n v bm ms a h
    · rename_i prs _
      refine Att_loop2 n v bm ms _ ?_
      intro p hp
      rcases List.mem_append.mp hp with hp | hp
      · obtain ⟨e, he, h1, h2⟩ := h p hp
        exact ⟨e, mem_addRoute_mono _ _ _ _ _ e he, h1, h2⟩
      · simp only [List.mem_singleton] at hp
        subst hp
        refine ⟨⟨a.next, ⟨n, v, prs⟩⟩, ?_, rfl, rfl⟩
        show _ ∈ sliceOf (eAddRoute a.rt m a.next ⟨n, v, prs⟩ m)
        rw [eAddRoute_self]
        simp

/-! ### the invariant -/

structure EInv (st : EState) (ps : PatState) : Prop where
  er : st.erase = ps
  att : ∀ n, AttL n st.routes (sliceOf (st.links n))
  good : Good st.routes st.next

theorem EInv_init : EInv EState.init PatState.init := by
  refine ⟨rfl, ?_, ?_⟩
  · intro n p hp; simp [EState.init, sliceOf] at hp
  · intro m; simp [EState.init, sliceOf]

theorem inj_of_nodup_map {α β : Type} (f : α → β) : ∀ (l : List α), (l.map f).Nodup → ∀ a ∈ l, ∀ b ∈ l, f a = f b → a = b
  | [], _, a, ha, _, _, _ => by cases ha
  | x :: xs, h, a, ha, b, hb, e => by
    have h' : f x ∉ xs.map f ∧ (xs.map f).Nodup := by simpa only [List.map_cons, List.nodup_cons] using h
    rcases List.mem_cons.mp ha with ha | ha <;> rcases List.mem_cons.mp hb with hb | hb
    · rw [ha, hb]
    · exact absurd (show f x ∈ xs.map f from List.mem_map.mpr ⟨b, hb, by rw [← e, ha]⟩) h'.1
    · exact absurd (show f x ∈ xs.map f from List.mem_map.mpr ⟨a, ha, by rw [e, hb]⟩) h'.1
    · exact inj_of_nodup_map f xs h'.2 a ha b hb e

/-- attached + unique ids + unique names per list ⇒ the link's id identifies exactly the target's element -/
theorem AllTied_of {st : EState} {ps : PatState} (h : EInv st ps) (hu : UInv ps) : AllTied st := by
  intro n p hp e he
  obtain ⟨e0, he0, hid, hname⟩ := h.att n p hp
  have hnames : ((sliceOf (st.routes p.1)).map (fun e => e.val.name)).Nodup := by
    have := hu p.1
    rw [← h.er] at this
    simp only [EState.erase, groupsOf, eCommit] at this
    cases hr : st.routes p.1 with
    | none => simp [sliceOf]
    | some l => simpa [hr, sliceOf, List.map_map, Function.comp_def] using this
  constructor
  · intro hi
    have : e = e0 := inj_of_nodup_map Elem.id _ (h.good p.1).1 e he e0 he0 (by rw [hi, hid])
    rw [this]; exact hname
  · intro hn
    have : e = e0 := inj_of_nodup_map (fun e => e.val.name) _ hnames e he e0 he0 (show e.val.name = e0.val.name by rw [hn, hname])
    rw [this]; exact hid

theorem addTarget_routes (st : EState) (n : Name) (v : Ver) (bm : HMethod → Option (List Route)) (keys : List HMethod) :
    (st.addTarget n v bm keys).routes =
      (eAddLoop2 n v bm (eAddLoop1 n v bm (sliceOf (st.links n)) ⟨st.routes, st.fault, [], keys, st.next⟩).rem
        (eAddLoop1 n v bm (sliceOf (st.links n)) ⟨st.routes, st.fault, [], keys, st.next⟩)).rt := rfl

theorem EInv_addTarget {st : EState} {ps : PatState} (h : EInv st ps) (hu : UInv ps)
    (hnd : ∀ n, (sliceOf (ps.links n)).Nodup) (n : Name) (v : Ver) (bm : HMethod → Option (List Route)) (keys : List HMethod) :
    (∀ n', AttL n' (st.addTarget n v bm keys).routes (sliceOf ((st.addTarget n v bm keys).links n'))) ∧
    Good (st.addTarget n v bm keys).routes (st.addTarget n v bm keys).next := by
  have ht := AllTied_of h hu
  let a0 : EAcc := ⟨st.routes, st.fault, [], keys, st.next⟩
  let a1 := eAddLoop1 n v bm (sliceOf (st.links n)) a0
  let a2 := eAddLoop2 n v bm a1.rem a1
  have hr : (st.addTarget n v bm keys).routes = a2.rt := rfl
  have hl : (st.addTarget n v bm keys).links = upd st.links n (some a2.newLinks) := rfl
  have hnx : (st.addTarget n v bm keys).next = a2.next := rfl
  have hnd' : ((sliceOf (st.links n)).map Prod.fst).Nodup := by
    have := hnd n
    rw [← h.er] at this
    simpa [EState.erase, sliceOf_map_fst] using this
  have hk : EKeeps n st.routes a2.rt :=
    (EKeeps_loop1 n v bm (sliceOf (st.links n)) a0 (ht n)).trans (EKeeps_loop2 n v bm a1.rem a1)
  have hatt1 : AttL n a1.rt a1.newLinks :=
    Att_loop1 n v bm (sliceOf (st.links n)) a0 (ht n) (h.att n) (fun p hp => by cases hp) hnd'
      (fun p hp => by cases hp)
  have hatt2 : AttL n a2.rt a2.newLinks := Att_loop2 n v bm a1.rem a1 hatt1
  have hn1 : a1.next = st.next := (eAddLoop1_sim n v bm (sliceOf (st.links n)) a0 (ht n)).2
  have hg1 : Good a1.rt a1.next := by rw [hn1]; exact Good_loop1 n v bm st.next _ a0 h.good
  have hg2 : Good a2.rt a2.next := Good_loop2 n v bm a1.rem a1 hg1
  refine ⟨?_, by rw [hr, hnx]; exact hg2⟩
  intro n'
  rw [hr, hl]
  by_cases c : n' = n
  · subst c
    simp only [upd, if_true, sliceOf]
    exact hatt2
  · simp only [upd, c, if_false]
    intro p hp
    obtain ⟨e, he, h1, h2⟩ := h.att n' p hp
    exact ⟨e, hk p.1 e (by rw [h2]; exact c) he, h1, h2⟩

theorem EInv_removeTarget {st : EState} {ps : PatState} (h : EInv st ps) (hu : UInv ps) (n : Name) :
    (∀ n', AttL n' (st.removeTarget n).routes (sliceOf ((st.removeTarget n).links n'))) ∧
    Good (st.removeTarget n).routes (st.removeTarget n).next := by
  have ht := AllTied_of h hu
  have hr : (st.removeTarget n).routes = (eRemLoop (sliceOf (st.links n)) (st.routes, st.fault)).1 := rfl
  have hl : (st.removeTarget n).links = upd st.links n none := rfl
  have hnx : (st.removeTarget n).next = st.next := rfl
  have hk := EKeeps_remLoop n (sliceOf (st.links n)) (st.routes, st.fault) (ht n)
  refine ⟨?_, by rw [hr, hnx]; exact Good_remLoop st.next _ (st.routes, st.fault) h.good⟩
  intro n'
  rw [hr, hl]
  by_cases c : n' = n
  · subst c
    intro p hp
    simp [upd, sliceOf] at hp
  · simp only [upd, c, if_false]
    intro p hp
    obtain ⟨e, he, h1, h2⟩ := h.att n' p hp
    exact ⟨e, hk p.1 e (by rw [h2]; exact c) he, h1, h2⟩

theorem EInv_step (valid : Bytes → Bool) {st : EState} {ps : PatState} (h : EInv st ps) (hu : UInv ps)
    (hnd : ∀ n, (sliceOf (ps.links n)).Nodup) (op : Op) :
    EInv (st.step valid op).1 (ps.step valid op).1 := by
  have ht := AllTied_of h hu
  have her : ((st.step valid op).1).erase = (ps.step valid op).1 := by
    rw [← h.er]; exact (step_sim valid st op ht).1
  cases op with
  | watch n =>
    refine ⟨her, ?_, ?_⟩ <;>
    · simp only [EState.step]
      split
      · first | exact h.att | exact h.good
      · first | exact h.att | exact h.good
  | update n d =>
    refine ⟨her, ?_, ?_⟩ <;>
    · simp only [EState.step]
      split
      · first | exact h.att | exact h.good
      · split
        · first | exact h.att | exact h.good
        · first
          | exact (EInv_addTarget h hu hnd d.name d.ver (built valid d) (builtKeys valid d)).1
          | exact (EInv_addTarget h hu hnd d.name d.ver (built valid d) (builtKeys valid d)).2
  | close n =>
    refine ⟨her, ?_, ?_⟩ <;>
    · simp only [EState.step]
      split
      · first | exact h.att | exact h.good
      · first
        | exact (EInv_removeTarget h hu n).1
        | exact (EInv_removeTarget h hu n).2

theorem EInv_run_from (valid : Bytes → Bool) : ∀ (h : List Op) (st : EState) (ps : PatState) (l : Latest),
    EInv st ps → PInv valid ps l → UInv ps → EInv (st.run valid h) (ps.run valid h)
  | [], _, _, _, hi, _, _ => hi
  | op :: ops, st, ps, l, hi, hp, hu =>
    EInv_run_from valid ops (st.step valid op).1 (ps.step valid op).1 (l.step op)
      (EInv_step valid hi hu hp.linksNodup op) (PInv_step hp op) (UInv_step hp hu op)

/-- the invariant after every history -/
theorem EInv_run (valid : Bytes → Bool) (h : List Op) :
    EInv (EState.init.run valid h) (PatState.init.run valid h) :=
  EInv_run_from valid h _ _ _ EInv_init (PInv_init valid) UInv_init

end GB.C06
