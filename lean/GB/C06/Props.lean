import GB.C06.Spec
/- C06 — property theorems (being built). -/
open GB GB.C06

theorem C06_placeholder : SvcState.init.routes [] = none := rfl
