import GB.C06.Proofs
import GB.C06.ProofsSvc
import GB.C06.Compose
import GB.C06.ProofsElem
import GB.C06.ProofsElemInv
import GB.Generated.Facts
/-
  C06 — property theorems.  `PatState` / `SvcState` are the executable models of
  routing/pattern_router.go and routing/service_router.go (GB/C06/Model.lean; the gbdriver runs the
  very same definitions against the real routers after every step of every generated history).
  `latestOf h` is the specification state: for every target still watched after the history `h`,
  the most recent description delivered for it.  All theorems quantify over ALL finite histories
  (and all `valid`/`eval`, the opaque template validity and per-route match outcome).
-/
set_option linter.unusedSimpArgs false
set_option linter.unusedVariables false
open GB GB.C06

/-- Invariant bundle, pattern side: after any history the mutable table, the back-links and the
    committed snapshot are exactly the latest descriptions of the watched targets. -/
theorem C06_pattern_invariant (valid : Bytes → Bool) (h : List Op) :
    PInv valid (PatState.init.run valid h) (latestOf h) :=
  PInv_run (PInv_init valid) h

/-- Invariant bundle, service side (after fix D31): the entries of every service — owner first, then the waiting
    claims — are the live listers of that service in claim order (`claimsOf h`), each pointing into its own latest
    description; the owned-service lists agree with the routing map. -/
theorem C06_service_invariant (h : List Op) : RInv (SvcState.init.run h) (latestOf h) (claimsOf h) :=
  RInv_history h

/-- **Pattern lookups = lookups on the table built from the latest descriptions** (for requests not
    contested between targets), including the target version and the index path of the returned
    service/method/binding.  `names` is any enumeration order that covers the watched targets. -/
theorem C06_pattern (valid : Bytes → Bool) (pool : Name → Bool) (eval : Bytes → Route → Outcome)
    (h : List Op) (names : List Name) (m : HMethod) (path : Bytes)
    (hnames : ∀ n, (latestOf h).watched n = true → n ∈ names)
    (hu : Uncontested valid (eval path) (latestOf h) m) :
    routeHTTP pool eval (PatState.init.run valid h).static m path =
      routeHTTP pool eval (specTable valid (latestOf h) names) m path := by
  have inv := C06_pattern_invariant valid h
  have key : firstDecisive (eval path) (groupsOf (PatState.init.run valid h).static m) =
      firstDecisive (eval path) (groupsOf (specTable valid (latestOf h) names) m) := by
    rw [inv.committed, groupsOf_specTable]
    apply firstDecisive_same_members
    · intro g
      constructor
      · intro hg
        have hs := inv.sound _ _ hg
        exact List.mem_filterMap.mpr ⟨g.name, hnames _ (specGroup_watched hs), hs⟩
      · intro hg
        obtain ⟨n, _, hs⟩ := List.mem_filterMap.mp hg
        exact inv.complete _ _ _ hs
    · intro g g' hg hg' hd hd'
      have hs := inv.sound _ _ hg
      have hs' := inv.sound _ _ hg'
      have hn := hu _ _ _ _ hs hs' ((decisive_iff _ _).mpr hd) ((decisive_iff _ _).mpr hd')
      rw [hn] at hs; rw [hs] at hs'; exact Option.some.inj hs'
  unfold routeHTTP
  rw [key]

/-- Whatever a pattern lookup returns — contested or not — is a route of the **latest** description of
    a target that is still watched: nothing of a closed target, of a superseded description or of a
    dropped HTTP method/binding can be returned. -/
theorem C06_pattern_latest (valid : Bytes → Bool) (pool : Name → Bool) (eval : Bytes → Route → Outcome)
    (h : List Op) (m : HMethod) (path : Bytes) (n : Name) (v : Ver) (r : Route)
    (hf : routeHTTP pool eval (PatState.init.run valid h).static m path = .found n v r) :
    ∃ d, (latestOf h).desc n = some d ∧ d.ver = v ∧ (latestOf h).watched n = true ∧
      ∃ rs, built valid d m = some rs ∧ r ∈ rs ∧ eval path r = .hit := by
  have inv := C06_pattern_invariant valid h
  unfold routeHTTP at hf
  split at hf
  · split at hf
    · cases hf
    · rename_i g r' hfd
      split at hf
      · simp only [HTTPRes.found.injEq] at hf
        obtain ⟨h1, h2, h3⟩ := hf
        obtain ⟨hg, hr, ho, _⟩ := firstDecisive_some hfd
        rw [inv.committed] at hg
        have hs := inv.sound _ _ hg
        obtain ⟨d, hd, rs, hb, hge⟩ := specGroup_some hs
        subst h3
        refine ⟨d, ?_, ?_, ?_, rs, hb, ?_, ho.symm⟩
        · rw [← h1]; exact hd
        · rw [← h2, hge]
        · rw [← h1]; exact desc_some_watched _ _ d hd
        · rw [hge] at hr; exact hr
      · cases hf
    · cases hf
    · cases hf
  · cases hf

/-- **Service lookups, for ALL histories — contested services included** (fix D31).  The claimants of a service
    (`claimsOf h svc`) are exactly the still-watched targets whose latest description lists it, without
    repetition, ordered by the start of their current uninterrupted claim (`C06_claim_order`).  The routing map
    holds the FIRST of them, pointing into ITS latest description (version and index of the service); the router's
    waiting list holds the others, in claim order, each with its latest description.  No `NeverShared` hypothesis. -/
theorem C06_service_owner (h : List Op) (svc : SvcName) :
    ((SvcState.init.run h).routes svc = match claimsOf h svc with
      | [] => none
      | n :: _ => specSvcRoute (latestOf h) n svc) ∧
    (SvcState.init.run h).routes svc = specOwner (latestOf h) (claimsOf h) svc ∧
    (SvcState.init.run h).waiting svc = (specEntries (latestOf h) (claimsOf h) svc).tail ∧
    (∀ n, n ∈ claimsOf h svc ↔ Lists (latestOf h) n svc) ∧ (claimsOf h svc).Nodup := by
  have inv := C06_service_invariant h
  exact ⟨inv.owner_head svc, (inv.routes_eq svc).1, (inv.routes_eq svc).2, inv.claims svc, inv.cNodup svc⟩

/-- **Claim order** (the specification's queue, declaratively): a delivered description that lists the service
    keeps a claimant's place and puts a NEW claimant at the back; one that does not list it removes the target (so
    a target that drops the service and lists it again later goes to the back); Close removes the target; ignored
    calls and Watch change nothing. -/
theorem C06_claim_order (h : List Op) (svc : SvcName) (n : Name) (d : Desc) :
    claimsOf [] svc = [] ∧
    claimsOf (h ++ [.watch n]) svc = claimsOf h svc ∧
    claimsOf (h ++ [.close n]) svc = (claimsOf h svc).filter (fun m => decide (m ≠ n)) ∧
    ((latestOf h).watched n = true → d.name = n → listed d.services svc →
      claimsOf (h ++ [.update n d]) svc = if n ∈ claimsOf h svc then claimsOf h svc else claimsOf h svc ++ [n]) ∧
    ((latestOf h).watched n = true → d.name = n → ¬ listed d.services svc →
      claimsOf (h ++ [.update n d]) svc = (claimsOf h svc).filter (fun m => decide (m ≠ n))) ∧
    (¬ ((latestOf h).watched n = true ∧ d.name = n) → claimsOf (h ++ [.update n d]) svc = claimsOf h svc) := by
  refine ⟨rfl, ?_, ?_, ?_, ?_, ?_⟩
  · rw [claimsOf_snoc]; rfl
  · rw [claimsOf_snoc]; rfl
  · intro hw hd hl
    rw [claimsOf_snoc]
    simp [Claims.step, hw, hd, (listedB_iff _ _).mpr hl]
  · intro hw hd hl
    rw [claimsOf_snoc]
    simp [Claims.step, hw, hd, (listedB_false _ _).mpr hl]
  · intro hv
    rw [claimsOf_snoc]
    simp [Claims.step, hv]

/-- Corollary: a service listed by exactly ONE live target now — whatever happened earlier, contested or not —
    is routed to that target with its latest description. -/
theorem C06_service_unique_lister (h : List Op) (svc : SvcName) (n : Name)
    (hl : Lists (latestOf h) n svc) (hu : ∀ m, Lists (latestOf h) m svc → m = n) :
    (SvcState.init.run h).routes svc = specSvcRoute (latestOf h) n svc := by
  have inv := C06_service_invariant h
  rw [inv.owner_head svc, inv.claims_unique svc n hl hu]

/-- Corollary (the statement of the earlier rounds): a service never listed by two live targets at once is routed
    to its one live lister, pointing into that target's latest description. -/
theorem C06_service (h : List Op) (svc : SvcName) (hs : NeverShared svc Latest.init h)
    (n : Name) (hl : Lists (latestOf h) n svc) :
    (SvcState.init.run h).routes svc = specSvcRoute (latestOf h) n svc :=
  C06_service_unique_lister h svc n hl
    (fun m hm => NeverShared_last svc h Latest.init hs m n hm hl)

/-- A service no live target lists (dropped by an update, or its owner closed) is not routed — always. -/
theorem C06_service_gone (h : List Op) (svc : SvcName) (hn : ∀ n, ¬ Lists (latestOf h) n svc) :
    (SvcState.init.run h).routes svc = none := by
  have inv := C06_service_invariant h
  rw [inv.owner_head svc, inv.claims_empty svc hn]

/-- … and conversely a service SOME live target lists is always routed (this is what failed before fix D31 after
    the owner of a contested service released it). -/
theorem C06_service_routed (h : List Op) (svc : SvcName) (n : Name) (hl : Lists (latestOf h) n svc) :
    ∃ r, (SvcState.init.run h).routes svc = some r ∧ Lists (latestOf h) r.target svc := by
  have inv := C06_service_invariant h
  have hmem := (inv.claims svc n).mpr hl
  rw [inv.owner_head svc]
  cases hc : claimsOf h svc with
  | nil => rw [hc] at hmem; cases hmem
  | cons a as =>
    have ha : a ∈ claimsOf h svc := by rw [hc]; simp
    obtain ⟨r, hr, hrt⟩ := inv.entry_of_claim svc a ha
    exact ⟨r, hr, by rw [hrt]; exact (inv.claims svc a).mp ha⟩

/-- Whoever owns a service — contested or not — is watched, lists it in its latest description, and the
    stored pointers are into that latest description. -/
theorem C06_service_latest (h : List Op) (svc : SvcName) (r : SvcRoute)
    (hr : (SvcState.init.run h).routes svc = some r) :
    specSvcRoute (latestOf h) r.target svc = some r ∧ Lists (latestOf h) r.target svc ∧
      (latestOf h).watched r.target = true := by
  have inv := C06_service_invariant h
  rw [inv.owner_head svc] at hr
  cases hc : claimsOf h svc with
  | nil => rw [hc] at hr; cases hr
  | cons a as =>
    rw [hc] at hr
    simp only at hr
    obtain ⟨d, hd, j, hj, hre⟩ := specSvcRoute_some hr
    have hrt : r.target = a := by rw [hre]
    rw [hrt]
    exact ⟨hr, specSvcRoute_lists hr, desc_some_watched _ _ d hd⟩

/-- **Isolation, pattern side**: an operation on target `n` leaves, in the list of every HTTP method, the
    elements of all other targets untouched — content, version and relative order. -/
theorem C06_isolation_pattern (valid : Bytes → Bool) (h : List Op) (op : Op) (m : HMethod) :
    othersOf op.target ((PatState.init.run valid h).step valid op).1.static m =
      othersOf op.target (PatState.init.run valid h).static m := by
  have inv := C06_pattern_invariant valid h
  have inv' := PInv_step inv op
  unfold othersOf
  rw [inv.committed, inv'.committed]
  exact othersOf_step valid _ op m

/-- **Isolation, service side**: an operation on target `n` does not change the route of a service owned
    by another target. -/
theorem C06_isolation_service (h : List Op) (op : Op) (svc : SvcName) (r : SvcRoute)
    (hr : (SvcState.init.run h).routes svc = some r) (hne : r.target ≠ op.target) :
    ((SvcState.init.run h).step op).1.routes svc = some r := by
  have inv := (C06_service_invariant h).winv
  cases op with
  | watch n => simp only [SvcState.step]; split <;> exact hr
  | update n d =>
    simp only [SvcState.step]
    split
    · exact hr
    · split
      · exact hr
      · rename_i hd
        have hd' : d.name = n := by simpa using hd
        have hne' : r.target ≠ d.name := by rw [hd']; exact hne
        obtain ⟨_, _, _, _, k5, k6⟩ := update_key inv d svc
        by_cases hl : listed d.services svc
        · obtain ⟨_, _, h1, _⟩ := k5 r hr hne' hl; exact h1
        · exact (k6 r hr hne' hl).1
  | close n =>
    simp only [SvcState.step]
    split
    · exact hr
    · obtain ⟨_, _, k3⟩ := remove_key inv n svc
      exact (k3 r hr hne).1

/-- **Watch discipline**: on both routers `Watch(n)` succeeds iff `n` is not currently watched … -/
theorem C06_watch (valid : Bytes → Bool) (h : List Op) (n : Name) :
    ((PatState.init.run valid h).step valid (.watch n)).2 = (if (latestOf h).watched n then OpRes.already else OpRes.ok) ∧
    ((SvcState.init.run h).step (.watch n)).2 = (if (latestOf h).watched n then OpRes.already else OpRes.ok) := by
  have ip := (C06_pattern_invariant valid h).watch n
  have is := (C06_service_invariant h).watch n
  constructor
  · simp only [PatState.step, ip]; split <;> rfl
  · simp only [SvcState.step, is]; split <;> rfl

/-- … where "currently watched" means: watched by the last `watch`/`close` of that name —
    a close makes the name watchable again, a successful watch makes it unwatchable, other names and
    updates do not matter. -/
theorem C06_watched_spec (h : List Op) (n m : Name) (d : Desc) :
    (latestOf ([] : List Op)).watched m = false ∧
    (latestOf (h ++ [.watch n])).watched m = ((latestOf h).watched m || decide (m = n)) ∧
    (latestOf (h ++ [.close n])).watched m = ((latestOf h).watched m && !decide (m = n)) ∧
    (latestOf (h ++ [.update n d])).watched m = (latestOf h).watched m := by
  refine ⟨rfl, ?_, ?_, ?_⟩
  · rw [latestOf_snoc, watched_watch]
  · rw [latestOf_snoc, watched_close]
  · rw [latestOf_snoc, watched_update]

/-- In particular: after `close n` a new `Watch(n)` succeeds, after a `watch n` a second one fails. -/
theorem C06_rewatch (valid : Bytes → Bool) (h : List Op) (n : Name) :
    ((PatState.init.run valid (h ++ [.close n])).step valid (.watch n)).2 = .ok ∧
    ((SvcState.init.run (h ++ [.close n])).step (.watch n)).2 = .ok ∧
    ((PatState.init.run valid (h ++ [.watch n])).step valid (.watch n)).2 = .already ∧
    ((SvcState.init.run (h ++ [.watch n])).step (.watch n)).2 = .already := by
  have c := C06_watch valid (h ++ [.close n]) n
  have w := C06_watch valid (h ++ [.watch n]) n
  have hc : (latestOf (h ++ [.close n])).watched n = false := by
    rw [latestOf_snoc, watched_close]; simp
  have hw : (latestOf (h ++ [.watch n])).watched n = true := by
    rw [latestOf_snoc, watched_watch]; simp
  rw [hc] at c; rw [hw] at w
  exact ⟨c.1, c.2, w.1, w.2⟩

/-- The nil dereference `removeRoute` would perform on a method without a list never happens, and the
    committed snapshot always equals the mutable table (sequentially). -/
theorem C06_no_fault (valid : Bytes → Bool) (h : List Op) :
    (PatState.init.run valid h).fault = false ∧
    (PatState.init.run valid h).static = (PatState.init.run valid h).routes :=
  ⟨(C06_pattern_invariant valid h).noFault, (C06_pattern_invariant valid h).committed⟩

/-- Each target has at most one element in the list of each HTTP method, and its back-links are exactly
    the methods where it has one, without duplicates — so "the element a `targetLinks` entry points to"
    is well defined by (method, target name), the way the model identifies `*list.Element`s. -/
theorem C06_elements_unique (valid : Bytes → Bool) (h : List Op) (m : HMethod) (n : Name) :
    (((groupsOf (PatState.init.run valid h).routes m).map (·.name)).Nodup) ∧
    (sliceOf ((PatState.init.run valid h).links n)).Nodup ∧
    (m ∈ sliceOf ((PatState.init.run valid h).links n) ↔
      ∃ g ∈ groupsOf (PatState.init.run valid h).routes m, g.name = n) := by
  have inv := C06_pattern_invariant valid h
  refine ⟨UInv_run h (PInv_init valid) UInv_init m, inv.linksNodup n, ?_⟩
  rw [inv.links n m]
  constructor
  · intro hs
    cases hg : specGroup valid (latestOf h) m n with
    | none => simp [hg] at hs
    | some g => exact ⟨g, inv.complete _ _ _ hg, specGroup_name hg⟩
  · rintro ⟨g, hg, hn⟩
    have := inv.sound _ _ hg
    rw [hn] at this
    simp [this]

/-! ### D6: what was wrong before the fix (kernel-checked witness on explicit data) -/

/-- descriptions v1 and v2 of target "a", both listing service "S" -/
def d6v1 : Desc := ⟨[97], 1, [⟨[83], []⟩]⟩
def d6v2 : Desc := ⟨[97], 2, [⟨[83], [⟨[47, 83, 47, 77], []⟩]⟩]⟩

/-- Before fix D6 (`updateRoutesPreFix`: no Store on the same-owner branch) the route of "S" still points
    into description v1 after v2 was delivered … -/
theorem C06_service_stale_before_fix :
    (updateRoutesPreFix (updateRoutesPreFix SvcState.init d6v1) d6v2).routes [83] = some ⟨[97], 1, 0⟩ := by
  decide

/-- … whereas the fixed code (the model the theorems above are about) points into v2. -/
theorem C06_service_fresh_after_fix :
    (SvcState.init.run [.watch [97], .update [97] d6v1, .update [97] d6v2]).routes [83] = some ⟨[97], 2, 0⟩ := by
  decide

/-! ### non-vacuity -/

/-- `C06_service` applies to the D6 history: "S" is never shared and "a" lists it. -/
example : NeverShared [83] Latest.init [.watch [97], .update [97] d6v1, .update [97] d6v2] ∧
    Lists (latestOf [.watch [97], .update [97] d6v1, .update [97] d6v2]) [97] [83] := by
  have hd : (latestOf [.watch [97], .update [97] d6v1, .update [97] d6v2]).desc [97] = some d6v2 := by decide
  refine ⟨?_, ⟨d6v2, hd, ⟨[83], [⟨[47, 83, 47, 77], []⟩]⟩, by simp [d6v2], rfl⟩⟩
  have uns : ∀ (l : Latest), (∀ n, n ≠ [97] → l.desc n = none) → ∀ n n', Lists l n [83] → Lists l n' [83] → n = n' := by
    intro l hl n n' ⟨d, hd, _⟩ ⟨d', hd', _⟩
    have h1 : n = [97] := Classical.byContradiction fun hn => by rw [hl n hn] at hd; cases hd
    have h2 : n' = [97] := Classical.byContradiction fun hn => by rw [hl n' hn] at hd'; cases hd'
    rw [h1, h2]
  refine ⟨uns _ ?_, uns _ ?_, uns _ ?_, uns _ ?_⟩ <;>
    (intro n hn; simp [Latest.step, Latest.init, Latest.desc, upd, hn, d6v1, d6v2])

/-- a request is uncontested as soon as only one target is watched -/
example (valid : Bytes → Bool) (ev : Route → Outcome) (m : HMethod) (d : Desc) :
    Uncontested valid ev (latestOf [.watch [97], .update [97] d]) m := by
  intro n n' g g' hs hs' _ _
  have hw := specGroup_watched hs
  have hw' := specGroup_watched hs'
  have key : ∀ x, (latestOf [.watch [97], .update [97] d]).watched x = true → x = [97] := by
    intro x hx
    simp only [latestOf, List.foldl, watched_update, watched_watch] at hx
    simpa [Latest.watched, Latest.init] using hx
  rw [key n hw, key n' hw']


/-! ## Composition with C03: the real matcher instead of the opaque parameters

  `validC parse` = `routing.buildPattern` succeeds (gwbased.Parse, `Compile`, `runtime.NewPattern` as C03 models
  them), `evalC parse` = the closure of `RouteHTTP` (`C03.stepRoute` running `C03.matchAndEscape` on the compiled
  pattern), `routeHTTPm` = C06's table lookup with these, returning the captures.  `parse` is gwbased.Parse
  (C20); `ParserOk` states what is used of it.  `tableOfGroups` flattens a per-method list into a C03 `Table`
  whose ids are (target name, description version, index path of service/method/binding). -/

/-- **The committed snapshot is the table of the latest descriptions**: for every HTTP method the committed list
    consists, in its own target order `orderOf`, of exactly one element per live target whose LATEST
    description has an accepted binding for that method, holding that description's routes in description order. -/
theorem C06_snapshot_is_latest (valid : Bytes → Bool) (h : List Op) (m : HMethod) :
    groupsOf (PatState.init.run valid h).static m =
      (orderOf (PatState.init.run valid h) m).filterMap (specGroup valid (latestOf h) m) ∧
    (orderOf (PatState.init.run valid h) m).Nodup ∧
    ∀ n, n ∈ orderOf (PatState.init.run valid h) m ↔
      ∃ d rs, (latestOf h).desc n = some d ∧ built valid d m = some rs := by
  have inv := C06_pattern_invariant valid h
  refine ⟨snapshot_eq_spec inv m, ?_, ?_⟩
  · unfold orderOf; rw [inv.committed]; exact UInv_run h (PInv_init valid) UInv_init m
  · intro n
    rw [mem_order_iff_linked inv, inv.links n m]
    constructor
    · intro hs
      cases hg : specGroup valid (latestOf h) m n with
      | none => simp [hg] at hs
      | some g => obtain ⟨d, hd, rs, hb, _⟩ := specGroup_some hg; exact ⟨d, rs, hd, hb⟩
    · rintro ⟨d, rs, hd, hb⟩
      simp [specGroup, hd, hb]

/-- **Table order**: where a target stands in the list of an HTTP method.  A delivered description keeps the
    target's place if it had and still has an accepted binding for the method, removes it if it has none any
    more, and appends it at the END if it newly has one; Close removes it; nothing else moves anything.
    (So targets are ordered by when they last *acquired* the method; bindings inside a target are in
    description order by `built`.) -/
theorem C06_table_order (valid : Bytes → Bool) (h : List Op) (m : HMethod) :
    let st := PatState.init.run valid h
    (∀ d, (latestOf h).watched d.name = true →
      orderOf (PatState.init.run valid (h ++ [.update d.name d])) m =
        if d.name ∈ orderOf st m then
          (if (built valid d m).isSome then orderOf st m else (orderOf st m).filter (fun x => decide (x ≠ d.name)))
        else (if (built valid d m).isSome then orderOf st m ++ [d.name] else orderOf st m)) ∧
    (∀ n, (latestOf h).watched n = true →
      orderOf (PatState.init.run valid (h ++ [.close n])) m = (orderOf st m).filter (fun x => decide (x ≠ n))) ∧
    (∀ n, orderOf (PatState.init.run valid (h ++ [.watch n])) m = orderOf st m) ∧
    (∀ n d, ¬ ((latestOf h).watched n = true ∧ d.name = n) →
      orderOf (PatState.init.run valid (h ++ [.update n d])) m = orderOf st m) ∧
    (∀ n, (latestOf h).watched n = false →
      orderOf (PatState.init.run valid (h ++ [.close n])) m = orderOf st m) := by
  have inv := C06_pattern_invariant valid h
  refine ⟨?_, ?_, ?_, ?_, ?_⟩
  · intro d hw
    rw [run_snoc_pat]
    exact order_update inv d (by rw [inv.watch]; exact hw) m
  · intro n hw
    rw [run_snoc_pat]
    exact order_close inv n (by rw [inv.watch]; exact hw) m
  · intro n
    rw [run_snoc_pat]
    exact order_noop _ (.watch n) trivial m
  · intro n d hn
    rw [run_snoc_pat]
    exact order_noop _ (.update n d) (by show ¬ _; rw [inv.watch]; exact hn) m
  · intro n hw
    rw [run_snoc_pat]
    exact order_noop _ (.close n) (by show _ = false; rw [inv.watch]; exact hw) m

/-- **End to end, with the real matcher**: after ANY history of watch/update/close, `RouteHTTP` on the committed
    snapshot returns route `r` (service/method/binding index path) of target `n`, description version `v`, with
    captures `c` **iff** the pool has a connection for `n` and `(n, v, r)` is the FIRST entry — targets in table
    order (`C06_table_order`), bindings in description order — of the table built from the LATEST descriptions
    of the live targets whose template matches the raw path segments per C03's declarative `PathMatches`,
    capturing `c` (decoded once).  Combines `C06_pattern_invariant` with C03's `iterTbl_found_iff`
    (`C03_route_iff`) and compiler correctness (`matchAndEscape_compile`, `C03_compiled_matcher`). -/
theorem C06_pattern_with_matcher (parse : Bytes → Option C03.Tmpl) (hp : ParserOk parse) (pool : Name → Bool)
    (h : List Op) (m : HMethod) (p : Bytes) (n : Name) (v : Ver) (r : Route) (c : C03.Captures) :
    routeHTTPm parse pool (PatState.init.run (validC parse) h).static m (47 :: p) = .found n v r c ↔
      pool n = true ∧
      C03.FirstMatch
        (tableOfGroups parse m
          ((orderOf (PatState.init.run (validC parse) h) m).filterMap (specGroup (validC parse) (latestOf h) m)))
        m (C03.splitSlash p) (n, v, r) c := by
  have inv := C06_pattern_invariant (validC parse) h
  rw [← snapshot_eq_spec inv m]
  exact routeHTTPm_found_iff hp pool _ m p (PInv_good hp inv m) n v r c

/-- what the entries of that table are: one per accepted binding of HTTP method `m` of the latest description of
    a listed target, carrying its parsed template -/
theorem C06_matcher_table_entries (parse : Bytes → Option C03.Tmpl) (l : Latest) (order : List Name) (m : HMethod)
    (e : RId × Bytes × C03.Tmpl) :
    e ∈ tableOfGroups parse m (order.filterMap (specGroup (validC parse) l m)) ↔
      ∃ n d r t, n ∈ order ∧ l.desc n = some d ∧ r ∈ allRoutes (validC parse) d ∧ r.httpMethod = m ∧
        parse r.pattern = some t ∧ e = ((n, d.ver, r), m, t) := by
  simp only [tableOfGroups, List.mem_flatMap, List.mem_filterMap, entriesOf]
  constructor
  · rintro ⟨g, ⟨n, hn, hg⟩, r, hr, he⟩
    obtain ⟨d, hd, rs, hb, hge⟩ := specGroup_some hg
    subst hge
    simp only at hr he
    rw [built_some hb] at hr
    obtain ⟨hr1, hr2⟩ := List.mem_filter.mp hr
    cases ht : parse r.pattern with
    | none => simp [ht] at he
    | some t =>
      simp only [ht, Option.map_some, Option.some.injEq] at he
      exact ⟨n, d, r, t, hn, hd, hr1, by simpa using hr2, ht, he.symm⟩
  · rintro ⟨n, d, r, t, hn, hd, hr, hm, ht, rfl⟩
    have hmem : r ∈ (allRoutes (validC parse) d).filter (fun r => decide (r.httpMethod = m)) :=
      List.mem_filter.mpr ⟨hr, by simpa using hm⟩
    cases hf : (allRoutes (validC parse) d).filter (fun r => decide (r.httpMethod = m)) with
    | nil => rw [hf] at hmem; cases hmem
    | cons a as =>
      have hb : built (validC parse) d m = some (a :: as) := by simp [built, hf]
      refine ⟨⟨n, d.ver, a :: as⟩, ⟨n, hn, by simp [specGroup, hd, hb]⟩, r, by rw [← hf]; exact hmem, by simp [ht]⟩

/-- the error side: Unavailable iff the first match's target has no pooled connection, InvalidArgument only for a
    malformed percent-escape in some raw segment, NotFound iff no accepted binding of a live target's latest
    description matches. -/
theorem C06_pattern_with_matcher_status (parse : Bytes → Option C03.Tmpl) (hp : ParserOk parse) (pool : Name → Bool)
    (h : List Op) (m : HMethod) (p : Bytes) (code : Nat)
    (hs : routeHTTPm parse pool (PatState.init.run (validC parse) h).static m (47 :: p) = .status code) :
    let tbl := tableOfGroups parse m
      ((orderOf (PatState.init.run (validC parse) h) m).filterMap (specGroup (validC parse) (latestOf h) m))
    (code = codeUnavailable ∧ ∃ n v r c, pool n = false ∧ C03.FirstMatch tbl m (C03.splitSlash p) (n, v, r) c) ∨
    (code = codeInvalidArgument ∧ ∃ s ∈ C03.splitSlash p, ¬ C03.WellEscaped s) ∨
    (code = codeNotFound ∧ ¬ ∃ i c, C03.FirstMatch tbl m (C03.splitSlash p) i c) := by
  have inv := C06_pattern_invariant (validC parse) h
  simp only
  rw [← snapshot_eq_spec inv m]
  exact routeHTTPm_status hp pool _ m p (PInv_good hp inv m) code hs

/-! non-vacuity: a parser that knows the single template `/a`, one target with `GET /a` -/
section
def toyParse (s : Bytes) : Option C03.Tmpl := if s = [47, 97] then some ⟨[.plain (.lit [97])], []⟩ else none

example : ParserOk toyParse := by
  intro s t ht
  simp only [toyParse] at ht
  split at ht
  · cases ht
    refine ⟨?_, ?_, ?_⟩
    · intro sg hsg
      simp only [List.mem_singleton] at hsg
      subst hsg
      simp [C03.Seg.ShapeOk, C03.VSeg.sym, C03.SOp.ShapeOk]
    · intro q hq
      simp only [C03.atomsOf, List.flatMap_cons, List.flatMap_nil, C03.Seg.atoms, List.append_nil,
        List.mem_singleton] at hq
      subst hq
      simp [C03.VSeg.litsOk, C03.wellEscaped_iff, C03.litText, C03.eof, C03.escapesOk]
    · simp [C03.wellEscaped_iff, C03.escapesOk]
  · cases ht

def toyDesc : Desc := ⟨[116], 1, [⟨[83], [⟨[47, 83, 47, 77], [⟨[71, 69, 84], [47, 97]⟩]⟩]⟩]⟩

example : routeHTTPm toyParse (fun _ => true)
    (PatState.init.run (validC toyParse) [.watch [116], .update [116] toyDesc]).static [71, 69, 84] [47, 97] =
      .found [116] 1 ⟨0, 0, some 0, [71, 69, 84], [47, 97]⟩ [] := by decide
end


/-! ## Element level (round 5, wave 3): `container/list` elements with their own identity

  `EState` (GB/C06/Elem.lean) models `mutablePatternRoutingTable` one level below `PatState`: a list element is the serial
  number of the `PushBack` that allocated it, a back-link (`methodPatternRoutes`) is (HTTP method, element id), and
  `removeRoute` / `link.link.Value = …` act on the element with that ID, whoever's routes it carries.  `erase` forgets
  the ids.  `Tied rt n ls` = the back-links `ls` of target `n` are *attached*: in the list of the link's method the
  element with the link's id is exactly the element carrying `n`'s routes. -/

/-- **One operation commutes with forgetting element identities**, from ANY element-level state whose back-links are
    attached — not only reachable ones: the (method, target name) identification of `PatState` loses nothing. -/
theorem C06_elem_step_refines (valid : Bytes → Bool) (st : EState) (op : Op) (ht : AllTied st) :
    ((st.step valid op).1).erase = (st.erase.step valid op).1 ∧ (st.step valid op).2 = (st.erase.step valid op).2 :=
  step_sim valid st op ht

/-- The three primitives, for all tables: through an attached link, `lst.Remove(link)` is "drop the target's element",
    `link.Value = v` is "replace the target's element in place"; `PushBack` needs no hypothesis. -/
theorem C06_elem_primitives (rt : ETable) (f : Bool) (m : HMethod) (i : Nat) (g : Group)
    (h : ∀ e ∈ sliceOf (rt m), (e.id = i ↔ e.val.name = g.name)) :
    eCommit (eRemoveRoute rt f m i).1 = (removeRoute (eCommit rt) f m g.name).1 ∧
    (eRemoveRoute rt f m i).2 = (removeRoute (eCommit rt) f m g.name).2 ∧
    eCommit (eSetValue rt m i g) = setGroup (eCommit rt) m g ∧
    (∀ j, eCommit (eAddRoute rt m j g) = addRoute (eCommit rt) m g) :=
  ⟨(eRemoveRoute_sim rt f m i g.name h).1, (eRemoveRoute_sim rt f m i g.name h).2, eSetValue_sim rt m i g h,
   fun j => eAddRoute_sim rt m j g⟩

/-- **Whole histories**: the committed snapshot of the element-level table is the snapshot of `PatState` — hence, by
    `C06_snapshot_is_latest`, per HTTP method exactly the routes of the latest description of every live target —
    provided the back-links are attached after every prefix of the history. -/
theorem C06_elem_refines_given_attached (valid : Bytes → Bool) :
    ∀ (h : List Op) (st : EState), (∀ k, AllTied (st.run valid (h.take k))) →
      (st.run valid h).erase = st.erase.run valid h
  | [], st, _ => rfl
  | op :: ops, st, hall => by
    have h0 : AllTied st := by simpa [EState.run] using hall 0
    have hs := (step_sim valid st op h0).1
    have ih := C06_elem_refines_given_attached valid ops (st.step valid op).1 (fun k => by
      have := hall (k + 1)
      simpa [EState.run, List.take_succ_cons] using this)
    show ((st.step valid op).1.run valid ops).erase = (st.erase.step valid op).1.run valid ops
    rw [ih, hs]

/-- **No detached element in the per-target bookkeeping, ever**: after ANY history every back-link of every target
    points at an element that IS in the list of the link's HTTP method and carries that target's routes; ids are unique
    inside a list and below the allocator (so a fresh `PushBack` never aliases a link). -/
theorem C06_elem_links_attached (valid : Bytes → Bool) (h : List Op) (n : Name) :
    let st := EState.init.run valid h
    (∀ p ∈ sliceOf (st.links n), ∃ e ∈ sliceOf (st.routes p.1), e.id = p.2 ∧ e.val.name = n) ∧
    (∀ m, ((sliceOf (st.routes m)).map Elem.id).Nodup ∧ ∀ e ∈ sliceOf (st.routes m), e.id < st.next) :=
  ⟨(EInv_run valid h).att n, (EInv_run valid h).good⟩

/-- … hence `Tied` for every target after ANY history: the link's id and the target's name identify the same element. -/
theorem C06_elem_attached (valid : Bytes → Bool) (h : List Op) : AllTied (EState.init.run valid h) :=
  AllTied_of (EInv_run valid h) (UInv_run h (PInv_init valid) UInv_init)

/-- **Refinement over ALL update histories**: forgetting element identities in the element-level table after any history
    of Watch/UpdateDesc/Close gives exactly `PatState` after that history — mutable lists, back-links (as methods),
    committed snapshot, fault flag, watcher set. -/
theorem C06_elem_refines (valid : Bytes → Bool) (h : List Op) :
    (EState.init.run valid h).erase = PatState.init.run valid h :=
  (EInv_run valid h).er

/-- **The committed table of the element-level code is the table of the latest descriptions**, for every HTTP method and
    every history: one element per live target whose LATEST description has an accepted binding for the method, holding
    that description's routes in description order, targets in the order `orderOf` (`C06_table_order`); no nil
    dereference happened. -/
theorem C06_elem_snapshot_is_latest (valid : Bytes → Bool) (h : List Op) (m : HMethod) :
    groupsOf (EState.init.run valid h).static m =
      (orderOf (PatState.init.run valid h) m).filterMap (specGroup valid (latestOf h) m) ∧
    (EState.init.run valid h).static = eCommit (EState.init.run valid h).routes ∧
    (EState.init.run valid h).fault = false := by
  have he := C06_elem_refines valid h
  have inv := C06_pattern_invariant valid h
  have hs : (EState.init.run valid h).static = (PatState.init.run valid h).static := by rw [← he]; rfl
  refine ⟨by rw [hs]; exact (C06_snapshot_is_latest valid h m).1, ?_, ?_⟩
  · rw [hs, inv.committed, ← he]; rfl
  · have := inv.noFault; rw [← he] at this; exact this

/-- **An HTTP method that disappears from a target's description and comes back** (3-step history: whatever `h` did —
    e.g. a description WITH the method — then `d2` without, then `d3` with it again): the target's element is unlinked by
    `d2` and a NEW element is linked at the END of the method's list by `d3` (never an update of the detached one); the
    other targets keep their order.  Content of the list: `C06_snapshot_is_latest`. -/
theorem C06_method_returns (valid : Bytes → Bool) (h : List Op) (m : HMethod) (d2 d3 : Desc)
    (hn : d3.name = d2.name) (hw : (latestOf h).watched d2.name = true)
    (h2 : built valid d2 m = none) (h3 : (built valid d3 m).isSome = true) :
    orderOf (PatState.init.run valid (h ++ [.update d2.name d2])) m =
      (orderOf (PatState.init.run valid h) m).filter (fun x => decide (x ≠ d2.name)) ∧
    orderOf (PatState.init.run valid (h ++ [.update d2.name d2, .update d3.name d3])) m =
      (orderOf (PatState.init.run valid h) m).filter (fun x => decide (x ≠ d2.name)) ++ [d2.name] := by
  have s1 : orderOf (PatState.init.run valid (h ++ [.update d2.name d2])) m =
      (orderOf (PatState.init.run valid h) m).filter (fun x => decide (x ≠ d2.name)) := by
    rw [(C06_table_order valid h m).1 d2 hw]
    simp only [h2, Option.isSome_none, Bool.false_eq_true, if_false]
    split
    · rfl
    · rename_i hnm; exact (filter_ne_not_mem _ _ hnm).symm
  refine ⟨s1, ?_⟩
  have hw' : (latestOf (h ++ [.update d2.name d2])).watched d3.name = true := by
    rw [latestOf_snoc, watched_update, hn]; exact hw
  have e : h ++ [Op.update d2.name d2, Op.update d3.name d3] = (h ++ [.update d2.name d2]) ++ [.update d3.name d3] := by simp
  have t := (C06_table_order valid (h ++ [Op.update d2.name d2]) m).1 d3 hw'
  rw [e, t, s1, hn]
  have hnot : d2.name ∉ (orderOf (PatState.init.run valid h) m).filter (fun x => decide (x ≠ d2.name)) := by
    intro hm; simpa using (List.mem_filter.mp hm).2
  simp [hnot, h3]

/-! ### what goes wrong without attachedness: the seeded change C03-m9, kernel-checked

  `EState.runStale`: `targetLinks` as a per-target map HTTP method → element whose entry is NOT deleted when the method
  vanishes from the target's description (and a `removeRoute` that tolerates a missing list).  History: watch a;
  v1 = {GET /x}; v2 = {PUT /x}; v3 = {GET /x}. -/

def m9GET : Bytes := [71, 69, 84]
def m9PUT : Bytes := [80, 85, 84]
def m9desc (v : Nat) (hm : Bytes) : Desc := ⟨[97], v, [⟨[83], [⟨[47, 83, 47, 77], [⟨hm, [47, 120]⟩]⟩]⟩]⟩
def m9hist : List Op :=
  [.watch [97], .update [97] (m9desc 1 m9GET), .update [97] (m9desc 2 m9PUT), .update [97] (m9desc 3 m9GET)]

/-- After v2 the stale variant keeps the back-link (GET, element 0) although element 0 is in no list any more
    (`attachedB = false`); v3 then "updates in place" that detached element: the committed table has NO list for GET,
    although the latest description of the live target "a" has the binding `GET /x`; its per-target map still names the
    detached element. -/
theorem C06_stale_link_loses_routes :
    attachedB (EState.init.runStale (fun _ => true) (m9hist.take 3)).routes
      (sliceOf ((EState.init.runStale (fun _ => true) (m9hist.take 3)).links [97])) = false ∧
    (EState.init.runStale (fun _ => true) m9hist).static m9GET = none ∧
    (EState.init.runStale (fun _ => true) m9hist).links [97] = some [(m9GET, 0), (m9PUT, 1)] ∧
    built (fun _ => true) (m9desc 3 m9GET) m9GET = some [⟨0, 0, some 0, m9GET, [47, 120]⟩] := by
  decide

/-- The code as it is (`EState.run`): after v2 the GET link is gone, v3 allocates a NEW element (id 2) and re-links it;
    the committed GET list is the latest description's route; all back-links are attached after every step. -/
theorem C06_relink_after_method_returns :
    (EState.init.run (fun _ => true) (m9hist.take 3)).links [97] = some [(m9PUT, 1)] ∧
    (EState.init.run (fun _ => true) m9hist).links [97] = some [(m9GET, 2)] ∧
    (EState.init.run (fun _ => true) m9hist).static m9GET = some [⟨[97], 3, [⟨0, 0, some 0, m9GET, [47, 120]⟩]⟩] ∧
    (EState.init.run (fun _ => true) m9hist).static m9PUT = none ∧
    (List.range 5).all (fun k =>
      tiedB (EState.init.run (fun _ => true) (m9hist.take k)).routes [97]
        (sliceOf ((EState.init.run (fun _ => true) (m9hist.take k)).links [97]))) = true := by
  decide

/-- `tiedB` decides `Tied` -/
theorem C06_tiedB_iff (rt : ETable) (n : Name) (ls : List Link) : tiedB rt n ls = true ↔ Tied rt n ls := by
  simp only [tiedB, Tied, List.all_eq_true, beq_iff_eq, decide_eq_decide]

/-! ### the source statements the models were written against (regenerated by extract/c06.go on every check) -/

/-- `addTarget` drops the back-link of an HTTP method that vanished from the description (`removeRoute` + `continue`
    BEFORE the append to `newMethodLinks`), updates surviving elements in place and marks them handled, appends fresh
    elements for the remaining methods, then overwrites `targetLinks[target.Name]`; `removeTarget` unlinks every element
    and deletes the per-target entry; `removeRoute` deletes the map key of an emptied list; `commit` clones every list;
    a back-link is (method, *list.Element) kept in a per-target SLICE. -/
theorem C06_facts_table_maintenance :
    GB.Generated.c06AddTargetStmts =
      ["0 mt.mu.Lock()", "0 defer mt.mu.Unlock()", "0 newMethodLinks := make([]methodPatternRoutes, 0, len(routes))",
       "0 _, link := range mt.targetLinks[target.Name]", "1 patternRoutes, ok := routes[link.method]", "1 if !ok",
       "2 mt.removeRoute(link.method, link.link)", "2 continue",
       "1 link.link.Value = targetPatternRoutes{target: target, routes: patternRoutes}",
       "1 newMethodLinks = append(newMethodLinks, link)", "1 delete(routes, link.method)",
       "0 method, patternRoutes := range routes",
       "1 link := mt.addRoute(method, targetPatternRoutes{target: target, routes: patternRoutes})",
       "1 newMethodLinks = append(newMethodLinks, methodPatternRoutes{method: method, link: link})",
       "0 mt.targetLinks[target.Name] = newMethodLinks", "0 mt.static.Store(mt.commit())"] ∧
    GB.Generated.c06RemoveTargetStmts =
      ["0 mt.mu.Lock()", "0 defer mt.mu.Unlock()", "0 _, link := range mt.targetLinks[target]",
       "1 mt.removeRoute(link.method, link.link)", "0 delete(mt.targetLinks, target)", "0 mt.static.Store(mt.commit())"] ∧
    GB.Generated.c06RemoveRouteStmts =
      ["0 lst := mt.routes[method]", "0 lst.Remove(link)", "0 if lst.Len() == 0", "1 delete(mt.routes, method)"] ∧
    GB.Generated.c06AddRouteStmts =
      ["0 lst, ok := mt.routes[method]", "0 if !ok", "1 lst = list.New()", "1 mt.routes[method] = lst",
       "0 return lst.PushBack(route)"] ∧
    GB.Generated.c06CommitStmts =
      ["0 routes := make(map[string]*list.List, len(mt.routes))", "0 method, list := range mt.routes",
       "1 routes[method] = cloneLinkedList(list)", "0 return &staticPatternRoutingTable{routes: routes}"] ∧
    "methodPatternRoutes.link *list.Element" ∈ GB.Generated.c06TableFields ∧
    "mutablePatternRoutingTable.targetLinks map[string][]methodPatternRoutes" ∈ GB.Generated.c06TableFields := by
  decide

/-- `C06_method_returns` applies to the C03-m9 history (hypotheses satisfiable) and gives the GET list `["a"]` -/
example : orderOf (PatState.init.run (fun _ => true) m9hist) m9GET = [[97]] := by
  have h := (C06_method_returns (fun _ => true) [.watch [97], .update [97] (m9desc 1 m9GET)] m9GET (m9desc 2 m9PUT)
    (m9desc 3 m9GET) rfl (by decide) (by decide) (by decide)).2
  have e : orderOf (PatState.init.run (fun _ => true) [.watch [97], .update [97] (m9desc 1 m9GET)]) m9GET = [[97]] := by decide
  rw [e] at h
  exact h

/-- **A target re-added after removal** (Close, Watch, UpdateDesc under the same name, after any history): Close unlinks it from
    every list, the new description links NEW elements at the END of the lists of the HTTP methods it has accepted
    bindings for — it does not get its old place back, nothing of the old description survives (`C06_snapshot_is_latest`). -/
theorem C06_target_returns (valid : Bytes → Bool) (h : List Op) (m : HMethod) (d : Desc)
    (hw : (latestOf h).watched d.name = true) (hb : (built valid d m).isSome = true) :
    orderOf (PatState.init.run valid (h ++ [.close d.name])) m =
      (orderOf (PatState.init.run valid h) m).filter (fun x => decide (x ≠ d.name)) ∧
    orderOf (PatState.init.run valid (h ++ [.close d.name, .watch d.name, .update d.name d])) m =
      (orderOf (PatState.init.run valid h) m).filter (fun x => decide (x ≠ d.name)) ++ [d.name] := by
  have s1 := (C06_table_order valid h m).2.1 d.name hw
  refine ⟨s1, ?_⟩
  have s2 := (C06_table_order valid (h ++ [Op.close d.name]) m).2.2.1 d.name
  have hw3 : (latestOf (h ++ [Op.close d.name] ++ [Op.watch d.name])).watched d.name = true := by
    rw [latestOf_snoc, watched_watch]; simp
  have s3 := (C06_table_order valid (h ++ [Op.close d.name] ++ [Op.watch d.name]) m).1 d hw3
  have e : h ++ [Op.close d.name, Op.watch d.name, Op.update d.name d] =
      h ++ [Op.close d.name] ++ [Op.watch d.name] ++ [Op.update d.name d] := by simp
  rw [e, s3, s2, s1]
  have hnot : d.name ∉ (orderOf (PatState.init.run valid h) m).filter (fun x => decide (x ≠ d.name)) := by
    intro hm; simpa using (List.mem_filter.mp hm).2
  simp [hnot, hb]

/-- **The same binding repeated in one description** stays repeated in the built routes, in description order, each with its
    own binding index (the lookup returns the first, `firstDecisive`); nothing is deduplicated on the way into the table. -/
theorem C06_repeated_binding_kept (valid : Bytes → Bool) (si mi k : Nat) (b : Binding) (bs : List Binding)
    (hv : valid b.pattern = true) :
    bindingRoutes valid si mi (b :: b :: bs) k =
      ⟨si, mi, some k, b.httpMethod, b.pattern⟩ :: ⟨si, mi, some (k + 1), b.httpMethod, b.pattern⟩ ::
        bindingRoutes valid si mi bs (k + 2) := by
  simp [bindingRoutes, hv]
