import GB.C06.Proofs
/-
  C06 — the service table after fix D31 (waiting claims, hand-over on release): characterisation of the loops
  of `updateRoutes` / `removeTarget` per key, the structural invariant `WInv`, and the refinement to the
  specification (`Claims`: live listers in claim order; `specEntries`).
-/
set_option linter.unusedSimpArgs false
set_option linter.unusedVariables false
namespace GB.C06

/-! ### claim lists -/

def targets (l : List SvcRoute) : List Name := l.map (·.target)

theorem recordClaim_not_mem (l : List SvcRoute) (new : SvcRoute) (h : new.target ∉ targets l) :
    recordClaim l new = l ++ [new] := by
  induction l with
  | nil => rfl
  | cons e es ih =>
    have he : e.target ≠ new.target := fun e' => h (by simp [targets, e'])
    have := ih (fun hm => h (by simp only [targets, List.map_cons, List.mem_cons]; exact Or.inr hm))
    simp [recordClaim, he, this]

theorem dropClaim_not_mem (l : List SvcRoute) (n : Name) (h : n ∉ targets l) : dropClaim l n = l := by
  induction l with
  | nil => rfl
  | cons e es ih =>
    have he : e.target ≠ n := fun e' => h (by simp [targets, e'])
    have := ih (fun hm => h (by simp only [targets, List.map_cons, List.mem_cons]; exact Or.inr hm))
    simp [dropClaim, he, this]

theorem recordClaim_twice (l : List SvcRoute) (a b : SvcRoute) (h : a.target = b.target) :
    recordClaim (recordClaim l a) b = recordClaim l b := by
  induction l with
  | nil => simp [recordClaim, h]
  | cons e es ih =>
    by_cases he : e.target = a.target
    · have he' : e.target = b.target := he.trans h
      simp [recordClaim, he, he', h]
    · have he' : e.target ≠ b.target := fun x => he (x.trans h.symm)
      simp [recordClaim, he, he', ih]

theorem targets_recordClaim (l : List SvcRoute) (new : SvcRoute) :
    targets (recordClaim l new) = if new.target ∈ targets l then targets l else targets l ++ [new.target] := by
  induction l with
  | nil => simp [recordClaim, targets]
  | cons e es ih =>
    by_cases he : e.target = new.target
    · simp [recordClaim, he, targets]
    · have hne : new.target ≠ e.target := fun x => he x.symm
      simp only [recordClaim, he, ↓reduceIte, targets, List.map_cons, List.mem_cons, hne, false_or] at ih ⊢
      by_cases hm : new.target ∈ List.map (fun x => x.target) es
      · simp only [hm, ↓reduceIte] at ih ⊢; rw [ih]
      · simp only [hm, ↓reduceIte] at ih ⊢; rw [ih]; rfl

theorem targets_dropClaim_sub (l : List SvcRoute) (n : Name) : (targets (dropClaim l n)).Sublist (targets l) := by
  induction l with
  | nil => simp [dropClaim, targets]
  | cons e es ih =>
    by_cases he : e.target = n
    · simp only [dropClaim, he, ↓reduceIte, targets, List.map_cons]
      exact List.sublist_cons_self _ _
    · simp only [dropClaim, he, ↓reduceIte, targets, List.map_cons]
      exact List.Sublist.cons₂ _ ih

theorem nodup_recordClaim {l : List SvcRoute} (new : SvcRoute) (h : (targets l).Nodup) :
    (targets (recordClaim l new)).Nodup := by
  rw [targets_recordClaim]
  by_cases hm : new.target ∈ targets l
  · simp [hm, h]
  · simp only [hm, ↓reduceIte]
    rw [List.nodup_append]
    exact ⟨h, by simp, fun a ha b hb => by simp at hb; subst hb; exact fun e => hm (e ▸ ha)⟩

theorem nodup_dropClaim {l : List SvcRoute} (n : Name) (h : (targets l).Nodup) : (targets (dropClaim l n)).Nodup :=
  List.Nodup.sublist (targets_dropClaim_sub l n) h

/-- with distinct targets the dropped target is gone -/
theorem not_mem_dropClaim {l : List SvcRoute} (n : Name) (h : (targets l).Nodup) : n ∉ targets (dropClaim l n) := by
  induction l with
  | nil => simp [dropClaim, targets]
  | cons e es ih =>
    simp only [targets, List.map_cons, List.nodup_cons] at h
    by_cases he : e.target = n
    · simp only [dropClaim, he, ↓reduceIte]; rw [← he]; exact h.1
    · simp only [dropClaim, he, ↓reduceIte, targets, List.map_cons, List.mem_cons, not_or]
      exact ⟨fun x => he x.symm, ih h.2⟩

theorem mem_dropClaim_of_ne {l : List SvcRoute} {n : Name} {e : SvcRoute} (he : e ∈ l) (hn : e.target ≠ n) :
    e ∈ dropClaim l n := by
  induction l with
  | nil => cases he
  | cons a as ih =>
    by_cases ha : a.target = n
    · simp only [dropClaim, ha, ↓reduceIte]
      rcases List.mem_cons.mp he with rfl | h
      · exact absurd ha hn
      · exact h
    · simp only [dropClaim, ha, ↓reduceIte, List.mem_cons]
      rcases List.mem_cons.mp he with rfl | h
      · exact Or.inl rfl
      · exact Or.inr (ih h)

/-! ### the first loop of `updateRoutes` -/

theorem addLoop_spec (dn : Name) (dv : Ver) (ss : List Service) :
    ∀ (i : Nat) (a : AddSt) (x : SvcName),
      ((Foreign a.r dn x ∨ ¬ listed ss x) → (addLoop dn dv ss i a).r x = a.r x) ∧
      (listed ss x → ¬ Foreign a.r dn x →
        ∃ j, lastIdx x ss i = some j ∧ (addLoop dn dv ss i a).r x = some ⟨dn, dv, j⟩) ∧
      (x ∈ (addLoop dn dv ss i a).acc ↔ x ∈ a.acc ∨ (listed ss x ∧ ¬ Foreign a.r dn x)) ∧
      (a.acc.Nodup → (addLoop dn dv ss i a).acc.Nodup) ∧
      (listed ss x → Foreign a.r dn x →
        ∃ j, lastIdx x ss i = some j ∧ (addLoop dn dv ss i a).w x = recordClaim (a.w x) ⟨dn, dv, j⟩) ∧
      (¬ (listed ss x ∧ Foreign a.r dn x) → (addLoop dn dv ss i a).w x = a.w x) := by
  induction ss with
  | nil => intro i a x; simp [addLoop, listed]
  | cons s ss ih =>
    intro i a x
    -- the two "store" branches behave identically
    have store : ¬ Foreign a.r dn s.name →
        let A : AddSt := { a with r := upd a.r s.name (some ⟨dn, dv, i⟩),
                                  acc := if s.name ∈ a.acc then a.acc else a.acc ++ [s.name] }
        ((Foreign a.r dn x ∨ ¬ listed (s :: ss) x) → (addLoop dn dv ss (i + 1) A).r x = a.r x) ∧
        (listed (s :: ss) x → ¬ Foreign a.r dn x →
          ∃ j, lastIdx x (s :: ss) i = some j ∧ (addLoop dn dv ss (i + 1) A).r x = some ⟨dn, dv, j⟩) ∧
        (x ∈ (addLoop dn dv ss (i + 1) A).acc ↔ x ∈ a.acc ∨ (listed (s :: ss) x ∧ ¬ Foreign a.r dn x)) ∧
        (a.acc.Nodup → (addLoop dn dv ss (i + 1) A).acc.Nodup) ∧
        (listed (s :: ss) x → Foreign a.r dn x →
          ∃ j, lastIdx x (s :: ss) i = some j ∧ (addLoop dn dv ss (i + 1) A).w x = recordClaim (a.w x) ⟨dn, dv, j⟩) ∧
        (¬ (listed (s :: ss) x ∧ Foreign a.r dn x) → (addLoop dn dv ss (i + 1) A).w x = a.w x) := by
      intro hnf A
      obtain ⟨ih1, ih2, ih3, ih4, ih5, ih6⟩ := ih (i + 1) A x
      have hAw : A.w = a.w := rfl
      have hAr : A.r = upd a.r s.name (some ⟨dn, dv, i⟩) := rfl
      have hAnd : a.acc.Nodup → A.acc.Nodup := by
        intro h
        show (if s.name ∈ a.acc then a.acc else a.acc ++ [s.name]).Nodup
        by_cases hm : s.name ∈ a.acc
        · simp [hm, h]
        · simp only [hm, ↓reduceIte]
          rw [List.nodup_append]
          exact ⟨h, by simp, fun y hy z hz => by simp at hz; subst hz; exact fun e => hm (e ▸ hy)⟩
      have hAmem : ∀ y, y ∈ A.acc ↔ y ∈ a.acc ∨ y = s.name := by
        intro y
        show y ∈ (if s.name ∈ a.acc then a.acc else a.acc ++ [s.name]) ↔ _
        by_cases hm : s.name ∈ a.acc
        · simp only [hm, ↓reduceIte]
          constructor
          · exact Or.inl
          · rintro (h | h)
            · exact h
            · rw [h]; exact hm
        · simp [hm]
      by_cases hx : x = s.name
      · subst hx
        have hnf' : ¬ Foreign A.r dn s.name := by
          rintro ⟨o, ho, hne⟩; rw [hAr, upd_same] at ho; cases ho; exact hne rfl
        have hlc : listed (s :: ss) s.name := (listed_cons _ _ _).mpr (Or.inl rfl)
        refine ⟨?_, ?_, ?_, fun h => ih4 (hAnd h), fun _ hf => absurd hf hnf, ?_⟩
        · rintro (h | h)
          · exact absurd h hnf
          · exact absurd hlc h
        · intro _ _
          by_cases hl : listed ss s.name
          · obtain ⟨j, hj, hp⟩ := ih2 hl hnf'
            exact ⟨j, by simp only [lastIdx, hj], hp⟩
          · have hn := (lastIdx_none s.name ss (i + 1)).mpr hl
            refine ⟨i, by simp [lastIdx, hn], ?_⟩
            rw [ih1 (Or.inr hl), hAr, upd_same]
        · rw [ih3, hAmem]
          simp [hlc, hnf]
        · intro _
          rw [ih6 (fun h => hnf' h.2), hAw]
      · have hne : s.name ≠ x := fun h => hx h.symm
        have hr : A.r x = a.r x := by rw [hAr]; exact upd_other _ _ _ hx
        have hf : Foreign A.r dn x ↔ Foreign a.r dn x := by simp [Foreign, hr]
        have hl : listed (s :: ss) x ↔ listed ss x := by simp [listed_cons, hne]
        rw [hl, lastIdx_cons_ne x s ss i hne, ← hf, ← hr, ← hAw]
        refine ⟨ih1, ih2, ?_, fun h => ih4 (hAnd h), ih5, ih6⟩
        rw [ih3, hAmem]; simp [hx]
    simp only [addLoop]
    cases hrs : a.r s.name with
    | none =>
      simp only
      exact store (by rintro ⟨o, ho, _⟩; rw [hrs] at ho; cases ho)
    | some old =>
      simp only
      by_cases ht : old.target ≠ dn
      · simp only [ht, ne_eq, not_false_eq_true, ↓reduceIte]
        have hfs : Foreign a.r dn s.name := ⟨old, hrs, ht⟩
        obtain ⟨ih1, ih2, ih3, ih4, ih5, ih6⟩ :=
          ih (i + 1) { a with w := upd a.w s.name (recordClaim (a.w s.name) ⟨dn, dv, i⟩) } x
        by_cases hx : x = s.name
        · subst hx
          have hlc : listed (s :: ss) s.name := (listed_cons _ _ _).mpr (Or.inl rfl)
          refine ⟨fun _ => ih1 (Or.inl hfs), fun _ h => absurd hfs h, ?_, ih4, ?_, fun h => absurd ⟨hlc, hfs⟩ h⟩
          · rw [ih3]; simp [hfs]
          · intro _ _
            by_cases hl : listed ss s.name
            · obtain ⟨j, hj, hp⟩ := ih5 hl hfs
              refine ⟨j, by simp only [lastIdx, hj], ?_⟩
              rw [hp]
              show recordClaim (upd a.w s.name (recordClaim (a.w s.name) ⟨dn, dv, i⟩) s.name) _ = _
              rw [upd_same]
              exact recordClaim_twice _ _ _ rfl
            · have hn := (lastIdx_none s.name ss (i + 1)).mpr hl
              refine ⟨i, by simp [lastIdx, hn], ?_⟩
              rw [ih6 (fun h => hl h.1)]
              show upd a.w s.name (recordClaim (a.w s.name) ⟨dn, dv, i⟩) s.name = _
              rw [upd_same]
        · have hne : s.name ≠ x := fun h => hx h.symm
          have hl : listed (s :: ss) x ↔ listed ss x := by simp [listed_cons, hne]
          have hw : upd a.w s.name (recordClaim (a.w s.name) ⟨dn, dv, i⟩) x = a.w x := upd_other _ _ _ hx
          rw [hl, lastIdx_cons_ne x s ss i hne]
          refine ⟨ih1, ih2, ih3, ih4, ?_, ?_⟩
          · intro h1 h2; obtain ⟨j, hj, hp⟩ := ih5 h1 h2; exact ⟨j, hj, by rw [hp]; simp only [hw]⟩
          · intro h; rw [ih6 h]; exact hw
      · have ht' : old.target = dn := by simpa using ht
        simp only [ht', ne_eq, not_true_eq_false, ↓reduceIte]
        exact store (by rintro ⟨o, ho, hne⟩; rw [hrs] at ho; cases ho; exact hne ht')

/-! ### the release loops -/

theorem release_r (q : DelSt) (s x : SvcName) :
    (release q s).r x = if x = s then (q.w s).head? else q.r x := by
  unfold release
  cases hw : q.w s with
  | nil => by_cases hx : x = s <;> simp [upd, hx]
  | cons e rest => by_cases hx : x = s <;> simp [upd, hx]

theorem release_w (q : DelSt) (s x : SvcName) :
    (release q s).w x = if x = s then (q.w s).tail else q.w x := by
  unfold release
  cases hw : q.w s with
  | nil => by_cases hx : x = s <;> simp [hx, hw]
  | cons e rest => by_cases hx : x = s <;> simp [upd, hx]

theorem release_sv (q : DelSt) (s : SvcName) (t : Name) :
    sliceOf ((release q s).sv t) =
      sliceOf (q.sv t) ++ (if (q.w s).head?.map (·.target) = some t then [s] else []) := by
  unfold release
  cases hw : q.w s with
  | nil => simp
  | cons e rest =>
    by_cases ht : t = e.target
    · subst ht; simp [upd, sliceOf]
    · have : e.target ≠ t := fun h => ht h.symm
      simp [upd, ht, this]

theorem delLoop_spec (present : List SvcName) (old : List SvcName) :
    ∀ (q : DelSt), old.Nodup → ∀ x,
      (delLoop present old q).r x = (if x ∈ old ∧ x ∉ present then (q.w x).head? else q.r x) ∧
      (delLoop present old q).w x = (if x ∈ old ∧ x ∉ present then (q.w x).tail else q.w x) := by
  induction old with
  | nil => intro q _ x; simp [delLoop]
  | cons s ss ih =>
    intro q hnd x
    obtain ⟨hs, hnd'⟩ := List.nodup_cons.mp hnd
    simp only [delLoop]
    by_cases hp : s ∈ present
    · simp only [hp, ↓reduceIte]
      obtain ⟨i1, i2⟩ := ih q hnd' x
      by_cases hx : x = s
      · subst hx; simp [i1, i2, hp, hs]
      · simp [i1, i2, hx]
    · simp only [hp, ↓reduceIte]
      obtain ⟨i1, i2⟩ := ih (release q s) hnd' x
      rw [i1, i2, release_r, release_w]
      by_cases hx : x = s
      · subst hx; simp [hs, hp]
      · simp [hx]

/-- what the release loop appends to the owned-service lists -/
theorem delLoop_sv (present : List SvcName) (old : List SvcName) :
    ∀ (q : DelSt), old.Nodup → ∀ t,
      sliceOf ((delLoop present old q).sv t) =
        sliceOf (q.sv t) ++ old.filter (fun y => decide (y ∉ present) && decide ((q.w y).head?.map (·.target) = some t)) := by
  induction old with
  | nil => intro q _ t; simp [delLoop]
  | cons s ss ih =>
    intro q hnd t
    obtain ⟨hs, hnd'⟩ := List.nodup_cons.mp hnd
    simp only [delLoop]
    by_cases hp : s ∈ present
    · simp only [hp, ↓reduceIte]
      rw [ih q hnd' t]
      simp [List.filter_cons, hp]
    · simp only [hp, ↓reduceIte]
      rw [ih (release q s) hnd' t, release_sv]
      have hw : ∀ y ∈ ss, (release q s).w y = q.w y := by
        intro y hy
        rw [release_w]
        have : y ≠ s := fun e => hs (e ▸ hy)
        simp [this]
      have hfilt : ss.filter (fun y => decide (y ∉ present) && decide (((release q s).w y).head?.map (·.target) = some t)) =
          ss.filter (fun y => decide (y ∉ present) && decide ((q.w y).head?.map (·.target) = some t)) := by
        apply List.filter_congr
        intro y hy; rw [hw y hy]
      rw [hfilt, List.filter_cons]
      by_cases hh : (q.w s).head?.map (·.target) = some t
      · have hc : (decide (s ∉ present) && decide ((q.w s).head?.map (·.target) = some t)) = true := by
          rw [Bool.and_eq_true]; exact ⟨decide_eq_true hp, decide_eq_true hh⟩
        rw [if_pos hh, if_pos hc]; simp
      · have hc : ¬ (decide (s ∉ present) && decide ((q.w s).head?.map (·.target) = some t)) = true := by
          rw [Bool.and_eq_true]; rintro ⟨_, h2⟩; exact hh (of_decide_eq_true h2)
        rw [if_neg hh, if_neg hc]; simp

/-! ### the structural invariant and the per-key effect of the operations -/

/-- the entries of a service: the owner (if any) followed by the waiting claims -/
def ent (st : SvcState) (x : SvcName) : List SvcRoute := (st.routes x).toList ++ st.waiting x

structure WInv (st : SvcState) : Prop where
  empty : ∀ x, st.routes x = none → st.waiting x = []
  nodup : ∀ x, (targets (ent st x)).Nodup
  owned : ∀ n y, y ∈ sliceOf (st.svcRoutes n) ↔ ∃ r, st.routes y = some r ∧ r.target = n
  svNodup : ∀ n, (sliceOf (st.svcRoutes n)).Nodup

theorem WInv_init : WInv SvcState.init := by
  refine ⟨fun _ _ => rfl, ?_, ?_, ?_⟩
  · intro x; simp [ent, SvcState.init, targets]
  · intro n y; simp [SvcState.init, sliceOf]
  · intro n; simp [SvcState.init, sliceOf]

theorem listedB_iff (ss : List Service) (x : SvcName) : listedB ss x = true ↔ listed ss x := by
  simp [listedB, listed]

theorem listedB_false (ss : List Service) (x : SvcName) : listedB ss x = false ↔ ¬ listed ss x := by
  rw [← listedB_iff]; simp

theorem WInv.owner_not_waiting {st : SvcState} (h : WInv st) {x : SvcName} {o : SvcRoute}
    (ho : st.routes x = some o) : o.target ∉ targets (st.waiting x) := by
  have := h.nodup x
  simp only [ent, ho, Option.toList_some, List.singleton_append, targets, List.map_cons, List.nodup_cons] at this
  exact this.1

theorem WInv.waiting_nodup {st : SvcState} (h : WInv st) (x : SvcName) : (targets (st.waiting x)).Nodup := by
  have := h.nodup x
  simp only [ent, targets, List.map_append] at this
  exact (List.nodup_append.mp this).2.1

/-- routes and waiting list of `x` after `updateRoutes st d`, by the six cases (owner: none / the updating target /
    another target) × (listed again or not) -/
theorem update_key {st : SvcState} (h : WInv st) (d : Desc) (x : SvcName) :
    (st.routes x = none → listed d.services x → ∃ j, lastIdx x d.services 0 = some j ∧
        (updateRoutes st d).routes x = some ⟨d.name, d.ver, j⟩ ∧ (updateRoutes st d).waiting x = []) ∧
    (st.routes x = none → ¬ listed d.services x →
        (updateRoutes st d).routes x = none ∧ (updateRoutes st d).waiting x = []) ∧
    (∀ o, st.routes x = some o → o.target = d.name → listed d.services x → ∃ j, lastIdx x d.services 0 = some j ∧
        (updateRoutes st d).routes x = some ⟨d.name, d.ver, j⟩ ∧ (updateRoutes st d).waiting x = st.waiting x) ∧
    (∀ o, st.routes x = some o → o.target = d.name → ¬ listed d.services x →
        (updateRoutes st d).routes x = (st.waiting x).head? ∧ (updateRoutes st d).waiting x = (st.waiting x).tail) ∧
    (∀ o, st.routes x = some o → o.target ≠ d.name → listed d.services x → ∃ j, lastIdx x d.services 0 = some j ∧
        (updateRoutes st d).routes x = some o ∧
        (updateRoutes st d).waiting x = recordClaim (st.waiting x) ⟨d.name, d.ver, j⟩) ∧
    (∀ o, st.routes x = some o → o.target ≠ d.name → ¬ listed d.services x →
        (updateRoutes st d).routes x = some o ∧ (updateRoutes st d).waiting x = dropClaim (st.waiting x) d.name) := by
  obtain ⟨a1, a2, a3, _, a5, a6⟩ := addLoop_spec d.name d.ver d.services 0 ⟨st.routes, st.waiting, []⟩ x
  obtain ⟨q1, q2⟩ := delLoop_spec (addLoop d.name d.ver d.services 0 ⟨st.routes, st.waiting, []⟩).acc
    (sliceOf (st.svcRoutes d.name))
    ⟨(addLoop d.name d.ver d.services 0 ⟨st.routes, st.waiting, []⟩).r,
     fun x => if listedB d.services x then (addLoop d.name d.ver d.services 0 ⟨st.routes, st.waiting, []⟩).w x
              else dropClaim ((addLoop d.name d.ver d.services 0 ⟨st.routes, st.waiting, []⟩).w x) d.name,
     st.svcRoutes⟩ (h.svNodup d.name) x
  have hR : (updateRoutes st d).routes x = _ := q1
  have hW : (updateRoutes st d).waiting x = _ := q2
  simp only at a1 a2 a3 a5 a6 hR hW
  have hacc : x ∈ (addLoop d.name d.ver d.services 0 ⟨st.routes, st.waiting, []⟩).acc ↔
      listed d.services x ∧ ¬ Foreign st.routes d.name x := by rw [a3]; simp
  have hold : x ∈ sliceOf (st.svcRoutes d.name) ↔ ∃ r, st.routes x = some r ∧ r.target = d.name := h.owned _ _
  refine ⟨?_, ?_, ?_, ?_, ?_, ?_⟩
  · intro hr hl
    have hnf : ¬ Foreign st.routes d.name x := by rintro ⟨o, ho, _⟩; rw [hr] at ho; cases ho
    have hno : x ∉ sliceOf (st.svcRoutes d.name) := by rw [hold]; rintro ⟨r, hr', _⟩; rw [hr] at hr'; cases hr'
    obtain ⟨j, hj, hp⟩ := a2 hl hnf
    refine ⟨j, hj, ?_, ?_⟩
    · rw [hR]; simp [hno, hp]
    · rw [hW]; simp [hno, (listedB_iff _ _).mpr hl, a6 (fun hh => hnf hh.2), h.empty x hr]
  · intro hr hl
    have hnf : ¬ Foreign st.routes d.name x := by rintro ⟨o, ho, _⟩; rw [hr] at ho; cases ho
    have hno : x ∉ sliceOf (st.svcRoutes d.name) := by rw [hold]; rintro ⟨r, hr', _⟩; rw [hr] at hr'; cases hr'
    constructor
    · rw [hR]; simp [hno, a1 (Or.inr hl), hr]
    · rw [hW]; simp [hno, (listedB_false _ _).mpr hl, a6 (fun hh => hl hh.1), h.empty x hr, dropClaim]
  · intro o hr ht hl
    have hnf : ¬ Foreign st.routes d.name x := by rintro ⟨o', ho, hne⟩; rw [hr] at ho; cases ho; exact hne ht
    obtain ⟨j, hj, hp⟩ := a2 hl hnf
    have hin := hacc.mpr ⟨hl, hnf⟩
    refine ⟨j, hj, ?_, ?_⟩
    · rw [hR]; simp [hin, hp]
    · rw [hW]; simp [hin, (listedB_iff _ _).mpr hl, a6 (fun hh => hnf hh.2)]
  · intro o hr ht hl
    have hnf : ¬ Foreign st.routes d.name x := by rintro ⟨o', ho, hne⟩; rw [hr] at ho; cases ho; exact hne ht
    have hin : x ∉ (addLoop d.name d.ver d.services 0 ⟨st.routes, st.waiting, []⟩).acc := by
      rw [hacc]; exact fun hh => hl hh.1
    have hol : x ∈ sliceOf (st.svcRoutes d.name) := hold.mpr ⟨o, hr, ht⟩
    have hdrop : dropClaim (st.waiting x) d.name = st.waiting x :=
      dropClaim_not_mem _ _ (ht ▸ h.owner_not_waiting hr)
    constructor
    · rw [hR]; simp [hin, hol, (listedB_false _ _).mpr hl, a6 (fun hh => hl hh.1), hdrop]
    · rw [hW]; simp [hin, hol, (listedB_false _ _).mpr hl, a6 (fun hh => hl hh.1), hdrop]
  · intro o hr ht hl
    have hf : Foreign st.routes d.name x := ⟨o, hr, ht⟩
    have hno : x ∉ sliceOf (st.svcRoutes d.name) := by
      rw [hold]; rintro ⟨r, hr', ht'⟩; rw [hr] at hr'; cases hr'; exact ht ht'
    obtain ⟨j, hj, hp⟩ := a5 hl hf
    refine ⟨j, hj, ?_, ?_⟩
    · rw [hR]; simp [hno, a1 (Or.inl hf), hr]
    · rw [hW]; simp [hno, (listedB_iff _ _).mpr hl, hp]
  · intro o hr ht hl
    have hf : Foreign st.routes d.name x := ⟨o, hr, ht⟩
    have hno : x ∉ sliceOf (st.svcRoutes d.name) := by
      rw [hold]; rintro ⟨r, hr', ht'⟩; rw [hr] at hr'; cases hr'; exact ht ht'
    constructor
    · rw [hR]; simp [hno, a1 (Or.inl hf), hr]
    · rw [hW]; simp [hno, (listedB_false _ _).mpr hl, a6 (fun hh => hl hh.1)]

/-- the same for `removeTarget` -/
theorem remove_key {st : SvcState} (h : WInv st) (n : Name) (x : SvcName) :
    (st.routes x = none → (st.removeTarget n).routes x = none ∧ (st.removeTarget n).waiting x = []) ∧
    (∀ o, st.routes x = some o → o.target = n →
        (st.removeTarget n).routes x = (st.waiting x).head? ∧ (st.removeTarget n).waiting x = (st.waiting x).tail) ∧
    (∀ o, st.routes x = some o → o.target ≠ n →
        (st.removeTarget n).routes x = some o ∧ (st.removeTarget n).waiting x = dropClaim (st.waiting x) n) := by
  obtain ⟨q1, q2⟩ := delLoop_spec [] (sliceOf (st.svcRoutes n)) ⟨st.routes, st.waiting, st.svcRoutes⟩ (h.svNodup n) x
  have hR : (st.removeTarget n).routes x = _ := q1
  have hW : (st.removeTarget n).waiting x =
      dropClaim ((delLoop [] (sliceOf (st.svcRoutes n)) ⟨st.routes, st.waiting, st.svcRoutes⟩).w x) n := rfl
  rw [q2] at hW
  simp only at hR hW
  have hold : x ∈ sliceOf (st.svcRoutes n) ↔ ∃ r, st.routes x = some r ∧ r.target = n := h.owned _ _
  refine ⟨?_, ?_, ?_⟩
  · intro hr
    have hno : x ∉ sliceOf (st.svcRoutes n) := by rw [hold]; rintro ⟨r, hr', _⟩; rw [hr] at hr'; cases hr'
    constructor
    · rw [hR]; simp [hno, hr]
    · rw [hW]; simp [hno, h.empty x hr, dropClaim]
  · intro o hr ht
    have hol : x ∈ sliceOf (st.svcRoutes n) := hold.mpr ⟨o, hr, ht⟩
    constructor
    · rw [hR]; simp [hol]
    · rw [hW]; simp only [hol, List.not_mem_nil, not_false_eq_true, and_self, ↓reduceIte]
      apply dropClaim_not_mem
      intro hm
      have h1 : n ∉ targets (st.waiting x) := ht ▸ h.owner_not_waiting hr
      apply h1
      cases hw : st.waiting x with
      | nil => rw [hw] at hm; simp [targets] at hm
      | cons e es => rw [hw] at hm; simp only [List.tail_cons] at hm; simp [targets] at hm ⊢; exact Or.inr hm
  · intro o hr ht
    have hno : x ∉ sliceOf (st.svcRoutes n) := by
      rw [hold]; rintro ⟨r, hr', ht'⟩; rw [hr] at hr'; cases hr'; exact ht ht'
    constructor
    · rw [hR]; simp [hno, hr]
    · rw [hW]; simp [hno]

theorem head_toList_tail {α : Type} (l : List α) : l.head?.toList ++ l.tail = l := by
  cases l <;> simp

/-- `updateRoutes` on the entries of one service: the claim is recorded (owner: re-pointed) or dropped -/
theorem ent_update {st : SvcState} (h : WInv st) (d : Desc) (x : SvcName) :
    (listed d.services x → ∃ j, lastIdx x d.services 0 = some j ∧
        ent (updateRoutes st d) x = recordClaim (ent st x) ⟨d.name, d.ver, j⟩) ∧
    (¬ listed d.services x → ent (updateRoutes st d) x = dropClaim (ent st x) d.name) := by
  obtain ⟨k1, k2, k3, k4, k5, k6⟩ := update_key h d x
  cases hr : st.routes x with
  | none =>
    constructor
    · intro hl
      obtain ⟨j, hj, h1, h2⟩ := k1 hr hl
      exact ⟨j, hj, by simp [ent, h1, h2, hr, h.empty x hr, recordClaim]⟩
    · intro hl
      obtain ⟨h1, h2⟩ := k2 hr hl
      simp [ent, h1, h2, hr, h.empty x hr, dropClaim]
  | some o =>
    by_cases ht : o.target = d.name
    · constructor
      · intro hl
        obtain ⟨j, hj, h1, h2⟩ := k3 o hr ht hl
        exact ⟨j, hj, by simp [ent, h1, h2, hr, recordClaim, ht]⟩
      · intro hl
        obtain ⟨h1, h2⟩ := k4 o hr ht hl
        simp only [ent, h1, h2, hr, Option.toList_some, List.singleton_append, dropClaim, ht, ↓reduceIte]
        exact head_toList_tail _
    · constructor
      · intro hl
        obtain ⟨j, hj, h1, h2⟩ := k5 o hr ht hl
        exact ⟨j, hj, by simp [ent, h1, h2, hr, recordClaim, ht]⟩
      · intro hl
        obtain ⟨h1, h2⟩ := k6 o hr ht hl
        simp [ent, h1, h2, hr, dropClaim, ht]

theorem ent_remove {st : SvcState} (h : WInv st) (n : Name) (x : SvcName) :
    ent (st.removeTarget n) x = dropClaim (ent st x) n := by
  obtain ⟨k1, k2, k3⟩ := remove_key h n x
  cases hr : st.routes x with
  | none =>
    obtain ⟨h1, h2⟩ := k1 hr
    simp [ent, h1, h2, hr, h.empty x hr, dropClaim]
  | some o =>
    by_cases ht : o.target = n
    · obtain ⟨h1, h2⟩ := k2 o hr ht
      simp only [ent, h1, h2, hr, Option.toList_some, List.singleton_append, dropClaim, ht, ↓reduceIte]
      exact head_toList_tail _
    · obtain ⟨h1, h2⟩ := k3 o hr ht
      simp [ent, h1, h2, hr, dropClaim, ht]

/-- the new owner after a release is one of the waiting claimants, never the releasing target -/
theorem WInv.head_waiting_ne {st : SvcState} (h : WInv st) {x : SvcName} {o e : SvcRoute}
    (ho : st.routes x = some o) (he : (st.waiting x).head? = some e) : e.target ≠ o.target := by
  intro heq
  apply h.owner_not_waiting ho
  rw [← heq]
  cases hw : st.waiting x with
  | nil => rw [hw] at he; cases he
  | cons a as => rw [hw] at he; simp at he; subst he; simp [targets]

theorem WInv_update {st : SvcState} (h : WInv st) (d : Desc) : WInv (updateRoutes st d) := by
  have key := fun x => update_key h d x
  refine ⟨?_, ?_, ?_, ?_⟩
  · -- empty
    intro x hx
    obtain ⟨k1, k2, k3, k4, k5, k6⟩ := key x
    cases hr : st.routes x with
    | none =>
      by_cases hl : listed d.services x
      · obtain ⟨_, _, _, h2⟩ := k1 hr hl; exact h2
      · exact (k2 hr hl).2
    | some o =>
      by_cases ht : o.target = d.name
      · by_cases hl : listed d.services x
        · obtain ⟨_, _, h1, _⟩ := k3 o hr ht hl; rw [h1] at hx; cases hx
        · obtain ⟨h1, h2⟩ := k4 o hr ht hl
          rw [h1] at hx; rw [h2]
          cases hw : st.waiting x with
          | nil => rfl
          | cons e es => rw [hw] at hx; cases hx
      · by_cases hl : listed d.services x
        · obtain ⟨_, _, h1, _⟩ := k5 o hr ht hl; rw [h1] at hx; cases hx
        · rw [(k6 o hr ht hl).1] at hx; cases hx
  · -- nodup
    intro x
    obtain ⟨e1, e2⟩ := ent_update h d x
    by_cases hl : listed d.services x
    · obtain ⟨j, _, he⟩ := e1 hl; rw [he]; exact nodup_recordClaim _ (h.nodup x)
    · rw [e2 hl]; exact nodup_dropClaim _ (h.nodup x)
  · -- owned
    intro t y
    obtain ⟨k1, k2, k3, k4, k5, k6⟩ := key y
    obtain ⟨_, _, a3, _, _, a6⟩ := addLoop_spec d.name d.ver d.services 0 ⟨st.routes, st.waiting, []⟩ y
    have hacc : y ∈ (addLoop d.name d.ver d.services 0 ⟨st.routes, st.waiting, []⟩).acc ↔
        listed d.services y ∧ ¬ Foreign st.routes d.name y := by rw [a3]; simp
    have hold : y ∈ sliceOf (st.svcRoutes d.name) ↔ ∃ r, st.routes y = some r ∧ r.target = d.name := h.owned _ _
    by_cases htn : t = d.name
    · subst htn
      show y ∈ sliceOf (upd _ d.name (some _) d.name) ↔ _
      rw [upd_same]
      show y ∈ (addLoop d.name d.ver d.services 0 ⟨st.routes, st.waiting, []⟩).acc ↔ _
      rw [hacc]
      cases hr : st.routes y with
      | none =>
        have hnf : ¬ Foreign st.routes d.name y := by rintro ⟨o, ho, _⟩; rw [hr] at ho; cases ho
        by_cases hl : listed d.services y
        · obtain ⟨j, _, h1, _⟩ := k1 hr hl
          exact ⟨fun _ => ⟨_, h1, rfl⟩, fun _ => ⟨hl, hnf⟩⟩
        · have h1 := (k2 hr hl).1
          exact ⟨fun hh => absurd hh.1 hl, by rintro ⟨r, hh, _⟩; rw [h1] at hh; cases hh⟩
      | some o =>
        by_cases ht : o.target = d.name
        · have hnf : ¬ Foreign st.routes d.name y := by
            rintro ⟨o', ho, hne⟩; rw [hr] at ho; cases ho; exact hne ht
          by_cases hl : listed d.services y
          · obtain ⟨j, _, h1, _⟩ := k3 o hr ht hl
            exact ⟨fun _ => ⟨_, h1, rfl⟩, fun _ => ⟨hl, hnf⟩⟩
          · obtain ⟨h1, _⟩ := k4 o hr ht hl
            refine ⟨fun hh => absurd hh.1 hl, ?_⟩
            rintro ⟨r, hh, hrt⟩
            rw [h1] at hh
            exact absurd (hrt.trans ht.symm) (h.head_waiting_ne hr hh)
        · have hf : Foreign st.routes d.name y := ⟨o, hr, ht⟩
          have h1 : (updateRoutes st d).routes y = some o := by
            by_cases hl : listed d.services y
            · obtain ⟨_, _, h1, _⟩ := k5 o hr ht hl; exact h1
            · exact (k6 o hr ht hl).1
          refine ⟨fun hh => absurd hf hh.2, ?_⟩
          rintro ⟨r, hh, hrt⟩
          rw [h1] at hh; cases hh; exact absurd hrt ht
    · show y ∈ sliceOf (upd _ d.name (some _) t) ↔ _
      rw [upd_other _ _ _ htn, delLoop_sv _ _ _ (h.svNodup d.name) t, List.mem_append, List.mem_filter, h.owned t y]
      -- the claim list the release loop sees for y
      have hw1 : ∀ o, st.routes y = some o → o.target = d.name → ¬ listed d.services y →
          (if listedB d.services y then (addLoop d.name d.ver d.services 0 ⟨st.routes, st.waiting, []⟩).w y
            else dropClaim ((addLoop d.name d.ver d.services 0 ⟨st.routes, st.waiting, []⟩).w y) d.name) = st.waiting y := by
        intro o hr ht hl
        rw [(listedB_false _ _).mpr hl, a6 (fun hh => hl hh.1)]
        simp only [Bool.false_eq_true, ↓reduceIte]
        exact dropClaim_not_mem _ _ (ht ▸ h.owner_not_waiting hr)
      cases hr : st.routes y with
      | none =>
        have hno : y ∉ sliceOf (st.svcRoutes d.name) := by rw [hold]; rintro ⟨r, hr', _⟩; rw [hr] at hr'; cases hr'
        by_cases hl : listed d.services y
        · obtain ⟨j, _, h1, _⟩ := k1 hr hl
          constructor
          · rintro (⟨r, hh, _⟩ | ⟨hh, _⟩)
            · cases hh
            · exact absurd hh hno
          · rintro ⟨r, hh, hrt⟩
            rw [h1] at hh; cases hh; exact absurd hrt.symm htn
        · have h1 := (k2 hr hl).1
          constructor
          · rintro (⟨r, hh, _⟩ | ⟨hh, _⟩)
            · cases hh
            · exact absurd hh hno
          · rintro ⟨r, hh, _⟩; rw [h1] at hh; cases hh
      | some o =>
        by_cases ht : o.target = d.name
        · have hnf : ¬ Foreign st.routes d.name y := by
            rintro ⟨o', ho, hne⟩; rw [hr] at ho; cases ho; exact hne ht
          have hol : y ∈ sliceOf (st.svcRoutes d.name) := hold.mpr ⟨o, hr, ht⟩
          have hfirst : ¬ ∃ r, some o = some r ∧ r.target = t := by
            rintro ⟨r, hh, hrt⟩; cases hh; exact htn (hrt.symm.trans ht)
          by_cases hl : listed d.services y
          · obtain ⟨j, _, h1, _⟩ := k3 o hr ht hl
            have hin := hacc.mpr ⟨hl, hnf⟩
            constructor
            · rintro (hh | ⟨_, hb⟩)
              · exact absurd hh hfirst
              · rw [Bool.and_eq_true] at hb
                exact absurd hin (of_decide_eq_true hb.1)
            · rintro ⟨r, hh, hrt⟩
              rw [h1] at hh; cases hh; exact absurd hrt.symm htn
          · obtain ⟨h1, _⟩ := k4 o hr ht hl
            have hin : y ∉ (addLoop d.name d.ver d.services 0 ⟨st.routes, st.waiting, []⟩).acc := by
              rw [hacc]; exact fun hh => hl hh.1
            constructor
            · rintro (hh | ⟨_, hb⟩)
              · exact absurd hh hfirst
              · rw [Bool.and_eq_true] at hb
                have hb2 := of_decide_eq_true hb.2
                dsimp only at hb2
                rw [hw1 o hr ht hl] at hb2
                cases hw : (st.waiting y).head? with
                | none => rw [hw] at hb2; cases hb2
                | some e =>
                  rw [hw] at hb2
                  simp only [Option.map_some, Option.some.injEq] at hb2
                  exact ⟨e, by rw [h1, hw], hb2⟩
            · rintro ⟨r, hh, hrt⟩
              rw [h1] at hh
              right
              refine ⟨hol, ?_⟩
              rw [Bool.and_eq_true]
              refine ⟨decide_eq_true hin, decide_eq_true ?_⟩
              dsimp only
              rw [hw1 o hr ht hl, hh]
              simp [hrt]
        · have hno : y ∉ sliceOf (st.svcRoutes d.name) := by
            rw [hold]; rintro ⟨r, hr', ht'⟩; rw [hr] at hr'; cases hr'; exact ht ht'
          have h1 : (updateRoutes st d).routes y = some o := by
            by_cases hl : listed d.services y
            · obtain ⟨_, _, h1, _⟩ := k5 o hr ht hl; exact h1
            · exact (k6 o hr ht hl).1
          constructor
          · rintro (⟨r, hh, hrt⟩ | ⟨hh, _⟩)
            · cases hh; exact ⟨_, h1, hrt⟩
            · exact absurd hh hno
          · rintro ⟨r, hh, hrt⟩
            rw [h1] at hh; cases hh
            exact Or.inl ⟨_, rfl, hrt⟩
  · -- svNodup
    intro t
    by_cases htn : t = d.name
    · subst htn
      show (sliceOf (upd _ d.name (some _) d.name)).Nodup
      rw [upd_same]
      obtain ⟨_, _, _, a4, _, _⟩ := addLoop_spec d.name d.ver d.services 0 ⟨st.routes, st.waiting, []⟩ []
      exact a4 (by simp)
    · show (sliceOf (upd _ d.name (some _) t)).Nodup
      rw [upd_other _ _ _ htn, delLoop_sv _ _ _ (h.svNodup d.name) t, List.nodup_append]
      refine ⟨h.svNodup t, nodup_filter _ (h.svNodup d.name), ?_⟩
      intro y hy z hz hyz
      subst hyz
      obtain ⟨r, hr, hrt⟩ := (h.owned t y).mp hy
      obtain ⟨r', hr', hrt'⟩ := (h.owned d.name y).mp (List.mem_filter.mp hz).1
      rw [hr] at hr'; cases hr'
      exact htn (hrt.symm.trans hrt')

theorem WInv_remove {st : SvcState} (h : WInv st) (n : Name) : WInv (st.removeTarget n) := by
  have key := fun x => remove_key h n x
  have hsv : ∀ t, (st.removeTarget n).svcRoutes t =
      upd (delLoop [] (sliceOf (st.svcRoutes n)) ⟨st.routes, st.waiting, st.svcRoutes⟩).sv n none t := fun _ => rfl
  refine ⟨?_, ?_, ?_, ?_⟩
  · intro x hx
    obtain ⟨k1, k2, k3⟩ := key x
    cases hr : st.routes x with
    | none => exact (k1 hr).2
    | some o =>
      by_cases ht : o.target = n
      · obtain ⟨h1, h2⟩ := k2 o hr ht
        rw [h1] at hx; rw [h2]
        cases hw : st.waiting x with
        | nil => rfl
        | cons e es => rw [hw] at hx; cases hx
      · rw [(k3 o hr ht).1] at hx; cases hx
  · intro x
    rw [ent_remove h n x]; exact nodup_dropClaim _ (h.nodup x)
  · intro t y
    obtain ⟨k1, k2, k3⟩ := key y
    have hold : y ∈ sliceOf (st.svcRoutes n) ↔ ∃ r, st.routes y = some r ∧ r.target = n := h.owned _ _
    rw [hsv]
    by_cases htn : t = n
    · subst htn
      rw [upd_same]
      simp only [sliceOf, List.not_mem_nil, false_iff, not_exists, not_and]
      intro r hh hrt
      cases hr : st.routes y with
      | none => rw [(k1 hr).1] at hh; cases hh
      | some o =>
        by_cases ht : o.target = t
        · rw [(k2 o hr ht).1] at hh
          exact h.head_waiting_ne hr hh (hrt.trans ht.symm)
        · rw [(k3 o hr ht).1] at hh; cases hh; exact ht hrt
    · rw [upd_other _ _ _ htn, delLoop_sv _ _ _ (h.svNodup n) t, List.mem_append, List.mem_filter, h.owned t y]
      cases hr : st.routes y with
      | none =>
        have hno : y ∉ sliceOf (st.svcRoutes n) := by rw [hold]; rintro ⟨r, hr', _⟩; rw [hr] at hr'; cases hr'
        have h1 := (k1 hr).1
        constructor
        · rintro (⟨r, hh, _⟩ | ⟨hh, _⟩)
          · cases hh
          · exact absurd hh hno
        · rintro ⟨r, hh, _⟩; rw [h1] at hh; cases hh
      | some o =>
        by_cases ht : o.target = n
        · have hol : y ∈ sliceOf (st.svcRoutes n) := hold.mpr ⟨o, hr, ht⟩
          have h1 := (k2 o hr ht).1
          constructor
          · rintro (⟨r, hh, hrt⟩ | ⟨_, hb⟩)
            · cases hh; exact absurd (hrt.symm.trans ht) htn
            · rw [Bool.and_eq_true] at hb
              have hb2 := of_decide_eq_true hb.2
              dsimp only at hb2
              cases hw : (st.waiting y).head? with
              | none => rw [hw] at hb2; cases hb2
              | some e =>
                rw [hw] at hb2
                simp only [Option.map_some, Option.some.injEq] at hb2
                exact ⟨e, by rw [h1, hw], hb2⟩
          · rintro ⟨r, hh, hrt⟩
            rw [h1] at hh
            right
            refine ⟨hol, ?_⟩
            rw [Bool.and_eq_true]
            refine ⟨decide_eq_true (by simp), decide_eq_true ?_⟩
            dsimp only
            rw [hh]; simp [hrt]
        · have hno : y ∉ sliceOf (st.svcRoutes n) := by
            rw [hold]; rintro ⟨r, hr', ht'⟩; rw [hr] at hr'; cases hr'; exact ht ht'
          have h1 := (k3 o hr ht).1
          constructor
          · rintro (⟨r, hh, hrt⟩ | ⟨hh, _⟩)
            · cases hh; exact ⟨_, h1, hrt⟩
            · exact absurd hh hno
          · rintro ⟨r, hh, hrt⟩
            rw [h1] at hh; cases hh
            exact Or.inl ⟨_, rfl, hrt⟩
  · intro t
    rw [hsv]
    by_cases htn : t = n
    · subst htn; rw [upd_same]; simp [sliceOf]
    · rw [upd_other _ _ _ htn, delLoop_sv _ _ _ (h.svNodup n) t, List.nodup_append]
      refine ⟨h.svNodup t, nodup_filter _ (h.svNodup n), ?_⟩
      intro y hy z hz hyz
      subst hyz
      obtain ⟨r, hr, hrt⟩ := (h.owned t y).mp hy
      obtain ⟨r', hr', hrt'⟩ := (h.owned n y).mp (List.mem_filter.mp hz).1
      rw [hr] at hr'; cases hr'
      exact htn (hrt.symm.trans hrt')

theorem WInv_step {st : SvcState} (h : WInv st) (op : Op) : WInv (st.step op).1 := by
  cases op with
  | watch n =>
    simp only [SvcState.step]
    split
    · exact h
    · exact ⟨h.empty, h.nodup, h.owned, h.svNodup⟩
  | update n d =>
    simp only [SvcState.step]
    split
    · exact h
    · split
      · exact h
      · exact WInv_update h d
  | close n =>
    simp only [SvcState.step]
    split
    · exact h
    · have := WInv_remove h n
      exact ⟨this.empty, this.nodup, this.owned, this.svNodup⟩

theorem WInv_run {st : SvcState} (h : WInv st) (ops : List Op) : WInv (st.run ops) := by
  induction ops generalizing st with
  | nil => exact h
  | cons op ops ih => exact ih (WInv_step h op)

/-! ### refinement: the entries of every service are the claims of the specification, in claim order -/

theorem filterMap_congr' {α β : Type} {f g : α → Option β} {l : List α} (h : ∀ a ∈ l, f a = g a) :
    l.filterMap f = l.filterMap g := by
  induction l with
  | nil => rfl
  | cons a as ih =>
    simp only [List.filterMap_cons, h a (by simp)]
    rw [ih (fun b hb => h b (by simp [hb]))]

theorem spec_record (C : List Name) (f f' : Name → Option SvcRoute) (n : Name) (new : SvcRoute)
    (hnd : C.Nodup) (hf : ∀ m ∈ C, ∃ r, f m = some r ∧ r.target = m) (hsame : ∀ m, m ≠ n → f' m = f m)
    (hnew : f' n = some new) (hnt : new.target = n) :
    (if n ∈ C then C else C ++ [n]).filterMap f' = recordClaim (C.filterMap f) new := by
  induction C with
  | nil => simp [hnew, recordClaim]
  | cons m ms ih =>
    obtain ⟨hm, hnd'⟩ := List.nodup_cons.mp hnd
    obtain ⟨r, hr, hrt⟩ := hf m (by simp)
    have hf' : ∀ k ∈ ms, ∃ r, f k = some r ∧ r.target = k := fun k hk => hf k (by simp [hk])
    by_cases hmn : m = n
    · subst hmn
      have hrest : ms.filterMap f' = ms.filterMap f :=
        filterMap_congr' (fun k hk => hsame k (fun e => hm (by rw [← e]; exact hk)))
      simp [hnew, hr, hrest, recordClaim, hrt, hnt]
    · have hne : n ≠ m := fun e => hmn e.symm
      have ih' := ih hnd' hf'
      have hrt' : r.target ≠ new.target := by rw [hrt, hnt]; exact hmn
      simp only [List.mem_cons, hne, false_or, List.filterMap_cons, hr, recordClaim, hrt', ↓reduceIte]
      by_cases hin : n ∈ ms
      · simp only [hin, ↓reduceIte, List.filterMap_cons, hsame m hmn, hr] at ih' ⊢
        rw [ih']
      · simp only [hin, ↓reduceIte, List.cons_append, List.filterMap_cons, hsame m hmn, hr] at ih' ⊢
        rw [ih']

theorem spec_drop (C : List Name) (f f' : Name → Option SvcRoute) (n : Name)
    (hnd : C.Nodup) (hf : ∀ m ∈ C, ∃ r, f m = some r ∧ r.target = m) (hsame : ∀ m, m ≠ n → f' m = f m) :
    (C.filter (fun m => decide (m ≠ n))).filterMap f' = dropClaim (C.filterMap f) n := by
  induction C with
  | nil => simp [dropClaim]
  | cons m ms ih =>
    obtain ⟨hm, hnd'⟩ := List.nodup_cons.mp hnd
    obtain ⟨r, hr, hrt⟩ := hf m (by simp)
    have hf' : ∀ k ∈ ms, ∃ r, f k = some r ∧ r.target = k := fun k hk => hf k (by simp [hk])
    by_cases hmn : m = n
    · subst hmn
      have hne : ∀ k ∈ ms, k ≠ m := fun k hk e => hm (by rw [← e]; exact hk)
      have hfilt : ms.filter (fun k => decide (k ≠ m)) = ms := by
        rw [List.filter_eq_self]; intro k hk; exact decide_eq_true (hne k hk)
      have hrest : ms.filterMap f' = ms.filterMap f := filterMap_congr' (fun k hk => hsame k (hne k hk))
      rw [List.filter_cons, if_neg (by simp), hfilt, hrest]
      simp only [List.filterMap_cons, hr, dropClaim, hrt, ↓reduceIte]
    · have hrt' : r.target ≠ n := by rw [hrt]; exact hmn
      rw [List.filter_cons, if_pos (decide_eq_true hmn)]
      simp only [List.filterMap_cons, hsame m hmn, hr, dropClaim, hrt', ↓reduceIte]
      rw [ih hnd' hf']

structure RInv (st : SvcState) (l : Latest) (c : Claims) : Prop where
  winv : WInv st
  watch : ∀ n, st.watching n = l.watched n
  entries : ∀ x, ent st x = specEntries l c x
  claims : ∀ x n, n ∈ c x ↔ Lists l n x
  cNodup : ∀ x, (c x).Nodup

theorem RInv_init : RInv SvcState.init Latest.init (fun _ => []) := by
  refine ⟨WInv_init, fun _ => rfl, ?_, ?_, ?_⟩
  · intro x; simp [ent, SvcState.init, specEntries]
  · intro x n
    simp only [List.not_mem_nil, false_iff]
    rintro ⟨d, hd, _⟩; simp [Latest.desc, Latest.init] at hd
  · intro x; simp

theorem RInv.entry_of_claim {st : SvcState} {l : Latest} {c : Claims} (h : RInv st l c) (x : SvcName) :
    ∀ m ∈ c x, ∃ r, specSvcRoute l m x = some r ∧ r.target = m :=
  fun m hm => lists_specSvcRoute ((h.claims x m).mp hm)

theorem Lists_of_desc {l : Latest} {n : Name} {d : Desc} (hd : l.desc n = some d) (x : SvcName) :
    Lists l n x ↔ listed d.services x := by
  constructor
  · rintro ⟨d', hd', hs⟩; rw [hd] at hd'; cases hd'; exact hs
  · intro hs; exact ⟨d, hd, hs⟩

theorem RInv_step {st : SvcState} {l : Latest} {c : Claims} (h : RInv st l c) (op : Op) :
    RInv (st.step op).1 (l.step op) (c.step l op) := by
  cases op with
  | watch n =>
    have hdesc : ∀ m, (l.step (.watch n)).desc m = l.desc m := desc_watch l n
    have hst : (st.step (.watch n)).1.routes = st.routes ∧ (st.step (.watch n)).1.waiting = st.waiting ∧
        (st.step (.watch n)).1.svcRoutes = st.svcRoutes := by
      simp only [SvcState.step]; split <;> exact ⟨rfl, rfl, rfl⟩
    refine ⟨WInv_step h.winv _, ?_, ?_, ?_, h.cNodup⟩
    · intro m
      rw [watched_watch, ← h.watch]
      simp only [SvcState.step]
      by_cases hw : st.watching n = true
      · simp only [hw, ↓reduceIte]
        by_cases hm : m = n
        · subst hm; simp [hw]
        · simp [hm]
      · simp only [hw, Bool.false_eq_true, ↓reduceIte]
        by_cases hm : m = n
        · subst hm; simp [upd_same]
        · simp [upd_other _ _ _ hm, hm]
    · intro x
      have : ent (st.step (.watch n)).1 x = ent st x := by simp [ent, hst.1, hst.2.1]
      rw [this, h.entries x]
      simp only [specEntries, Claims.step]
      exact filterMap_congr' (fun m _ => (specSvcRoute_congr (hdesc m) x).symm)
    · intro x m
      show m ∈ c x ↔ _
      rw [h.claims x m, Lists_congr (hdesc m) x]
  | update n d =>
    by_cases hv : st.watching n = true ∧ d.name = n
    · obtain ⟨hw, hd⟩ := hv
      subst hd
      have hlw : l.watched d.name = true := by rw [← h.watch]; exact hw
      have hst : (st.step (.update d.name d)).1 = updateRoutes st d := by simp [SvcState.step, hw]
      have hdn : (l.step (.update d.name d)).desc d.name = some d := by rw [desc_update]; simp [hlw]
      have hdo : ∀ m, m ≠ d.name → (l.step (.update d.name d)).desc m = l.desc m := by
        intro m hm; rw [desc_update]; simp [hm]
      have hc : ∀ x, (c.step l (.update d.name d)) x =
          if listedB d.services x then (if d.name ∈ c x then c x else c x ++ [d.name])
          else (c x).filter (fun m => decide (m ≠ d.name)) := by
        intro x; simp [Claims.step, hlw]
      have hsame : ∀ x m, m ≠ d.name →
          specSvcRoute (l.step (.update d.name d)) m x = specSvcRoute l m x :=
        fun x m hm => specSvcRoute_congr (hdo m hm) x
      rw [hst]
      refine ⟨WInv_update h.winv d, ?_, ?_, ?_, ?_⟩
      · intro m; rw [watched_update]; exact h.watch m
      · intro x
        obtain ⟨e1, e2⟩ := ent_update h.winv d x
        simp only [specEntries]
        rw [hc x]
        by_cases hl : listed d.services x
        · obtain ⟨j, hj, he⟩ := e1 hl
          rw [he, h.entries x, (listedB_iff _ _).mpr hl]
          simp only [↓reduceIte, specEntries]
          exact (spec_record (c x) _ _ d.name ⟨d.name, d.ver, j⟩ (h.cNodup x) (h.entry_of_claim x)
            (hsame x) (by simp [specSvcRoute, hdn, hj]) rfl).symm
        · rw [e2 hl, h.entries x, (listedB_false _ _).mpr hl]
          simp only [Bool.false_eq_true, ↓reduceIte, specEntries]
          exact (spec_drop (c x) _ _ d.name (h.cNodup x) (h.entry_of_claim x) (hsame x)).symm
      · intro x m
        rw [hc x]
        by_cases hm : m = d.name
        · subst hm
          rw [Lists_of_desc hdn x]
          by_cases hl : listed d.services x
          · simp only [(listedB_iff _ _).mpr hl, ↓reduceIte, hl, iff_true]
            by_cases hin : d.name ∈ c x <;> simp [hin]
          · simp [(listedB_false _ _).mpr hl, hl]
        · rw [Lists_congr (hdo m hm) x, ← h.claims x m]
          by_cases hl : listedB d.services x = true
          · simp only [hl, ↓reduceIte]
            by_cases hin : d.name ∈ c x <;> simp [hin, hm]
          · simp [hl, hm]
      · intro x
        rw [hc x]
        by_cases hl : listedB d.services x = true
        · simp only [hl, ↓reduceIte]
          by_cases hin : d.name ∈ c x
          · simp [hin, h.cNodup x]
          · simp only [hin, ↓reduceIte]
            rw [List.nodup_append]
            exact ⟨h.cNodup x, by simp, fun a ha b hb => by simp at hb; subst hb; exact fun e => hin (e ▸ ha)⟩
        · simp only [hl, Bool.false_eq_true, ↓reduceIte]; exact nodup_filter _ (h.cNodup x)
    · have hst : (st.step (.update n d)).1 = st := by
        simp only [SvcState.step]
        by_cases hw : st.watching n = true
        · have hd : d.name ≠ n := fun e => hv ⟨hw, e⟩
          simp [hw, hd]
        · simp [hw]
      have hv' : ¬ (l.watched n = true ∧ d.name = n) := by rw [← h.watch]; exact hv
      have hdesc : ∀ m, (l.step (.update n d)).desc m = l.desc m := by
        intro m; rw [desc_update]
        have : ¬ (l.watched n = true ∧ d.name = n ∧ m = n) := fun ⟨a, b, _⟩ => hv' ⟨a, b⟩
        simp [this]
      have hc : c.step l (.update n d) = c := by simp [Claims.step, hv']
      rw [hst, hc]
      refine ⟨h.winv, ?_, ?_, ?_, h.cNodup⟩
      · intro m; rw [watched_update]; exact h.watch m
      · intro x
        rw [h.entries x]
        exact filterMap_congr' (fun m _ => (specSvcRoute_congr (hdesc m) x).symm)
      · intro x m; rw [h.claims x m, Lists_congr (hdesc m) x]
  | close n =>
    have hdo : ∀ m, m ≠ n → (l.step (.close n)).desc m = l.desc m := by
      intro m hm; rw [desc_close]; simp [hm]
    have hdn : (l.step (.close n)).desc n = none := by rw [desc_close]; simp
    have hsame : ∀ x m, m ≠ n → specSvcRoute (l.step (.close n)) m x = specSvcRoute l m x :=
      fun x m hm => specSvcRoute_congr (hdo m hm) x
    have hclaims : ∀ x m, m ∈ (c x).filter (fun k => decide (k ≠ n)) ↔ Lists (l.step (.close n)) m x := by
      intro x m
      by_cases hm : m = n
      · subst hm
        simp only [List.mem_filter, ne_eq, not_true_eq_false, decide_false, Bool.false_eq_true, and_false, false_iff]
        rintro ⟨d, hd, _⟩; rw [hdn] at hd; cases hd
      · rw [Lists_congr (hdo m hm) x, ← h.claims x m]; simp [hm]
    by_cases hw : st.watching n = true
    · have hent : ∀ x, ent (st.step (.close n)).1 x = ent (st.removeTarget n) x := by
        intro x; simp [SvcState.step, hw, ent]
      have hW := WInv_remove h.winv n
      refine ⟨?_, ?_, ?_, hclaims, fun x => nodup_filter _ (h.cNodup x)⟩
      · have : (st.step (.close n)).1 = { (st.removeTarget n) with watching := upd st.watching n false } := by
          simp [SvcState.step, hw]
        rw [this]; exact ⟨hW.empty, hW.nodup, hW.owned, hW.svNodup⟩
      · intro m
        rw [watched_close, ← h.watch]
        simp only [SvcState.step, hw, Bool.not_true, Bool.false_eq_true, ↓reduceIte]
        show upd st.watching n false m = _
        by_cases hm : m = n
        · subst hm; simp [upd_same]
        · simp [upd_other _ _ _ hm, hm]
      · intro x
        rw [hent x, ent_remove h.winv n x, h.entries x]
        exact (spec_drop (c x) _ _ n (h.cNodup x) (h.entry_of_claim x) (hsame x)).symm
    · have hst : (st.step (.close n)).1 = st := by simp [SvcState.step, hw]
      have hlw : l.watched n = false := by rw [← h.watch]; simpa using hw
      have hnot : ∀ x, n ∉ c x := by
        intro x hin
        obtain ⟨d, hd, _⟩ := (h.claims x n).mp hin
        have := desc_some_watched l n d hd
        rw [hlw] at this; cases this
      have hfilt : ∀ x, (c x).filter (fun k => decide (k ≠ n)) = c x := by
        intro x; rw [List.filter_eq_self]; intro k hk
        exact decide_eq_true (fun e => hnot x (by rw [← e]; exact hk))
      rw [hst]
      refine ⟨h.winv, ?_, ?_, hclaims, fun x => nodup_filter _ (h.cNodup x)⟩
      · intro m
        rw [watched_close, ← h.watch]
        by_cases hm : m = n
        · subst hm; simp at hw; simp [hw]
        · simp [hm]
      · intro x
        rw [h.entries x]
        show specEntries l c x = ((c x).filter (fun k => decide (k ≠ n))).filterMap _
        rw [hfilt x]
        exact filterMap_congr' (fun m hm => (hsame x m (fun e => hnot x (by rw [← e]; exact hm))).symm)

theorem RInv_run : ∀ (ops : List Op) {st : SvcState} {l : Latest} {c : Claims}, RInv st l c →
    RInv (st.run ops) (ops.foldl Latest.step l) (claimsFrom l c ops) := by
  intro ops
  induction ops with
  | nil => intro st l c h; exact h
  | cons op ops ih => intro st l c h; exact ih (RInv_step h op)

/-! ### consequences -/

theorem claimsFrom_snoc (ops : List Op) : ∀ (l : Latest) (c : Claims) (op : Op),
    claimsFrom l c (ops ++ [op]) = (claimsFrom l c ops).step (ops.foldl Latest.step l) op := by
  induction ops with
  | nil => intro l c op; rfl
  | cons o os ih => intro l c op; simp only [List.cons_append, claimsFrom, List.foldl_cons]; exact ih _ _ _

theorem claimsOf_snoc (h : List Op) (op : Op) : claimsOf (h ++ [op]) = (claimsOf h).step (latestOf h) op :=
  claimsFrom_snoc h _ _ op

theorem RInv_history (h : List Op) : RInv (SvcState.init.run h) (latestOf h) (claimsOf h) :=
  RInv_run h RInv_init

theorem RInv.routes_eq {st : SvcState} {l : Latest} {c : Claims} (h : RInv st l c) (x : SvcName) :
    st.routes x = specOwner l c x ∧ st.waiting x = (specEntries l c x).tail := by
  have he := h.entries x
  unfold specOwner
  rw [← he]
  cases hr : st.routes x with
  | none => simp [ent, hr, h.winv.empty x hr]
  | some o => simp [ent, hr]

/-- the owner is the FIRST claimant, with its latest description -/
theorem RInv.owner_head {st : SvcState} {l : Latest} {c : Claims} (h : RInv st l c) (x : SvcName) :
    st.routes x = match c x with
      | [] => none
      | n :: _ => specSvcRoute l n x := by
  rw [(h.routes_eq x).1]
  unfold specOwner specEntries
  cases hc : c x with
  | nil => rfl
  | cons n rest =>
    obtain ⟨r, hr, _⟩ := h.entry_of_claim x n (by rw [hc]; simp)
    simp [hr]

theorem RInv.claims_unique {st : SvcState} {l : Latest} {c : Claims} (h : RInv st l c) (x : SvcName) (n : Name)
    (hl : Lists l n x) (hu : ∀ m, Lists l m x → m = n) : c x = [n] := by
  have hmem := (h.claims x n).mpr hl
  have hnd := h.cNodup x
  cases hc : c x with
  | nil => rw [hc] at hmem; cases hmem
  | cons a as =>
    rw [hc] at hnd
    have ha : a = n := hu a ((h.claims x a).mp (by rw [hc]; simp))
    subst ha
    cases as with
    | nil => rfl
    | cons b bs =>
      have hb : b = a := hu b ((h.claims x b).mp (by rw [hc]; simp))
      subst hb
      simp at hnd

theorem RInv.claims_empty {st : SvcState} {l : Latest} {c : Claims} (h : RInv st l c) (x : SvcName)
    (hn : ∀ m, ¬ Lists l m x) : c x = [] := by
  cases hc : c x with
  | nil => rfl
  | cons a as => exact absurd ((h.claims x a).mp (by rw [hc]; simp)) (hn a)

/-- the last state of a never-shared history is unshared -/
theorem NeverShared_last (svc : SvcName) : ∀ (ops : List Op) (l : Latest), NeverShared svc l ops →
    Unshared (ops.foldl Latest.step l) svc := by
  intro ops
  induction ops with
  | nil => intro l h; exact h
  | cons op ops ih => intro l h; exact ih _ h.2

/-- an operation that is neither `close n` nor an update of `n` dropping the service keeps `n` the owner
    (needs only the structural invariant) -/
theorem first_claimant_step {st : SvcState} (h : WInv st) (n : Name) (svc : SvcName) (r : SvcRoute)
    (hr : st.routes svc = some r) (hn : r.target = n) (op : Op)
    (hk : op ≠ .close n ∧ ∀ d, op = .update n d → listed d.services svc) :
    ∃ r', (st.step op).1.routes svc = some r' ∧ r'.target = n := by
  cases op with
  | watch m =>
    have : (st.step (.watch m)).1.routes = st.routes := by
      simp only [SvcState.step]; split <;> rfl
    rw [this]; exact ⟨r, hr, hn⟩
  | update m d =>
    by_cases hv : st.watching m = true ∧ d.name = m
    · obtain ⟨hw, hd⟩ := hv
      subst hd
      have hst : (st.step (.update d.name d)).1 = updateRoutes st d := by simp [SvcState.step, hw]
      rw [hst]
      obtain ⟨_, _, k3, _, k5, k6⟩ := update_key h d svc
      by_cases hmn : d.name = n
      · have hl := hk.2 d (by rw [hmn])
        obtain ⟨j, _, h1, _⟩ := k3 r hr (hn.trans hmn.symm) hl
        exact ⟨_, h1, hmn⟩
      · have hne : r.target ≠ d.name := fun e => hmn (e.symm.trans hn)
        by_cases hl : listed d.services svc
        · obtain ⟨_, _, h1, _⟩ := k5 r hr hne hl; exact ⟨r, h1, hn⟩
        · exact ⟨r, (k6 r hr hne hl).1, hn⟩
    · have hst : (st.step (.update m d)).1 = st := by
        simp only [SvcState.step]
        by_cases hw : st.watching m = true
        · have hd : d.name ≠ m := fun e => hv ⟨hw, e⟩
          simp [hw, hd]
        · simp [hw]
      rw [hst]; exact ⟨r, hr, hn⟩
  | close m =>
    have hmn : m ≠ n := by intro e; subst e; exact hk.1 rfl
    by_cases hw : st.watching m = true
    · have hst : (st.step (.close m)).1.routes = (st.removeTarget m).routes := by simp [SvcState.step, hw]
      rw [hst]
      obtain ⟨_, _, k3⟩ := remove_key h m svc
      exact ⟨r, (k3 r hr (fun e => hmn (e.symm.trans hn))).1, hn⟩
    · have hst : (st.step (.close m)).1 = st := by simp [SvcState.step, hw]
      rw [hst]; exact ⟨r, hr, hn⟩

theorem first_claimant_run (n : Name) (svc : SvcName) : ∀ (ops : List Op) (st : SvcState), WInv st →
    (∃ r, st.routes svc = some r ∧ r.target = n) → Keeps n svc ops →
    ∃ r', (st.run ops).routes svc = some r' ∧ r'.target = n := by
  intro ops
  induction ops with
  | nil => intro st _ h _; exact h
  | cons op ops ih =>
    intro st h ⟨r, hr, hn⟩ hk
    have hop := hk op (by simp)
    exact ih _ (WInv_step h op) (first_claimant_step h n svc r hr hn op hop)
      (fun o ho => hk o (by simp [ho]))

end GB.C06
