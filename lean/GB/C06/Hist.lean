import GB.Base.Proto
import GB.C06.Tmpl
import GB.C06.Spec
import GB.C14.Spec
/-
  Judge of one *history line* (shared by the areas c06 and c14):

    hist K=<pool names> [P=…] [G=…] [H=…] [W=…] [X=…] <op> <op> … => <step token> <step token> …

  ops     w=<name>  |  c=<name>  |  u=<name>=<desc>      (version of a description = index of its op)
  desc    <name>@<svc>;<svc>…     svc = <name>:<meth>,<meth>…     meth = <rpcName>/<bind>/<bind>…   bind = <httpMethod>~<pattern>
  probes  P = PatternRouter.RouteHTTP (method~path)      G = ServiceRouter.RouteGRPC (name, `-` = no method in ctx)
          H = ServiceRouter.RouteHTTP on a request parsed by net/http from method~target
          W = GRPCWebBridge.ServeHTTP (request parsed by net/http from target; fake forwarder observes the route)
          X = GRPCProxy.StreamHandler (fake stream with that method; fake forwarder observes the route)
  After EVERY op every probe is evaluated; a step token is  <opres>;<P…>;<G…>;<H…>;<W…>;<X…>  (results joined by ',').

  Verdict per line: the implementation's tokens are compared (a) with the executable models
  (`PatState`, `SvcState`, `routeHTTP`, `routeGRPC`, `routeHTTPsvc`) — any difference is a DIFF — and
  (b) with the *specification*: pattern probes must be answered as some ordering of the table built from
  the latest descriptions would (exactly one answer when uncontested); service probes must be answered by
  the unique live lister with its latest version when the service was never shared, otherwise by nobody or
  a current lister with its latest version, and an owner that keeps listing keeps the service — any breach is a VIOL.
-/
namespace GB.C06.Hist
open GB GB.Proto GB.C06 GB.C14

def splitNE (s : String) (sep : String) : List String := if s.isEmpty then [] else s.splitOn sep

def allSome {α : Type} : List (Option α) → Option (List α)
  | [] => some []
  | none :: _ => none
  | some a :: rest => (allSome rest).map (a :: ·)

def parseBinding (s : String) : Option Binding :=
  match s.splitOn "~" with
  | [m, p] => match parseHex m, parseHex p with
    | some m, some p => some ⟨m, p⟩
    | _, _ => none
  | _ => none

def parseMethod (s : String) : Option Method :=
  match s.splitOn "/" with
  | [] => none
  | r :: bs => match parseHex r, allSome (bs.map parseBinding) with
    | some r, some bs => some ⟨r, bs⟩
    | _, _ => none

def parseService (s : String) : Option Service :=
  match s.splitOn ":" with
  | [n, ms] => match parseHex n, allSome ((splitNE ms ",").map parseMethod) with
    | some n, some ms => some ⟨n, ms⟩
    | _, _ => none
  | _ => none

def parseDesc (ver : Nat) (s : String) : Option Desc :=
  match s.splitOn "@" with
  | [n, ss] => match parseHex n, allSome ((splitNE ss ";").map parseService) with
    | some n, some ss => some ⟨n, ver, ss⟩
    | _, _ => none
  | _ => none

def parseOp (idx : Nat) (tok : String) : Option Op :=
  match tok.splitOn "=" with
  | ["w", n] => (parseHex n).map Op.watch
  | ["c", n] => (parseHex n).map Op.close
  | ["u", n, d] => match parseHex n, parseDesc idx d with
    | some n, some d => some (.update n d)
    | _, _ => none
  | _ => none

structure Probes where
  pool : List Name := []
  p : List (HMethod × Bytes) := []
  g : List (Option Bytes) := []
  h : List (HMethod × Bytes) := []
  w : List Bytes := []
  x : List Bytes := []

def parsePair (s : String) : Option (Bytes × Bytes) :=
  match s.splitOn "~" with
  | [a, b] => match parseHex a, parseHex b with
    | some a, some b => some (a, b)
    | _, _ => none
  | _ => none

def parseOptHex (s : String) : Option (Option Bytes) := if s = "-" then some none else (parseHex s).map some

/-- consume the probe tokens in front of the ops -/
def parseProbes : List String → Probes → Option (Probes × List String)
  | [], pr => some (pr, [])
  | tok :: rest, pr =>
    if tok.startsWith "K=" then
      (allSome ((splitNE (tok.drop 2).toString ",").map parseHex)).bind fun v => parseProbes rest { pr with pool := v }
    else if tok.startsWith "P=" then
      (allSome ((splitNE (tok.drop 2).toString ",").map parsePair)).bind fun v => parseProbes rest { pr with p := v }
    else if tok.startsWith "G=" then
      (allSome ((splitNE (tok.drop 2).toString ",").map parseOptHex)).bind fun v => parseProbes rest { pr with g := v }
    else if tok.startsWith "H=" then
      (allSome ((splitNE (tok.drop 2).toString ",").map parsePair)).bind fun v => parseProbes rest { pr with h := v }
    else if tok.startsWith "W=" then
      (allSome ((splitNE (tok.drop 2).toString ",").map parseHex)).bind fun v => parseProbes rest { pr with w := v }
    else if tok.startsWith "X=" then
      (allSome ((splitNE (tok.drop 2).toString ",").map parseHex)).bind fun v => parseProbes rest { pr with x := v }
    else some (pr, tok :: rest)

/-! ### tokens -/

def showOpRes : OpRes → String
  | .ok => "ok" | .already => "already" | .noop => "noop"

def showHTTPRes : HTTPRes → String
  | .status c => s!"S{c}"
  | .found n v r =>
    let b := match r.bindIdx with | some i => toString i | none => "d"
    s!"F.{toHex n}.{v}.{r.svcIdx}.{r.methIdx}.{b}"

def showGRPCRes : GRPCRes → String
  | .status c => s!"S{c}"
  | .ok t v i rpc => s!"F.{toHex t}.{v}.{i}.{toHex rpc}"

def showHTTPSvcRes : HTTPSvcRes → String
  | .status c none => s!"S{c}.-"
  | .status c (some h) => s!"S{c}.{h}"
  | .ok t v i rpc bm bp => s!"F.{toHex t}.{v}.{i}.{toHex rpc}.{toHex bm}.{toHex bp}"

def showURL (u : URL) : String := s!"@{toHex u.path}@{toHex u.rawPath}"

/-! ### specification side -/

/-- declarative split of a name: optional '/', service up to the next '/', the rest is the method -/
def specParse (s : Bytes) : Option (Bytes × Bytes) :=
  let t := strip s
  match t.span (fun c => c != slash) with
  | (_, []) => none
  | (svc, _ :: m) => some (svc, m)

def opNames : List Op → List Name
  | [] => []
  | .watch n :: r => n :: opNames r
  | .close n :: r => n :: opNames r
  | .update n d :: r => n :: d.name :: opNames r

/-- live targets whose latest description lists `svc`, with the route a fresh table would hold -/
def listers (lat : Latest) (names : List Name) (svc : SvcName) : List SvcRoute :=
  names.filterMap (fun n => specSvcRoute lat n svc)

/-! ### keeping the function-valued state shallow

  The models represent Go maps as functions; a history of k operations yields k nested closures and
  some of them consult the previous map twice per lookup (`match rt m with | none => rt | …`), which
  costs 2^k at run time.  After every step the driver therefore tabulates each map on the finite key
  universe of the line and continues with `ofTbl tbl f`, which is *the same function*
  (`ofTbl_memoTbl`), just evaluated eagerly. -/

def memoTbl {κ α : Type} (keys : List κ) (f : κ → α) : List (κ × α) := keys.map (fun k => (k, f k))

def ofTbl {κ α : Type} [DecidableEq κ] (tbl : List (κ × α)) (f : κ → α) : κ → α := fun x =>
  match tbl.find? (fun p => decide (p.1 = x)) with
  | some p => p.2
  | none => f x

theorem ofTbl_memoTbl {κ α : Type} [DecidableEq κ] (keys : List κ) (f : κ → α) : ofTbl (memoTbl keys f) f = f := by
  funext x
  simp only [ofTbl]
  cases h : (memoTbl keys f).find? (fun p => decide (p.1 = x)) with
  | none => rfl
  | some p =>
    have h1 := List.mem_of_find?_eq_some h
    have h2 := List.find?_some h
    simp only [memoTbl, List.mem_map] at h1
    obtain ⟨k, _, hk⟩ := h1
    have h3 : p.1 = x := by simpa using h2
    rw [← hk] at h3 ⊢
    simp only at h3 ⊢
    rw [h3]

structure Keys where
  names : List Name
  svcs : List SvcName
  meths : List HMethod

def shallowSvc (k : Keys) (s : SvcState) : SvcState :=
  let w := memoTbl k.names s.watching
  let r := memoTbl k.svcs s.routes
  let c := memoTbl k.names s.svcRoutes
  let q := memoTbl k.svcs s.waiting
  { watching := ofTbl w s.watching, routes := ofTbl r s.routes, svcRoutes := ofTbl c s.svcRoutes,
    waiting := ofTbl q s.waiting }

/-- the specification's claim queues, boxed and tabulated like the rest -/
structure ClaimsBox where
  f : Claims

def shallowClaims (k : Keys) (c : Claims) : ClaimsBox :=
  let t := memoTbl k.svcs c
  { f := ofTbl t c }

theorem shallowClaims_eq (k : Keys) (c : Claims) : (shallowClaims k c).f = c := by
  simp [shallowClaims, ofTbl_memoTbl]

def shallowPat (k : Keys) (s : PatState) : PatState :=
  let w := memoTbl k.names s.watching
  let r := memoTbl k.meths s.routes
  let l := memoTbl k.names s.links
  let c := memoTbl k.meths s.static
  { watching := ofTbl w s.watching, routes := ofTbl r s.routes, links := ofTbl l s.links,
    static := ofTbl c s.static, fault := s.fault }

/-- boxed so that the table is built when the box is, not at every lookup (a definition whose result
    type is a function is compiled with the lookup key as an extra parameter) -/
structure LatBox where
  f : Latest

def shallowLat (k : Keys) (l : Latest) : LatBox :=
  let t := memoTbl k.names l
  { f := ofTbl t l }

theorem shallowSvc_eq (k : Keys) (s : SvcState) : shallowSvc k s = s := by
  simp [shallowSvc, ofTbl_memoTbl]

theorem shallowPat_eq (k : Keys) (s : PatState) : shallowPat k s = s := by
  simp [shallowPat, ofTbl_memoTbl]

theorem shallowLat_eq (k : Keys) (l : Latest) : (shallowLat k l).f = l := by
  simp [shallowLat, ofTbl_memoTbl]

structure JState where
  pat : PatState := PatState.init
  svc : SvcState := SvcState.init
  lat : Latest := Latest.init
  claims : Claims := fun _ => []        -- the specification's claim queue per service

/-- service names the service probes talk about (one per probe, in the order G H W X; `none` = malformed) -/
def probeSvcs (pr : Probes) : List (Option SvcName) :=
  pr.g.map (fun o => match o with | some s => (specParse s).map (·.1) | none => none) ++
  pr.h.map (fun (_, t) => (specParse (targetPath t)).map (·.1)) ++
  pr.w.map (fun t => match unescapePath (targetPath t) with
    | some _ => (specParse (targetPath t)).map (·.1) | none => none) ++   -- the path as WRITTEN names the service (fix D39)
  pr.x.map (fun s => (specParse s).map (·.1))

/-- the owner the specification demands: the first claimant, with its latest description -/
def specOwnerOf (lat : Latest) (c : Claims) (svc : SvcName) : Option SvcRoute :=
  match c svc with
  | [] => none
  | n :: _ => specSvcRoute lat n svc

def tokOwner (tok : String) : Option (Option Name) :=
  -- `F.<namehex>.…` ⇒ owner; `S12…`/`S5…` ⇒ nobody; anything else (S14, R, …) ⇒ unknown
  match ((tok.splitOn "@").headD "").splitOn "." with
  | "F" :: n :: _ => (parseHex n).map some
  | s :: _ => if s = "S12" || s = "S5" then some none else none
  | _ => none

structure Verdict where
  viol : Option String := none
  diff : Option String := none
  found : Nat := 0
  tags : List String := []

def Verdict.addViol (v : Verdict) (m : String) : Verdict := if v.viol.isNone then { v with viol := some m } else v
def Verdict.addDiff (v : Verdict) (m : String) : Verdict := if v.diff.isNone then { v with diff := some m } else v
def Verdict.tag (v : Verdict) (t : String) : Verdict := if v.tags.contains t then v else { v with tags := v.tags ++ [t] }

def zip3 {α β γ : Type} : List α → List β → List γ → List (α × β × γ)
  | a :: as, b :: bs, c :: cs => (a, b, c) :: zip3 as bs cs
  | _, _, _ => []

/-- judge one step: `tok` is the implementation's step token -/
def judgeStep (pr : Probes) (keys : Keys) (names : List Name) (k : Nat) (op : Op) (tok : String) (st : JState) (v : Verdict) :
    JState × Verdict := Id.run do
  let pool : Name → Bool := fun n => pr.pool.contains n
  let (pat0, pres) := st.pat.step validSimple op
  let (svc0, sres) := st.svc.step op
  let pat' := shallowPat keys pat0
  let svc' := shallowSvc keys svc0
  let latBefore := st.lat
  let lat' := (shallowLat keys (st.lat.step op)).f
  let mut v := v
  let parts := tok.splitOn ";"
  if parts.length ≠ 6 then
    return (st, v.addDiff s!"step {k}: malformed step token")
  let part := fun (i : Nat) => splitNE (parts.getD i "") ","
  -- the two routers share the watcher discipline
  if pres ≠ sres then v := v.addDiff s!"step {k}: models disagree on op result"
  let opTok := parts.getD 0 ""
  if opTok ≠ showOpRes pres then
    -- specification of Watch/Close: a name is watchable iff it is not being watched
    let specTok := match op with
      | .watch n => if latBefore.watched n then "already" else "ok"
      | .close n => if latBefore.watched n then "ok" else "noop"
      | .update n d => if latBefore.watched n && d.name = n then "ok" else "noop"
    if opTok ≠ specTok then v := v.addViol s!"step {k}: op result impl={opTok} spec={specTok}"
    else v := v.addDiff s!"step {k}: op result model={showOpRes pres}"
  match pres with
  | .already => v := v.tag "b=already"
  | .noop => v := v.tag "b=noop"
  | .ok => v := v.tag (match op with | .watch _ => "b=watch" | .close _ => "b=close" | .update _ _ => "b=update")
  if pat'.fault then v := v.addDiff s!"step {k}: model fault flag set"
  let svcs := probeSvcs pr
  let claims' := (shallowClaims keys (st.claims.step latBefore op)).f
  if svcs.any (fun so => match so with | some s => (claims' s).length > 1 | none => false) then
    v := v.tag "b=contested-service"
  -- a hand-over: the owner of a probed service changes although somebody owned it before and after
  if svcs.any (fun so => match so with
      | some s => (match st.claims s, claims' s with
        | a :: _, b :: _ => a != b
        | _, _ => false)
      | none => false) then
    v := v.tag "b=handover"
  let st' : JState := { st with pat := pat', svc := svc', lat := lat', claims := claims' }
  -- P probes
  let pImpl := part 1
  if pImpl.length ≠ pr.p.length then v := v.addDiff s!"step {k}: P count"
  for ((m, path), it) in pr.p.zip pImpl do
    let model := showHTTPRes (routeHTTP pool evalSimple pat'.static m path)
    -- acceptable: the answer of the table built from the latest descriptions under some order of the live targets
    let groups := names.filterMap (specGroup validSimple lat' m)
    let decisive := groups.filterMap (fun g => (firstDecisive (evalSimple path) [g]).map (fun _ => g))
    let acc := match path with
      | 47 :: _ => (match decisive with
        | [] => [s!"S{codeNotFound}"]
        | ds => ds.map (fun g => showHTTPRes (routeHTTP pool evalSimple (fun _ => some [g]) m path)))
      | _ => [s!"S{codeInvalidArgument}"]
    if it.startsWith "F." then v := { v with found := v.found + 1 }
    if decisive.length > 1 then v := v.tag "b=contested-request"
    if !acc.contains it then
      v := v.addViol s!"step {k}: pattern probe {toHex m}~{toHex path} impl={it} allowed={acc}"
    else if it ≠ model then v := v.addDiff s!"step {k}: pattern probe {toHex m}~{toHex path} model={model} impl={it}"
  -- service probes: model tokens
  let gModel := pr.g.map (fun o => showGRPCRes (routeGRPC pool svc'.routes o))
  let hModel := pr.h.map (fun (m, t) => match parseTarget t with
    | none => "R"
    | some u => showHTTPSvcRes (routeHTTPsvc pool svc'.routes m u) ++ showURL u)
  let wModel := pr.w.map (fun t => match parseTarget t with
    | none => "R"
    | some u => showGRPCRes (routeGRPC pool svc'.routes (some (webName u))))
  let xModel := pr.x.map (fun s => showGRPCRes (routeGRPC pool svc'.routes (some s)))
  let models := gModel ++ hModel ++ wModel ++ xModel
  let impls := part 2 ++ part 3 ++ part 4 ++ part 5
  if (part 2).length ≠ pr.g.length || (part 3).length ≠ pr.h.length || (part 4).length ≠ pr.w.length
      || (part 5).length ≠ pr.x.length then
    v := v.addDiff s!"step {k}: service probe count"
  -- specification tokens per probe: a function from the acceptable owner to the token
  let gSpec : List (Option SvcRoute → String) :=
    pr.g.map (fun o => fun ow => match o with
      | none => s!"S{codeInternal}"
      | some s => match specParse s, ow with
        | some (svc, m), some r => if pool r.target then s!"F.{toHex r.target}.{r.ver}.{r.idx}.{toHex (slash :: svc ++ slash :: m)}" else s!"S{codeUnavailable}"
        | _, _ => s!"S{codeUnimplemented}")
  let hSpec : List (Option SvcRoute → String) :=
    pr.h.map (fun (hm, t) => fun ow =>
      match t with
      | 47 :: _ =>
        (match unescapePath (targetPath t) with
        | none => "R"
        | some _ =>
          if hm ≠ POST then s!"S{codeUnimplemented}.405"
          else match specParse (targetPath t), ow with
            | some (svc, m), some r =>
              let rpc := toHex (slash :: svc ++ slash :: m)
              if pool r.target then s!"F.{toHex r.target}.{r.ver}.{r.idx}.{rpc}.{toHex POST}.{rpc}" else s!"S{codeUnavailable}.-"
            | _, _ => s!"S{codeNotFound}.-")
      | _ => "R")
  let wSpec : List (Option SvcRoute → String) :=
    pr.w.map (fun t => fun ow =>
      match t with
      | 47 :: _ =>
        (match unescapePath (targetPath t) with
        | none => "R"
        | some _ => match specParse (targetPath t), ow with   -- verbatim, like gRPC's `:path` (fix D39)
          | some (svc, m), some r => if pool r.target then s!"F.{toHex r.target}.{r.ver}.{r.idx}.{toHex (slash :: svc ++ slash :: m)}" else s!"S{codeUnavailable}"
          | _, _ => s!"S{codeUnimplemented}")
      | _ => "R")
  let xSpec : List (Option SvcRoute → String) :=
    pr.x.map (fun s => fun ow => match specParse s, ow with
      | some (svc, m), some r => if pool r.target then s!"F.{toHex r.target}.{r.ver}.{r.idx}.{toHex (slash :: svc ++ slash :: m)}" else s!"S{codeUnavailable}"
      | _, _ => s!"S{codeUnimplemented}")
  let specs := gSpec ++ hSpec ++ wSpec ++ xSpec
  let mut idx := 0
  for ((so, sp), (model, it)) in (svcs.zip specs).zip (models.zip impls) do
    let core := (it.splitOn "@").headD ""
    if core.startsWith "F." then v := { v with found := v.found + 1 }
    let want := match so with
      | some s => specOwnerOf lat' claims' s
      | none => none
    let spec := sp want
    if core ≠ spec then
      let why := match tokOwner core, want with
        | some none, some r => s!"released-service-unrouted (a live target lists it: {toHex r.target})"
        | some (some n), some r => if n ≠ r.target then s!"wrong-claimant (earliest live claimant is {toHex r.target})" else "route data not from the claimant's latest description"
        | some (some _), none => "routed although no live target lists the service"
        | _, _ => "wrong answer"
      v := v.addViol s!"step {k}: service probe #{idx}: {why} impl={core} spec={spec}"
    else if it ≠ model then v := v.addDiff s!"step {k}: service probe #{idx} model={model} impl={it}"
    idx := idx + 1
  return (st', v)

def judgeSteps (pr : Probes) (keys : Keys) (names : List Name) : Nat → List Op → List String → JState → Verdict → Verdict
  | _, [], _, _, v => v
  | k, op :: ops, tok :: toks, st, v =>
    let (st', v') := judgeStep pr keys names k op tok st v
    judgeSteps pr keys names (k + 1) ops toks st' v'
  | k, _ :: _, [], _, v => v.addDiff s!"step {k}: missing step token"

def parseOps : Nat → List String → Option (List Op)
  | _, [] => some []
  | i, t :: ts => match parseOp i t, parseOps (i + 1) ts with
    | some o, some os => some (o :: os)
    | _, _ => none

/-- `hist …` line -/
def judgeHist (inp out : List String) : String :=
  match parseProbes inp {} with
  | none => "BAD probes"
  | some (pr, opToks) =>
    match parseOps 0 opToks with
    | none => "BAD ops"
    | some ops =>
      if out.length ≠ ops.length then "BAD step count"
      else
        let names := (opNames ops).eraseDups
        let descs := ops.filterMap (fun o => match o with | .update _ d => some d | _ => none)
        let svcKeys := (descs.flatMap (fun d => d.services.map (·.name)) ++ (probeSvcs pr).filterMap id).eraseDups
        let methKeys := (POST :: descs.flatMap (fun d => d.services.flatMap (fun s => s.methods.flatMap (fun m => m.bindings.map (·.httpMethod))))
          ++ pr.p.map (·.1)).eraseDups
        let keys : Keys := ⟨names, svcKeys, methKeys⟩
        let v := judgeSteps pr keys names 0 ops out {} {}
        match v.viol, v.diff with
        | some m, _ => s!"VIOL {m}"
        | none, some m => s!"DIFF model: {m}"
        | none, none =>
          let nt := if v.found > 0 then " nt" else ""
          s!"OK{nt} " ++ " ".intercalate v.tags

end GB.C06.Hist
