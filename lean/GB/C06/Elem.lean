import GB.C06.Model
/-
  C06 — ELEMENT-level model of `mutablePatternRoutingTable` (routing/pattern_router.go), one level below
  `PatState` (GB/C06/Model.lean), which identifies a `container/list` element with (HTTP method, target name).

  Here an element has an identity of its own: the serial number of the `PushBack` that allocated it (`next` is the
  allocator; Go: the `*list.Element` pointer).  `targetLinks[target]` is the slice of `methodPatternRoutes{method, link}`
  = (method, element id).  Everything the code does with a link goes through the id, never through the target name:
    * `lst.Remove(link)`        = drop the element with that id from the list of `link.method`
                                  (`container/list` ignores an element that is not in the list: `e.list != l`);
    * `link.link.Value = v`     = overwrite the value of the element with that id in the list of `link.method`
                                  (an element never changes lists; writing the Value of an element that was removed from its
                                  list changes NO list — this is what the seeded change C03-m9 does by accident);
    * `lst.PushBack(v)`         = append a fresh element, whose id is handed back for the back-link;
    * `commit()`                = per method a copy of the VALUES (`cloneLinkedList`), ids are not part of the snapshot.
  `erase` forgets the ids; `GB/C06/ProofsElem.lean` proves that every operation of this model commutes with `erase`
  on states whose back-links are *attached* (`Tied`), i.e. `PatState` is a sound abstraction of the element-level code.
-/
namespace GB.C06

structure Elem where
  id : Nat
  val : Group
deriving DecidableEq, Repr

abbrev ETable := HMethod → Option (List Elem)

/-- `methodPatternRoutes{method, link}` -/
abbrev Link := HMethod × Nat

structure EState where
  watching : Name → Bool
  routes : ETable                               -- map[string]*list.List
  links : Name → Option (List Link)             -- targetLinks
  static : HMethod → Option (List Group)        -- committed snapshot (values only)
  next : Nat                                    -- allocator of list elements
  fault : Bool

def EState.init : EState := ⟨fun _ => false, fun _ => none, fun _ => none, fun _ => none, 0, false⟩

/-- `removeRoute(method, link)`: `lst := mt.routes[method]; lst.Remove(link); if lst.Len() == 0 { delete(mt.routes, method) }` -/
def eRemoveRoute (rt : ETable) (fault : Bool) (m : HMethod) (i : Nat) : ETable × Bool :=
  match rt m with
  | none => (rt, true)                                   -- `lst.Remove` on a nil *list.List
  | some l =>
    match l.filter (fun e => decide (e.id ≠ i)) with
    | [] => (upd rt m none, fault)
    | l' => (upd rt m (some l'), fault)

/-- `link.link.Value = targetPatternRoutes{…}` for the element `i` that lives (if anywhere) in the list of `m` -/
def eSetValue (rt : ETable) (m : HMethod) (i : Nat) (g : Group) : ETable :=
  match rt m with
  | none => rt
  | some l => upd rt m (some (l.map (fun e => if e.id = i then ⟨i, g⟩ else e)))

/-- `addRoute(method, route)`: PushBack of a fresh element `i`, creating the list on demand -/
def eAddRoute (rt : ETable) (m : HMethod) (i : Nat) (g : Group) : ETable :=
  match rt m with
  | none => upd rt m (some [⟨i, g⟩])
  | some l => upd rt m (some (l ++ [⟨i, g⟩]))

/-- `commit()`: a copy of the values of every list -/
def eCommit (rt : ETable) : HMethod → Option (List Group) := fun m => (rt m).map (List.map Elem.val)

structure EAcc where
  rt : ETable
  fault : Bool
  newLinks : List Link
  rem : List HMethod
  next : Nat

/-- first loop of `addTarget` over the target's old links -/
def eAddLoop1 (n : Name) (v : Ver) (bm : HMethod → Option (List Route)) : List Link → EAcc → EAcc
  | [], a => a
  | (m, i) :: ls, a =>
    match (if m ∈ a.rem then bm m else none) with
    | none =>
      -- `mt.removeRoute(link.method, link.link); continue` — the link is NOT appended to newMethodLinks
      let p := eRemoveRoute a.rt a.fault m i
      eAddLoop1 n v bm ls { a with rt := p.1, fault := p.2 }
    | some prs =>
      eAddLoop1 n v bm ls { a with rt := eSetValue a.rt m i ⟨n, v, prs⟩, newLinks := a.newLinks ++ [(m, i)],
                                   rem := a.rem.filter (fun k => decide (k ≠ m)) }

/-- second loop: a fresh element for every method still in the built map -/
def eAddLoop2 (n : Name) (v : Ver) (bm : HMethod → Option (List Route)) : List HMethod → EAcc → EAcc
  | [], a => a
  | m :: ms, a =>
    match bm m with
    | none => eAddLoop2 n v bm ms a
    | some prs =>
      eAddLoop2 n v bm ms { a with rt := eAddRoute a.rt m a.next ⟨n, v, prs⟩, newLinks := a.newLinks ++ [(m, a.next)],
                                   next := a.next + 1 }

def EState.addTarget (st : EState) (n : Name) (v : Ver) (bm : HMethod → Option (List Route)) (keys : List HMethod) : EState :=
  let a1 := eAddLoop1 n v bm (sliceOf (st.links n)) ⟨st.routes, st.fault, [], keys, st.next⟩
  let a2 := eAddLoop2 n v bm a1.rem a1
  { st with routes := a2.rt, links := upd st.links n (some a2.newLinks), static := eCommit a2.rt,
            next := a2.next, fault := a2.fault }

def eRemLoop : List Link → ETable × Bool → ETable × Bool
  | [], p => p
  | (m, i) :: ls, p => eRemLoop ls (eRemoveRoute p.1 p.2 m i)

def EState.removeTarget (st : EState) (n : Name) : EState :=
  let p := eRemLoop (sliceOf (st.links n)) (st.routes, st.fault)
  { st with routes := p.1, links := upd st.links n none, static := eCommit p.1, fault := p.2 }

def EState.step (valid : Bytes → Bool) (st : EState) : Op → EState × OpRes
  | .watch n =>
    if st.watching n then (st, .already)
    else ({ st with watching := upd st.watching n true }, .ok)
  | .update n d =>
    if !st.watching n then (st, .noop)
    else if d.name ≠ n then (st, .noop)
    else (st.addTarget d.name d.ver (built valid d) (builtKeys valid d), .ok)
  | .close n =>
    if !st.watching n then (st, .noop)
    else ({ (st.removeTarget n) with watching := upd st.watching n false }, .ok)

def EState.run (valid : Bytes → Bool) (st : EState) (h : List Op) : EState :=
  h.foldl (fun s op => (s.step valid op).1) st

/-- forget the element ids: the `PatState` this element-level state stands for -/
def EState.erase (st : EState) : PatState :=
  ⟨st.watching, eCommit st.routes, fun n => (st.links n).map (List.map Prod.fst), st.static, st.fault⟩

/-- The back-links `ls` of target `n` are **attached**: in the list of the link's method, the element with the link's id
    is exactly the element that carries `n`'s routes.  Rules out both "element kept in the per-target bookkeeping after it
    was unlinked" (then a later element of `n` in that list would have another id) and "element of `n` without a back-link". -/
def Tied (rt : ETable) (n : Name) (ls : List Link) : Prop :=
  ∀ p ∈ ls, ∀ e ∈ sliceOf (rt p.1), (e.id = p.2 ↔ e.val.name = n)

/-- executable form of `Tied` (the driver checks it after every step of every generated history) -/
def tiedB (rt : ETable) (n : Name) (ls : List Link) : Bool :=
  ls.all (fun p => (sliceOf (rt p.1)).all (fun e => decide (e.id = p.2) == decide (e.val.name = n)))

/-- every back-link points at an element that IS in the list of its method (no detached element in `targetLinks`) -/
def attachedB (rt : ETable) (ls : List Link) : Bool :=
  ls.all (fun p => (sliceOf (rt p.1)).any (fun e => decide (e.id = p.2)))

/-! ### The seeded change C03-m9 at element level

  `targetLinks` as a per-target map method → element; a vanished method's element is removed from its list but the map
  entry stays (`eAddLoop1Stale` keeps the link), `removeRoute` tolerates a missing list.  When the method comes back the
  stale entry is found and the Value of the DETACHED element is overwritten: no list changes. -/

def eRemoveRouteTolerant (rt : ETable) (fault : Bool) (m : HMethod) (i : Nat) : ETable × Bool :=
  match rt m with
  | none => (rt, fault)                                  -- `if !ok { return }`
  | some _ => eRemoveRoute rt fault m i

def eAddLoop1Stale (n : Name) (v : Ver) (bm : HMethod → Option (List Route)) : List Link → EAcc → EAcc
  | [], a => a
  | (m, i) :: ls, a =>
    match (if m ∈ a.rem then bm m else none) with
    | none =>
      let p := eRemoveRouteTolerant a.rt a.fault m i
      -- the entry of the per-target map is NOT deleted
      eAddLoop1Stale n v bm ls { a with rt := p.1, fault := p.2, newLinks := a.newLinks ++ [(m, i)] }
    | some prs =>
      eAddLoop1Stale n v bm ls { a with rt := eSetValue a.rt m i ⟨n, v, prs⟩, newLinks := a.newLinks ++ [(m, i)],
                                        rem := a.rem.filter (fun k => decide (k ≠ m)) }

def EState.addTargetStale (st : EState) (n : Name) (v : Ver) (bm : HMethod → Option (List Route)) (keys : List HMethod) : EState :=
  let a1 := eAddLoop1Stale n v bm (sliceOf (st.links n)) ⟨st.routes, st.fault, [], keys, st.next⟩
  let a2 := eAddLoop2 n v bm a1.rem a1
  { st with routes := a2.rt, links := upd st.links n (some a2.newLinks), static := eCommit a2.rt,
            next := a2.next, fault := a2.fault }

def EState.stepStale (valid : Bytes → Bool) (st : EState) : Op → EState
  | .update n d =>
    if !st.watching n then st else if d.name ≠ n then st
    else st.addTargetStale d.name d.ver (built valid d) (builtKeys valid d)
  | op => (st.step valid op).1

def EState.runStale (valid : Bytes → Bool) (st : EState) (h : List Op) : EState :=
  h.foldl (EState.stepStale valid) st

end GB.C06
