import GB.C06.Proofs
import GB.C03.Props
/-
  C06 ∘ C03 — the opaque parameters of the C06 theorems instantiated with the C03 slice's models:

    valid   = `buildPattern` succeeds        = gwbased.Parse ok, then `Compile` + `runtime.NewPattern` ok
                                               (`C03.compile`, `C03.newPattern`; C03's `mkRouteC`)
    eval    = the closure inside `RouteHTTP` = `C03.stepRoute` on the compiled pattern (`C03.matchAndEscape`)

  `parse : Bytes → Option C03.Tmpl` is gwbased.Parse (property C20's model has its own AST type; what is
  needed of it here is stated as the hypothesis `ParserOk`: parser-shaped output with complete escapes).
  The adapter: the committed per-method lists flattened into a C03 `Table` whose ids are
  (target name, description version, C06 route = index path of service/method/binding).
-/
set_option linter.unusedSimpArgs false
set_option linter.unusedVariables false
namespace GB.C06

/-- `routing.buildPattern`: Parse, Compile, NewPattern -/
def c03Pattern (parse : Bytes → Option C03.Tmpl) (pat : Bytes) : Option C03.Pattern :=
  match parse pat with
  | none => none
  | some t => C03.newPattern 1 (C03.compile t).opcodes (C03.compile t).pool (C03.compile t).verb

/-- instance of C06's `valid` -/
def validC (parse : Bytes → Option C03.Tmpl) (pat : Bytes) : Bool := (c03Pattern parse pat).isSome

/-- a `patternRoute` as C03 sees it (C03's `mkRouteC`, with the C06 route as id) -/
def c03Route (P : C03.Pattern) (r : Route) : C03.Route Route :=
  { id := r, httpMethod := r.httpMethod, verb := P.verb, run := C03.matchAndEscape P }

/-- the closure of `RouteHTTP` on one route of the table, for the request path `path` -/
def stepC (parse : Bytes → Option C03.Tmpl) (path : Bytes) (r : Route) : C03.MatchRes C03.Captures :=
  match path, c03Pattern parse r.pattern with
  | 47 :: p, some P =>
    match (C03.splitSlash p).getLast? with
    | some last => C03.stepRoute (C03.splitSlash p) last (c03Route P r)
    | none => .notMatch
  | _, _ => .notMatch

/-- instance of C06's `eval` -/
def evalC (parse : Bytes → Option C03.Tmpl) (path : Bytes) (r : Route) : Outcome :=
  match stepC parse path r with
  | .ok _ => .hit
  | .malformed => .abort codeInvalidArgument
  | .notMatch => .skip
  | .fault => .skip

/-- the `PathParams` returned with a hit (the same `MatchAndEscape` call) -/
def capturesC (parse : Bytes → Option C03.Tmpl) (path : Bytes) (r : Route) : C03.Captures :=
  match stepC parse path r with
  | .ok c => c
  | _ => []

inductive HTTPResC
  | status (code : Nat)
  | found (n : Name) (v : Ver) (r : Route) (c : C03.Captures)
deriving DecidableEq, Repr

/-- `PatternRouter.RouteHTTP` end to end: C06's table lookup with C03's matcher, returning the captures -/
def routeHTTPm (parse : Bytes → Option C03.Tmpl) (pool : Name → Bool)
    (static : HMethod → Option (List Group)) (m : HMethod) (path : Bytes) : HTTPResC :=
  match routeHTTP pool (evalC parse) static m path with
  | .status c => .status c
  | .found n v r => .found n v r (capturesC parse path r)

/-- what gwbased.Parse guarantees about an accepted template (C20): the parser's shape, and only complete
    percent-escapes in literals and verb -/
def ParserOk (parse : Bytes → Option C03.Tmpl) : Prop :=
  ∀ s t, parse s = some t → t.ShapeOk ∧ (∀ p ∈ C03.atomsOf t.segs, p.litsOk) ∧ C03.WellEscaped t.verb

abbrev RId := Name × Ver × Route

/-- the table entries of one list element, in order -/
def entriesOf (parse : Bytes → Option C03.Tmpl) (m : HMethod) (g : Group) : C03.Table RId :=
  g.routes.filterMap (fun r => (parse r.pattern).map (fun t => ((g.name, g.ver, r), m, t)))

/-- a per-method list as a C03 routing table -/
def tableOfGroups (parse : Bytes → Option C03.Tmpl) (m : HMethod) (gs : List Group) : C03.Table RId :=
  gs.flatMap (entriesOf parse m)

/-- the route is in the table for HTTP method `m` and `buildPattern` accepted its template -/
def GoodRoute (parse : Bytes → Option C03.Tmpl) (m : HMethod) (r : Route) : Prop :=
  r.httpMethod = m ∧ ∃ t, parse r.pattern = some t ∧ t.ShapeOk ∧ C03.deepCount t.segs ≤ 1

/-! ### one route -/

theorem stepRoute_congr {ι κ : Type} (comps : List Bytes) (last : Bytes) (r1 : C03.Route ι) (r2 : C03.Route κ)
    (hv : r1.verb = r2.verb) (hr : r1.run = r2.run) : C03.stepRoute comps last r1 = C03.stepRoute comps last r2 := by
  unfold C03.stepRoute
  rw [hv, hr]

theorem stepC_eq {parse : Bytes → Option C03.Tmpl} {m : HMethod} {r : Route} (hg : GoodRoute parse m r)
    (p : Bytes) {last : Bytes} (hlast : (C03.splitSlash p).getLast? = some last) (id : RId) :
    ∃ t, parse r.pattern = some t ∧
      stepC parse (47 :: p) r = C03.stepRoute (C03.splitSlash p) last (C03.mkR (id, m, t)) := by
  obtain ⟨_, t, ht, hs, hd⟩ := hg
  obtain ⟨P, hP, hverb, hrun⟩ := C03.matchAndEscape_compile t hs hd
  refine ⟨t, ht, ?_⟩
  have hpat : c03Pattern parse r.pattern = some P := by simp [c03Pattern, ht, hP]
  simp only [stepC, hpat, hlast]
  have hf : C03.matchAndEscape P = C03.matchTmpl t := by funext c v; exact hrun c v
  exact stepRoute_congr _ _ _ _ hverb hf

/-! ### iteration -/

theorem iterTbl_append (a b : C03.Table RId) (m : Bytes) (segs : List Bytes) (last : Bytes) :
    C03.iterTbl (a ++ b) m segs last =
      match C03.iterTbl a m segs last with
      | .error .notFound => C03.iterTbl b m segs last
      | x => x := by
  induction a with
  | nil => simp [C03.iterTbl_nil]
  | cons e a ih =>
    by_cases hm : e.2.1 = m
    · rw [List.cons_append, C03.iterTbl_cons_eq e (a ++ b) segs last hm, C03.iterTbl_cons_eq e a segs last hm]
      cases C03.stepRoute segs last (C03.mkR e) with
      | ok params => rfl
      | malformed => rfl
      | notMatch => exact ih
      | fault => exact ih
    · rw [List.cons_append, C03.iterTbl_cons_ne e (a ++ b) segs last hm, C03.iterTbl_cons_ne e a segs last hm]
      exact ih

/-- the result `RouteHTTP` derives from the route at which the iteration stopped -/
def resOfStop (parse : Bytes → Option C03.Tmpl) (path : Bytes) :
    Option (Group × Route × Outcome) → C03.RouteResult RId
  | none => .error .notFound
  | some (g, r, _) =>
    match stepC parse path r with
    | .ok c => .found (g.name, g.ver, r) c
    | .malformed => .error .invalidArgument
    | .notMatch => .error .notFound
    | .fault => .error .notFound

theorem evalC_skip_iff (parse : Bytes → Option C03.Tmpl) (path : Bytes) (r : Route) :
    evalC parse path r = .skip ↔ (stepC parse path r = .notMatch ∨ stepC parse path r = .fault) := by
  unfold evalC
  cases stepC parse path r <;> simp

/-- the routes of one element -/
theorem iterTbl_routes (parse : Bytes → Option C03.Tmpl) (m : HMethod) (n : Name) (v : Ver) (p : Bytes)
    {last : Bytes} (hlast : (C03.splitSlash p).getLast? = some last) (g : Group) (rs : List Route)
    (hgood : ∀ r ∈ rs, GoodRoute parse m r) :
    C03.iterTbl (rs.filterMap (fun r => (parse r.pattern).map (fun t => ((g.name, g.ver, r), m, t)))) m
        (C03.splitSlash p) last =
      match rs.find? (fun r => decide (evalC parse (47 :: p) r ≠ .skip)) with
      | some r => resOfStop parse (47 :: p) (some (g, r, evalC parse (47 :: p) r))
      | none => .error .notFound := by
  induction rs with
  | nil => simp [C03.iterTbl_nil]
  | cons r rs ih =>
    have hg := hgood r (by simp)
    obtain ⟨t, ht, hstep⟩ := stepC_eq hg p hlast (g.name, g.ver, r)
    have ih' := ih (fun r' hr' => hgood r' (by simp [hr']))
    simp only [List.filterMap_cons, ht, Option.map_some]
    rw [C03.iterTbl_cons_eq _ _ _ _ rfl, ← hstep, List.find?_cons]
    cases hs : stepC parse (47 :: p) r with
    | ok c =>
      have : evalC parse (47 :: p) r = .hit := by simp [evalC, hs]
      simp [this, resOfStop, hs]
    | malformed =>
      have : evalC parse (47 :: p) r = .abort codeInvalidArgument := by simp [evalC, hs]
      simp [this, resOfStop, hs]
    | notMatch =>
      have : evalC parse (47 :: p) r = .skip := by simp [evalC, hs]
      simp only [this, ne_eq, not_true_eq_false, decide_false, Bool.false_eq_true, ↓reduceIte]
      exact ih'
    | fault =>
      have : evalC parse (47 :: p) r = .skip := by simp [evalC, hs]
      simp only [this, ne_eq, not_true_eq_false, decide_false, Bool.false_eq_true, ↓reduceIte]
      exact ih'

/-- **the adapter is faithful**: C03's `iterate` over the flattened table is C06's `firstDecisive` with the
    C03 step as `eval` -/
theorem iterTbl_groups (parse : Bytes → Option C03.Tmpl) (m : HMethod) (p : Bytes)
    {last : Bytes} (hlast : (C03.splitSlash p).getLast? = some last) (gs : List Group)
    (hgood : ∀ g ∈ gs, ∀ r ∈ g.routes, GoodRoute parse m r) :
    C03.iterTbl (tableOfGroups parse m gs) m (C03.splitSlash p) last =
      resOfStop parse (47 :: p) (firstDecisive (evalC parse (47 :: p)) gs) := by
  induction gs with
  | nil => simp [tableOfGroups, C03.iterTbl_nil, firstDecisive, resOfStop]
  | cons g gs ih =>
    have ih' := ih (fun g' hg' => hgood g' (by simp [hg']))
    have hr := iterTbl_routes parse m g.name g.ver p hlast g g.routes (hgood g (by simp))
    simp only [tableOfGroups, List.flatMap_cons] at ih' ⊢
    rw [iterTbl_append]
    unfold entriesOf
    rw [hr]
    unfold firstDecisive
    cases hf : g.routes.find? (fun r => decide (evalC parse (47 :: p) r ≠ .skip)) with
    | none => simp only; exact ih'
    | some r =>
      simp only
      have hne : evalC parse (47 :: p) r ≠ .skip := by simpa using List.find?_some hf
      have hne' := fun h => hne ((evalC_skip_iff parse (47 :: p) r).mpr h)
      simp only [resOfStop]
      cases hs : stepC parse (47 :: p) r with
      | ok c => rfl
      | malformed => rfl
      | notMatch => exact absurd (Or.inl hs) hne'
      | fault => exact absurd (Or.inr hs) hne'

/-! ### every route of a reachable table was accepted by `buildPattern` -/

theorem bindingRoutes_valid (valid : Bytes → Bool) (si mi : Nat) (bs : List Binding) :
    ∀ bi, ∀ r ∈ bindingRoutes valid si mi bs bi, valid r.pattern = true := by
  induction bs with
  | nil => intro bi r hr; simp [bindingRoutes] at hr
  | cons b bs ih =>
    intro bi r hr
    simp only [bindingRoutes, List.mem_append] at hr
    rcases hr with hr | hr
    · by_cases hv : valid b.pattern = true
      · simp [hv] at hr; rw [hr]; exact hv
      · simp [hv] at hr
    · exact ih _ r hr

theorem methodRoutes_valid (valid : Bytes → Bool) (si : Nat) (ms : List Method) :
    ∀ mi, ∀ r ∈ methodRoutes valid si ms mi, valid r.pattern = true := by
  induction ms with
  | nil => intro mi r hr; simp [methodRoutes] at hr
  | cons m ms ih =>
    intro mi r hr
    simp only [methodRoutes, List.mem_append] at hr
    rcases hr with hr | hr
    · cases hb : m.bindings with
      | nil =>
        simp only [hb] at hr
        by_cases hv : valid m.rpcName = true
        · simp [hv] at hr; rw [hr]; exact hv
        · simp [hv] at hr
      | cons b bs =>
        simp only [hb] at hr
        exact bindingRoutes_valid valid si mi (b :: bs) 0 r hr
    · exact ih _ r hr

theorem serviceRoutes_valid (valid : Bytes → Bool) (ss : List Service) :
    ∀ si, ∀ r ∈ serviceRoutes valid ss si, valid r.pattern = true := by
  induction ss with
  | nil => intro si r hr; simp [serviceRoutes] at hr
  | cons s ss ih =>
    intro si r hr
    simp only [serviceRoutes, List.mem_append] at hr
    rcases hr with hr | hr
    · exact methodRoutes_valid valid si s.methods 0 r hr
    · exact ih _ r hr

theorem built_some {valid : Bytes → Bool} {d : Desc} {m : HMethod} {rs : List Route} (h : built valid d m = some rs) :
    rs = (allRoutes valid d).filter (fun r => decide (r.httpMethod = m)) := by
  simp only [built] at h
  cases hf : (allRoutes valid d).filter (fun r => decide (r.httpMethod = m)) with
  | nil => simp [hf] at h
  | cons a as => simp [hf] at h; exact h.symm

theorem validC_good {parse : Bytes → Option C03.Tmpl} (hp : ParserOk parse) {pat : Bytes}
    (hv : validC parse pat = true) :
    ∃ t, parse pat = some t ∧ t.ShapeOk ∧ C03.deepCount t.segs ≤ 1 ∧ C03.WF t := by
  simp only [validC, c03Pattern] at hv
  cases ht : parse pat with
  | none => simp [ht] at hv
  | some t =>
    simp only [ht] at hv
    obtain ⟨hs, hl, hvb⟩ := hp pat t ht
    have hd : C03.deepCount t.segs ≤ 1 := by
      apply Classical.byContradiction
      intro hn
      rw [(C03.newPattern_compile t hs).2 (by omega)] at hv
      cases hv
    exact ⟨t, rfl, hs, hd, ⟨hd, hl, hvb⟩⟩

/-- every route of every element of a reachable table is a `GoodRoute` of its HTTP method -/
theorem PInv_good {parse : Bytes → Option C03.Tmpl} (hp : ParserOk parse) {st : PatState} {l : Latest}
    (inv : PInv (validC parse) st l) (m : HMethod) :
    ∀ g ∈ groupsOf st.static m, ∀ r ∈ g.routes, GoodRoute parse m r := by
  intro g hg r hr
  rw [inv.committed] at hg
  obtain ⟨d, _, rs, hb, hge⟩ := specGroup_some (inv.sound _ _ hg)
  rw [hge] at hr
  simp only at hr
  rw [built_some hb] at hr
  obtain ⟨hr1, hr2⟩ := List.mem_filter.mp hr
  have hv := serviceRoutes_valid (validC parse) d.services 0 r hr1
  obtain ⟨t, ht, hs, hd, _⟩ := validC_good hp hv
  exact ⟨by simpa using hr2, t, ht, hs, hd⟩

theorem tableOfGroups_wf {parse : Bytes → Option C03.Tmpl} (hp : ParserOk parse) (m : HMethod) (gs : List Group)
    (hgood : ∀ g ∈ gs, ∀ r ∈ g.routes, GoodRoute parse m r) :
    ∀ e ∈ tableOfGroups parse m gs, C03.WF e.2.2 := by
  intro e he
  simp only [tableOfGroups, List.mem_flatMap, entriesOf, List.mem_filterMap] at he
  obtain ⟨g, hg, r, hr, he⟩ := he
  obtain ⟨_, t, ht, hs, hd⟩ := hgood g hg r hr
  rw [ht] at he
  simp only [Option.map_some, Option.some.injEq] at he
  rw [← he]
  obtain ⟨_, hl, hvb⟩ := hp _ t ht
  exact ⟨hd, hl, hvb⟩

/-! ### the committed list IS the table of the latest descriptions, in its own target order -/

/-- the targets of the committed list of HTTP method `m`, front to back -/
def orderOf (st : PatState) (m : HMethod) : List Name := (groupsOf st.static m).map (·.name)

theorem filterMap_names_self (f : Name → Option Group) (gs : List Group) (h : ∀ g ∈ gs, f g.name = some g) :
    (gs.map (·.name)).filterMap f = gs := by
  induction gs with
  | nil => rfl
  | cons g gs ih =>
    simp only [List.map_cons, List.filterMap_cons, h g (by simp)]
    rw [ih (fun g' hg' => h g' (by simp [hg']))]

theorem snapshot_eq_spec {valid : Bytes → Bool} {st : PatState} {l : Latest} (inv : PInv valid st l) (m : HMethod) :
    groupsOf st.static m = (orderOf st m).filterMap (specGroup valid l m) := by
  unfold orderOf
  rw [filterMap_names_self]
  intro g hg
  rw [inv.committed] at hg
  exact inv.sound _ _ hg

/-! ### the end-to-end statement on an arbitrary list of good elements -/

theorem routeHTTPm_found_iff {parse : Bytes → Option C03.Tmpl} (hp : ParserOk parse) (pool : Name → Bool)
    (static : HMethod → Option (List Group)) (m : HMethod) (p : Bytes)
    (hgood : ∀ g ∈ groupsOf static m, ∀ r ∈ g.routes, GoodRoute parse m r)
    (n : Name) (v : Ver) (r : Route) (c : C03.Captures) :
    routeHTTPm parse pool static m (47 :: p) = .found n v r c ↔
      pool n = true ∧
        C03.FirstMatch (tableOfGroups parse m (groupsOf static m)) m (C03.splitSlash p) (n, v, r) c := by
  obtain ⟨last, hlast⟩ : ∃ last, (C03.splitSlash p).getLast? = some last := by
    cases h : (C03.splitSlash p).getLast? with
    | none => rw [List.getLast?_eq_none_iff] at h; exact absurd h (C03.splitSlash_ne_nil p)
    | some last => exact ⟨last, rfl⟩
  rw [← C03.iterTbl_found_iff _ (tableOfGroups_wf hp m _ hgood) m hlast, iterTbl_groups parse m p hlast _ hgood]
  unfold routeHTTPm routeHTTP
  cases hfd : firstDecisive (evalC parse (47 :: p)) (groupsOf static m) with
  | none => simp [resOfStop]
  | some x =>
    obtain ⟨g, r', o⟩ := x
    obtain ⟨_, _, ho, hne⟩ := firstDecisive_some hfd
    subst ho
    simp only [resOfStop]
    cases hs : stepC parse (47 :: p) r' with
    | ok c' =>
      have he : evalC parse (47 :: p) r' = .hit := by simp [evalC, hs]
      have hc : capturesC parse (47 :: p) r' = c' := by simp [capturesC, hs]
      simp only [he]
      by_cases hpool : pool g.name = true
      · simp only [hpool, ↓reduceIte, hc, HTTPResC.found.injEq, C03.RouteResult.found.injEq, Prod.mk.injEq]
        constructor
        · rintro ⟨rfl, rfl, rfl, rfl⟩; exact ⟨hpool, ⟨rfl, rfl, rfl⟩, rfl⟩
        · rintro ⟨_, ⟨rfl, rfl, rfl⟩, rfl⟩; exact ⟨rfl, rfl, rfl, rfl⟩
      · simp only [hpool, Bool.false_eq_true, ↓reduceIte, reduceCtorEq, false_iff, not_and,
          C03.RouteResult.found.injEq, Prod.mk.injEq]
        intro hn hx
        exact absurd (hx.1 ▸ hn) hpool
    | malformed =>
      have he : evalC parse (47 :: p) r' = .abort codeInvalidArgument := by simp [evalC, hs]
      simp [he]
    | notMatch => exact absurd (by simp [evalC, hs]) hne
    | fault => exact absurd (by simp [evalC, hs]) hne

/-- the status codes of the end-to-end lookup -/
theorem routeHTTPm_status {parse : Bytes → Option C03.Tmpl} (hp : ParserOk parse) (pool : Name → Bool)
    (static : HMethod → Option (List Group)) (m : HMethod) (p : Bytes)
    (hgood : ∀ g ∈ groupsOf static m, ∀ r ∈ g.routes, GoodRoute parse m r) (code : Nat)
    (h : routeHTTPm parse pool static m (47 :: p) = .status code) :
    (code = codeUnavailable ∧ ∃ n v r c, pool n = false ∧
        C03.FirstMatch (tableOfGroups parse m (groupsOf static m)) m (C03.splitSlash p) (n, v, r) c) ∨
    (code = codeInvalidArgument ∧ ∃ s ∈ C03.splitSlash p, ¬ C03.WellEscaped s) ∨
    (code = codeNotFound ∧
      ¬ ∃ i c, C03.FirstMatch (tableOfGroups parse m (groupsOf static m)) m (C03.splitSlash p) i c) := by
  obtain ⟨last, hlast⟩ : ∃ last, (C03.splitSlash p).getLast? = some last := by
    cases h : (C03.splitSlash p).getLast? with
    | none => rw [List.getLast?_eq_none_iff] at h; exact absurd h (C03.splitSlash_ne_nil p)
    | some last => exact ⟨last, rfl⟩
  have hwf := tableOfGroups_wf hp m _ hgood
  have hit := iterTbl_groups parse m p hlast _ hgood
  unfold routeHTTPm routeHTTP at h
  cases hfd : firstDecisive (evalC parse (47 :: p)) (groupsOf static m) with
  | none =>
    rw [hfd] at h hit
    simp only [HTTPResC.status.injEq] at h
    right; right
    refine ⟨h.symm, ?_⟩
    rintro ⟨i, c, hf⟩
    rw [← C03.iterTbl_found_iff _ hwf m hlast, hit] at hf
    simp [resOfStop] at hf
  | some x =>
    obtain ⟨g, r', o⟩ := x
    obtain ⟨_, _, ho, hne⟩ := firstDecisive_some hfd
    subst ho
    rw [hfd] at h hit
    simp only [resOfStop] at hit
    cases hs : stepC parse (47 :: p) r' with
    | ok c' =>
      have he : evalC parse (47 :: p) r' = .hit := by simp [evalC, hs]
      rw [hs] at hit
      simp only [he] at h
      by_cases hpool : pool g.name = true
      · simp [hpool] at h
      · simp only [hpool, Bool.false_eq_true, ↓reduceIte, HTTPResC.status.injEq] at h
        left
        refine ⟨h.symm, g.name, g.ver, r', c', by simpa using hpool, ?_⟩
        rw [← C03.iterTbl_found_iff _ hwf m hlast, hit]
    | malformed =>
      have he : evalC parse (47 :: p) r' = .abort codeInvalidArgument := by simp [evalC, hs]
      rw [hs] at hit
      simp only [he, HTTPResC.status.injEq] at h
      right; left
      exact ⟨h.symm, C03.iterTbl_invalid _ m hlast hit⟩
    | notMatch => exact absurd (by simp [evalC, hs]) hne
    | fault => exact absurd (by simp [evalC, hs]) hne

/-! ### how the target order of a per-method list evolves -/

theorem map_name_filter (n : Name) (l : List Group) :
    (l.filter (fun g => decide (g.name ≠ n))).map (·.name) = (l.map (·.name)).filter (fun x => decide (x ≠ n)) := by
  induction l with
  | nil => rfl
  | cons a as ih =>
    by_cases ha : a.name = n <;> simp_all [List.filter_cons]

theorem filter_ne_not_mem (n : Name) (l : List Name) (h : n ∉ l) : l.filter (fun x => decide (x ≠ n)) = l := by
  induction l with
  | nil => rfl
  | cons a as ih =>
    have ha : a ≠ n := fun e => h (by simp [e])
    have := ih (fun hm => h (by simp [hm]))
    rw [List.filter_cons]
    simp only [ha, ne_eq, not_false_eq_true, decide_true, ↓reduceIte]
    rw [this]

theorem mem_order_iff_linked {valid : Bytes → Bool} {st : PatState} {l : Latest} (inv : PInv valid st l)
    (n : Name) (m : HMethod) : n ∈ orderOf st m ↔ m ∈ sliceOf (st.links n) := by
  rw [inv.links n m]
  unfold orderOf
  rw [inv.committed]
  constructor
  · intro h
    obtain ⟨g, hg, hn⟩ := List.mem_map.mp h
    have := inv.sound _ _ hg
    rw [hn] at this
    simp [this]
  · intro h
    cases hs : specGroup valid l m n with
    | none => simp [hs] at h
    | some g => exact List.mem_map.mpr ⟨g, inv.complete _ _ _ hs, specGroup_name hs⟩

/-- a delivered description: the target keeps its place if it had and still has a binding for `m`, leaves the
    list if it has none any more, is appended at the END if it newly has one -/
theorem order_update {valid : Bytes → Bool} {st : PatState} {l : Latest} (inv : PInv valid st l) (d : Desc)
    (hw : st.watching d.name = true) (m : HMethod) :
    orderOf (st.step valid (.update d.name d)).1 m =
      if d.name ∈ orderOf st m then
        (if (built valid d m).isSome then orderOf st m else (orderOf st m).filter (fun x => decide (x ≠ d.name)))
      else (if (built valid d m).isSome then orderOf st m ++ [d.name] else orderOf st m) := by
  have hst : (st.step valid (.update d.name d)).1 = st.addTarget d.name d.ver (built valid d) (builtKeys valid d) := by
    simp [PatState.step, hw]
  obtain ⟨A1, _, _, _, A5, _⟩ := addTarget_spec st d.name d.ver (built valid d) (builtKeys valid d)
    (inv.linksNodup _) (nodup_dedupKeys _) (mem_builtKeys valid d)
  have hmem := mem_order_iff_linked inv d.name m
  by_cases hL : m ∈ sliceOf (st.links d.name)
  · have hin : d.name ∈ orderOf st m := hmem.mpr hL
    simp only [hin, ↓reduceIte]
    unfold orderOf
    rw [hst, A5, A1 m, inv.committed]
    simp only [hL, ↓reduceIte, upd1]
    cases hb : built valid d m with
    | none => simp only [Option.isSome_none, Bool.false_eq_true, ↓reduceIte]; exact map_name_filter _ _
    | some prs =>
      simp only [Option.isSome_some, ↓reduceIte]
      exact map_name_repl d.name ⟨d.name, d.ver, prs⟩ rfl _
  · have hin : d.name ∉ orderOf st m := fun h => hL (hmem.mp h)
    simp only [hin, ↓reduceIte]
    unfold orderOf
    rw [hst, A5, A1 m, inv.committed]
    simp only [hL, ↓reduceIte]
    cases hb : built valid d m with
    | none => simp
    | some prs => simp

/-- Close: the target leaves every list, the others keep their relative order -/
theorem order_close {valid : Bytes → Bool} {st : PatState} {l : Latest} (inv : PInv valid st l) (n : Name)
    (hw : st.watching n = true) (m : HMethod) :
    orderOf (st.step valid (.close n)).1 m = (orderOf st m).filter (fun x => decide (x ≠ n)) := by
  obtain ⟨R1, _⟩ := remLoop_spec n (sliceOf (st.links n)) (st.routes, st.fault) (inv.linksNodup n)
  have hstat : (st.step valid (.close n)).1.static = (remLoop n (sliceOf (st.links n)) (st.routes, st.fault)).1 := by
    simp [PatState.step, hw, PatState.removeTarget]
  unfold orderOf
  rw [hstat, R1 m, inv.committed]
  by_cases hL : m ∈ sliceOf (st.links n)
  · simp only [hL, ↓reduceIte]; exact map_name_filter _ _
  · simp only [hL, ↓reduceIte]
    have : n ∉ (groupsOf st.routes m).map (·.name) := by
      intro h
      have h' : n ∈ orderOf st m := by unfold orderOf; rw [inv.committed]; exact h
      exact hL ((mem_order_iff_linked inv n m).mp h')
    exact (filter_ne_not_mem n _ this).symm

/-- everything else (Watch, ignored updates, Close without a live watcher) leaves the lists alone -/
theorem order_noop {valid : Bytes → Bool} (st : PatState) (op : Op)
    (h : match op with
      | .watch _ => True
      | .update n d => ¬ (st.watching n = true ∧ d.name = n)
      | .close n => st.watching n = false) (m : HMethod) :
    orderOf (st.step valid op).1 m = orderOf st m := by
  cases op with
  | watch n => simp only [PatState.step]; split <;> rfl
  | update n d =>
    simp only at h
    simp only [PatState.step]
    by_cases hw : st.watching n = true
    · have hd : d.name ≠ n := fun e => h ⟨hw, e⟩
      simp [hw, hd]
    · simp [hw]
  | close n =>
    simp only at h
    simp [PatState.step, h]

end GB.C06
