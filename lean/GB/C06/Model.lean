import GB.Base.Bytes
/-
  C06 — executable models of the two routing tables (routing/pattern_router.go,
  routing/service_router.go) as *sequential* state machines over the operations
  `watch n / update n desc / close n` (concurrency is C11's business).

  Conventions of this file
  * Go maps are partial functions `κ → Option α` (`upd` = store / delete).  No map is iterated
    in the code under model except (a) `commit` (a copy), (b) the "add routes for new methods"
    loop over the freshly built per-description map, whose iteration order only decides the
    order of the back-links (never observable: every entry touches a different per-method list);
    the model iterates the keys in order of first appearance.
  * A pointer into a description (`*bridgedesc.Target`, `*Service`, `*Method`, `*Binding`) is the
    pair (ghost description version, index path).  The version is not in the Go code: the harness
    recovers it by pointer identity.  It makes "the returned data comes from the latest
    description" expressible.
  * `container/list` elements are identified by (HTTP method, target name); `Remove(link)` is
    "drop the element(s) of that target from that method's list", `link.Value = v` is "replace
    it in place".  A `removeRoute` on a method that has no list is the nil dereference the Go code
    would perform; it is recorded in `fault` and proved unreachable (`C06_no_fault`).
-/
namespace GB.C06

abbrev Name := Bytes
abbrev SvcName := Bytes
abbrev HMethod := Bytes
abbrev Ver := Nat

structure Binding where
  httpMethod : HMethod
  pattern : Bytes
deriving DecidableEq, Repr

structure Method where
  rpcName : Bytes
  bindings : List Binding
deriving DecidableEq, Repr

structure Service where
  name : SvcName
  methods : List Method
deriving DecidableEq, Repr

/-- `*bridgedesc.Target` plus the ghost version. -/
structure Desc where
  name : Name
  ver : Ver
  services : List Service
deriving DecidableEq, Repr

inductive Op
  | watch (n : Name)
  | update (n : Name) (d : Desc)   -- `watcher(n).UpdateDesc(d)`; `d.name` may differ from `n` (ignored by the code)
  | close (n : Name)
deriving DecidableEq, Repr

/-- what the caller of an operation observes -/
inductive OpRes
  | ok        -- Watch returned a watcher / UpdateDesc, Close ran
  | already   -- Watch returned ErrAlreadyWatching
  | noop      -- UpdateDesc on a closed watcher or for a foreign name; Close/Update without a live watcher (not executed)
deriving DecidableEq, Repr

/-- store (`v = some _`) / delete (`v = none`) / overwrite on a Go map seen as a function -/
def upd {κ : Type} [DecidableEq κ] {α : Type} (f : κ → α) (k : κ) (v : α) : κ → α :=
  fun x => if x = k then v else f x

/-! ## ServiceRouter (after fixes D6 and D31) -/

/-- `serviceRoute{target, service}`: two pointers into one description. -/
structure SvcRoute where
  target : Name
  ver : Ver
  idx : Nat
deriving DecidableEq, Repr

structure SvcState where
  watching : Name → Bool                       -- watcherSet
  routes : SvcName → Option SvcRoute           -- sync.Map
  svcRoutes : Name → Option (List SvcName)     -- map[string][]protoreflect.FullName
  waiting : SvcName → List SvcRoute            -- map[FullName][]serviceRoute (fix D31); `[]` = no key

def SvcState.init : SvcState := ⟨fun _ => false, fun _ => none, fun _ => none, fun _ => []⟩

def sliceOf {α : Type} : Option (List α) → List α
  | some l => l
  | none => []     -- indexing a Go map with a missing key yields the nil slice

/-- `recordClaim`: replace the first entry of the same target in place, else append -/
def recordClaim : List SvcRoute → SvcRoute → List SvcRoute
  | [], new => [new]
  | e :: es, new => if e.target = new.target then new :: es else e :: recordClaim es new

/-- `dropClaim`: remove the first entry of the target -/
def dropClaim : List SvcRoute → Name → List SvcRoute
  | [], _ => []
  | e :: es, n => if e.target = n then es else e :: dropClaim es n

/-- does the description list a service of that name -/
def listedB (ss : List Service) (x : SvcName) : Bool := ss.any (fun s => decide (s.name = x))

/-- state threaded through the first loop of `updateRoutes` -/
structure AddSt where
  r : SvcName → Option SvcRoute
  w : SvcName → List SvcRoute
  acc : List SvcName            -- newSvcRoutes (its members = presentSvcRoutes)

/-- First loop of `updateRoutes`: LoadOrStore / conflict ⇒ keep the owner and record the claim (D31) /
    same owner ⇒ Store (D6); `i` is the index of the head service in `desc.Services`. -/
def addLoop (dn : Name) (dv : Ver) : List Service → Nat → AddSt → AddSt
  | [], _, a => a
  | s :: ss, i, a =>
    match a.r s.name with
    | none =>
      addLoop dn dv ss (i + 1)
        { a with r := upd a.r s.name (some ⟨dn, dv, i⟩), acc := if s.name ∈ a.acc then a.acc else a.acc ++ [s.name] }
    | some old =>
      if old.target ≠ dn then
        addLoop dn dv ss (i + 1) { a with w := upd a.w s.name (recordClaim (a.w s.name) ⟨dn, dv, i⟩) }
      else
        addLoop dn dv ss (i + 1)
          { a with r := upd a.r s.name (some ⟨dn, dv, i⟩), acc := if s.name ∈ a.acc then a.acc else a.acc ++ [s.name] }

/-- state threaded through the release loops -/
structure DelSt where
  r : SvcName → Option SvcRoute
  w : SvcName → List SvcRoute
  sv : Name → Option (List SvcName)

/-- `release(svc)`: hand the service to the first waiting claimant with ONE Store, or Delete it -/
def release (q : DelSt) (x : SvcName) : DelSt :=
  match q.w x with
  | [] => { q with r := upd q.r x none }
  | e :: rest =>
    { r := upd q.r x (some e), w := upd q.w x rest,
      sv := upd q.sv e.target (some (sliceOf (q.sv e.target) ++ [x])) }

/-- `for _, route := range owned { if !present[route] { sr.release(route) } }` -/
def delLoop (present : List SvcName) : List SvcName → DelSt → DelSt
  | [], q => q
  | s :: ss, q => if s ∈ present then delLoop present ss q else delLoop present ss (release q s)

def updateRoutes (st : SvcState) (d : Desc) : SvcState :=
  let a := addLoop d.name d.ver d.services 0 ⟨st.routes, st.waiting, []⟩
  -- "forget claims for services which this target doesn't list anymore"
  let w1 : SvcName → List SvcRoute := fun x => if listedB d.services x then a.w x else dropClaim (a.w x) d.name
  let q := delLoop a.acc (sliceOf (st.svcRoutes d.name)) ⟨a.r, w1, st.svcRoutes⟩
  { st with routes := q.r, waiting := q.w, svcRoutes := upd q.sv d.name (some a.acc) }

def SvcState.removeTarget (st : SvcState) (n : Name) : SvcState :=
  let q := delLoop [] (sliceOf (st.svcRoutes n)) ⟨st.routes, st.waiting, st.svcRoutes⟩
  { st with routes := q.r, svcRoutes := upd q.sv n none, waiting := fun x => dropClaim (q.w x) n }

def SvcState.step (st : SvcState) : Op → SvcState × OpRes
  | .watch n =>
    if st.watching n then (st, .already)
    else ({ st with watching := upd st.watching n true }, .ok)
  | .update n d =>
    if !st.watching n then (st, .noop)          -- closed flag set / no watcher
    else if d.name ≠ n then (st, .noop)          -- "got update for different target, will ignore"
    else (updateRoutes st d, .ok)
  | .close n =>
    if !st.watching n then (st, .noop)
    else ({ (st.removeTarget n) with watching := upd st.watching n false }, .ok)

def SvcState.run (st : SvcState) (h : List Op) : SvcState := h.foldl (fun s op => (s.step op).1) st

/-! ### the code before the fixes (kept to state what was wrong) -/

/-- first loop before fix D31 (claims of later claimants are only logged), with the D6 Store -/
def addLoopOrig (dn : Name) (dv : Ver) : List Service → Nat → (SvcName → Option SvcRoute) → List SvcName →
    (SvcName → Option SvcRoute) × List SvcName
  | [], _, r, acc => (r, acc)
  | s :: ss, i, r, acc =>
    match r s.name with
    | none => addLoopOrig dn dv ss (i + 1) (upd r s.name (some ⟨dn, dv, i⟩)) (acc ++ [s.name])
    | some old =>
      if old.target ≠ dn then addLoopOrig dn dv ss (i + 1) r acc
      else addLoopOrig dn dv ss (i + 1) (upd r s.name (some ⟨dn, dv, i⟩)) (acc ++ [s.name])

/-- The same loop before fix D6 as well: nothing is stored when the target already owns the service. -/
def addLoopPreFix (dn : Name) (dv : Ver) : List Service → Nat → (SvcName → Option SvcRoute) → List SvcName →
    (SvcName → Option SvcRoute) × List SvcName
  | [], _, r, acc => (r, acc)
  | s :: ss, i, r, acc =>
    match r s.name with
    | none => addLoopPreFix dn dv ss (i + 1) (upd r s.name (some ⟨dn, dv, i⟩)) (acc ++ [s.name])
    | some old =>
      if old.target ≠ dn then addLoopPreFix dn dv ss (i + 1) r acc
      else addLoopPreFix dn dv ss (i + 1) r (acc ++ [s.name])

/-- second loop before fix D31: `routes.Delete(route)` for every owned service not listed again -/
def delLoopOrig (present : List SvcName) : List SvcName → (SvcName → Option SvcRoute) → (SvcName → Option SvcRoute)
  | [], r => r
  | s :: ss, r => if s ∈ present then delLoopOrig present ss r else delLoopOrig present ss (upd r s none)

/-- `updateRoutes` before fix D31 (after D6) -/
def updateRoutesOrig (st : SvcState) (d : Desc) : SvcState :=
  let p := addLoopOrig d.name d.ver d.services 0 st.routes []
  { st with routes := delLoopOrig p.2 (sliceOf (st.svcRoutes d.name)) p.1,
            svcRoutes := upd st.svcRoutes d.name (some p.2) }

/-- `updateRoutes` before fixes D6 and D31 -/
def updateRoutesPreFix (st : SvcState) (d : Desc) : SvcState :=
  let p := addLoopPreFix d.name d.ver d.services 0 st.routes []
  { st with routes := delLoopOrig p.2 (sliceOf (st.svcRoutes d.name)) p.1,
            svcRoutes := upd st.svcRoutes d.name (some p.2) }

/-- `removeTarget` before fix D31 -/
def SvcState.removeTargetOrig (st : SvcState) (n : Name) : SvcState :=
  { st with routes := delLoopOrig [] (sliceOf (st.svcRoutes n)) st.routes,
            svcRoutes := upd st.svcRoutes n none }

/-- the sequential machine of the code before fix D31 -/
def SvcState.stepOrig (st : SvcState) : Op → SvcState
  | .watch n => if st.watching n then st else { st with watching := upd st.watching n true }
  | .update n d => if !st.watching n then st else if d.name ≠ n then st else updateRoutesOrig st d
  | .close n => if !st.watching n then st else { (st.removeTargetOrig n) with watching := upd st.watching n false }

def SvcState.runOrig (st : SvcState) (h : List Op) : SvcState := h.foldl SvcState.stepOrig st

/-! ## PatternRouter -/

/-- `patternRoute{service, method, binding, pattern}`: pointers as index paths, plus the binding's
    content (the default binding is a fresh value `DefaultBinding(method)`, `bindIdx = none`). -/
structure Route where
  svcIdx : Nat
  methIdx : Nat
  bindIdx : Option Nat
  httpMethod : HMethod
  pattern : Bytes
deriving DecidableEq, Repr

/-- `targetPatternRoutes{target, routes}` — the value of one list element. -/
structure Group where
  name : Name
  ver : Ver
  routes : List Route
deriving DecidableEq, Repr

def POST : Bytes := [80, 79, 83, 84]

/-- `buildPatternRoutes`: routes of a description in source order; `valid` = `buildPattern` succeeds
    (opaque here, the template language is C20's). -/
def bindingRoutes (valid : Bytes → Bool) (si mi : Nat) : List Binding → Nat → List Route
  | [], _ => []
  | b :: bs, bi =>
    (if valid b.pattern then [⟨si, mi, some bi, b.httpMethod, b.pattern⟩] else []) ++
      bindingRoutes valid si mi bs (bi + 1)

def methodRoutes (valid : Bytes → Bool) (si : Nat) : List Method → Nat → List Route
  | [], _ => []
  | m :: ms, mi =>
    (match m.bindings with
      | [] => if valid m.rpcName then [⟨si, mi, none, POST, m.rpcName⟩] else []
      | bs => bindingRoutes valid si mi bs 0) ++ methodRoutes valid si ms (mi + 1)

def serviceRoutes (valid : Bytes → Bool) : List Service → Nat → List Route
  | [], _ => []
  | s :: ss, si => methodRoutes valid si s.methods 0 ++ serviceRoutes valid ss (si + 1)

def allRoutes (valid : Bytes → Bool) (d : Desc) : List Route := serviceRoutes valid d.services 0

/-- the built `map[string][]patternRoute` as a partial function: a key exists iff some route was appended -/
def built (valid : Bytes → Bool) (d : Desc) : HMethod → Option (List Route) := fun m =>
  match (allRoutes valid d).filter (fun r => decide (r.httpMethod = m)) with
  | [] => none
  | rs => some rs

/-- duplicates removed, order of first appearance kept -/
def dedupKeys : List HMethod → List HMethod
  | [] => []
  | x :: xs => x :: (dedupKeys xs).filter (fun k => decide (k ≠ x))

/-- its keys, in order of first appearance -/
def builtKeys (valid : Bytes → Bool) (d : Desc) : List HMethod :=
  dedupKeys ((allRoutes valid d).map (·.httpMethod))

structure PatState where
  watching : Name → Bool
  routes : HMethod → Option (List Group)        -- map[string]*list.List
  links : Name → Option (List HMethod)          -- targetLinks (each link = (method, element of that target))
  static : HMethod → Option (List Group)        -- the committed staticPatternRoutingTable
  fault : Bool

def PatState.init : PatState := ⟨fun _ => false, fun _ => none, fun _ => none, fun _ => none, false⟩

def groupsOf (rt : HMethod → Option (List Group)) (m : HMethod) : List Group := sliceOf (rt m)

/-- `removeRoute(method, link)` -/
def removeRoute (rt : HMethod → Option (List Group)) (fault : Bool) (m : HMethod) (n : Name) :
    (HMethod → Option (List Group)) × Bool :=
  match rt m with
  | none => (rt, true)                                   -- `lst.Len()` on a nil list
  | some l =>
    match l.filter (fun g => decide (g.name ≠ n)) with
    | [] => (upd rt m none, fault)                       -- `delete(mt.routes, method)`
    | l' => (upd rt m (some l'), fault)

/-- `link.link.Value = targetPatternRoutes{…}` -/
def setGroup (rt : HMethod → Option (List Group)) (m : HMethod) (g : Group) : HMethod → Option (List Group) :=
  match rt m with
  | none => rt
  | some l => upd rt m (some (l.map (fun g0 => if g0.name = g.name then g else g0)))

/-- `addRoute(method, route)`: PushBack, creating the list on demand -/
def addRoute (rt : HMethod → Option (List Group)) (m : HMethod) (g : Group) : HMethod → Option (List Group) :=
  match rt m with
  | none => upd rt m (some [g])
  | some l => upd rt m (some (l ++ [g]))

structure AddAcc where
  rt : HMethod → Option (List Group)
  fault : Bool
  newLinks : List HMethod
  rem : List HMethod          -- keys still present in the built map (`delete(routes, link.method)`)

/-- first loop of `addTarget`: update existing elements in place / remove vanished methods -/
def addLoop1 (n : Name) (v : Ver) (bm : HMethod → Option (List Route)) : List HMethod → AddAcc → AddAcc
  | [], a => a
  | m :: ms, a =>
    match (if m ∈ a.rem then bm m else none) with
    | none =>
      let p := removeRoute a.rt a.fault m n
      addLoop1 n v bm ms { a with rt := p.1, fault := p.2 }
    | some prs =>
      addLoop1 n v bm ms { a with rt := setGroup a.rt m ⟨n, v, prs⟩, newLinks := a.newLinks ++ [m],
                                  rem := a.rem.filter (fun k => decide (k ≠ m)) }

/-- second loop: append the methods this target did not have before -/
def addLoop2 (n : Name) (v : Ver) (bm : HMethod → Option (List Route)) : List HMethod → AddAcc → AddAcc
  | [], a => a
  | m :: ms, a =>
    match bm m with
    | none => addLoop2 n v bm ms a      -- not a key of the built map (cannot happen for `builtKeys`)
    | some prs =>
      addLoop2 n v bm ms { a with rt := addRoute a.rt m ⟨n, v, prs⟩, newLinks := a.newLinks ++ [m] }

/-- `addTarget(target, routes)` followed by `static.Store(commit())` -/
def PatState.addTarget (st : PatState) (n : Name) (v : Ver) (bm : HMethod → Option (List Route))
    (keys : List HMethod) : PatState :=
  let a1 := addLoop1 n v bm (sliceOf (st.links n)) ⟨st.routes, st.fault, [], keys⟩
  let a2 := addLoop2 n v bm a1.rem a1
  { st with routes := a2.rt, links := upd st.links n (some a2.newLinks), static := a2.rt, fault := a2.fault }

def remLoop (n : Name) : List HMethod → (HMethod → Option (List Group)) × Bool → (HMethod → Option (List Group)) × Bool
  | [], p => p
  | m :: ms, p => remLoop n ms (removeRoute p.1 p.2 m n)

/-- `removeTarget(target)` followed by `static.Store(commit())` -/
def PatState.removeTarget (st : PatState) (n : Name) : PatState :=
  let p := remLoop n (sliceOf (st.links n)) (st.routes, st.fault)
  { st with routes := p.1, links := upd st.links n none, static := p.1, fault := p.2 }

def PatState.step (valid : Bytes → Bool) (st : PatState) : Op → PatState × OpRes
  | .watch n =>
    if st.watching n then (st, .already)
    else ({ st with watching := upd st.watching n true }, .ok)
  | .update n d =>
    if !st.watching n then (st, .noop)
    else if d.name ≠ n then (st, .noop)
    else (st.addTarget d.name d.ver (built valid d) (builtKeys valid d), .ok)
  | .close n =>
    if !st.watching n then (st, .noop)
    else ({ (st.removeTarget n) with watching := upd st.watching n false }, .ok)

def PatState.run (valid : Bytes → Bool) (st : PatState) (h : List Op) : PatState :=
  h.foldl (fun s op => (s.step valid op).1) st

/-! ### Lookup (`RouteHTTP` over the committed table) -/

/-- what the closure inside `RouteHTTP` decides for one route: go on, take it, or stop with an error.
    (Template matching is opaque here — C03 models the matcher; C06 is about table maintenance.) -/
inductive Outcome
  | skip
  | hit
  | abort (code : Nat)
deriving DecidableEq, Repr

inductive HTTPRes
  | status (code : Nat)                       -- gRPC status code of the returned error
  | found (n : Name) (v : Ver) (r : Route)    -- Target (name, version), Service/Method/Binding (index path)
deriving DecidableEq, Repr

def codeInvalidArgument : Nat := 3
def codeNotFound : Nat := 5
def codeUnimplemented : Nat := 12
def codeInternal : Nat := 13
def codeUnavailable : Nat := 14

/-- `iterate`: elements front to back, routes of an element in order, until the callback returns false -/
def firstDecisive (ev : Route → Outcome) : List Group → Option (Group × Route × Outcome)
  | [] => none
  | g :: gs =>
    match g.routes.find? (fun r => decide (ev r ≠ .skip)) with
    | some r => some (g, r, ev r)
    | none => firstDecisive ev gs

def routeHTTP (pool : Name → Bool) (eval : Bytes → Route → Outcome)
    (static : HMethod → Option (List Group)) (m : HMethod) (path : Bytes) : HTTPRes :=
  match path with
  | 47 :: _ =>
    match firstDecisive (eval path) (groupsOf static m) with
    | none => .status codeNotFound
    | some (g, r, .hit) => if pool g.name then .found g.name g.ver r else .status codeUnavailable
    | some (_, _, .abort c) => .status c
    | some (_, _, .skip) => .status codeNotFound
  | _ => .status codeInvalidArgument

end GB.C06
