import GB.C06.Model
/-
  C06 — specification: the only thing that matters about a history is, for every target that is
  still watched, the most recent description delivered for it.  Lookups are compared with the
  table built from exactly these descriptions.
-/
namespace GB.C06

/-- `none` = not watched; `some none` = watched, no description yet; `some (some d)` = latest description -/
abbrev Latest := Name → Option (Option Desc)

def Latest.init : Latest := fun _ => none

def Latest.step (l : Latest) : Op → Latest
  | .watch n => match l n with
    | none => upd l n (some none)
    | some _ => l
  | .update n d => match l n with
    | none => l
    | some _ => if d.name = n then upd l n (some (some d)) else l
  | .close n => upd l n none

def latestOf (h : List Op) : Latest := h.foldl Latest.step Latest.init

def Latest.watched (l : Latest) (n : Name) : Bool := (l n).isSome

def Latest.desc (l : Latest) (n : Name) : Option Desc :=
  match l n with
  | some (some d) => some d
  | _ => none

/-! ### pattern side -/

/-- the list element target `n` must have in the list of HTTP method `m` -/
def specGroup (valid : Bytes → Bool) (l : Latest) (m : HMethod) (n : Name) : Option Group :=
  match l.desc n with
  | some d => (built valid d m).map (fun rs => ⟨n, d.ver, rs⟩)
  | none => none

/-- the table built from the latest descriptions, targets enumerated in the order `names` -/
def specTable (valid : Bytes → Bool) (l : Latest) (names : List Name) : HMethod → Option (List Group) := fun m =>
  match names.filterMap (specGroup valid l m) with
  | [] => none
  | gs => some gs

def Group.decisive (ev : Route → Outcome) (g : Group) : Prop := ∃ r ∈ g.routes, ev r ≠ .skip

/-- a request (method, path) is uncontested when at most one live target has a route that decides it -/
def Uncontested (valid : Bytes → Bool) (ev : Route → Outcome) (l : Latest) (m : HMethod) : Prop :=
  ∀ n n' g g', specGroup valid l m n = some g → specGroup valid l m n' = some g' →
    g.decisive ev → g'.decisive ev → n = n'

/-! ### service side -/

/-- index of the last service called `svc` in a description (the one `updateRoutes` ends up pointing to) -/
def lastIdx (svc : SvcName) : List Service → Nat → Option Nat
  | [], _ => none
  | s :: ss, i =>
    match lastIdx svc ss (i + 1) with
    | some j => some j
    | none => if s.name = svc then some i else none

/-- target `n` is watched and its latest description lists `svc` -/
def Lists (l : Latest) (n : Name) (svc : SvcName) : Prop :=
  ∃ d, l.desc n = some d ∧ ∃ s ∈ d.services, s.name = svc

/-- at no point of the history (from spec state `l` on) two live targets listed `svc` at once -/
def NeverShared (svc : SvcName) : Latest → List Op → Prop
  | l, [] => ∀ n n', Lists l n svc → Lists l n' svc → n = n'
  | l, op :: ops => (∀ n n', Lists l n svc → Lists l n' svc → n = n') ∧ NeverShared svc (l.step op) ops

/-- the route a table built from the latest descriptions holds for `svc` when `n` is the one target listing it -/
def specSvcRoute (l : Latest) (n : Name) (svc : SvcName) : Option SvcRoute :=
  match l.desc n with
  | some d => (lastIdx svc d.services 0).map (fun i => ⟨n, d.ver, i⟩)
  | none => none

/-! ### who owns a service listed by several live targets (fix D31): claims in claim order -/

/-- per service, the live targets whose latest description lists it, ordered by the start of their current
    uninterrupted claim (a target that drops the service and lists it again later goes to the back) -/
abbrev Claims := SvcName → List Name

def Claims.step (c : Claims) (l : Latest) : Op → Claims
  | .watch _ => c
  | .update n d =>
    if l.watched n = true ∧ d.name = n then
      fun x => if listedB d.services x then (if n ∈ c x then c x else c x ++ [n])
               else (c x).filter (fun m => decide (m ≠ n))
    else c
  | .close n => fun x => (c x).filter (fun m => decide (m ≠ n))

def claimsFrom (l : Latest) (c : Claims) : List Op → Claims
  | [] => c
  | op :: ops => claimsFrom (l.step op) (c.step l op) ops

def claimsOf (h : List Op) : Claims := claimsFrom Latest.init (fun _ => []) h

/-- the entries a table built from the latest descriptions holds for `x`: the owner first, then the waiting
    claimants, each pointing into its own latest description -/
def specEntries (l : Latest) (c : Claims) (x : SvcName) : List SvcRoute :=
  (c x).filterMap (fun n => specSvcRoute l n x)

/-- the owner: the live lister with the oldest uninterrupted claim -/
def specOwner (l : Latest) (c : Claims) (x : SvcName) : Option SvcRoute := (specEntries l c x).head?

end GB.C06
