import GB.C06.Spec
/-
  C06 — helper lemmas: characterisations of the loops of `updateRoutes` / `addTarget` /
  `removeTarget` per key, and the invariants that tie both tables to the latest descriptions.
-/
set_option linter.unusedSimpArgs false
set_option linter.unusedVariables false
namespace GB.C06

theorem upd_same {κ α : Type} [DecidableEq κ] (f : κ → α) (k : κ) (v : α) : upd f k v k = v := by
  simp [upd]

theorem upd_other {κ α : Type} [DecidableEq κ] (f : κ → α) (k : κ) (v : α) {x : κ} (h : x ≠ k) :
    upd f k v x = f x := by
  simp [upd, h]

/-! ## service table -/

def listed (ss : List Service) (x : SvcName) : Prop := ∃ s ∈ ss, s.name = x

/-- the sync.Map holds `x` for a target other than `dn` -/
def Foreign (r : SvcName → Option SvcRoute) (dn : Name) (x : SvcName) : Prop :=
  ∃ o, r x = some o ∧ o.target ≠ dn

theorem listed_cons (s : Service) (ss : List Service) (x : SvcName) :
    listed (s :: ss) x ↔ s.name = x ∨ listed ss x := by
  simp [listed]

theorem lastIdx_none (x : SvcName) (ss : List Service) : ∀ i, lastIdx x ss i = none ↔ ¬ listed ss x := by
  induction ss with
  | nil => intro i; simp [lastIdx, listed]
  | cons s ss ih =>
    intro i
    rw [listed_cons]
    simp only [lastIdx]
    cases h : lastIdx x ss (i + 1) with
    | some j =>
      have hl : listed ss x := by
        by_cases hl : listed ss x
        · exact hl
        · have := (ih (i + 1)).mpr hl
          rw [h] at this; cases this
      simp [hl]
    | none =>
      have := (ih (i + 1)).mp h
      by_cases hs : s.name = x <;> simp [hs, this]

theorem lastIdx_cons_ne (x : SvcName) (s : Service) (ss : List Service) (i : Nat) (h : s.name ≠ x) :
    lastIdx x (s :: ss) i = lastIdx x ss (i + 1) := by
  simp only [lastIdx]
  cases lastIdx x ss (i + 1) <;> simp [h]

/-! ### the specification state -/

theorem desc_watch (l : Latest) (n m : Name) : (l.step (.watch n)).desc m = l.desc m := by
  simp only [Latest.step]
  cases h : l n with
  | some o => rfl
  | none =>
    simp only [Latest.desc]
    by_cases hm : m = n
    · subst hm; simp [upd_same, h]
    · rw [upd_other _ _ _ hm]

theorem desc_close (l : Latest) (n m : Name) :
    (l.step (.close n)).desc m = if m = n then none else l.desc m := by
  simp only [Latest.step, Latest.desc]
  by_cases hm : m = n
  · subst hm; simp [upd_same]
  · simp [upd_other _ _ _ hm, hm]

theorem desc_update (l : Latest) (n : Name) (d : Desc) (m : Name) :
    (l.step (.update n d)).desc m =
      if l.watched n = true ∧ d.name = n ∧ m = n then some d else l.desc m := by
  simp only [Latest.step, Latest.watched]
  split
  · rename_i h; simp [h]
  · rename_i o h
    by_cases hd : d.name = n
    · by_cases hm : m = n
      · subst hm; simp [hd, h, Latest.desc, upd_same]
      · simp [hd, hm, h, Latest.desc, upd_other _ _ _ hm]
    · simp [hd]

theorem watched_watch (l : Latest) (n m : Name) :
    (l.step (.watch n)).watched m = (l.watched m || decide (m = n)) := by
  simp only [Latest.step, Latest.watched]
  cases h : l n with
  | some o =>
    by_cases hm : m = n
    · subst hm; simp [h]
    · simp [hm]
  | none =>
    by_cases hm : m = n
    · subst hm; simp [upd_same]
    · simp [upd_other _ _ _ hm, hm]

theorem watched_close (l : Latest) (n m : Name) :
    (l.step (.close n)).watched m = (l.watched m && !decide (m = n)) := by
  simp only [Latest.step, Latest.watched]
  by_cases hm : m = n
  · subst hm; simp [upd_same]
  · simp [upd_other _ _ _ hm, hm]

theorem watched_update (l : Latest) (n : Name) (d : Desc) (m : Name) :
    (l.step (.update n d)).watched m = l.watched m := by
  simp only [Latest.step, Latest.watched]
  cases h : l n with
  | none => rfl
  | some o =>
    by_cases hd : d.name = n
    · by_cases hm : m = n
      · subst hm; simp [hd, upd_same, h]
      · simp [hd, upd_other _ _ _ hm]
    · simp [hd]

theorem desc_some_watched (l : Latest) (n : Name) (d : Desc) (h : l.desc n = some d) : l.watched n = true := by
  simp only [Latest.desc] at h
  simp only [Latest.watched]
  cases hl : l n with
  | none => simp [hl] at h
  | some o => rfl

theorem specSvcRoute_some {l : Latest} {n : Name} {x : SvcName} {r : SvcRoute}
    (h : specSvcRoute l n x = some r) :
    ∃ d, l.desc n = some d ∧ ∃ j, lastIdx x d.services 0 = some j ∧ r = ⟨n, d.ver, j⟩ := by
  simp only [specSvcRoute] at h
  cases hd : l.desc n with
  | none => simp [hd] at h
  | some d =>
    simp only [hd] at h
    cases hj : lastIdx x d.services 0 with
    | none => simp [hj] at h
    | some j => simp [hj] at h; exact ⟨d, rfl, j, hj, h.symm⟩

theorem specSvcRoute_lists {l : Latest} {n : Name} {x : SvcName} {r : SvcRoute}
    (h : specSvcRoute l n x = some r) : Lists l n x := by
  obtain ⟨d, hd, j, hj, _⟩ := specSvcRoute_some h
  refine ⟨d, hd, ?_⟩
  have : ¬ lastIdx x d.services 0 = none := by simp [hj]
  rw [lastIdx_none] at this
  exact Classical.not_not.mp this

theorem lists_specSvcRoute {l : Latest} {n : Name} {x : SvcName} (h : Lists l n x) :
    ∃ r, specSvcRoute l n x = some r ∧ r.target = n := by
  obtain ⟨d, hd, hs⟩ := h
  cases hj : lastIdx x d.services 0 with
  | none => exact absurd hs ((lastIdx_none x d.services 0).mp hj)
  | some j => exact ⟨⟨n, d.ver, j⟩, by simp [specSvcRoute, hd, hj], rfl⟩

theorem specSvcRoute_congr {l l' : Latest} {n : Name} (h : l'.desc n = l.desc n) (x : SvcName) :
    specSvcRoute l' n x = specSvcRoute l n x := by
  simp [specSvcRoute, h]

theorem Lists_congr {l l' : Latest} {m : Name} (h : l'.desc m = l.desc m) (svc : SvcName) :
    Lists l' m svc ↔ Lists l m svc := by
  simp [Lists, h]

def Unshared (l : Latest) (svc : SvcName) : Prop := ∀ n n', Lists l n svc → Lists l n' svc → n = n'

theorem NeverShared_head {svc : SvcName} {l : Latest} {ops : List Op} (h : NeverShared svc l ops) : Unshared l svc := by
  cases ops with
  | nil => exact h
  | cons op ops => exact h.1

/-- `n` goes on claiming `svc` throughout `ops`: it is not closed and each of its descriptions lists `svc` -/
def Keeps (n : Name) (svc : SvcName) (ops : List Op) : Prop :=
  ∀ op ∈ ops, op ≠ .close n ∧ ∀ d, op = .update n d → listed d.services svc

/-! ## pattern table -/

theorem filter_true' {α : Type} (l : List α) : l.filter (fun _ => true) = l := by
  induction l <;> simp_all

theorem nodup_filter {α : Type} (p : α → Bool) {l : List α} (h : l.Nodup) : (l.filter p).Nodup :=
  List.Nodup.sublist List.filter_sublist h

theorem groupsOf_upd (rt : HMethod → Option (List Group)) (m : HMethod) (v : Option (List Group)) (m' : HMethod) :
    groupsOf (upd rt m v) m' = if m' = m then sliceOf v else groupsOf rt m' := by
  by_cases h : m' = m
  · subst h; simp [groupsOf, upd_same]
  · simp [groupsOf, upd_other _ _ _ h, h]

theorem groupsOf_removeRoute (rt : HMethod → Option (List Group)) (flt : Bool) (m : HMethod) (n : Name) (m' : HMethod) :
    groupsOf (removeRoute rt flt m n).1 m' =
      if m' = m then (groupsOf rt m).filter (fun g => decide (g.name ≠ n)) else groupsOf rt m' := by
  simp only [removeRoute]
  cases h : rt m with
  | none =>
    by_cases hm : m' = m
    · subst hm; simp [groupsOf, h, sliceOf]
    · simp [hm]
  | some l =>
    simp only
    have hg : groupsOf rt m = l := by simp [groupsOf, h, sliceOf]
    cases hf : l.filter (fun g => decide (g.name ≠ n)) with
    | nil =>
      simp only [groupsOf_upd, hg, hf]
      by_cases hm : m' = m
      · simp [hm, sliceOf]
      · simp [hm]
    | cons g gs =>
      simp only [groupsOf_upd, hg, hf]
      by_cases hm : m' = m
      · simp [hm, sliceOf]
      · simp [hm]

theorem removeRoute_other (rt : HMethod → Option (List Group)) (flt : Bool) (m : HMethod) (n : Name) {m' : HMethod}
    (hm : m' ≠ m) : (removeRoute rt flt m n).1 m' = rt m' := by
  simp only [removeRoute]
  cases h : rt m with
  | none => rfl
  | some l =>
    simp only
    cases hf : l.filter (fun g => decide (g.name ≠ n)) with
    | nil => exact upd_other _ _ _ hm
    | cons g gs => exact upd_other _ _ _ hm

theorem removeRoute_fault (rt : HMethod → Option (List Group)) (flt : Bool) (m : HMethod) (n : Name)
    (h : rt m ≠ none) : (removeRoute rt flt m n).2 = flt := by
  simp only [removeRoute]
  cases hr : rt m with
  | none => exact absurd hr h
  | some l =>
    simp only
    cases hf : l.filter (fun g => decide (g.name ≠ n)) <;> rfl

theorem groupsOf_setGroup (rt : HMethod → Option (List Group)) (m : HMethod) (g : Group) (m' : HMethod) :
    groupsOf (setGroup rt m g) m' =
      if m' = m then (groupsOf rt m).map (fun g0 => if g0.name = g.name then g else g0) else groupsOf rt m' := by
  simp only [setGroup]
  cases h : rt m with
  | none =>
    by_cases hm : m' = m
    · subst hm; simp [groupsOf, h, sliceOf]
    · simp [hm]
  | some l =>
    simp only [groupsOf_upd]
    by_cases hm : m' = m
    · subst hm; simp [groupsOf, h, sliceOf]
    · simp [hm]

theorem setGroup_other (rt : HMethod → Option (List Group)) (m : HMethod) (g : Group) {m' : HMethod}
    (hm : m' ≠ m) : setGroup rt m g m' = rt m' := by
  simp only [setGroup]
  cases h : rt m with
  | none => rfl
  | some l => exact upd_other _ _ _ hm

theorem groupsOf_addRoute (rt : HMethod → Option (List Group)) (m : HMethod) (g : Group) (m' : HMethod) :
    groupsOf (addRoute rt m g) m' = if m' = m then groupsOf rt m ++ [g] else groupsOf rt m' := by
  simp only [addRoute]
  cases h : rt m with
  | none =>
    simp only [groupsOf_upd]
    by_cases hm : m' = m
    · subst hm; simp [groupsOf, h, sliceOf]
    · simp [hm]
  | some l =>
    simp only [groupsOf_upd]
    by_cases hm : m' = m
    · subst hm; simp [groupsOf, h, sliceOf]
    · simp [hm]

/-- what the first loop of `addTarget` does to the list of one HTTP method the target was linked to -/
def upd1 (n : Name) (v : Ver) (bm : HMethod → Option (List Route)) (l : List Group) (m : HMethod) : List Group :=
  match bm m with
  | some prs => l.map (fun g0 => if g0.name = n then ⟨n, v, prs⟩ else g0)
  | none => l.filter (fun g => decide (g.name ≠ n))

theorem addLoop1_spec (n : Name) (v : Ver) (bm : HMethod → Option (List Route)) (ms : List HMethod) :
    ∀ (a : AddAcc), ms.Nodup → (∀ m ∈ ms, m ∈ a.rem ↔ bm m ≠ none) →
      (∀ m', groupsOf (addLoop1 n v bm ms a).rt m' =
          if m' ∈ ms then upd1 n v bm (groupsOf a.rt m') m' else groupsOf a.rt m') ∧
      (addLoop1 n v bm ms a).newLinks = a.newLinks ++ ms.filter (fun m => (bm m).isSome) ∧
      (addLoop1 n v bm ms a).rem = a.rem.filter (fun k => !(decide (k ∈ ms) && (bm k).isSome)) ∧
      ((∀ m ∈ ms, a.rt m ≠ none) → (addLoop1 n v bm ms a).fault = a.fault) := by
  induction ms with
  | nil => intro a _ _; simp [addLoop1, filter_true']
  | cons m ms ih =>
    intro a hnd hrem
    obtain ⟨hm_notin, hnd'⟩ := List.nodup_cons.mp hnd
    have hcond : (if m ∈ a.rem then bm m else none) = bm m := by
      by_cases hin : m ∈ a.rem
      · simp [hin]
      · have : bm m = none := by
          cases hb : bm m with
          | none => rfl
          | some prs => exact absurd ((hrem m (by simp)).mpr (by simp [hb])) hin
        simp [hin, this]
    simp only [addLoop1, hcond]
    cases hb : bm m with
    | none =>
      simp only
      have hrem' : ∀ m2 ∈ ms, m2 ∈ a.rem ↔ bm m2 ≠ none := fun m2 h2 => hrem m2 (by simp [h2])
      obtain ⟨i1, i2, i3, i4⟩ := ih { a with rt := (removeRoute a.rt a.fault m n).1, fault := (removeRoute a.rt a.fault m n).2 } hnd' hrem'
      refine ⟨?_, ?_, ?_, ?_⟩
      · intro m'
        rw [i1 m']
        simp only [groupsOf_removeRoute]
        by_cases hm' : m' = m
        · subst hm'; simp [hm_notin, upd1, hb]
        · simp [hm']
      · rw [i2]; simp [hb]
      · rw [i3]
        apply List.filter_congr
        intro k _
        by_cases hk : k = m
        · subst hk; simp [hb]
        · simp [hk]
      · intro hall
        rw [i4]
        · exact removeRoute_fault _ _ _ _ (hall m (by simp))
        · intro m2 h2
          have hne : m2 ≠ m := fun e => hm_notin (e ▸ h2)
          simp only
          rw [removeRoute_other _ _ _ _ hne]
          exact hall m2 (by simp [h2])
    | some prs =>
      simp only
      have hrem' : ∀ m2 ∈ ms, m2 ∈ a.rem.filter (fun k => decide (k ≠ m)) ↔ bm m2 ≠ none := by
        intro m2 h2
        have hne : m2 ≠ m := fun e => hm_notin (e ▸ h2)
        rw [List.mem_filter]
        simp only [hne, ne_eq, not_false_eq_true, decide_true, and_true]
        exact hrem m2 (by simp [h2])
      obtain ⟨i1, i2, i3, i4⟩ :=
        ih ⟨setGroup a.rt m ⟨n, v, prs⟩, a.fault, a.newLinks ++ [m], a.rem.filter (fun k => decide (k ≠ m))⟩ hnd' hrem'
      refine ⟨?_, ?_, ?_, ?_⟩
      · intro m'
        rw [i1 m']
        simp only [groupsOf_setGroup]
        by_cases hm' : m' = m
        · subst hm'; simp [hm_notin, upd1, hb]
        · simp [hm']
      · rw [i2]; simp [hb]
      · rw [i3, List.filter_filter]
        apply List.filter_congr
        intro k _
        by_cases hk : k = m
        · subst hk; simp [hb]
        · simp [hk]
      · intro hall
        rw [i4]
        intro m2 h2
        have hne : m2 ≠ m := fun e => hm_notin (e ▸ h2)
        simp only
        rw [setGroup_other _ _ _ hne]
        exact hall m2 (by simp [h2])

theorem addLoop2_spec (n : Name) (v : Ver) (bm : HMethod → Option (List Route)) (ms : List HMethod) :
    ∀ (a : AddAcc), ms.Nodup →
      (∀ m', groupsOf (addLoop2 n v bm ms a).rt m' =
          if m' ∈ ms then (match bm m' with
            | some prs => groupsOf a.rt m' ++ [⟨n, v, prs⟩]
            | none => groupsOf a.rt m') else groupsOf a.rt m') ∧
      (addLoop2 n v bm ms a).newLinks = a.newLinks ++ ms.filter (fun m => (bm m).isSome) ∧
      (addLoop2 n v bm ms a).fault = a.fault := by
  induction ms with
  | nil => intro a _; simp [addLoop2]
  | cons m ms ih =>
    intro a hnd
    obtain ⟨hm_notin, hnd'⟩ := List.nodup_cons.mp hnd
    simp only [addLoop2]
    cases hb : bm m with
    | none =>
      simp only
      obtain ⟨i1, i2, i3⟩ := ih a hnd'
      refine ⟨?_, ?_, i3⟩
      · intro m'
        rw [i1 m']
        by_cases hm' : m' = m
        · subst hm'; simp [hm_notin, hb]
        · simp [hm']
      · rw [i2]; simp [hb]
    | some prs =>
      simp only
      obtain ⟨i1, i2, i3⟩ := ih { a with rt := addRoute a.rt m ⟨n, v, prs⟩, newLinks := a.newLinks ++ [m] } hnd'
      refine ⟨?_, ?_, i3⟩
      · intro m'
        rw [i1 m']
        simp only [groupsOf_addRoute]
        by_cases hm' : m' = m
        · subst hm'; simp [hm_notin, hb]
        · simp [hm']
      · rw [i2]; simp [hb]

theorem mem_dedupKeys (l : List HMethod) (x : HMethod) : x ∈ dedupKeys l ↔ x ∈ l := by
  induction l with
  | nil => simp [dedupKeys]
  | cons y ys ih =>
    simp only [dedupKeys, List.mem_cons, List.mem_filter, ih]
    by_cases h : x = y
    · simp [h]
    · simp [h]

theorem nodup_dedupKeys (l : List HMethod) : (dedupKeys l).Nodup := by
  induction l with
  | nil => simp [dedupKeys]
  | cons y ys ih =>
    simp only [dedupKeys]
    rw [List.nodup_cons]
    refine ⟨?_, nodup_filter _ ih⟩
    simp [List.mem_filter]

theorem mem_builtKeys (valid : Bytes → Bool) (d : Desc) (m : HMethod) :
    m ∈ builtKeys valid d ↔ built valid d m ≠ none := by
  simp only [builtKeys, mem_dedupKeys, built]
  constructor
  · intro h
    obtain ⟨r, hr, hm⟩ := List.mem_map.mp h
    have : r ∈ (allRoutes valid d).filter (fun r => decide (r.httpMethod = m)) := by
      simp [List.mem_filter, hr, hm]
    cases hf : (allRoutes valid d).filter (fun r => decide (r.httpMethod = m)) with
    | nil => rw [hf] at this; simp at this
    | cons a as => simp
  · intro h
    cases hf : (allRoutes valid d).filter (fun r => decide (r.httpMethod = m)) with
    | nil => simp [hf] at h
    | cons a as =>
      have : a ∈ (allRoutes valid d).filter (fun r => decide (r.httpMethod = m)) := by simp [hf]
      obtain ⟨ha, hm⟩ := List.mem_filter.mp this
      exact List.mem_map.mpr ⟨a, ha, by simpa using hm⟩

theorem addTarget_spec (st : PatState) (n : Name) (v : Ver) (bm : HMethod → Option (List Route))
    (keys : List HMethod) (hL : (sliceOf (st.links n)).Nodup) (hk : keys.Nodup)
    (hkeys : ∀ m, m ∈ keys ↔ bm m ≠ none) :
    (∀ m, groupsOf (st.addTarget n v bm keys).routes m =
        if m ∈ sliceOf (st.links n) then upd1 n v bm (groupsOf st.routes m) m
        else match bm m with
          | some prs => groupsOf st.routes m ++ [⟨n, v, prs⟩]
          | none => groupsOf st.routes m) ∧
    (∀ m, m ∈ sliceOf ((st.addTarget n v bm keys).links n) ↔ bm m ≠ none) ∧
    (sliceOf ((st.addTarget n v bm keys).links n)).Nodup ∧
    (∀ n', n' ≠ n → (st.addTarget n v bm keys).links n' = st.links n') ∧
    (st.addTarget n v bm keys).static = (st.addTarget n v bm keys).routes ∧
    (st.addTarget n v bm keys).watching = st.watching ∧
    ((∀ m ∈ sliceOf (st.links n), st.routes m ≠ none) → (st.addTarget n v bm keys).fault = st.fault) := by
  obtain ⟨a1, a2, a3, a4⟩ := addLoop1_spec n v bm (sliceOf (st.links n)) ⟨st.routes, st.fault, [], keys⟩ hL
    (fun m _ => hkeys m)
  have hrem : (addLoop1 n v bm (sliceOf (st.links n)) ⟨st.routes, st.fault, [], keys⟩).rem =
      keys.filter (fun k => !decide (k ∈ sliceOf (st.links n))) := by
    rw [a3]
    apply List.filter_congr
    intro k hk'
    have : (bm k).isSome = true := by
      have := (hkeys k).mp hk'
      cases hb : bm k with
      | none => exact absurd hb this
      | some _ => rfl
    simp [this]
  have hremND : (addLoop1 n v bm (sliceOf (st.links n)) ⟨st.routes, st.fault, [], keys⟩).rem.Nodup := by
    rw [hrem]; exact nodup_filter _ hk
  obtain ⟨b1, b2, b3⟩ := addLoop2_spec n v bm _ (addLoop1 n v bm (sliceOf (st.links n)) ⟨st.routes, st.fault, [], keys⟩) hremND
  have hlinks : sliceOf ((st.addTarget n v bm keys).links n) =
      (sliceOf (st.links n)).filter (fun m => (bm m).isSome) ++
        (keys.filter (fun k => !decide (k ∈ sliceOf (st.links n)))).filter (fun m => (bm m).isSome) := by
    simp only [PatState.addTarget, upd_same]
    show (addLoop2 n v bm _ _).newLinks = _
    rw [b2, a2, hrem]; simp
  refine ⟨?_, ?_, ?_, ?_, rfl, rfl, ?_⟩
  · intro m
    show groupsOf (addLoop2 n v bm _ _).rt m = _
    rw [b1 m, a1 m, hrem]
    by_cases hm : m ∈ sliceOf (st.links n)
    · simp [hm, List.mem_filter]
    · simp only [hm, ↓reduceIte, List.mem_filter, decide_false, Bool.not_false, and_true]
      cases hb : bm m with
      | none => simp
      | some prs =>
        have : m ∈ keys := (hkeys m).mpr (by simp [hb])
        simp [this]
  · intro m
    rw [hlinks]
    simp only [List.mem_append, List.mem_filter]
    constructor
    · rintro (⟨_, h⟩ | ⟨_, h⟩) <;> (cases hb : bm m <;> simp [hb] at h ⊢)
    · intro h
      have hs : (bm m).isSome = true := by
        cases hb : bm m with
        | none => exact absurd hb h
        | some _ => rfl
      by_cases hm : m ∈ sliceOf (st.links n)
      · exact Or.inl ⟨hm, hs⟩
      · exact Or.inr ⟨⟨(hkeys m).mpr h, by simp [hm]⟩, hs⟩
  · rw [hlinks, List.nodup_append]
    refine ⟨nodup_filter _ hL, nodup_filter _ (nodup_filter _ hk), ?_⟩
    intro a ha b hb hab
    subst hab
    have h1 := (List.mem_filter.mp ha).1
    have h2 := (List.mem_filter.mp (List.mem_filter.mp hb).1).2
    simp [h1] at h2
  · intro n' hn'
    simp only [PatState.addTarget]
    exact upd_other _ _ _ hn'
  · intro hall
    show (addLoop2 n v bm _ _).fault = st.fault
    rw [b3, a4 hall]

theorem remLoop_spec (n : Name) (ms : List HMethod) :
    ∀ (p : (HMethod → Option (List Group)) × Bool), ms.Nodup →
      (∀ m', groupsOf (remLoop n ms p).1 m' =
          if m' ∈ ms then (groupsOf p.1 m').filter (fun g => decide (g.name ≠ n)) else groupsOf p.1 m') ∧
      ((∀ m ∈ ms, p.1 m ≠ none) → (remLoop n ms p).2 = p.2) := by
  induction ms with
  | nil => intro p _; simp [remLoop]
  | cons m ms ih =>
    intro p hnd
    obtain ⟨hm_notin, hnd'⟩ := List.nodup_cons.mp hnd
    simp only [remLoop]
    obtain ⟨i1, i2⟩ := ih (removeRoute p.1 p.2 m n) hnd'
    refine ⟨?_, ?_⟩
    · intro m'
      rw [i1 m']
      simp only [groupsOf_removeRoute]
      by_cases hm' : m' = m
      · subst hm'; simp [hm_notin]
      · simp [hm']
    · intro hall
      rw [i2]
      · exact removeRoute_fault _ _ _ _ (hall m (by simp))
      · intro m2 h2
        have hne : m2 ≠ m := fun e => hm_notin (e ▸ h2)
        rw [removeRoute_other _ _ _ _ hne]
        exact hall m2 (by simp [h2])

theorem specGroup_name {valid : Bytes → Bool} {l : Latest} {m : HMethod} {n : Name} {g : Group}
    (h : specGroup valid l m n = some g) : g.name = n := by
  simp only [specGroup] at h
  cases hd : l.desc n with
  | none => simp [hd] at h
  | some d =>
    simp only [hd] at h
    cases hb : built valid d m with
    | none => simp [hb] at h
    | some rs => simp [hb] at h; rw [← h]

theorem specGroup_congr (valid : Bytes → Bool) {l l' : Latest} {n : Name} (h : l'.desc n = l.desc n) (m : HMethod) :
    specGroup valid l' m n = specGroup valid l m n := by
  simp [specGroup, h]

theorem specGroup_of_desc (valid : Bytes → Bool) {l : Latest} {n : Name} {d : Desc} (h : l.desc n = some d) (m : HMethod) :
    specGroup valid l m n = (built valid d m).map (fun rs => ⟨n, d.ver, rs⟩) := by
  simp [specGroup, h]

theorem specGroup_of_none (valid : Bytes → Bool) {l : Latest} {n : Name} (h : l.desc n = none) (m : HMethod) :
    specGroup valid l m n = none := by
  simp [specGroup, h]

/-- the pattern table against the latest descriptions -/
structure PInv (valid : Bytes → Bool) (st : PatState) (l : Latest) : Prop where
  sound : ∀ m g, g ∈ groupsOf st.routes m → specGroup valid l m g.name = some g
  complete : ∀ m n g, specGroup valid l m n = some g → g ∈ groupsOf st.routes m
  links : ∀ n m, m ∈ sliceOf (st.links n) ↔ (specGroup valid l m n).isSome = true
  linksNodup : ∀ n, (sliceOf (st.links n)).Nodup
  committed : st.static = st.routes
  noFault : st.fault = false
  watch : ∀ n, st.watching n = l.watched n

theorem PInv_init (valid : Bytes → Bool) : PInv valid PatState.init Latest.init := by
  refine ⟨?_, ?_, ?_, ?_, rfl, rfl, fun _ => rfl⟩
  · intro m g h; simp [PatState.init, groupsOf, sliceOf] at h
  · intro m n g h; simp [specGroup, Latest.desc, Latest.init] at h
  · intro n m; simp [PatState.init, sliceOf, specGroup, Latest.desc, Latest.init]
  · intro n; simp [PatState.init, sliceOf]

theorem routes_ne_none_of_mem {rt : HMethod → Option (List Group)} {m : HMethod} {g : Group}
    (h : g ∈ groupsOf rt m) : rt m ≠ none := by
  intro e; simp [groupsOf, e, sliceOf] at h

/-- linked methods have a list (so `removeRoute` never dereferences nil) -/
theorem PInv_linked_ne_none {valid : Bytes → Bool} {st : PatState} {l : Latest} (h : PInv valid st l) (n : Name) :
    ∀ m ∈ sliceOf (st.links n), st.routes m ≠ none := by
  intro m hm
  have := (h.links n m).mp hm
  cases hs : specGroup valid l m n with
  | none => simp [hs] at this
  | some g => exact routes_ne_none_of_mem (h.complete _ _ _ hs)

/-- a method the target is not linked to has no element of that target -/
theorem PInv_unlinked {valid : Bytes → Bool} {st : PatState} {l : Latest} (h : PInv valid st l) (n : Name) (m : HMethod)
    (hm : m ∉ sliceOf (st.links n)) : ∀ g ∈ groupsOf st.routes m, g.name ≠ n := by
  intro g hg e
  have := h.sound _ _ hg
  rw [e] at this
  exact hm ((h.links n m).mpr (by simp [this]))

theorem PInv_update {valid : Bytes → Bool} {st : PatState} {l : Latest} (h : PInv valid st l) (d : Desc)
    (hw : st.watching d.name = true) :
    PInv valid (st.addTarget d.name d.ver (built valid d) (builtKeys valid d)) (l.step (.update d.name d)) := by
  have hlw : l.watched d.name = true := by rw [← h.watch]; exact hw
  obtain ⟨A1, A2, A3, A4, A5, A6, A7⟩ := addTarget_spec st d.name d.ver (built valid d) (builtKeys valid d)
    (h.linksNodup _) (nodup_dedupKeys _) (mem_builtKeys valid d)
  have hdesc : (l.step (.update d.name d)).desc d.name = some d := by rw [desc_update]; simp [hlw]
  have hother : ∀ n', n' ≠ d.name → (l.step (.update d.name d)).desc n' = l.desc n' := by
    intro n' hn'; rw [desc_update]; simp [hn']
  have hsg_self : ∀ m, specGroup valid (l.step (.update d.name d)) m d.name =
      (built valid d m).map (fun rs => ⟨d.name, d.ver, rs⟩) := fun m => specGroup_of_desc valid hdesc m
  have hsg_other : ∀ m n', n' ≠ d.name → specGroup valid (l.step (.update d.name d)) m n' = specGroup valid l m n' :=
    fun m n' hn' => specGroup_congr valid (hother n' hn') m
  refine ⟨?_, ?_, ?_, ?_, A5, ?_, ?_⟩
  · -- sound
    intro m g hg
    rw [A1 m] at hg
    by_cases hL : m ∈ sliceOf (st.links d.name)
    · simp only [hL, ↓reduceIte, upd1] at hg
      cases hb : built valid d m with
      | none =>
        simp only [hb] at hg
        obtain ⟨hg1, hg2⟩ := List.mem_filter.mp hg
        have hne : g.name ≠ d.name := by simpa using hg2
        rw [hsg_other m _ hne]; exact h.sound _ _ hg1
      | some prs =>
        simp only [hb] at hg
        obtain ⟨g0, hg0, he⟩ := List.mem_map.mp hg
        by_cases hn : g0.name = d.name
        · simp only [hn, ↓reduceIte] at he
          subst he
          simp [hsg_self, hb]
        · simp only [hn, ↓reduceIte] at he
          subst he
          rw [hsg_other m _ hn]; exact h.sound _ _ hg0
    · simp only [hL, ↓reduceIte] at hg
      have hun := PInv_unlinked h d.name m hL
      cases hb : built valid d m with
      | none =>
        simp only [hb] at hg
        rw [hsg_other m _ (hun g hg)]; exact h.sound _ _ hg
      | some prs =>
        simp only [hb, List.mem_append, List.mem_singleton] at hg
        rcases hg with hg | hg
        · rw [hsg_other m _ (hun g hg)]; exact h.sound _ _ hg
        · subst hg; simp [hsg_self, hb]
  · -- complete
    intro m n' g hs
    rw [A1 m]
    by_cases hn' : n' = d.name
    · subst hn'
      rw [hsg_self] at hs
      cases hb : built valid d m with
      | none => simp [hb] at hs
      | some prs =>
        simp only [hb, Option.map_some, Option.some.injEq] at hs
        subst hs
        by_cases hL : m ∈ sliceOf (st.links d.name)
        · simp only [hL, ↓reduceIte, upd1, hb]
          have := (h.links d.name m).mp hL
          cases hs0 : specGroup valid l m d.name with
          | none => simp [hs0] at this
          | some g0 =>
            have hg0 := h.complete _ _ _ hs0
            have hname := specGroup_name hs0
            exact List.mem_map.mpr ⟨g0, hg0, by simp [hname]⟩
        · simp [hL, hb]
    · rw [hsg_other m _ hn'] at hs
      have hg := h.complete _ _ _ hs
      have hname : g.name ≠ d.name := by rw [specGroup_name hs]; exact hn'
      by_cases hL : m ∈ sliceOf (st.links d.name)
      · simp only [hL, ↓reduceIte, upd1]
        cases hb : built valid d m with
        | none => simp only; exact List.mem_filter.mpr ⟨hg, by simpa using hname⟩
        | some prs => simp only; exact List.mem_map.mpr ⟨g, hg, by simp [hname]⟩
      · simp only [hL, ↓reduceIte]
        cases hb : built valid d m with
        | none => exact hg
        | some prs => simp [hg]
  · -- links
    intro n' m
    by_cases hn' : n' = d.name
    · subst hn'
      rw [A2 m, hsg_self]
      cases hb : built valid d m <;> simp
    · rw [A4 n' hn', hsg_other m _ hn']; exact h.links n' m
  · intro n'
    by_cases hn' : n' = d.name
    · subst hn'; exact A3
    · rw [A4 n' hn']; exact h.linksNodup n'
  · rw [A7 (PInv_linked_ne_none h d.name)]; exact h.noFault
  · intro n'; rw [A6, watched_update]; exact h.watch n'

theorem PInv_close {valid : Bytes → Bool} {st : PatState} {l : Latest} (h : PInv valid st l) (n : Name) :
    PInv valid { (st.removeTarget n) with watching := upd (st.removeTarget n).watching n false } (l.step (.close n)) := by
  obtain ⟨R1, R2⟩ := remLoop_spec n (sliceOf (st.links n)) (st.routes, st.fault) (h.linksNodup n)
  have hsg_self : ∀ m, specGroup valid (l.step (.close n)) m n = none :=
    fun m => specGroup_of_none valid (by rw [desc_close]; simp) m
  have hsg_other : ∀ m n', n' ≠ n → specGroup valid (l.step (.close n)) m n' = specGroup valid l m n' :=
    fun m n' hn' => specGroup_congr valid (by rw [desc_close]; simp [hn']) m
  have hroutes : ∀ m, groupsOf (st.removeTarget n).routes m =
      if m ∈ sliceOf (st.links n) then (groupsOf st.routes m).filter (fun g => decide (g.name ≠ n))
      else groupsOf st.routes m := R1
  refine ⟨?_, ?_, ?_, ?_, rfl, ?_, ?_⟩
  · intro m g hg
    have hg' : g ∈ groupsOf (st.removeTarget n).routes m := hg
    rw [hroutes m] at hg'
    by_cases hL : m ∈ sliceOf (st.links n)
    · simp only [hL, ↓reduceIte] at hg'
      obtain ⟨hg1, hg2⟩ := List.mem_filter.mp hg'
      have hne : g.name ≠ n := by simpa using hg2
      rw [hsg_other m _ hne]; exact h.sound _ _ hg1
    · simp only [hL, ↓reduceIte] at hg'
      rw [hsg_other m _ (PInv_unlinked h n m hL g hg')]; exact h.sound _ _ hg'
  · intro m n' g hs
    have hn' : n' ≠ n := by
      intro e; subst e; rw [hsg_self] at hs; cases hs
    rw [hsg_other m _ hn'] at hs
    have hg := h.complete _ _ _ hs
    have hname : g.name ≠ n := by rw [specGroup_name hs]; exact hn'
    show g ∈ groupsOf (st.removeTarget n).routes m
    rw [hroutes m]
    by_cases hL : m ∈ sliceOf (st.links n)
    · simp only [hL, ↓reduceIte]; exact List.mem_filter.mpr ⟨hg, by simpa using hname⟩
    · simp only [hL, ↓reduceIte]; exact hg
  · intro n' m
    show m ∈ sliceOf (upd st.links n none n') ↔ _
    by_cases hn' : n' = n
    · subst hn'; simp [upd_same, sliceOf, hsg_self]
    · rw [upd_other _ _ _ hn', hsg_other m _ hn']; exact h.links n' m
  · intro n'
    show (sliceOf (upd st.links n none n')).Nodup
    by_cases hn' : n' = n
    · subst hn'; simp [upd_same, sliceOf]
    · rw [upd_other _ _ _ hn']; exact h.linksNodup n'
  · show (remLoop n (sliceOf (st.links n)) (st.routes, st.fault)).2 = false
    rw [R2 (PInv_linked_ne_none h n)]; exact h.noFault
  · intro m
    show upd st.watching n false m = _
    rw [watched_close, ← h.watch]
    by_cases hm : m = n
    · subst hm; simp [upd_same]
    · simp [upd_other _ _ _ hm, hm]

theorem PInv_step {valid : Bytes → Bool} {st : PatState} {l : Latest} (h : PInv valid st l) (op : Op) :
    PInv valid (st.step valid op).1 (l.step op) := by
  cases op with
  | watch n =>
    have hsg : ∀ m n', specGroup valid (l.step (.watch n)) m n' = specGroup valid l m n' :=
      fun m n' => specGroup_congr valid (desc_watch l n n') m
    simp only [PatState.step]
    by_cases hw : st.watching n = true
    · simp only [hw, ↓reduceIte]
      refine ⟨?_, ?_, ?_, h.linksNodup, h.committed, h.noFault, ?_⟩
      · intro m g hg; rw [hsg]; exact h.sound _ _ hg
      · intro m n' g hs; rw [hsg] at hs; exact h.complete _ _ _ hs
      · intro n' m; rw [hsg]; exact h.links n' m
      · intro m; rw [watched_watch, ← h.watch]
        by_cases hm : m = n
        · subst hm; simp [hw]
        · simp [hm]
    · simp only [hw, Bool.false_eq_true, ↓reduceIte]
      refine ⟨?_, ?_, ?_, h.linksNodup, h.committed, h.noFault, ?_⟩
      · intro m g hg; rw [hsg]; exact h.sound _ _ hg
      · intro m n' g hs; rw [hsg] at hs; exact h.complete _ _ _ hs
      · intro n' m; rw [hsg]; exact h.links n' m
      · intro m; rw [watched_watch, ← h.watch]
        show upd st.watching n true m = _
        by_cases hm : m = n
        · subst hm; simp [upd_same]
        · simp [upd_other _ _ _ hm, hm]
  | update n d =>
    by_cases hv : st.watching n = true ∧ d.name = n
    · obtain ⟨hw, hd⟩ := hv
      subst hd
      have : (st.step valid (.update d.name d)).1 = st.addTarget d.name d.ver (built valid d) (builtKeys valid d) := by
        simp [PatState.step, hw]
      rw [this]; exact PInv_update h d hw
    · have hst : (st.step valid (.update n d)).1 = st := by
        simp only [PatState.step]
        by_cases hw : st.watching n = true
        · have hd : d.name ≠ n := fun e => hv ⟨hw, e⟩
          simp [hw, hd]
        · simp [hw]
      have hdesc : ∀ n', (l.step (.update n d)).desc n' = l.desc n' := by
        intro n'; rw [desc_update]
        have : ¬ (l.watched n = true ∧ d.name = n ∧ n' = n) := by
          rintro ⟨a, b, _⟩; exact hv ⟨by rw [h.watch]; exact a, b⟩
        simp [this]
      have hsg : ∀ m n', specGroup valid (l.step (.update n d)) m n' = specGroup valid l m n' :=
        fun m n' => specGroup_congr valid (hdesc n') m
      rw [hst]
      refine ⟨?_, ?_, ?_, h.linksNodup, h.committed, h.noFault, ?_⟩
      · intro m g hg; rw [hsg]; exact h.sound _ _ hg
      · intro m n' g hs; rw [hsg] at hs; exact h.complete _ _ _ hs
      · intro n' m; rw [hsg]; exact h.links n' m
      · intro m; rw [watched_update]; exact h.watch m
  | close n =>
    by_cases hw : st.watching n = true
    · have : (st.step valid (.close n)).1 =
          { (st.removeTarget n) with watching := upd (st.removeTarget n).watching n false } := by
        simp [PatState.step, hw]
        rfl
      rw [this]; exact PInv_close h n
    · have hst : (st.step valid (.close n)).1 = st := by simp [PatState.step, hw]
      have hlw : l.watched n = false := by rw [← h.watch]; simpa using hw
      have hdn : l.desc n = none := by
        cases hd : l.desc n with
        | none => rfl
        | some d => have := desc_some_watched l n d hd; rw [hlw] at this; cases this
      have hdesc : ∀ n', (l.step (.close n)).desc n' = l.desc n' := by
        intro n'; rw [desc_close]
        by_cases hn' : n' = n
        · subst hn'; simp [hdn]
        · simp [hn']
      have hsg : ∀ m n', specGroup valid (l.step (.close n)) m n' = specGroup valid l m n' :=
        fun m n' => specGroup_congr valid (hdesc n') m
      rw [hst]
      refine ⟨?_, ?_, ?_, h.linksNodup, h.committed, h.noFault, ?_⟩
      · intro m g hg; rw [hsg]; exact h.sound _ _ hg
      · intro m n' g hs; rw [hsg] at hs; exact h.complete _ _ _ hs
      · intro n' m; rw [hsg]; exact h.links n' m
      · intro m; rw [watched_close, ← h.watch]
        by_cases hm : m = n
        · subst hm; simp at hw; simp [hw]
        · simp [hm]

theorem PInv_run {valid : Bytes → Bool} {st : PatState} {l : Latest} (h : PInv valid st l) (ops : List Op) :
    PInv valid (st.run valid ops) (ops.foldl Latest.step l) := by
  induction ops generalizing st l with
  | nil => exact h
  | cons op ops ih => exact ih (PInv_step h op)

/-! ### lookup -/

def decisiveB (ev : Route → Outcome) (g : Group) : Bool := (g.routes.find? (fun r => decide (ev r ≠ .skip))).isSome

theorem decisive_iff (ev : Route → Outcome) (g : Group) : g.decisive ev ↔ decisiveB ev g = true := by
  unfold Group.decisive decisiveB
  constructor
  · rintro ⟨r, hr, hne⟩
    cases hf : g.routes.find? (fun r => decide (ev r ≠ .skip)) with
    | some _ => rfl
    | none =>
      have h1 := List.find?_eq_none.mp hf r hr
      have h2 : ev r = .skip := by simpa using h1
      exact absurd h2 hne
  · intro h
    cases hf : g.routes.find? (fun r => decide (ev r ≠ .skip)) with
    | none => rw [hf] at h; cases h
    | some r =>
      have h1 := List.mem_of_find?_eq_some hf
      have h2 := List.find?_some hf
      exact ⟨r, h1, by simpa using h2⟩

theorem firstDecisive_none (ev : Route → Outcome) (gs : List Group) (h : ∀ g ∈ gs, decisiveB ev g = false) :
    firstDecisive ev gs = none := by
  induction gs with
  | nil => rfl
  | cons g gs ih =>
    have hg := h g (by simp)
    unfold firstDecisive
    cases hf : g.routes.find? (fun r => decide (ev r ≠ .skip)) with
    | some r => rw [decisiveB, hf] at hg; cases hg
    | none => exact ih (fun g' hg' => h g' (by simp [hg']))

theorem firstDecisive_single (ev : Route → Outcome) (g : Group) (r : Route)
    (hf : g.routes.find? (fun r => decide (ev r ≠ .skip)) = some r) : firstDecisive ev [g] = some (g, r, ev r) := by
  unfold firstDecisive; rw [hf]

theorem firstDecisive_unique (ev : Route → Outcome) (g0 : Group) (gs : List Group) (hmem : g0 ∈ gs)
    (hd : decisiveB ev g0 = true) (hall : ∀ g ∈ gs, decisiveB ev g = true → g = g0) :
    firstDecisive ev gs = firstDecisive ev [g0] := by
  induction gs with
  | nil => cases hmem
  | cons g gs ih =>
    cases hf : g.routes.find? (fun r => decide (ev r ≠ .skip)) with
    | some r =>
      have : g = g0 := hall g (by simp) (by rw [decisiveB, hf]; rfl)
      subst this
      rw [firstDecisive_single ev g r hf]
      unfold firstDecisive; rw [hf]
    | none =>
      have hne : g0 ≠ g := by
        intro e; subst e; rw [decisiveB, hf] at hd; cases hd
      have hmem' : g0 ∈ gs := by
        rcases List.mem_cons.mp hmem with h | h
        · exact absurd h hne
        · exact h
      have := ih hmem' (fun g' hg' => hall g' (by simp [hg']))
      rw [← this]
      conv => lhs; unfold firstDecisive
      rw [hf]

/-- two group lists with the same members answer alike when at most one member decides the request -/
theorem firstDecisive_same_members (ev : Route → Outcome) (gs1 gs2 : List Group)
    (hmem : ∀ g, g ∈ gs1 ↔ g ∈ gs2)
    (huniq : ∀ g g', g ∈ gs1 → g' ∈ gs1 → decisiveB ev g = true → decisiveB ev g' = true → g = g') :
    firstDecisive ev gs1 = firstDecisive ev gs2 := by
  by_cases hex : ∃ g0 ∈ gs1, decisiveB ev g0 = true
  · obtain ⟨g0, h0, hd⟩ := hex
    rw [firstDecisive_unique ev g0 gs1 h0 hd (fun g hg hgd => huniq g g0 hg h0 hgd hd),
        firstDecisive_unique ev g0 gs2 ((hmem g0).mp h0) hd
          (fun g hg hgd => huniq g g0 ((hmem g).mpr hg) h0 hgd hd)]
  · have hnone : ∀ g ∈ gs1, decisiveB ev g = false := by
      intro g hg
      cases hb : decisiveB ev g with
      | false => rfl
      | true => exact absurd ⟨g, hg, hb⟩ hex
    rw [firstDecisive_none ev gs1 hnone, firstDecisive_none ev gs2 (fun g hg => hnone g ((hmem g).mpr hg))]

theorem groupsOf_specTable (valid : Bytes → Bool) (l : Latest) (names : List Name) (m : HMethod) :
    groupsOf (specTable valid l names) m = names.filterMap (specGroup valid l m) := by
  simp only [groupsOf, specTable]
  cases h : names.filterMap (specGroup valid l m) <;> simp [sliceOf]

theorem specGroup_watched {valid : Bytes → Bool} {l : Latest} {m : HMethod} {n : Name} {g : Group}
    (h : specGroup valid l m n = some g) : l.watched n = true := by
  simp only [specGroup] at h
  cases hd : l.desc n with
  | none => simp [hd] at h
  | some d => exact desc_some_watched l n d hd

/-! ### isolation: operations on `n` never touch the elements of other targets -/

def othersOf (n : Name) (rt : HMethod → Option (List Group)) (m : HMethod) : List Group :=
  (groupsOf rt m).filter (fun g => decide (g.name ≠ n))

theorem filter_map_repl (n : Name) (g : Group) (hg : g.name = n) (l : List Group) :
    (l.map (fun g0 => if g0.name = g.name then g else g0)).filter (fun x => decide (x.name ≠ n)) =
      l.filter (fun x => decide (x.name ≠ n)) := by
  induction l with
  | nil => rfl
  | cons a as ih =>
    by_cases ha : a.name = n
    · simp_all [List.filter_cons]
    · have : a.name ≠ g.name := by rw [hg]; exact ha
      simp_all [List.filter_cons]

theorem othersOf_removeRoute (rt : HMethod → Option (List Group)) (flt : Bool) (m : HMethod) (n : Name) (m' : HMethod) :
    othersOf n (removeRoute rt flt m n).1 m' = othersOf n rt m' := by
  simp only [othersOf, groupsOf_removeRoute]
  by_cases hm : m' = m
  · subst hm; simp [List.filter_filter]
  · simp [hm]

theorem othersOf_setGroup (rt : HMethod → Option (List Group)) (m : HMethod) (g : Group) (m' : HMethod) :
    othersOf g.name (setGroup rt m g) m' = othersOf g.name rt m' := by
  simp only [othersOf, groupsOf_setGroup]
  by_cases hm : m' = m
  · subst hm; simp only [↓reduceIte]; exact filter_map_repl g.name g rfl _
  · simp [hm]

theorem othersOf_addRoute (rt : HMethod → Option (List Group)) (m : HMethod) (g : Group) (m' : HMethod) :
    othersOf g.name (addRoute rt m g) m' = othersOf g.name rt m' := by
  simp only [othersOf, groupsOf_addRoute]
  by_cases hm : m' = m
  · subst hm; simp
  · simp [hm]

theorem othersOf_addLoop1 (n : Name) (v : Ver) (bm : HMethod → Option (List Route)) (ms : List HMethod) :
    ∀ (a : AddAcc) (m' : HMethod), othersOf n (addLoop1 n v bm ms a).rt m' = othersOf n a.rt m' := by
  induction ms with
  | nil => intro a m'; rfl
  | cons m ms ih =>
    intro a m'
    simp only [addLoop1]
    split
    · rw [ih]; exact othersOf_removeRoute _ _ _ _ _
    · rename_i prs _
      rw [ih]; exact othersOf_setGroup a.rt m ⟨n, v, prs⟩ m'

theorem othersOf_addLoop2 (n : Name) (v : Ver) (bm : HMethod → Option (List Route)) (ms : List HMethod) :
    ∀ (a : AddAcc) (m' : HMethod), othersOf n (addLoop2 n v bm ms a).rt m' = othersOf n a.rt m' := by
  induction ms with
  | nil => intro a m'; rfl
  | cons m ms ih =>
    intro a m'
    simp only [addLoop2]
    split
    · exact ih a m'
    · rename_i prs _
      rw [ih]; exact othersOf_addRoute a.rt m ⟨n, v, prs⟩ m'

theorem othersOf_remLoop (n : Name) (ms : List HMethod) :
    ∀ (p : (HMethod → Option (List Group)) × Bool) (m' : HMethod), othersOf n (remLoop n ms p).1 m' = othersOf n p.1 m' := by
  induction ms with
  | nil => intro p m'; rfl
  | cons m ms ih =>
    intro p m'
    simp only [remLoop]
    rw [ih]; exact othersOf_removeRoute _ _ _ _ _

/-- the target an operation is about -/
def Op.target : Op → Name
  | .watch n => n
  | .update n _ => n
  | .close n => n

theorem othersOf_step (valid : Bytes → Bool) (st : PatState) (op : Op) (m : HMethod) :
    othersOf op.target (st.step valid op).1.routes m = othersOf op.target st.routes m := by
  cases op with
  | watch n => simp only [PatState.step]; split <;> rfl
  | update n d =>
    simp only [PatState.step, Op.target]
    split
    · rfl
    · split
      · rfl
      · rename_i hd
        have hd' : d.name = n := by simpa using hd
        subst hd'
        show othersOf d.name (addLoop2 d.name d.ver _ _ _).rt m = _
        rw [othersOf_addLoop2, othersOf_addLoop1]
  | close n =>
    simp only [PatState.step, Op.target]
    split
    · rfl
    · show othersOf n (remLoop n _ _).1 m = _
      rw [othersOf_remLoop]

theorem firstDecisive_some {ev : Route → Outcome} {gs : List Group} {g : Group} {r : Route} {o : Outcome}
    (h : firstDecisive ev gs = some (g, r, o)) : g ∈ gs ∧ r ∈ g.routes ∧ o = ev r ∧ ev r ≠ .skip := by
  induction gs with
  | nil => simp [firstDecisive] at h
  | cons a as ih =>
    unfold firstDecisive at h
    cases hf : a.routes.find? (fun r => decide (ev r ≠ .skip)) with
    | some r' =>
      rw [hf] at h
      simp only [Option.some.injEq, Prod.mk.injEq] at h
      obtain ⟨h1, h2, h3⟩ := h
      subst h1; subst h2
      have := List.find?_some hf
      exact ⟨by simp, List.mem_of_find?_eq_some hf, h3.symm, by simpa using this⟩
    | none =>
      rw [hf] at h
      obtain ⟨i1, i2⟩ := ih h
      exact ⟨by simp [i1], i2⟩

theorem specGroup_some {valid : Bytes → Bool} {l : Latest} {m : HMethod} {n : Name} {g : Group}
    (h : specGroup valid l m n = some g) :
    ∃ d, l.desc n = some d ∧ ∃ rs, built valid d m = some rs ∧ g = ⟨n, d.ver, rs⟩ := by
  simp only [specGroup] at h
  cases hd : l.desc n with
  | none => simp [hd] at h
  | some d =>
    simp only [hd] at h
    cases hb : built valid d m with
    | none => simp [hb] at h
    | some rs => simp [hb] at h; exact ⟨d, rfl, rs, hb, h.symm⟩

theorem run_snoc_svc (st : SvcState) (h : List Op) (op : Op) : st.run (h ++ [op]) = ((st.run h).step op).1 := by
  simp [SvcState.run, List.foldl_append]

theorem run_snoc_pat (valid : Bytes → Bool) (st : PatState) (h : List Op) (op : Op) :
    st.run valid (h ++ [op]) = ((st.run valid h).step valid op).1 := by
  simp [PatState.run, List.foldl_append]

theorem latestOf_snoc (h : List Op) (op : Op) : latestOf (h ++ [op]) = (latestOf h).step op := by
  simp [latestOf, List.foldl_append]

/-! ### every target has at most one element per method list
  (this is what makes "the element of target n in the list of method m" — the model's reading of a
  `*list.Element` back-link — well defined) -/

def UInv (st : PatState) : Prop := ∀ m, ((groupsOf st.routes m).map (·.name)).Nodup

theorem UInv_init : UInv PatState.init := by
  intro m; simp [PatState.init, groupsOf, sliceOf]

theorem map_name_repl (n : Name) (g : Group) (hg : g.name = n) (l : List Group) :
    (l.map (fun g0 => if g0.name = n then g else g0)).map (·.name) = l.map (·.name) := by
  induction l with
  | nil => rfl
  | cons a as ih =>
    simp only [List.map_cons, ih]
    by_cases ha : a.name = n
    · simp [ha, hg]
    · simp [ha]

theorem nodup_map_filter (p : Group → Bool) {l : List Group} (h : (l.map (·.name)).Nodup) :
    ((l.filter p).map (·.name)).Nodup :=
  List.Nodup.sublist (List.Sublist.map _ List.filter_sublist) h

theorem UInv_step {valid : Bytes → Bool} {st : PatState} {l : Latest} (h : PInv valid st l) (hu : UInv st) (op : Op) :
    UInv (st.step valid op).1 := by
  cases op with
  | watch n =>
    simp only [PatState.step]; split
    · exact hu
    · exact hu
  | update n d =>
    simp only [PatState.step]
    split
    · exact hu
    · split
      · exact hu
      · rename_i hd
        have hd' : d.name = n := by simpa using hd
        obtain ⟨A1, _⟩ := addTarget_spec st d.name d.ver (built valid d) (builtKeys valid d)
          (h.linksNodup _) (nodup_dedupKeys _) (mem_builtKeys valid d)
        intro m
        rw [A1 m]
        by_cases hL : m ∈ sliceOf (st.links d.name)
        · simp only [hL, ↓reduceIte, upd1]
          cases hb : built valid d m with
          | none => exact nodup_map_filter _ (hu m)
          | some prs =>
            simp only
            rw [map_name_repl d.name ⟨d.name, d.ver, prs⟩ rfl]
            exact hu m
        · simp only [hL, ↓reduceIte]
          cases hb : built valid d m with
          | none => exact hu m
          | some prs =>
            simp only [List.map_append, List.map_cons, List.map_nil]
            rw [List.nodup_append]
            refine ⟨hu m, by simp, ?_⟩
            intro a ha b hb' hab
            simp only [List.mem_singleton] at hb'
            obtain ⟨g, hg, hgn⟩ := List.mem_map.mp ha
            exact PInv_unlinked h d.name m hL g hg (by rw [hgn, hab, hb'])
  | close n =>
    simp only [PatState.step]
    split
    · exact hu
    · obtain ⟨R1, _⟩ := remLoop_spec n (sliceOf (st.links n)) (st.routes, st.fault) (h.linksNodup n)
      intro m
      show ((groupsOf (remLoop n (sliceOf (st.links n)) (st.routes, st.fault)).1 m).map (·.name)).Nodup
      rw [R1 m]
      by_cases hL : m ∈ sliceOf (st.links n)
      · simp only [hL, ↓reduceIte]; exact nodup_map_filter _ (hu m)
      · simp only [hL, ↓reduceIte]; exact hu m

theorem UInv_run {valid : Bytes → Bool} : ∀ (ops : List Op) {st : PatState} {l : Latest}, PInv valid st l → UInv st →
    UInv (st.run valid ops) := by
  intro ops
  induction ops with
  | nil => intro st l _ hu; exact hu
  | cons op ops ih => intro st l h hu; exact ih (PInv_step h op) (UInv_step h hu op)

end GB.C06
