import GB.C14.Model
/-
  C14 — specification.  A gRPC-style name is `["/"] service "/" method`, the service being
  everything up to the first '/' (after the optional leading one) and the method the whole rest,
  untouched.  A name without that '/' is malformed.
-/
namespace GB.C14
open GB.C06

/-- one optional leading '/' removed -/
def strip (s : Bytes) : Bytes :=
  match s with
  | c :: rest => if c = slash then rest else s
  | [] => []

/-- `s` names method `m` of service `svc` -/
def Names (s svc m : Bytes) : Prop := strip s = svc ++ slash :: m ∧ slash ∉ svc

/-- outcome demanded for a gRPC(-Web) call named `s` over the ownership table `routes` -/
def specGRPC (pool : Name → Bool) (routes : SvcName → Option SvcRoute) (s : Bytes) (res : GRPCRes) : Prop :=
  (∀ svc m r, Names s svc m → routes svc = some r → pool r.target = true →
      res = .ok r.target r.ver r.idx (slash :: svc ++ slash :: m)) ∧
  (∀ svc m, Names s svc m → routes svc = none → res = .status codeUnimplemented) ∧
  ((¬ ∃ svc m, Names s svc m) → res = .status codeUnimplemented)

/-- only unreserved bytes that gRPC names are made of: letters, digits, `.`, `_`, `-`, `/` … — no byte
    that `net/url` would escape, and no '%' -/
def Plain (s : Bytes) : Prop := ∀ c ∈ s, shouldEscapePath c = false

end GB.C14
