import GB.Base.Proto
import GB.C06.Hist
import GB.C14.Spec
import GB.C11.Driver
namespace GB.C14
open GB GB.Proto

def showParse : Option (Bytes × Bytes) → String
  | none => "0 x x"
  | some (svc, m) => s!"1 {toHex svc} {toHex m}"

def parseSvcs (s : String) : Option (List Bytes) :=
  if s = "-" then some [] else (s.splitOn ",").mapM parseHex

/-- `e2e <namehex> <a-svcs> <b-svcs> => <code> <target> <seenhex> raw=<hex>`: real grpc client → real GRPCProxy → real
    target. Target a claims first, then b; every pooled connection exists. Expected by the model `routeGRPC` on the
    name EXACTLY as the client sent it (`raw` must be that name: grpc.Method(ctx) = :path verbatim), and independently
    by the specification (`specParse`: owner of the service the path names, method string `"/" ++ strip name`). A name
    without a service/method separator never reaches the proxy: gRPC-Go's server answers Unimplemented itself. -/
def e2eVerdict (s : Bytes) (aS bS : List Bytes) (hx : String) (out : List String) : String :=
  let routes : GB.C06.SvcName → Option GB.C06.SvcRoute := fun svc =>
    if aS.contains svc then some { target := [97], ver := 0, idx := 0 }
    else if bS.contains svc then some { target := [98], ver := 0, idx := 0 }
    else none
  let tname (t : Bytes) : String := if t = [97] then "a" else if t = [98] then "b" else "?"
  let model : List String := match routeGRPC (fun _ => true) routes (some s) with
    | .ok t _ _ rpc => ["S0", tname t, toHex rpc]
    | .status c => [s!"S{c}", "-", "-"]
  let spec : List String := match GB.C06.Hist.specParse s with
    | none => ["S12", "-", "-"]
    | some (svc, m) =>
      if aS.contains svc then ["S0", "a", toHex (slash :: svc ++ slash :: m)]
      else if bS.contains svc then ["S0", "b", toHex (slash :: svc ++ slash :: m)]
      else ["S12", "-", "-"]
  let rawOK := match out.drop 3 with
    | [r] => r = s!"raw={hx}" || ((parseRPCName s).isNone && r = "raw=-")
    | _ => false
  let br := match parseRPCName s with
    | none => "b=e2e-malformed"
    | some (svc, _) => if (routes svc).isSome then "b=e2e-routed" else "b=e2e-unknown-service"
  if out.take 3 ≠ spec then s!"VIOL e2e-route impl={" ".intercalate out} spec={" ".intercalate spec}"
  else if out.take 3 ≠ model then s!"DIFF model={" ".intercalate model}"
  else if !rawOK then s!"DIFF grpc.Method(ctx)-not-the-path-verbatim model=raw={hx}"
  else s!"OK nt {br}"

/-- `esc <targethex> <svcs> => web=<entry>:<tok> http=<entry>:<tok>`: the same request line through the REAL root
    `grpcbridge.NewWebBridge` as gRPC-Web (Content-Type application/grpc-web+proto ⇒ GRPCWebBridge ⇒ RouteGRPC) and as a
    transcoded POST (⇒ TranscodedHTTPBridge ⇒ ServiceRouter.RouteHTTP); target "a" lists `svcs`, always pooled.
    Specification (property text, fix D39): BOTH entries route by the path as written on the request line (the bytes before
    the first '?') — owner of the service that path names, method string `"/" ++ strip path` — and net/http rejects a
    line whose path has a malformed escape.  Model: `routeGRPC … (webName u)` / `routeHTTPsvc … POST u` on `parseTarget`. -/
def escVerdict (t : Bytes) (svcs : List Bytes) (hm : Bytes) (out0 : List String) : String :=
  -- a method token other than the exact bytes `POST`: only the transcoded entry is judged (the property is silent about the
  -- method of a gRPC-Web request); it must give the non-POST answer whatever the path names
  let isPost := hm = GB.C06.POST
  let out := if isPost then out0 else out0.drop 1
  let routes : GB.C06.SvcName → Option GB.C06.SvcRoute := fun svc =>
    if svcs.contains svc then some { target := [97], ver := 0, idx := 0 } else none
  let pool : GB.C06.Name → Bool := fun _ => true
  let gTok : GRPCRes → String
    | .ok tg _ _ rpc => s!"F.{toHex tg}.{toHex rpc}"
    | .status c => s!"S{c}"
  let hTok : HTTPSvcRes → String
    | .ok tg _ _ rpc _ _ => s!"F.{toHex tg}.{toHex rpc}"
    | .status c _ => s!"S{c}"
  let model : List String := match parseTarget t with
    | none => if isPost then ["web=R", "http=R"] else ["http=R"]
    | some u =>
      if isPost then [s!"web=G:{gTok (routeGRPC pool routes (some (webName u)))}", s!"http=H:{hTok (routeHTTPsvc pool routes GB.C06.POST u)}"]
      else [s!"http=H:{hTok (routeHTTPsvc pool routes hm u)}"]
  let accepted := match t with
    | 47 :: _ => (unescapePath (targetPath t)).isSome
    | _ => false
  let spec : List String :=
    if !accepted then (if isPost then ["web=R", "http=R"] else ["http=R"])
    else if !isPost then [s!"http=H:S{GB.C06.codeUnimplemented}"]   -- only the exact token POST is the gRPC-style HTTP form
    else match GB.C06.Hist.specParse (targetPath t) with
      | some (svc, m) =>
        if svcs.contains svc then
          let f := s!"F.{toHex [97]}.{toHex (slash :: svc ++ slash :: m)}"
          [s!"web=G:{f}", s!"http=H:{f}"]
        else ["web=G:S12", "http=H:S5"]
      | none => ["web=G:S12", "http=H:S5"]
  let pth := targetPath t
  let br := if !accepted then "b=esc-rejected" else if pth.contains percent then
      (match unescapePath pth with
        | some d => if (GB.C06.Hist.specParse d).map (·.1) ≠ (GB.C06.Hist.specParse pth).map (·.1) then "b=esc-service-differs-when-decoded"
                    else "b=esc-method-differs-when-decoded"
        | none => "b=esc-rejected")
    else "b=esc-plain"
  let br := if isPost then br else if hm.map (fun c => if 97 ≤ c && c ≤ 122 then c - 32 else c) = GB.C06.POST then "b=esc-method-post-up-to-case" else "b=esc-method-other"
  let nt := if accepted && (pth.contains percent || !isPost) then " nt" else ""
  if out ≠ spec then s!"VIOL esc impl={" ".intercalate out} spec={" ".intercalate spec}"
  else if out ≠ model then s!"DIFF model={" ".intercalate model}"
  else s!"OK{nt} {br}"

/-- area c14:
    `parse <hex> => <ok> <svchex> <methodhex>`   routing.parseRPCName
    `hist …`                                      claim histories probed through every request form -/
def handle : Handler
  | ["parse", hx], out =>
    match parseHex hx with
    | none => "BAD hex"
    | some s =>
      let impl := " ".intercalate out
      let model := showParse (parseRPCName s)
      let spec := showParse (GB.C06.Hist.specParse s)
      let br := match parseRPCName s with
        | none => "b=malformed"
        | some (svc, m) => if svc.isEmpty || m.isEmpty then "b=empty-part" else if m.contains slash then "b=slash-in-method" else "b=plain"
      let nt := if s.contains slash then " nt" else ""
      if impl ≠ spec then s!"VIOL parse impl={impl} spec={spec}"
      else if impl ≠ model then s!"DIFF model={model}"
      else s!"OK{nt} {br}"
  | ["e2e", hx, aL, bL], out =>
    match parseHex hx, parseSvcs aL, parseSvcs bL with
    | some s, some aS, some bS => e2eVerdict s aS bS hx out
    | _, _, _ => "BAD c14 e2e"
  | ["esc", hx, sL], out =>
    match parseHex hx, parseSvcs sL with
    | some t, some svcs => escVerdict t svcs GB.C06.POST out
    | _, _ => "BAD c14 esc"
  | ["esc", hx, sL, mx], out =>
    match parseHex hx, parseSvcs sL, parseHex mx with
    | some t, some svcs, some hm => escVerdict t svcs hm out
    | _, _, _ => "BAD c14 esc"
  | "hist" :: inp, out => GB.C06.Hist.judgeHist inp out
  | "stress" :: rest, out => GB.C11.handle ("stress" :: rest) out   -- contested-claim stress, judged by the C11 predicates
  | _, _ => "BAD c14 line"

end GB.C14
