import GB.Base.Proto
import GB.C06.Hist
import GB.C14.Spec
import GB.C11.Driver
namespace GB.C14
open GB GB.Proto

def showParse : Option (Bytes × Bytes) → String
  | none => "0 x x"
  | some (svc, m) => s!"1 {toHex svc} {toHex m}"

/-- area c14:
    `parse <hex> => <ok> <svchex> <methodhex>`   routing.parseRPCName
    `hist …`                                      claim histories probed through every request form -/
def handle : Handler
  | ["parse", hx], out =>
    match parseHex hx with
    | none => "BAD hex"
    | some s =>
      let impl := " ".intercalate out
      let model := showParse (parseRPCName s)
      let spec := showParse (GB.C06.Hist.specParse s)
      let br := match parseRPCName s with
        | none => "b=malformed"
        | some (svc, m) => if svc.isEmpty || m.isEmpty then "b=empty-part" else if m.contains slash then "b=slash-in-method" else "b=plain"
      let nt := if s.contains slash then " nt" else ""
      if impl ≠ spec then s!"VIOL parse impl={impl} spec={spec}"
      else if impl ≠ model then s!"DIFF model={model}"
      else s!"OK{nt} {br}"
  | "hist" :: inp, out => GB.C06.Hist.judgeHist inp out
  | "stress" :: rest, out => GB.C11.handle ("stress" :: rest) out   -- contested-claim stress, judged by the C11 predicates
  | _, _ => "BAD c14 line"

end GB.C14
