import GB.Base.Proto
namespace GB.C14
open GB GB.Proto

/-- stub: replaced when the C14 slice is built -/
def handle : Handler := fun _ _ => "BAD c14 unimplemented"

end GB.C14
