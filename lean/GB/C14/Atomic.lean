import GB.C14.Proofs
import GB.C06.ProofsSvc
/-
  C14 ↔ C11 — first-claimant stability at the granularity of single sync.Map operations.

  C11's LTS treats the add phase of `ServiceRouter.updateRoutes` (`sAdd`) and the delete phases (`sDel`,
  `sRemove`) as single steps while lock-free readers (`routes.Load`) may run between any two atomic map
  operations.  `updateTrace` / `removeTrace` list EVERY intermediate sync.Map state of those phases (one per
  LoadOrStore / Store / Delete); the lemmas show that the key of a service owned by a target that neither closes
  nor drops it has an entry of that owner in every one of them.  `addLoopSwapTrace` models the seeded variant
  C14-m3 (Swap, then Store the old value back on conflict) — for the witness only.
-/
set_option linter.unusedSimpArgs false
set_option linter.unusedVariables false
namespace GB.C14
open GB.C06

abbrev RMap := SvcName → Option SvcRoute

/-- the sync.Map after each atomic operation of the first loop of `updateRoutes` (fixed code):
    `LoadOrStore` (stores or leaves the map alone), then `Store` on the same-owner branch; the conflict branch only
    writes the mutex-guarded waiting list (fix D31), no map operation -/
def addLoopTrace (dn : Name) (dv : Ver) : List Service → Nat → AddSt → List RMap
  | [], _, _ => []
  | s :: ss, i, a =>
    match a.r s.name with
    | none =>
      upd a.r s.name (some ⟨dn, dv, i⟩) :: addLoopTrace dn dv ss (i + 1)
        { a with r := upd a.r s.name (some ⟨dn, dv, i⟩), acc := if s.name ∈ a.acc then a.acc else a.acc ++ [s.name] }
    | some old =>
      if old.target ≠ dn then
        a.r :: addLoopTrace dn dv ss (i + 1) { a with w := upd a.w s.name (recordClaim (a.w s.name) ⟨dn, dv, i⟩) }
      else
        a.r :: upd a.r s.name (some ⟨dn, dv, i⟩) :: addLoopTrace dn dv ss (i + 1)
          { a with r := upd a.r s.name (some ⟨dn, dv, i⟩), acc := if s.name ∈ a.acc then a.acc else a.acc ++ [s.name] }

/-- the sync.Map after each `release` of the second loop / of `removeTarget`: ONE `Store` (hand-over to the first
    waiting claimant) or ONE `Delete` per released service -/
def delLoopTrace (present : List SvcName) : List SvcName → DelSt → List RMap
  | [], _ => []
  | s :: ss, q =>
    if s ∈ present then delLoopTrace present ss q
    else (release q s).r :: delLoopTrace present ss (release q s)

/-- all intermediate maps of one `updateRoutes(desc)` -/
def updateTrace (st : SvcState) (d : Desc) : List RMap :=
  let a := addLoop d.name d.ver d.services 0 ⟨st.routes, st.waiting, []⟩
  addLoopTrace d.name d.ver d.services 0 ⟨st.routes, st.waiting, []⟩ ++
    delLoopTrace a.acc (sliceOf (st.svcRoutes d.name))
      ⟨a.r, fun x => if listedB d.services x then a.w x else dropClaim (a.w x) d.name, st.svcRoutes⟩

/-- all intermediate maps of one `removeTarget(n)` -/
def removeTrace (st : SvcState) (n : Name) : List RMap :=
  delLoopTrace [] (sliceOf (st.svcRoutes n)) ⟨st.routes, st.waiting, st.svcRoutes⟩

/-- all intermediate maps of one operation (none for Watch and for ignored calls) -/
def stepTrace (st : SvcState) : Op → List RMap
  | .watch _ => []
  | .update n d => if !st.watching n then [] else if d.name ≠ n then [] else updateTrace st d
  | .close n => if !st.watching n then [] else removeTrace st n

/-- the traces end in the map the model of the operation computes -/
theorem addLoopTrace_last (dn : Name) (dv : Ver) (ss : List Service) :
    ∀ (i : Nat) (a : AddSt), (addLoopTrace dn dv ss i a).getLastD a.r = (addLoop dn dv ss i a).r := by
  induction ss with
  | nil => intro i a; rfl
  | cons s ss ih =>
    intro i a
    simp only [addLoopTrace, addLoop]
    cases hr : a.r s.name with
    | none =>
      simp only
      rw [← ih (i + 1) _]
      cases addLoopTrace dn dv ss (i + 1) _ <;> simp [List.getLastD]
    | some old =>
      simp only
      by_cases ht : old.target ≠ dn
      · simp only [ht, ne_eq, not_false_eq_true, ↓reduceIte]
        rw [← ih (i + 1) _]
        cases addLoopTrace dn dv ss (i + 1) _ <;> simp [List.getLastD]
      · simp only [ht, ↓reduceIte]
        rw [← ih (i + 1) _]
        cases addLoopTrace dn dv ss (i + 1) _ <;> simp [List.getLastD]

theorem delLoopTrace_last (present : List SvcName) (old : List SvcName) :
    ∀ q : DelSt, (delLoopTrace present old q).getLastD q.r = (delLoop present old q).r := by
  induction old with
  | nil => intro q; rfl
  | cons s ss ih =>
    intro q
    simp only [delLoopTrace, delLoop]
    by_cases hp : s ∈ present
    · simp only [hp, ↓reduceIte]; exact ih q
    · simp only [hp, ↓reduceIte]
      rw [← ih (release q s)]
      cases delLoopTrace present ss (release q s) <;> simp [List.getLastD]

/-- a key held by ANOTHER target is never written by the add phase — not even transiently -/
theorem addLoopTrace_foreign (dn : Name) (dv : Ver) (x : SvcName) (ss : List Service) :
    ∀ (i : Nat) (a : AddSt), Foreign a.r dn x → ∀ r' ∈ addLoopTrace dn dv ss i a, r' x = a.r x := by
  induction ss with
  | nil => intro i a _ r' hr'; simp [addLoopTrace] at hr'
  | cons s ss ih =>
    intro i a hf r' hr'
    obtain ⟨o, ho, hne⟩ := hf
    have hstore : s.name ≠ x → upd a.r s.name (some ⟨dn, dv, i⟩) x = a.r x := fun h => upd_other _ _ _ (fun e => h e.symm)
    simp only [addLoopTrace] at hr'
    cases hr : a.r s.name with
    | none =>
      have hsx : s.name ≠ x := by intro e; rw [e, ho] at hr; cases hr
      simp only [hr, List.mem_cons] at hr'
      rcases hr' with rfl | hr'
      · exact hstore hsx
      · rw [ih (i + 1) _ ⟨o, by show upd a.r s.name _ x = some o; rw [hstore hsx]; exact ho, hne⟩ r' hr']
        exact hstore hsx
    | some old =>
      simp only [hr] at hr'
      by_cases ht : old.target ≠ dn
      · simp only [ht, ne_eq, not_false_eq_true, ↓reduceIte, List.mem_cons] at hr'
        rcases hr' with rfl | hr'
        · rfl
        · exact ih (i + 1) { a with w := upd a.w s.name (recordClaim (a.w s.name) ⟨dn, dv, i⟩) } ⟨o, ho, hne⟩ r' hr'
      · have hsx : s.name ≠ x := by
          intro e; rw [e, ho] at hr; cases hr; exact ht hne
        simp only [ht, ↓reduceIte, List.mem_cons] at hr'
        rcases hr' with rfl | rfl | hr'
        · rfl
        · exact hstore hsx
        · rw [ih (i + 1) _ ⟨o, by show upd a.r s.name _ x = some o; rw [hstore hsx]; exact ho, hne⟩ r' hr']
          exact hstore hsx

/-- a key the updating target itself holds stays with it throughout the add phase -/
theorem addLoopTrace_own (dn : Name) (dv : Ver) (x : SvcName) (ss : List Service) :
    ∀ (i : Nat) (a : AddSt), (∃ o, a.r x = some o ∧ o.target = dn) →
      ∀ r' ∈ addLoopTrace dn dv ss i a, ∃ o, r' x = some o ∧ o.target = dn := by
  induction ss with
  | nil => intro i a _ r' hr'; simp [addLoopTrace] at hr'
  | cons s ss ih =>
    intro i a hown r' hr'
    have hstore : ∃ o, upd a.r s.name (some ⟨dn, dv, i⟩) x = some o ∧ o.target = dn := by
      by_cases hsx : x = s.name
      · subst hsx; exact ⟨_, upd_same _ _ _, rfl⟩
      · rw [upd_other _ _ _ hsx]; exact hown
    simp only [addLoopTrace] at hr'
    cases hr : a.r s.name with
    | none =>
      simp only [hr, List.mem_cons] at hr'
      rcases hr' with rfl | hr'
      · exact hstore
      · exact ih (i + 1) _ hstore r' hr'
    | some old =>
      simp only [hr] at hr'
      by_cases ht : old.target ≠ dn
      · simp only [ht, ne_eq, not_false_eq_true, ↓reduceIte, List.mem_cons] at hr'
        rcases hr' with rfl | hr'
        · exact hown
        · exact ih (i + 1) { a with w := upd a.w s.name (recordClaim (a.w s.name) ⟨dn, dv, i⟩) } hown r' hr'
      · simp only [ht, ↓reduceIte, List.mem_cons] at hr'
        rcases hr' with rfl | rfl | hr'
        · exact hown
        · exact hstore
        · exact ih (i + 1) _ hstore r' hr'

/-- the release loops only touch keys of the old owned list that are not claimed again -/
theorem delLoopTrace_keep (present : List SvcName) (x : SvcName) (old : List SvcName) :
    ∀ q : DelSt, (x ∉ old ∨ x ∈ present) → ∀ r' ∈ delLoopTrace present old q, r' x = q.r x := by
  induction old with
  | nil => intro q _ r' hr'; simp [delLoopTrace] at hr'
  | cons s ss ih =>
    intro q hx r' hr'
    have hx' : x ∉ ss ∨ x ∈ present := by
      rcases hx with h | h
      · exact Or.inl (fun hm => h (by simp [hm]))
      · exact Or.inr h
    simp only [delLoopTrace] at hr'
    by_cases hp : s ∈ present
    · simp only [hp, ↓reduceIte] at hr'
      exact ih q hx' r' hr'
    · have hsx : x ≠ s := by
        intro e
        rcases hx with h | h
        · exact h (by simp [e])
        · exact hp (e ▸ h)
      have hrel : (release q s).r x = q.r x := by rw [release_r]; simp [hsx]
      simp only [hp, ↓reduceIte, List.mem_cons] at hr'
      rcases hr' with rfl | hr'
      · exact hrel
      · rw [ih _ hx' r' hr']; exact hrel

/-- **no unrouted gap**: a released key goes from its old entry to the first waiting claimant (or to "absent" when
    nobody waits) in ONE step — every intermediate map holds one of the two -/
theorem delLoopTrace_handover (present : List SvcName) (x : SvcName) (old : List SvcName) :
    ∀ q : DelSt, old.Nodup → ∀ r' ∈ delLoopTrace present old q, r' x = q.r x ∨ r' x = (q.w x).head? := by
  induction old with
  | nil => intro q _ r' hr'; simp [delLoopTrace] at hr'
  | cons s ss ih =>
    intro q hnd r' hr'
    obtain ⟨hs, hnd'⟩ := List.nodup_cons.mp hnd
    simp only [delLoopTrace] at hr'
    by_cases hp : s ∈ present
    · simp only [hp, ↓reduceIte] at hr'
      exact ih q hnd' r' hr'
    · simp only [hp, ↓reduceIte, List.mem_cons] at hr'
      by_cases hsx : x = s
      · subst hsx
        right
        have hrel : (release q x).r x = (q.w x).head? := by rw [release_r]; simp
        rcases hr' with rfl | hr'
        · exact hrel
        · rw [delLoopTrace_keep present x ss _ (Or.inl hs) r' hr']; exact hrel
      · have hr : (release q s).r x = q.r x := by rw [release_r]; simp [hsx]
        have hw : (release q s).w x = q.w x := by rw [release_w]; simp [hsx]
        rcases hr' with rfl | hr'
        · exact Or.inl hr
        · rcases ih _ hnd' r' hr' with h | h
          · exact Or.inl (h.trans hr)
          · exact Or.inr (by rw [h, hw])

/-- **atomic-level stability**: while `n` owns `svc`, every intermediate sync.Map state of every operation that is
    neither `close n` nor an update of `n` dropping `svc` still maps `svc` to an entry of `n` -/
theorem owner_stable_atomic {st : SvcState} (h : WInv st) (n : Name) (svc : SvcName) (r : SvcRoute)
    (hr : st.routes svc = some r) (hn : r.target = n) (op : Op)
    (hk : op ≠ .close n ∧ ∀ d, op = .update n d → listed d.services svc) :
    ∀ r' ∈ stepTrace st op, ∃ o, r' svc = some o ∧ o.target = n := by
  intro r' hr'
  cases op with
  | watch m => simp [stepTrace] at hr'
  | update m d =>
    simp only [stepTrace] at hr'
    by_cases hw : st.watching m = true
    · by_cases hd : d.name = m
      · subst hd
        simp only [hw, Bool.not_true, Bool.false_eq_true, ↓reduceIte, ne_eq, not_true_eq_false,
          updateTrace, List.mem_append] at hr'
        obtain ⟨a1, a2, a3, _, _, _⟩ := addLoop_spec d.name d.ver d.services 0 ⟨st.routes, st.waiting, []⟩ svc
        by_cases hmn : d.name = n
        · -- the owner itself re-lists the service
          have hl := hk.2 d (by rw [hmn])
          have hown : ∃ o, st.routes svc = some o ∧ o.target = d.name := ⟨r, hr, hn.trans hmn.symm⟩
          have hnf : ¬ Foreign st.routes d.name svc := by
            rintro ⟨o, ho, hne⟩; rw [hr] at ho; cases ho; exact hne (hn.trans hmn.symm)
          rcases hr' with hr' | hr'
          · obtain ⟨o, ho, ht⟩ := addLoopTrace_own d.name d.ver svc d.services 0 _ hown r' hr'
            exact ⟨o, ho, ht.trans hmn⟩
          · have hin : svc ∈ (addLoop d.name d.ver d.services 0 ⟨st.routes, st.waiting, []⟩).acc := by
              rw [a3]; exact Or.inr ⟨hl, hnf⟩
            rw [delLoopTrace_keep _ svc _ _ (Or.inr hin) r' hr']
            obtain ⟨j, _, hp⟩ := a2 hl hnf
            exact ⟨_, hp, hmn⟩
        · -- another target updates: the key is foreign to it
          have hf : Foreign st.routes d.name svc := ⟨r, hr, by rw [hn]; exact fun e => hmn e.symm⟩
          rcases hr' with hr' | hr'
          · rw [addLoopTrace_foreign d.name d.ver svc d.services 0 _ hf r' hr']; exact ⟨r, hr, hn⟩
          · have hnot : svc ∉ sliceOf (st.svcRoutes d.name) := by
              intro hx
              obtain ⟨r2, hr2, ht2⟩ := (h.owned _ _).mp hx
              rw [hr] at hr2; cases hr2
              exact hmn (ht2.symm.trans hn)
            rw [delLoopTrace_keep _ svc _ _ (Or.inl hnot) r' hr']
            show ∃ o, (addLoop d.name d.ver d.services 0 ⟨st.routes, st.waiting, []⟩).r svc = some o ∧ o.target = n
            rw [a1 (Or.inl hf)]; exact ⟨r, hr, hn⟩
      · simp [hw, hd] at hr'
    · simp [hw] at hr'
  | close m =>
    have hmn : m ≠ n := by intro e; subst e; exact hk.1 rfl
    simp only [stepTrace] at hr'
    by_cases hw : st.watching m = true
    · simp only [hw, Bool.not_true, Bool.false_eq_true, ↓reduceIte, removeTrace] at hr'
      have hnot : svc ∉ sliceOf (st.svcRoutes m) := by
        intro hx
        obtain ⟨r2, hr2, ht2⟩ := (h.owned _ _).mp hx
        rw [hr] at hr2; cases hr2
        exact hmn (ht2.symm.trans hn)
      rw [delLoopTrace_keep _ svc _ _ (Or.inl hnot) r' hr']; exact ⟨r, hr, hn⟩
    · simp [hw] at hr'

/-! ### the seeded variant C14-m3: `Swap`, then `Store` the old value back on conflict (witness only) -/

def addLoopSwapTrace (dn : Name) (dv : Ver) : List Service → Nat → RMap → List RMap
  | [], _, _ => []
  | s :: ss, i, r =>
    -- `old, loaded := sr.routes.Swap(svc.Name, newRoute)`
    match r s.name with
    | none =>
      upd r s.name (some ⟨dn, dv, i⟩) :: addLoopSwapTrace dn dv ss (i + 1) (upd r s.name (some ⟨dn, dv, i⟩))
    | some old =>
      if old.target ≠ dn then
        -- conflict: `sr.routes.Store(svc.Name, old)`; continue
        upd r s.name (some ⟨dn, dv, i⟩) :: upd (upd r s.name (some ⟨dn, dv, i⟩)) s.name (some old) ::
          addLoopSwapTrace dn dv ss (i + 1) (upd (upd r s.name (some ⟨dn, dv, i⟩)) s.name (some old))
      else
        upd r s.name (some ⟨dn, dv, i⟩) :: addLoopSwapTrace dn dv ss (i + 1) (upd r s.name (some ⟨dn, dv, i⟩))

/-- the map the Swap loop of the variant ends in (its bookkeeping is that of the real code) -/
def swapLoopEnd (st : SvcState) (d : Desc) : RMap :=
  (addLoopSwapTrace d.name d.ver d.services 0 st.routes).getLastD st.routes

end GB.C14
