import GB.C14.Spec
import GB.C06.Proofs
/-
  C14 — helper lemmas about `cutSlash`, `parseRPCName` and the net/url path functions.
-/
set_option linter.unusedSimpArgs false
set_option linter.unusedVariables false
namespace GB.C14
open GB.C06

theorem cutSlash_iff (t a b : Bytes) : cutSlash t = some (a, b) ↔ t = a ++ slash :: b ∧ slash ∉ a := by
  induction t generalizing a b with
  | nil => simp [cutSlash]
  | cons c cs ih =>
    simp only [cutSlash]
    by_cases hc : c = slash
    · subst hc
      simp only [↓reduceIte, Option.some.injEq, Prod.mk.injEq]
      constructor
      · rintro ⟨rfl, rfl⟩; simp
      · rintro ⟨h, hn⟩
        cases a with
        | nil => simp at h; exact ⟨rfl, h⟩
        | cons x xs =>
          simp only [List.cons_append, List.cons.injEq] at h
          exact absurd (by simp [h.1]) hn
    · simp only [hc, ↓reduceIte]
      cases hr : cutSlash cs with
      | none =>
        simp only
        constructor
        · intro h; cases h
        · rintro ⟨h, hn⟩
          cases a with
          | nil => simp at h; exact absurd h.1 hc
          | cons x xs =>
            simp only [List.cons_append, List.cons.injEq] at h
            have : cutSlash cs = some (xs, b) := (ih xs b).mpr ⟨h.2, fun hm => hn (by simp [hm])⟩
            rw [hr] at this; cases this
      | some p =>
        obtain ⟨a', b'⟩ := p
        simp only [Option.some.injEq, Prod.mk.injEq]
        have := (ih a' b').mp hr
        constructor
        · rintro ⟨rfl, rfl⟩
          refine ⟨by simp [this.1], ?_⟩
          intro hm
          rcases List.mem_cons.mp hm with h | h
          · exact hc h.symm
          · exact this.2 h
        · rintro ⟨h, hn⟩
          cases a with
          | nil => simp at h; exact absurd h.1 hc
          | cons x xs =>
            simp only [List.cons_append, List.cons.injEq] at h
            have h2 : cutSlash cs = some (xs, b) := (ih xs b).mpr ⟨h.2, fun hm => hn (by simp [hm])⟩
            rw [hr] at h2
            simp only [Option.some.injEq, Prod.mk.injEq] at h2
            exact ⟨by rw [h.1, h2.1], h2.2⟩

theorem cutSlash_none (t : Bytes) : cutSlash t = none ↔ slash ∉ t := by
  induction t with
  | nil => simp [cutSlash]
  | cons c cs ih =>
    simp only [cutSlash]
    by_cases hc : c = slash
    · simp [hc]
    · simp only [hc, ↓reduceIte]
      cases hr : cutSlash cs with
      | none =>
        have := ih.mp hr
        simp only [true_iff]
        intro hm
        rcases List.mem_cons.mp hm with h | h
        · exact hc h.symm
        · exact this h
      | some p =>
        simp only [reduceCtorEq, false_iff, Classical.not_not]
        have : slash ∈ cs := by
          apply Classical.byContradiction
          intro hn; rw [ih.mpr hn] at hr; cases hr
        simp [this]

theorem parseRPCName_eq (s : Bytes) : parseRPCName s = cutSlash (strip s) := by
  cases s with
  | nil => rfl
  | cons c rest =>
    simp only [parseRPCName, strip]
    by_cases hc : c = slash <;> simp [hc]

theorem parse_iff (s svc m : Bytes) : parseRPCName s = some (svc, m) ↔ Names s svc m := by
  rw [parseRPCName_eq, cutSlash_iff]; rfl

theorem Names_unique {s svc m svc' m' : Bytes} (h : Names s svc m) (h' : Names s svc' m') : svc = svc' ∧ m = m' := by
  have a := (parse_iff s svc m).mpr h
  have b := (parse_iff s svc' m').mpr h'
  rw [a] at b
  simpa using b

/-! ### net/url -/

theorem shouldEscape_percent : shouldEscapePath percent = true := by decide
theorem shouldEscape_question : shouldEscapePath 63 = true := by decide
theorem shouldEscape_star : shouldEscapePath 42 = true := by decide
theorem shouldEscape_slash : shouldEscapePath slash = false := by decide

theorem escapePath_plain (s : Bytes) (h : Plain s) : escapePath s = s := by
  induction s with
  | nil => rfl
  | cons c cs ih =>
    have hc : shouldEscapePath c = false := h c (by simp)
    have ih' := ih (fun x hx => h x (by simp [hx]))
    simp only [escapePath, List.flatMap_cons, hc] at ih' ⊢
    simp [ih']

theorem unescapePath_cons_ne (c : UInt8) (rest : Bytes) (hc : c ≠ percent) :
    unescapePath (c :: rest) = (unescapePath rest).map (c :: ·) := by
  match rest with
  | [] => simp [unescapePath, hc]
  | [a] =>
    simp only [unescapePath, hc, ↓reduceIte]
    by_cases ha : a = percent <;> simp [ha]
  | a :: b :: r =>
    simp only [unescapePath, hc, ↓reduceIte]
    cases unescapePath (a :: b :: r) <;> rfl

theorem unescapePath_plain (s : Bytes) (h : Plain s) : unescapePath s = some s := by
  induction s with
  | nil => simp [unescapePath]
  | cons c cs ih =>
    have hc : c ≠ percent := by
      intro e; have := h c (by simp); rw [e, shouldEscape_percent] at this; cases this
    rw [unescapePath_cons_ne c cs hc, ih (fun x hx => h x (by simp [hx]))]
    rfl

theorem targetPath_plain (s : Bytes) (h : Plain s) : targetPath s = s := by
  induction s with
  | nil => rfl
  | cons c cs ih =>
    have hc : c ≠ 63 := by
      intro e; have := h c (by simp); rw [e, shouldEscape_question] at this; cases this
    have ih' := ih (fun x hx => h x (by simp [hx]))
    simp only [targetPath] at ih' ⊢
    simp [List.takeWhile_cons, hc, ih']

/-- what `setPath` leaves in the URL lets `httpName` recover the request path byte for byte
    (the only exception is the asterisk form `%2A`, which is not a path) -/
theorem httpName_setPath (p : Bytes) (u : URL) (h : setPath p = some u) :
    httpName u = p ∨ (p = [37, 50, 65] ∧ u = ⟨[42], []⟩) := by
  simp only [setPath] at h
  cases hu : unescapePath p with
  | none => simp [hu] at h
  | some path =>
    simp only [hu] at h
    by_cases he : escapePath path = p
    · simp only [he, ↓reduceIte, Option.some.injEq] at h
      subst h
      simp only [httpName, escapedPathNoRaw]
      by_cases hs : path = [42]
      · right; subst hs; exact ⟨he.symm, rfl⟩
      · left; simp [hs, he]
    · simp only [he, ↓reduceIte, Option.some.injEq] at h
      subst h
      left
      simp only [httpName]
      cases p with
      | nil => exfalso; apply he; simp [unescapePath] at hu; subst hu; rfl
      | cons c cs => rfl

end GB.C14
