import GB.Generated.Trans
import GB.Base.TransLemmas
import GB.C14.Model
/-
  C14 — SOURCE-TO-LEAN TRANSLATOR TIE for `routing.parseRPCName` (routing/service_router.go), regenerated
  from the source on every run.  Go returns `(service, method, ok)` where a name without '/' gives
  `(name, "", false)` (strings.Cut); the hand model returns `Option (service × method)`.  Exact relation:
  `ofCut (stripSlash s)`: `some (a, b) ↦ (a, b, true)`, `none ↦ (s without one leading '/', "", false)`.
-/
set_option linter.unusedSimpArgs false
set_option linter.unusedVariables false

open GB GB.Trans

def GB.C14.TransTie.ofCut (whole : Bytes) : Option (Bytes × Bytes) → Bytes × Bytes × Bool
  | some (a, b) => (a, b, true)
  | none => (whole, [], false)

def GB.C14.TransTie.stripSlash : Bytes → Bytes
  | c :: rest => if c = GB.C14.slash then rest else c :: rest
  | [] => []

open GB.C14.TransTie

/-- library `strings.Cut(s, "/")` = the model's `cutSlash` -/
theorem GB.C14.TransTie.cutByte_slash (l : Bytes) : cutByte 47 l = ofCut l (GB.C14.cutSlash l) := by
  induction l with
  | nil => rfl
  | cons c r ih =>
    simp only [cutByte, GB.C14.cutSlash, GB.C14.slash, ih]
    by_cases h : c = 47
    · simp [h, ofCut]
    · simp only [beq_iff_eq, h, if_false]
      cases GB.C14.cutSlash r with
      | none => rfl
      | some p => rfl

/-- routing `parseRPCName` -/
theorem C14_trans_parseRPCName : ∀ s : GB.Bytes,
    GB.Generated.Trans.parseRPCName s = ofCut (stripSlash s) (GB.C14.parseRPCName s) := by
  intro s
  unfold GB.Generated.Trans.parseRPCName
  cases s with
  | nil => rfl
  | cons c rest =>
    have hpos : decide (len (c :: rest) > 0) = true := by simp [len]
    have hidx : idx (c :: rest) 0 = c := by simp [idx]
    have hsl : slice (c :: rest) 1 (len (c :: rest)) = rest := by
      have : ((rest.length : Int) + 1).toNat = rest.length + 1 := by omega
      simp [slice, len, this]
    by_cases h : c = 47
    · subst h
      simp only [hpos, hidx, Bool.true_and, GB.C14.parseRPCName, stripSlash, GB.C14.slash, beq_self_eq_true, if_true, hsl,
        cutByte_slash]
    · have hb : (c == 47) = false := by simp [h]
      simp only [hpos, hidx, Bool.true_and, GB.C14.parseRPCName, stripSlash, GB.C14.slash, hb, Bool.false_eq_true, if_false, h,
        cutByte_slash]

/-- bridgedesc `CanonicalRPCName` (`fmt.Sprintf("/%s/%s", svc, method)`: plain concatenation — the argument
    types have no String/Format methods, the translator checks) -/
theorem C14_trans_CanonicalRPCName : ∀ svc m : GB.Bytes,
    GB.Generated.Trans.CanonicalRPCName svc m = GB.C14.canonicalRPCName svc m := by
  intro svc m
  simp [GB.Generated.Trans.CanonicalRPCName, GB.C14.canonicalRPCName, GB.C14.slash]

example : GB.Generated.Trans.parseRPCName [47, 97, 47, 98] = ([97], [98], true) := by decide
example : GB.Generated.Trans.parseRPCName [97] = ([97], [], false) := by decide
