import GB.C06.Model
/-
  C14 — models of `parseRPCName`, `ServiceRouter.RouteGRPC`, `ServiceRouter.RouteHTTP`
  (routing/service_router.go, after fix D16), `bridgedesc.CanonicalRPCName/DummyMethod/DefaultBinding`,
  the gRPC-Web adapter's `Method()` (webbridge/grpcweb.go: after fix D39 the path as written, before it `r.URL.Path`) and of the part of
  `net/url` that decides what `URL.Path` / `URL.RawPath` hold for a request target
  (`setPath`, `unescape`/`escape` in `encodePath` mode, `EscapedPath` for an empty `RawPath`).
  The service table itself (claims, releases) is C06's `SvcState`.
-/
namespace GB.C14
open GB.C06

def slash : UInt8 := 47
def percent : UInt8 := 37

/-- `strings.Cut(s, "/")` -/
def cutSlash : Bytes → Option (Bytes × Bytes)
  | [] => none
  | c :: cs =>
    if c = slash then some ([], cs)
    else match cutSlash cs with
      | some (a, b) => some (c :: a, b)
      | none => none

/-- `parseRPCName`: strip one optional leading '/', cut at the first '/' -/
def parseRPCName (s : Bytes) : Option (Bytes × Bytes) :=
  match s with
  | c :: rest => if c = slash then cutSlash rest else cutSlash s
  | [] => cutSlash []

/-- `bridgedesc.CanonicalRPCName` = `fmt.Sprintf("/%s/%s", svc, method)` -/
def canonicalRPCName (svc m : Bytes) : Bytes := slash :: svc ++ slash :: m

inductive GRPCRes
  | status (code : Nat)
  | ok (target : Name) (ver : Ver) (idx : Nat) (rpcName : Bytes)   -- route.Target/Service, DummyMethod(...).RPCName
deriving DecidableEq, Repr

/-- `RouteGRPC`; `name = none` models `grpc.Method(ctx)` failing -/
def routeGRPC (pool : Name → Bool) (routes : SvcName → Option SvcRoute) (name : Option Bytes) : GRPCRes :=
  match name with
  | none => .status codeInternal
  | some s =>
    match parseRPCName s with
    | none => .status codeUnimplemented
    | some (svc, m) =>
      match routes svc with
      | none => .status codeUnimplemented
      | some r =>
        if pool r.target then .ok r.target r.ver r.idx (canonicalRPCName svc m)
        else .status codeUnavailable

/-! ### the request URL as net/http delivers it -/

def isHex (c : UInt8) : Bool := (48 ≤ c && c ≤ 57) || (97 ≤ c && c ≤ 102) || (65 ≤ c && c ≤ 70)

def unhex (c : UInt8) : UInt8 :=
  if 48 ≤ c && c ≤ 57 then c - 48
  else if 97 ≤ c && c ≤ 102 then c - 97 + 10
  else if 65 ≤ c && c ≤ 70 then c - 65 + 10
  else 0

/-- `url.unescape(s, encodePath)`: `none` = EscapeError (a '%' not followed by two hex digits) -/
def unescapePath : Bytes → Option Bytes
  | [] => some []
  | [c] => if c = percent then none else some [c]
  | [c, a] =>
    if c = percent then none
    else match unescapePath [a] with
      | some t => some (c :: t)
      | none => none
  | c :: a :: b :: rest =>
    if c = percent then
      if isHex a && isHex b then
        match unescapePath rest with
        | some t => some ((unhex a <<< 4 ||| unhex b) :: t)
        | none => none
      else none
    else match unescapePath (a :: b :: rest) with
      | some t => some (c :: t)
      | none => none

/-- `url.shouldEscape(c, encodePath)` -/
def shouldEscapePath (c : UInt8) : Bool :=
  if (97 ≤ c && c ≤ 122) || (65 ≤ c && c ≤ 90) || (48 ≤ c && c ≤ 57) then false
  else if c = 45 || c = 95 || c = 46 || c = 126 then false                       -- - _ . ~
  else if c = 36 || c = 38 || c = 43 || c = 44 || c = 47 || c = 58 || c = 59 || c = 61 || c = 64 then false  -- $ & + , / : ; = @
  else true                                                                       -- incl. '?'

def upperHex (n : UInt8) : UInt8 := if n < 10 then 48 + n else 65 + (n - 10)

/-- `url.escape(s, encodePath)` -/
def escapePath (s : Bytes) : Bytes :=
  s.flatMap (fun c => if shouldEscapePath c then [percent, upperHex (c >>> 4), upperHex (c &&& 15)] else [c])

structure URL where
  path : Bytes
  rawPath : Bytes
deriving DecidableEq, Repr

/-- `(*URL).setPath` -/
def setPath (p : Bytes) : Option URL :=
  match unescapePath p with
  | none => none
  | some path => if escapePath path = p then some ⟨path, []⟩ else some ⟨path, p⟩

/-- path part of an origin-form request target: everything before the first '?' -/
def targetPath (t : Bytes) : Bytes := t.takeWhile (fun c => c != 63)

/-- `url.ParseRequestURI` on an origin-form target (`/…`, no control bytes): only Path/RawPath matter here -/
def parseTarget (t : Bytes) : Option URL :=
  match t with
  | 47 :: _ => setPath (targetPath t)
  | _ => none

/-- `(*URL).EscapedPath()` at the call site in RouteHTTP, i.e. with `RawPath == ""` -/
def escapedPathNoRaw (path : Bytes) : Bytes :=
  if path = [42] then [42] else escapePath path

/-- the name `ServiceRouter.RouteHTTP` parses (fix D16: RawPath, else the escaped Path) -/
def httpName (u : URL) : Bytes :=
  match u.rawPath with
  | [] => escapedPathNoRaw u.path
  | rp => rp

/-- the name before fix D16 -/
def httpNamePreFix (u : URL) : Bytes := u.rawPath

/-- the name the gRPC-Web adapter reported before fix D39: `gRPCWebServerStream.Method() = r.URL.Path` (percent-DECODED) -/
def webNamePreFix (u : URL) : Bytes := u.path

/-- the name the gRPC-Web adapter reports (fix D39): `gRPCWebServerStream.Method()` = `URL.RawPath`, else `URL.EscapedPath()`
    — the same expression as in `ServiceRouter.RouteHTTP`, i.e. the path as written on the request line -/
def webName (u : URL) : Bytes :=
  match u.rawPath with
  | [] => escapedPathNoRaw u.path
  | rp => rp

inductive HTTPSvcRes
  | status (code : Nat) (http : Option Nat)     -- gRPC code, optional HTTPStatus() override
  | ok (target : Name) (ver : Ver) (idx : Nat) (rpcName : Bytes) (bindMethod bindPattern : Bytes)
deriving DecidableEq, Repr

/-- `ServiceRouter.RouteHTTP` given the name it extracted -/
def routeHTTPsvcName (pool : Name → Bool) (routes : SvcName → Option SvcRoute) (httpMethod name : Bytes) : HTTPSvcRes :=
  if httpMethod ≠ POST then .status codeUnimplemented (some 405)
  else match parseRPCName name with
    | none => .status codeNotFound none
    | some (svc, m) =>
      match routes svc with
      | none => .status codeNotFound none
      | some r =>
        if pool r.target then
          .ok r.target r.ver r.idx (canonicalRPCName svc m) POST (canonicalRPCName svc m)   -- DefaultBinding(DummyMethod)
        else .status codeUnavailable none

def routeHTTPsvc (pool : Name → Bool) (routes : SvcName → Option SvcRoute) (httpMethod : Bytes) (u : URL) : HTTPSvcRes :=
  routeHTTPsvcName pool routes httpMethod (httpName u)

def routeHTTPsvcPreFix (pool : Name → Bool) (routes : SvcName → Option SvcRoute) (httpMethod : Bytes) (u : URL) : HTTPSvcRes :=
  routeHTTPsvcName pool routes httpMethod (httpNamePreFix u)

end GB.C14
