import GB.C14.Atomic
import GB.C06.Compose
/-
  C14 ∘ C06 ∘ C03 — helper lemmas for "the PatternRouter's default binding and the ServiceRouter's HTTP form
  agree on `POST /pkg.Svc/Method`".
-/
set_option linter.unusedSimpArgs false
set_option linter.unusedVariables false
namespace GB.C14
open GB.C06

theorem methodRoutes_default_mem (valid : Bytes → Bool) (si : Nat) (ms : List Method) :
    ∀ (mi0 k : Nat) (M : Method), ms[k]? = some M → M.bindings = [] → valid M.rpcName = true →
      (⟨si, mi0 + k, none, POST, M.rpcName⟩ : Route) ∈ methodRoutes valid si ms mi0 := by
  induction ms with
  | nil => intro mi0 k M h; simp at h
  | cons m ms ih =>
    intro mi0 k M hk hb hv
    simp only [methodRoutes, List.mem_append]
    cases k with
    | zero =>
      simp only [List.getElem?_cons_zero, Option.some.injEq] at hk
      subst hk
      left
      simp [hb, hv]
    | succ k =>
      right
      simp only [List.getElem?_cons_succ] at hk
      have := ih (mi0 + 1) k M hk hb hv
      rwa [show mi0 + 1 + k = mi0 + (k + 1) by omega] at this

theorem serviceRoutes_mem (valid : Bytes → Bool) (ss : List Service) :
    ∀ (si0 k : Nat) (S : Service) (r : Route), ss[k]? = some S → r ∈ methodRoutes valid (si0 + k) S.methods 0 →
      r ∈ serviceRoutes valid ss si0 := by
  induction ss with
  | nil => intro si0 k S r h; simp at h
  | cons s ss ih =>
    intro si0 k S r hk hr
    simp only [serviceRoutes, List.mem_append]
    cases k with
    | zero =>
      simp only [List.getElem?_cons_zero, Option.some.injEq] at hk
      subst hk
      left; simpa using hr
    | succ k =>
      right
      simp only [List.getElem?_cons_succ] at hk
      apply ih (si0 + 1) k S r hk
      rwa [show si0 + 1 + k = si0 + (k + 1) by omega]

/-- the default binding of method `mi` of service `si` is a route of the description -/
theorem default_route_mem (valid : Bytes → Bool) (d : Desc) {si mi : Nat} {S : Service} {M : Method}
    (hS : d.services[si]? = some S) (hM : S.methods[mi]? = some M) (hb : M.bindings = [])
    (hv : valid M.rpcName = true) :
    (⟨si, mi, none, POST, M.rpcName⟩ : Route) ∈ allRoutes valid d := by
  unfold allRoutes
  apply serviceRoutes_mem valid d.services 0 si S _ hS
  have := methodRoutes_default_mem valid (0 + si) S.methods 0 mi M hM hb hv
  simpa using this

/-- a template of two plain literals captures nothing -/
theorem pathMatches_two_lits {svc meth : Bytes} {segs : List Bytes} {b : C03.Captures}
    (h : C03.PathMatches ⟨[.plain (.lit svc), .plain (.lit meth)], []⟩ segs b) : b = [] := by
  simp only [C03.PathMatches, ↓reduceIte] at h
  cases h with
  | plain _ h2 =>
    cases h2 with
    | plain _ h3 => cases h3; rfl

theorem validC_of_two_lits {parse : Bytes → Option C03.Tmpl} (hp : ParserOk parse) {pat svc meth : Bytes}
    (ht : parse pat = some ⟨[.plain (.lit svc), .plain (.lit meth)], []⟩) : validC parse pat = true := by
  obtain ⟨hs, _, _⟩ := hp _ _ ht
  obtain ⟨P, hP, _⟩ := (C03.newPattern_compile _ hs).1
    (show C03.deepCount [C03.Seg.plain (.lit svc), C03.Seg.plain (.lit meth)] ≤ 1 by
      simp [C03.deepCount, C03.atomsOf, C03.Seg.atoms, C03.VSeg.isDeep])
  simp [validC, c03Pattern, ht, hP]

theorem lastIdx_getElem (svc : SvcName) (ss : List Service) :
    ∀ (i j : Nat), lastIdx svc ss i = some j → ∃ k S, j = i + k ∧ ss[k]? = some S ∧ S.name = svc := by
  induction ss with
  | nil => intro i j h; simp [lastIdx] at h
  | cons s ss ih =>
    intro i j h
    simp only [lastIdx] at h
    cases hl : lastIdx svc ss (i + 1) with
    | some j' =>
      rw [hl] at h
      simp only [Option.some.injEq] at h
      subst h
      obtain ⟨k, S, hj, hk, hn⟩ := ih (i + 1) j' hl
      exact ⟨k + 1, S, by omega, by simpa using hk, hn⟩
    | none =>
      rw [hl] at h
      by_cases hs : s.name = svc
      · simp only [hs, ↓reduceIte, Option.some.injEq] at h
        exact ⟨0, s, by omega, by simp, hs⟩
      · simp [hs] at h

end GB.C14
