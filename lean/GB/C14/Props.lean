import GB.C14.Proofs
import GB.C14.ProofsEsc
import GB.Generated.Facts
import GB.C14.Atomic
import GB.C14.ProofsDefault
import GB.C06.Props
import GB.Stack.Props   -- STACK block at the end of this file (area `stack`)
/-
  C14 — property theorems.  `parseRPCName`, `routeGRPC`, `routeHTTPsvc` model
  routing/service_router.go (after fix D16), `setPath`/`parseTarget`/`httpName`/`webName` model what
  net/http + net/url put into `URL.Path` / `URL.RawPath` and which of the two each entry point reads;
  the ownership table is C06's `SvcState` (claims, keeps, releases).
-/
set_option linter.unusedSimpArgs false
set_option linter.unusedVariables false
open GB GB.C06 GB.C14

/-- **Parsing = the specification, for every byte string**: `s` is accepted as (service, method) iff,
    after removing one optional leading '/', it reads `service '/' method` with no '/' inside the service —
    the method is the entire remainder (further slashes, empty parts, dots, escapes included). -/
theorem C14_parse (s svc m : Bytes) : parseRPCName s = some (svc, m) ↔ Names s svc m :=
  parse_iff s svc m

/-- Malformed names are exactly those without a '/' after the optional leading one. -/
theorem C14_parse_malformed (s : Bytes) : parseRPCName s = none ↔ slash ∉ strip s := by
  rw [parseRPCName_eq, cutSlash_none]

/-- **gRPC form**: owner found ⇒ routed to it with the canonical name built from the verbatim method;
    unknown service ⇒ Unimplemented; malformed ⇒ Unimplemented. -/
theorem C14_route_grpc (pool : Name → Bool) (routes : SvcName → Option SvcRoute) (s : Bytes) :
    specGRPC pool routes s (routeGRPC pool routes (some s)) := by
  refine ⟨?_, ?_, ?_⟩
  · intro svc m r hn hr hp
    simp [routeGRPC, (parse_iff s svc m).mpr hn, hr, hp, canonicalRPCName]
  · intro svc m hn hr
    simp [routeGRPC, (parse_iff s svc m).mpr hn, hr]
  · intro hno
    cases hp : parseRPCName s with
    | none => simp [routeGRPC, hp]
    | some p =>
      obtain ⟨svc, m⟩ := p
      exact absurd ⟨svc, m, (parse_iff s svc m).mp hp⟩ hno

/-- **Method passed verbatim**: whenever a call is routed, the RPC name handed on is '/' followed by
    the incoming name without its optional leading '/', byte for byte. -/
theorem C14_method_verbatim (pool : Name → Bool) (routes : SvcName → Option SvcRoute) (s : Bytes)
    (t : Name) (v : Ver) (i : Nat) (rpc : Bytes)
    (h : routeGRPC pool routes (some s) = .ok t v i rpc) :
    rpc = slash :: strip s ∧ ∃ svc m r, Names s svc m ∧ routes svc = some r ∧ r = ⟨t, v, i⟩ := by
  simp only [routeGRPC] at h
  cases hp : parseRPCName s with
  | none => simp [hp] at h
  | some p =>
    obtain ⟨svc, m⟩ := p
    simp only [hp] at h
    cases hr : routes svc with
    | none => simp [hr] at h
    | some r =>
      simp only [hr] at h
      split at h
      · simp only [GRPCRes.ok.injEq] at h
        obtain ⟨h1, h2, h3, h4⟩ := h
        have hn := (parse_iff s svc m).mp hp
        refine ⟨?_, svc, m, r, hn, hr, ?_⟩
        · rw [← h4, hn.1]; simp [canonicalRPCName]
        · cases r; simp_all
      · cases h

/-- The pool is only asked for the owner's connection: no connection ⇒ Unavailable; no method in
    the context ⇒ Internal. -/
theorem C14_route_grpc_other_codes (pool : Name → Bool) (routes : SvcName → Option SvcRoute) :
    routeGRPC pool routes none = .status codeInternal ∧
    ∀ s svc m r, Names s svc m → routes svc = some r → pool r.target = false →
      routeGRPC pool routes (some s) = .status codeUnavailable := by
  refine ⟨rfl, ?_⟩
  intro s svc m r hn hr hp
  simp [routeGRPC, (parse_iff s svc m).mpr hn, hr, hp]

/-- **HTTP form, codes**: non-POST ⇒ Unimplemented with HTTP status 405; POST with a malformed or unknown
    name ⇒ NotFound; POST of a known service ⇒ same target, same verbatim method as the gRPC form, with the
    default binding of that method. -/
theorem C14_route_http (pool : Name → Bool) (routes : SvcName → Option SvcRoute) (hm name : Bytes) :
    (hm ≠ POST → routeHTTPsvcName pool routes hm name = .status codeUnimplemented (some 405)) ∧
    (hm = POST → (∀ svc m, Names name svc m → routes svc = none) →
        routeHTTPsvcName pool routes hm name = .status codeNotFound none) ∧
    (hm = POST → ∀ t v i rpc, routeGRPC pool routes (some name) = .ok t v i rpc →
        routeHTTPsvcName pool routes hm name = .ok t v i rpc POST rpc) := by
  refine ⟨?_, ?_, ?_⟩
  · intro h; simp [routeHTTPsvcName, h]
  · intro h hno
    subst h
    simp only [routeHTTPsvcName, ne_eq, not_true_eq_false, ↓reduceIte]
    cases hp : parseRPCName name with
    | none => rfl
    | some p =>
      obtain ⟨svc, m⟩ := p
      simp [hno svc m ((parse_iff name svc m).mp hp)]
  · intro h t v i rpc hg
    subst h
    simp only [routeGRPC] at hg
    simp only [routeHTTPsvcName, ne_eq, not_true_eq_false, ↓reduceIte]
    cases hp : parseRPCName name with
    | none => simp [hp] at hg
    | some p =>
      obtain ⟨svc, m⟩ := p
      simp only [hp] at hg ⊢
      cases hr : routes svc with
      | none => simp [hr] at hg
      | some r =>
        simp only [hr] at hg ⊢
        split at hg
        · rename_i hpool
          simp only [GRPCRes.ok.injEq] at hg
          obtain ⟨h1, h2, h3, h4⟩ := hg
          rw [h1] at hpool
          simp [hpool, h1, h2, h3, h4]
        · cases hg

/-- **The HTTP form works on requests as net/http delivers them**: for every origin-form request target
    that `url.ParseRequestURI` accepts, `RouteHTTP` routes by the request path exactly as written on the
    request line (everything before the first '?'), although `URL.RawPath` is empty for ordinary paths. -/
theorem C14_http_real_request (pool : Name → Bool) (routes : SvcName → Option SvcRoute) (hm t : Bytes) (u : URL)
    (h : parseTarget t = some u) :
    routeHTTPsvc pool routes hm u = routeHTTPsvcName pool routes hm (targetPath t) := by
  unfold parseTarget at h
  split at h
  · rename_i rest
    rcases httpName_setPath _ u h with hn | ⟨hp, _⟩
    · simp [routeHTTPsvc, hn]
    · -- the path of an origin-form target starts with '/', it is not "%2A"
      exfalso
      simp [targetPath, List.takeWhile_cons] at hp
  · cases h

/-- For every path `setPath` accepts (not only origin-form ones) the name read is the path as written,
    the asterisk form `%2A` being the only exception. -/
theorem C14_http_name (p : Bytes) (u : URL) (h : setPath p = some u) :
    httpName u = p ∨ (p = [37, 50, 65] ∧ u = ⟨[42], []⟩) :=
  httpName_setPath p u h

/-- **All three entry points agree on ordinary names**: for a path made only of bytes net/url leaves
    unescaped (letters, digits, `. _ - ~ / : @ & = + $ , ;` — every legal gRPC name), the request URL has
    an empty RawPath, and gRPC (`:path` verbatim), gRPC-Web (`URL.Path`) and HTTP POST (`RawPath`, else the
    escaped path) read the same name. -/
theorem C14_forms_agree (p : Bytes) (hp : Plain p) (hs : p.head? = some slash) :
    parseTarget p = some ⟨p, []⟩ ∧ webName ⟨p, []⟩ = p ∧ httpName ⟨p, []⟩ = p ∧ webNamePreFix ⟨p, []⟩ = p := by
  have ht := targetPath_plain p hp
  have hu := unescapePath_plain p hp
  have he := escapePath_plain p hp
  have hn : httpName ⟨p, []⟩ = p := by
    simp only [httpName, escapedPathNoRaw]
    have : p ≠ [42] := by
      intro e; subst e; simp [slash] at hs
    simp [this, he]
  refine ⟨?_, hn, hn, rfl⟩
  cases p with
  | nil => simp at hs
  | cons c cs =>
    simp only [List.head?_cons, Option.some.injEq] at hs
    subst hs
    show setPath (targetPath (slash :: cs)) = _
    rw [ht]
    simp [setPath, hu, he]

/-- **Only the exact method token `POST` is the gRPC-style HTTP form** (HTTP methods are case-sensitive): `RouteHTTP` routes a
    request to a target **iff** the method bytes are exactly `POST` and the gRPC form routes the same name; every other token —
    `post`, `Post`, `POSTS`, `GET`, … — gets Unimplemented with HTTP status 405, whatever the path names (known service, unknown
    service, malformed name alike).  Seeded change C14-m12 (`strings.EqualFold`) breaks the "only if" direction. -/
theorem C14_http_form_exact_post (pool : Name → Bool) (routes : SvcName → Option SvcRoute) (hm name : Bytes) :
    ((∃ t v i rpc bm bp, routeHTTPsvcName pool routes hm name = .ok t v i rpc bm bp) ↔
      (hm = [80, 79, 83, 84] ∧ ∃ t v i rpc, routeGRPC pool routes (some name) = .ok t v i rpc)) ∧
    (hm ≠ [80, 79, 83, 84] → routeHTTPsvcName pool routes hm name = .status codeUnimplemented (some 405)) := by
  have hP : POST = [80, 79, 83, 84] := rfl
  refine ⟨⟨?_, ?_⟩, fun h => (C14_route_http pool routes hm name).1 (by rw [hP]; exact h)⟩
  · rintro ⟨t, v, i, rpc, bm, bp, h⟩
    by_cases c : hm = POST
    · refine ⟨by rw [← hP]; exact c, ?_⟩
      subst c
      simp only [routeHTTPsvcName, ne_eq, not_true_eq_false, if_false] at h
      simp only [routeGRPC]
      cases hp : parseRPCName name with
      | none => simp [hp] at h
      | some p =>
        obtain ⟨svc, m⟩ := p
        simp only [hp] at h ⊢
        cases hr : routes svc with
        | none => simp [hr] at h
        | some r =>
          simp only [hr] at h ⊢
          by_cases hpl : pool r.target = true
          · exact ⟨r.target, r.ver, r.idx, canonicalRPCName svc m, by simp [hpl]⟩
          · simp [hpl] at h
    · rw [(C14_route_http pool routes hm name).1 c] at h; cases h
  · rintro ⟨c, t, v, i, rpc, h⟩
    exact ⟨t, v, i, rpc, POST, rpc, (C14_route_http pool routes hm name).2.2 (by rw [hP]; exact c) t v i rpc h⟩

/-- `post` and `Post` on the path `/p.S/M` of a known, pooled service: refused (405), while `POST` is routed -/
theorem C14_http_form_lowercase_post_refused :
    routeHTTPsvcName (fun _ => true) (fun s => if s = [112, 46, 83] then some ⟨[97], 1, 0⟩ else none)
      [112, 111, 115, 116] [47, 112, 46, 83, 47, 77] = .status codeUnimplemented (some 405) ∧
    routeHTTPsvcName (fun _ => true) (fun s => if s = [112, 46, 83] then some ⟨[97], 1, 0⟩ else none)
      [80, 111, 115, 116] [47, 112, 46, 83, 47, 77] = .status codeUnimplemented (some 405) ∧
    routeHTTPsvcName (fun _ => true) (fun s => if s = [112, 46, 83] then some ⟨[97], 1, 0⟩ else none)
      [80, 79, 83, 84] [47, 112, 46, 83, 47, 77] =
        .ok [97] 1 0 [47, 112, 46, 83, 47, 77] [80, 79, 83, 84] [47, 112, 46, 83, 47, 77] := by
  decide

/-- regenerated from the AST of `ServiceRouter.RouteHTTP` on every check (extract/c14.go): the non-POST refusal is the
    case-sensitive comparison against `http.MethodPost`, it is the only expression over `r.Method`, and the function calls
    no case-folding helper. -/
theorem C14_facts_method_guard :
    GB.Generated.c14RouteHTTPMethodGuard = "r.Method != http.MethodPost" ∧
    GB.Generated.c14RouteHTTPMethodComparisons = ["r.Method != http.MethodPost"] ∧
    "strings.EqualFold" ∉ GB.Generated.c14RouteHTTPCalls ∧ "strings.ToUpper" ∉ GB.Generated.c14RouteHTTPCalls ∧
    "strings.ToLower" ∉ GB.Generated.c14RouteHTTPCalls := by
  decide

/-! ### escaped paths (fix D39)

  The same request line can arrive on three entries: gRPC (`:path`, never decoded), HTTP POST (`RouteHTTP`: RawPath, else
  EscapedPath — the path as written) and gRPC-Web (`gRPCWebServerStream.Method()`).  Before fix D39 the last one returned
  `URL.Path`, the percent-DECODED path.  `C14_forms_agree_iff_before_fix` delimits the request paths on which that
  differs from the other two: exactly those containing a '%'.  The property text routes "the target whose current
  description lists package.Service" with "the method name passed through verbatim" for a call "arriving as gRPC, gRPC-Web
  or an HTTP POST path": one answer per path, and a verbatim name — the decoded reading hands the target a method string
  the client did not send and routes `/p%2ES/M` to the owner of `p.S` while the other two entries answer "unknown
  service".  Fixed in the code (Method() = the path as written); the theorems below are about the fixed code, the
  `…_before_fix` ones about `webNamePreFix`. -/

/-- **All entries read the request path exactly as written** — for EVERY origin-form target net/url accepts, escaped
    or not: the gRPC-Web name and the HTTP POST name are the bytes before the first '?' (which is also what a gRPC
    client's `:path` carries, `C14_method_verbatim`). -/
theorem C14_forms_agree_all (t : Bytes) (u : URL) (h : parseTarget t = some u) :
    webName u = targetPath t ∧ httpName u = targetPath t := by
  unfold parseTarget at h
  split at h
  · rcases httpName_setPath _ u h with hn | ⟨hp, _⟩
    · exact ⟨hn, hn⟩
    · exfalso
      simp [targetPath, List.takeWhile_cons] at hp
  · cases h

/-- **Where the decoded reading differs** (the code before fix D39): `URL.Path` equals the path as written **iff** the
    path contains no '%'.  (net/url accepts a '%' only as the start of a valid escape, and every escape decodes to a
    single byte; so the set of paths on which the forms could disagree is exactly the set of paths with an escape.) -/
theorem C14_forms_agree_iff_before_fix (t : Bytes) (u : URL) (h : parseTarget t = some u) :
    webNamePreFix u = httpName u ↔ percent ∉ targetPath t := by
  have hn := (C14_forms_agree_all t u h).2
  have hp : unescapePath (targetPath t) = some u.path := by
    unfold parseTarget at h
    split at h
    · exact setPath_path _ u h
    · cases h
  rw [hn, ← unescapePath_self_iff, hp]
  simp only [webNamePreFix, Option.some.injEq]

/-- gRPC-Web and HTTP POST route every accepted request line alike (fixed code): same owner, same description
    version, same service index, same verbatim method string — or both "nobody". -/
theorem C14_web_http_same_route (pool : Name → Bool) (routes : SvcName → Option SvcRoute) (t : Bytes) (u : URL)
    (h : parseTarget t = some u) (tg : Name) (v : Ver) (i : Nat) (rpc : Bytes) :
    routeGRPC pool routes (some (webName u)) = .ok tg v i rpc ↔
      routeHTTPsvc pool routes POST u = .ok tg v i rpc POST rpc := by
  have hw : webName u = httpName u := rfl
  simp only [routeHTTPsvc, routeHTTPsvcName, routeGRPC, hw, ne_eq, not_true_eq_false, if_false]
  cases parseRPCName (httpName u) with
  | none => simp
  | some p =>
    obtain ⟨svc, m⟩ := p
    simp only []
    cases routes svc with
    | none => simp
    | some r =>
      simp only []
      by_cases hp : pool r.target = true
      · simp only [hp, if_true, GRPCRes.ok.injEq, HTTPSvcRes.ok.injEq]
        constructor
        · rintro ⟨a, b, c, d⟩; simp [a, b, c, d]
        · intro hh; simp at hh; simp [hh]
      · simp [hp]

/-- the request line `POST /p%2ES/M` with target "a" owning `p.S` (and pooled) -/
def escTarget : Bytes := [47, 112, 37, 50, 69, 83, 47, 77]
def escRoutes : SvcName → Option SvcRoute := fun s => if s = [112, 46, 83] then some ⟨[97], 1, 0⟩ else none

/-- **Before fix D39, on the same bytes**: gRPC-Web decoded the path, routed to the owner of `p.S` and handed on the method
    string `/p.S/M` (not what the client sent); gRPC (`:path` verbatim) and HTTP POST answered "unknown service". -/
theorem C14_escaped_path_forms_differ_before_fix :
    (parseTarget escTarget).map (fun u =>
      (routeGRPC (fun _ => true) escRoutes (some (webNamePreFix u)),
       routeGRPC (fun _ => true) escRoutes (some escTarget),
       routeHTTPsvc (fun _ => true) escRoutes POST u)) =
    some (.ok [97] 1 0 [47, 112, 46, 83, 47, 77], .status codeUnimplemented, .status codeNotFound none) := by
  decide

/-- … after the fix all three say "unknown service". -/
theorem C14_escaped_path_forms_agree_after_fix :
    (parseTarget escTarget).map (fun u =>
      (routeGRPC (fun _ => true) escRoutes (some (webName u)),
       routeGRPC (fun _ => true) escRoutes (some escTarget),
       routeHTTPsvc (fun _ => true) escRoutes POST u)) =
    some (.status codeUnimplemented, .status codeUnimplemented, .status codeNotFound none) := by
  decide

/-- an escape in the METHOD part: before the fix gRPC-Web called method `MA` for the path `/p.S/M%41`; now `M%41`, like
    the other two entries (the target then decides; the bridge does not reinterpret the name). -/
theorem C14_escaped_method_before_and_after_fix :
    (parseTarget [47, 112, 46, 83, 47, 77, 37, 52, 49]).map (fun u =>
      (routeGRPC (fun _ => true) escRoutes (some (webNamePreFix u)), routeGRPC (fun _ => true) escRoutes (some (webName u)))) =
    some (.ok [97] 1 0 [47, 112, 46, 83, 47, 77, 65], .ok [97] 1 0 [47, 112, 46, 83, 47, 77, 37, 52, 49]) := by
  decide

/-- **First claimant keeps a contested service** over any claim history: if after a history `h` target `n`
    owns `svc`, then after any continuation in which `n` is not closed and every description delivered for
    `n` still lists `svc`, `n` still owns it — whatever the other targets claim, keep or release. -/
theorem C14_first_claimant (h ops : List Op) (n : Name) (svc : SvcName)
    (hown : ∃ r, (SvcState.init.run h).routes svc = some r ∧ r.target = n)
    (hk : Keeps n svc ops) :
    ∃ r, (SvcState.init.run (h ++ ops)).routes svc = some r ∧ r.target = n := by
  have : SvcState.init.run (h ++ ops) = (SvcState.init.run h).run ops := by
    simp [SvcState.run, List.foldl_append]
  rw [this]
  exact first_claimant_run n svc ops _ (WInv_run WInv_init h) hown hk

/-- A later claimant of an owned service does not get the route: its update leaves the route untouched (its claim
    is remembered in the waiting list, `C14_release_hands_over`). -/
theorem C14_later_claimant (h : List Op) (n : Name) (d : Desc) (svc : SvcName) (r : SvcRoute)
    (hr : (SvcState.init.run h).routes svc = some r) (hne : r.target ≠ n) :
    (SvcState.init.run (h ++ [.update n d])).routes svc = some r := by
  rw [run_snoc_svc]
  exact C06_isolation_service h (.update n d) svc r hr hne

/-- the same theorem under the name the coordinator's plan uses -/
theorem C14_first_claimant_keeps (h ops : List Op) (n : Name) (svc : SvcName)
    (hown : ∃ r, (SvcState.init.run h).routes svc = some r ∧ r.target = n)
    (hk : Keeps n svc ops) :
    ∃ r, (SvcState.init.run (h ++ ops)).routes svc = some r ∧ r.target = n :=
  C14_first_claimant h ops n svc hown hk

/-- the entry the earliest remaining claimant gets: `rest` = the claimants behind the owner, in claim order -/
def C14_nextOwner (l : Latest) (rest : List Name) (svc : SvcName) : Option SvcRoute :=
  match rest with
  | [] => none
  | m :: _ => specSvcRoute l m svc

/-- **Release hands over** (fix D31).  Let `n :: rest` be the claimants of `svc` after `h` in claim order (`n` the
    owner).  When `n` is closed, or delivers a description that no longer lists `svc`, the service is routed —
    immediately, by that very operation — to the EARLIEST remaining claimant `m` (head of `rest`) with `m`'s LATEST
    description (version and index of the service); when nobody else lists it (`rest = []`) it becomes unrouted. -/
theorem C14_release_hands_over (h : List Op) (n : Name) (rest : List Name) (svc : SvcName)
    (hc : claimsOf h svc = n :: rest) :
    (SvcState.init.run (h ++ [.close n])).routes svc = C14_nextOwner (latestOf h) rest svc ∧
    ∀ d, d.name = n → ¬ listed d.services svc →
      (SvcState.init.run (h ++ [.update n d])).routes svc = C14_nextOwner (latestOf h) rest svc := by
  have inv := C06_service_invariant h
  have hnd : (n :: rest).Nodup := hc ▸ inv.cNodup svc
  obtain ⟨hn, _⟩ := List.nodup_cons.mp hnd
  have hw : (latestOf h).watched n = true := by
    obtain ⟨d, hd, _⟩ := (inv.claims svc n).mp (by rw [hc]; simp)
    exact desc_some_watched _ _ d hd
  have hfilt : (n :: rest).filter (fun m => decide (m ≠ n)) = rest := by
    rw [List.filter_cons, if_neg (by simp), List.filter_eq_self]
    intro k hk; exact decide_eq_true (fun e => hn (by rw [← e]; exact hk))
  unfold C14_nextOwner
  constructor
  · have inv' := C06_service_invariant (h ++ [.close n])
    rw [inv'.owner_head svc, (C06_claim_order h svc n ⟨n, 0, []⟩).2.2.1, hc, hfilt]
    cases rest with
    | nil => rfl
    | cons m ms =>
      have hmn : m ≠ n := fun e => hn (by rw [← e]; simp)
      simp only
      apply specSvcRoute_congr
      rw [latestOf_snoc, desc_close]; simp [hmn]
  · intro d hd hl
    have inv' := C06_service_invariant (h ++ [.update n d])
    rw [inv'.owner_head svc, (C06_claim_order h svc n d).2.2.2.2.1 hw hd hl, hc, hfilt]
    cases rest with
    | nil => rfl
    | cons m ms =>
      have hmn : m ≠ n := fun e => hn (by rw [← e]; simp)
      simp only
      apply specSvcRoute_congr
      rw [latestOf_snoc, desc_update]; simp [hmn]

/-- in particular: a service that another live target still lists never becomes unrouted by a release -/
theorem C14_release_keeps_routed (h : List Op) (n m : Name) (svc : SvcName) (hmn : m ≠ n)
    (hm : Lists (latestOf h) m svc) :
    ∃ r, (SvcState.init.run (h ++ [.close n])).routes svc = some r ∧ r.target ≠ n := by
  have hl : Lists (latestOf (h ++ [.close n])) m svc := by
    rw [latestOf_snoc]
    exact (Lists_congr (by rw [desc_close]; simp [hmn]) svc).mpr hm
  obtain ⟨r, hr, hrl⟩ := C06_service_routed (h ++ [.close n]) svc m hl
  refine ⟨r, hr, ?_⟩
  intro e
  obtain ⟨d, hd, _⟩ := hrl
  rw [e, latestOf_snoc, desc_close] at hd
  simp at hd

/-- **No unrouted gap for lock-free readers**: every sync.Map state a `Close(n)` goes through maps a service owned
    by `n` either still to `n`'s entry or already to the first waiting claimant — when somebody waits, never to
    "absent" (the hand-over is ONE `Store`, not `Delete` + `Store`). -/
theorem C14_handover_no_gap (h : List Op) (n : Name) (svc : SvcName) (o e : SvcRoute) (es : List SvcRoute)
    (ho : (SvcState.init.run h).routes svc = some o)
    (hw : (SvcState.init.run h).waiting svc = e :: es) :
    ∀ r' ∈ removeTrace (SvcState.init.run h) n, r' svc = some o ∨ r' svc = some e := by
  intro r' hr'
  have inv := (C06_service_invariant h).winv
  rcases delLoopTrace_handover [] svc _ _ (inv.svNodup n) r' hr' with h1 | h1
  · exact Or.inl (h1.trans ho)
  · exact Or.inr (by rw [h1]; simp [hw])

/-! ### D31: what was wrong before the fix (kernel-checked witness on explicit data) -/

/-- descriptions of "a" and "b", both listing service "S" -/
def d31a : Desc := ⟨[97], 1, [⟨[83], []⟩]⟩
def d31b : Desc := ⟨[98], 3, [⟨[83], []⟩]⟩
/-- `watch a; update a{S}; watch b; update b{S}; close a` -/
def d31h : List Op := [.watch [97], .update [97] d31a, .watch [98], .update [98] d31b, .close [97]]

/-- The ORIGINAL code (`SvcState.runOrig`: conflicting claims only logged, release = `Delete`): after the owner "a"
    is closed, "S" is unrouted although "b" is still watched and its current description lists "S" — and it stays
    so until b's contract changes … -/
theorem C14_original_release_leaves_live_lister_unrouted :
    (SvcState.init.runOrig d31h).routes [83] = none ∧
    (latestOf d31h).desc [98] = some d31b ∧ (latestOf d31h).watched [98] = true ∧
    (SvcState.init.runOrig (d31h ++ [.update [98] d31b])).routes [83] = some ⟨[98], 3, 0⟩ := by
  decide

/-- … whereas the fixed code hands "S" over to "b" (with b's latest description) by the Close itself. -/
theorem C14_release_hands_over_witness :
    (SvcState.init.run d31h).routes [83] = some ⟨[98], 3, 0⟩ ∧
    (SvcState.init.run (d31h.take 4)).routes [83] = some ⟨[97], 1, 0⟩ ∧
    (SvcState.init.run (d31h.take 4)).waiting [83] = [⟨[98], 3, 0⟩] := by
  decide

/-! ### D16: what was wrong before the fix (kernel-checked witness on explicit data) -/

/-- the request target `/S/M` as net/http parses it: Path = "/S/M", RawPath = "" -/
theorem C14_ordinary_request_has_empty_rawpath :
    parseTarget [47, 83, 47, 77] = some ⟨[47, 83, 47, 77], []⟩ := by decide

/-- Before fix D16 (`routeHTTPsvcPreFix` reads `URL.RawPath` only) that request is NotFound although
    target "a" owns service "S" … -/
theorem C14_http_real_request_fails_before_fix :
    routeHTTPsvcPreFix (fun _ => true) (fun s => if s = [83] then some ⟨[97], 1, 0⟩ else none) POST
      ⟨[47, 83, 47, 77], []⟩ = .status codeNotFound none := by decide

/-- … whereas the fixed code routes it to "a" with the method name "/S/M". -/
theorem C14_http_real_request_ok_after_fix :
    routeHTTPsvc (fun _ => true) (fun s => if s = [83] then some ⟨[97], 1, 0⟩ else none) POST
      ⟨[47, 83, 47, 77], []⟩ = .ok [97] 1 0 [47, 83, 47, 77] POST [47, 83, 47, 77] := by decide

/-! ### non-vacuity -/

example : Names [47, 112, 46, 83, 47, 77, 47, 120] [112, 46, 83] [77, 47, 120] := by unfold Names; decide
example : Names [112, 46, 83, 47] [112, 46, 83] [] := by unfold Names; decide
example : parseRPCName [47, 47, 77] = some ([], [77]) := by decide
example : Plain [47, 112, 46, 83, 47, 77] := by unfold Plain; decide
/-- an escaped path was *not* read alike by the HTTP form (verbatim) and the gRPC-Web form before fix D39 (decoded) -/
example : (parseTarget [47, 112, 37, 50, 69, 83, 47, 77]).map (fun u => (httpName u, webNamePreFix u, webName u)) =
    some ([47, 112, 37, 50, 69, 83, 47, 77], [47, 112, 46, 83, 47, 77], [47, 112, 37, 50, 69, 83, 47, 77]) := by decide
/-- `C14_forms_agree_iff_before_fix` is not vacuous: the escaped target is accepted and contains a '%' -/
example : (parseTarget escTarget).isSome = true ∧ percent ∈ targetPath escTarget := by decide


/-! ## First-claimant stability as an invariant, down to single sync.Map operations (for C11) -/

/-- `n` owns `svc` (and the claim bookkeeping is consistent) -/
def C14_Owns (n : Name) (svc : SvcName) (st : SvcState) : Prop :=
  WInv st ∧ ∃ r, st.routes svc = some r ∧ r.target = n

/-- an operation under which the owner neither closes nor drops the service -/
def C14_KeepsOp (n : Name) (svc : SvcName) (op : Op) : Prop :=
  op ≠ .close n ∧ ∀ d, op = .update n d → listed d.services svc

/-- **Inductive invariant** (the form an LTS argument consumes): from ANY state in which `n` owns `svc` —
    reachable ones included (`C14_owns_reachable`) — every operation that is neither `close n` nor an update of `n`
    dropping `svc` leads to a state in which `n` still owns `svc`; whatever other targets claim, keep or release. -/
theorem C14_owner_invariant (n : Name) (svc : SvcName) (st : SvcState) (op : Op)
    (h : C14_Owns n svc st) (hk : C14_KeepsOp n svc op) : C14_Owns n svc (st.step op).1 := by
  obtain ⟨inv, r, hr, hn⟩ := h
  exact ⟨WInv_step inv op, first_claimant_step inv n svc r hr hn op hk⟩

theorem C14_owns_reachable (h : List Op) (n : Name) (svc : SvcName) (r : SvcRoute)
    (hr : (SvcState.init.run h).routes svc = some r) (hn : r.target = n) :
    C14_Owns n svc (SvcState.init.run h) :=
  ⟨WInv_run WInv_init h, r, hr, hn⟩

/-- **The same at the granularity of atomic map operations**: `stepTrace st op` lists the sync.Map after every single
    LoadOrStore / Store / Delete the operation performs (and ends in the map of the model's step,
    `C14_trace_ends_in_step`); in EVERY one of these intermediate maps `svc` is still mapped to an entry of `n`.
    So a lock-free `routes.Load(svc)` interleaved anywhere inside another target's `UpdateDesc`/`Close` — or inside
    the owner's own re-listing update — sees the owner: C11 may treat the add and delete phases as single steps
    as far as foreign keys are concerned. -/
theorem C14_owner_stable_atomic (n : Name) (svc : SvcName) (st : SvcState) (op : Op)
    (h : C14_Owns n svc st) (hk : C14_KeepsOp n svc op) :
    ∀ r' ∈ stepTrace st op, ∃ o, r' svc = some o ∧ o.target = n := by
  obtain ⟨inv, r, hr, hn⟩ := h
  exact owner_stable_atomic inv n svc r hr hn op hk

/-- the traces are traces of the modelled operations: their last map is the map after the step -/
theorem C14_trace_ends_in_step (st : SvcState) (d : Desc) (n : Name) :
    (updateTrace st d).getLastD st.routes = (updateRoutes st d).routes ∧
    (removeTrace st n).getLastD st.routes = (st.removeTarget n).routes := by
  have happ : ∀ (A B : List RMap) (x : RMap), (A ++ B).getLastD x = B.getLastD (A.getLastD x) := by
    intro A B x
    cases B with
    | nil => simp [List.getLastD]
    | cons b bs =>
      have : A ++ b :: bs ≠ [] := by simp
      simp [List.getLastD_eq_getLast?, List.getLast?_append]
  constructor
  · unfold updateTrace updateRoutes
    simp only
    rw [happ, addLoopTrace_last d.name d.ver d.services 0 ⟨st.routes, st.waiting, []⟩]
    exact delLoopTrace_last _ _ _
  · exact delLoopTrace_last [] _ _

/-! ### the seeded variant C14-m3 (Swap, then Store the old value back): kernel-checked witness -/

/-- "a" owns "S"; "b" is watched -/
def swapSt : SvcState := SvcState.init.run [.watch [97], .watch [98], .update [97] ⟨[97], 2, [⟨[83], []⟩]⟩]
/-- the description with which "b" claims "S" too -/
def swapDesc : Desc := ⟨[98], 3, [⟨[83], []⟩]⟩

/-- Sequentially the variant is indistinguishable here: after b's update "S" is a's again, exactly as with the
    real code … -/
theorem C14_swap_variant_same_end_state :
    swapLoopEnd swapSt swapDesc [83] = some ⟨[97], 2, 0⟩ ∧
    (updateRoutes swapSt swapDesc).routes [83] = some ⟨[97], 2, 0⟩ := by decide

/-- … but between the `Swap` and the `Store` back there is a sync.Map state in which "S" belongs to "b":
    the invariant `C14_owner_stable_atomic` fails for the variant (a concurrent `RouteGRPC(/S/M)` is sent to b). -/
theorem C14_swap_variant_violates_stability :
    (swapSt.routes [83] = some ⟨[97], 2, 0⟩) ∧
    (addLoopSwapTrace swapDesc.name swapDesc.ver swapDesc.services 0 swapSt.routes).any
      (fun r' => decide (r' [83] = some ⟨[98], 3, 0⟩)) = true := by decide

/-- whereas every intermediate state of the real code keeps "S" with "a" (instance of the theorem, by evaluation) -/
theorem C14_fixed_code_intermediate_ok :
    (stepTrace swapSt (.update [98] swapDesc)).length = 1 ∧
    (stepTrace swapSt (.update [98] swapDesc)).all (fun r' => decide (r' [83] = some ⟨[97], 2, 0⟩)) = true := by
  decide

/-! ## The two routers agree where both apply: default binding vs. the ServiceRouter's HTTP form -/

/-- **`POST /pkg.Svc/Method` of a method without bindings**: let target `n`'s latest description `d` list service
    `svc` at index `si` with a method at index `mi` that has no bindings and the RPC name `/svc/meth` (slash-free
    parts, accepted by the template parser as two literals).  If `n` owns `svc` in the service table (e.g. the
    service was never shared, `C06_service`), the pool has a connection for `n`, and no OTHER accepted POST binding
    of a live target's latest description matches `/svc/meth` (`huniq`, as in `C03_default`), then after the same
    history

    * `PatternRouter.RouteHTTP` (C06 table + C03 matcher) returns the DEFAULT binding of that method: target `n`,
      description version `d.ver`, index path `(si, mi, default)`, binding `POST /svc/meth`, no captures;
    * `ServiceRouter.RouteHTTP` returns target `n`, the same description version `d.ver`, a service entry of `d`
      named `svc`, the method name `/svc/meth` = the RPC name of that method, and the binding `POST /svc/meth`.

    Same target, same description, same method name, same binding content. -/
theorem C14_http_forms_agree_with_pattern_default
    (parse : Bytes → Option C03.Tmpl) (hp : ParserOk parse) (pool : Name → Bool) (h : List Op)
    (n : Name) (d : Desc) (si mi : Nat) (S : Service) (M : Method) (svc meth : Bytes)
    (hd : (latestOf h).desc n = some d) (hS : d.services[si]? = some S) (hSn : S.name = svc)
    (hM : S.methods[mi]? = some M) (hb : M.bindings = []) (hrpc : M.rpcName = slash :: svc ++ slash :: meth)
    (ht : parse M.rpcName = some ⟨[.plain (.lit svc), .plain (.lit meth)], []⟩)
    (h1 : svc ≠ C03.eof) (h2 : meth ≠ C03.eof) (h3 : ∀ c ∈ svc, c ≠ 47) (h4 : ∀ c ∈ meth, c ≠ 47)
    (hpool : pool n = true)
    (hown : ∃ ρ, (SvcState.init.run h).routes svc = some ρ ∧ ρ.target = n)
    (huniq : ∀ e ∈ tableOfGroups parse POST
        ((orderOf (PatState.init.run (validC parse) h) POST).filterMap (specGroup (validC parse) (latestOf h) POST)),
      (∃ b, C03.PathMatches e.2.2 [svc, meth] b) →
        e = ((n, d.ver, ⟨si, mi, none, POST, M.rpcName⟩), POST, ⟨[.plain (.lit svc), .plain (.lit meth)], []⟩)) :
    routeHTTPm parse pool (PatState.init.run (validC parse) h).static POST M.rpcName =
        .found n d.ver ⟨si, mi, none, POST, M.rpcName⟩ [] ∧
    ∃ j S', routeHTTPsvcName pool (SvcState.init.run h).routes POST M.rpcName =
        .ok n d.ver j M.rpcName POST M.rpcName ∧ d.services[j]? = some S' ∧ S'.name = svc := by
  have hv : validC parse M.rpcName = true := validC_of_two_lits hp ht
  have hsplit : C03.splitSlash (svc ++ 47 :: meth) = [svc, meth] := by
    rw [C03.splitSlash_append _ h3, C03.splitSlash_noslash h4]
  constructor
  · -- pattern side
    have hpath : M.rpcName = 47 :: (svc ++ 47 :: meth) := hrpc
    have e : routeHTTPm parse pool (PatState.init.run (validC parse) h).static POST M.rpcName =
        routeHTTPm parse pool (PatState.init.run (validC parse) h).static POST (47 :: (svc ++ 47 :: meth)) := by
      rw [← hpath]
    rw [e, C06_pattern_with_matcher parse hp pool h POST (svc ++ 47 :: meth), hsplit]
    refine ⟨hpool, ?_⟩
    -- the default entry is in the table
    have hr0 := default_route_mem (validC parse) d hS hM hb hv
    have hin : n ∈ orderOf (PatState.init.run (validC parse) h) POST := by
      have inv := PInv_run (PInv_init (validC parse)) h
      rw [mem_order_iff_linked inv, inv.links n POST]
      have hmem : (⟨si, mi, none, POST, M.rpcName⟩ : Route) ∈
          (allRoutes (validC parse) d).filter (fun r => decide (r.httpMethod = POST)) :=
        List.mem_filter.mpr ⟨hr0, by simp⟩
      have hd' : (List.foldl Latest.step Latest.init h).desc n = some d := hd
      simp only [specGroup, hd', built]
      cases hf : (allRoutes (validC parse) d).filter (fun r => decide (r.httpMethod = POST)) with
      | nil => rw [hf] at hmem; cases hmem
      | cons a as => simp
    have hentry := (C06_matcher_table_entries parse (latestOf h)
      (orderOf (PatState.init.run (validC parse) h) POST) POST
      ((n, d.ver, ⟨si, mi, none, POST, M.rpcName⟩), POST, ⟨[.plain (.lit svc), .plain (.lit meth)], []⟩)).mpr
      ⟨n, d, _, _, hin, hd, hr0, rfl, ht, rfl⟩
    obtain ⟨i, b, hf⟩ := C03.exists_firstMatch _ POST [svc, meth]
      ⟨_, hentry, rfl, [], C03.default_pathMatches h1 h2⟩
    obtain ⟨pre, t, post', htbl, hm, hpre⟩ := hf
    have he := huniq (i, POST, t) (by rw [htbl]; simp) ⟨b, hm⟩
    simp only [Prod.mk.injEq] at he
    obtain ⟨hi, _, ht'⟩ := he
    subst hi; subst ht'
    have hb0 : b = [] := pathMatches_two_lits hm
    subst hb0
    exact ⟨pre, _, post', htbl, hm, hpre⟩
  · -- service side
    obtain ⟨ρ, hρ, hρn⟩ := hown
    have hlat := (C06_service_latest h svc ρ hρ).1
    rw [hρn] at hlat
    obtain ⟨d', hd', j, hj, hρe⟩ := specSvcRoute_some hlat
    have hdd : d' = d := by
      have : (latestOf h).desc n = some d' := hd'
      rw [hd] at this; exact (Option.some.inj this).symm
    subst hdd
    obtain ⟨k, S', hjk, hk, hSn'⟩ := lastIdx_getElem svc d'.services 0 j hj
    have hj' : j = k := by omega
    subst hj'
    refine ⟨j, S', ?_, hk, hSn'⟩
    have hnames : Names M.rpcName svc meth := by
      rw [hrpc]
      refine ⟨by simp [strip], ?_⟩
      intro hm; exact h3 _ hm rfl
    have hparse := (parse_iff M.rpcName svc meth).mpr hnames
    have hpool' : pool ρ.target = true := by rw [hρn]; exact hpool
    have hcanon : canonicalRPCName svc meth = M.rpcName := by rw [hrpc]; rfl
    simp [routeHTTPsvcName, hparse, hρ, hpool', hcanon, hρe, hpool]

/-! ═══════════════════════════════════════════════════════════════════════════════════════════════
    STACK composition block (area `stack`, docs/notes/STACK.md) — BEGIN.
    The combined model `GB.Stack.run` (C16 present set ∘ aggregateWatcher fan-out ∘ C06 tables) composed with
    the theorems of this file.  Kept separate from the C14 theorems above; do not interleave.
    ═══════════════════════════════════════════════════════════════════════════════════════════════ -/
section StackBlock
open GB.Stack

/-- **First claimant, end to end**: if after a ReflectionRouter history `h` target `T` owns service `S`, then after
    ANY continuation `k` in which `T` is not removed and every changed contract its polls deliver still lists `S`,
    `T` still owns `S` — whatever other targets are added (claiming `S` too), removed, re-added or fail to be
    added in `k`.  From `C14_first_claimant` through the compilation of the glue (`toC06`). -/
theorem C14_stack_first_claimant (valid : Bytes → Bool) (h k : List Stack.Op) (T : Name) (S : SvcName)
    (hown : ∃ r, (run valid St.init h).svc.routes S = some r ∧ r.target = T)
    (hk : ∀ op ∈ k, op ≠ Stack.Op.remove T ∧ ∀ d, op = Stack.Op.update T d → listed d.services S) :
    ∃ r, (run valid St.init (h ++ k)).svc.routes S = some r ∧ r.target = T := by
  obtain ⟨r, hr, ht⟩ := hown
  have hpres : presentOf h T = true := by
    have := ((Stack_settled_routes valid h S).1 r hr).1
    rw [(Stack_run_eq_compile valid h).2.2, ht] at this
    exact this
  rw [(Stack_run_eq_compile valid (h ++ k)).2.1]
  rw [(Stack_run_eq_compile valid h).2.1] at hr
  have hc : toC06 (h ++ k) = toC06 h ++ toC06From (presentOf h) k := by
    have := toC06From_append h k (fun _ => false)
    simpa [toC06, presentOf] using this
  rw [hc]
  exact C14_first_claimant (toC06 h) _ T S ⟨r, hr, ht⟩ (keeps_compiled T S k _ hpres hk)

/-- **What a routed gRPC-style probe means, end to end** (proxy, gRPC-Web, gRPC-WebSocket): after any router history,
    if the call named `s` is routed, then the method string handed to the target is `"/" ++ strip s` byte for byte,
    the target is PRESENT in the ReflectionRouter, and its LATEST contract lists the service of `s`. -/
theorem C14_stack_probe (valid : Bytes → Bool) (h : List Stack.Op) (s : Bytes) (t : Name) (v : Ver) (i : Nat) (rpc : Bytes)
    (hr : routeGRPC (run valid St.init h).present (run valid St.init h).svc.routes (some s) = .ok t v i rpc) :
    rpc = slash :: strip s ∧ (run valid St.init h).present t = true ∧
      ∃ svc m, Names s svc m ∧ Lists (specLatest h) t svc := by
  obtain ⟨h1, svc, m, r, hn, hrt, hre⟩ := C14_method_verbatim _ _ s t v i rpc hr
  obtain ⟨hp, hl⟩ := (Stack_settled_routes valid h svc).1 r hrt
  subst hre
  exact ⟨h1, hp, svc, m, hn, hl⟩

/-- … and a probe is never answered `Unavailable` for lack of a pooled connection: the owner of a routed service is
    present, and the pool holds a connection exactly for the present names (C16). -/
theorem C14_stack_never_unavailable (valid : Bytes → Bool) (h : List Stack.Op) (s : Bytes) :
    routeGRPC (run valid St.init h).present (run valid St.init h).svc.routes (some s) ≠ .status codeUnavailable := by
  intro hr
  simp only [routeGRPC] at hr
  cases hp : parseRPCName s with
  | none => simp [hp, codeUnimplemented, codeUnavailable] at hr
  | some p =>
    obtain ⟨svc, m⟩ := p
    simp only [hp] at hr
    cases hrt : (run valid St.init h).svc.routes svc with
    | none => simp [hrt, codeUnimplemented, codeUnavailable] at hr
    | some r =>
      have := ((Stack_settled_routes valid h svc).1 r hrt).1
      simp [hrt, this] at hr

/-- `Stack_settled_routes` (GB/Stack/Props.lean), restated here so that `./check C14` audits it. -/
theorem C14_stack_settled_routes (valid : Bytes → Bool) (h : List Stack.Op) (S : SvcName) :
    (∀ r, (run valid St.init h).svc.routes S = some r →
        (run valid St.init h).present r.target = true ∧ Lists (specLatest h) r.target S) ∧
    (NeverShared S Latest.init (toC06 h) → ∀ T, Lists (specLatest h) T S →
        ∃ r, (run valid St.init h).svc.routes S = some r ∧ r.target = T) ∧
    ((∀ T, ¬ Lists (specLatest h) T S) → (run valid St.init h).svc.routes S = none) :=
  Stack_settled_routes valid h S

/-- `Stack_pattern_settled` (GB/Stack/Props.lean), restated here so that `./check C14` audits it. -/
theorem C14_stack_pattern_settled (valid : Bytes → Bool) (eval : Bytes → Route → Outcome) (h : List Stack.Op)
    (names : List Name) (m : HMethod) (path : Bytes)
    (hnames : ∀ n, presentOf h n = true → n ∈ names)
    (hu : Uncontested valid (eval path) (specLatest h) m) :
    routeHTTP (presentOf h) eval (run valid St.init h).pat.static m path =
      routeHTTP (presentOf h) eval (specTable valid (specLatest h) names) m path :=
  Stack_pattern_settled valid eval h names m path hnames hu

/-- `Stack_earliest_live_lister_owns` (GB/Stack/Props.lean), restated here so that `./check C14` audits it. -/
theorem C14_stack_earliest_live_lister_owns (valid : Bytes → Bool) (h : List Stack.Op) (S : SvcName) :
    ((run valid St.init h).svc.routes S = match claimsOf (toC06 h) S with
      | [] => none
      | T :: _ => specSvcRoute (specLatest h) T S) ∧
    (∀ T, T ∈ claimsOf (toC06 h) S ↔ Lists (specLatest h) T S) ∧ (claimsOf (toC06 h) S).Nodup ∧
    (∀ T, Lists (specLatest h) T S →
      ∃ r, (run valid St.init h).svc.routes S = some r ∧ Lists (specLatest h) r.target S) :=
  Stack_earliest_live_lister_owns valid h S

/-- `Stack_earliest_live_lister_owns_witness`, restated here so that `./check C14` audits it. -/
theorem C14_stack_earliest_live_lister_owns_witness :
    (run (fun _ => true) St.init [.add exA (some exDesc), .add exB (some exDesc), .remove exA]).svc.routes exS
      = some ⟨exB, 1, 0⟩ ∧
    (run (fun _ => true) St.init [.add exA (some exDesc), .add exB (some exDesc), .remove exA]).present exB = true ∧
    (run (fun _ => true) St.init [.add exA (some exDesc), .add exB (some exDesc)]).svc.routes exS = some ⟨exA, 1, 0⟩ :=
  Stack_earliest_live_lister_owns_witness

/-- `Stack_routes_from_latest` (GB/Stack/Props.lean), restated here so that `./check C14` audits it. -/
theorem C14_stack_routes_from_latest (valid : Bytes → Bool) (eval : Bytes → Route → Outcome) (h : List Stack.Op) (T : Name)
    (d0 : Desc) (hd : (specLatest h).desc T = some d0) :
    let st := run valid St.init h
    (∀ S r, st.svc.routes S = some r → r.target = T → listed d0.services S ∧ r.ver = d0.ver) ∧
    (∀ m path v r, routeHTTP st.present eval st.pat.static m path = .found T v r →
        v = d0.ver ∧ ∃ rs, built valid d0 m = some rs ∧ r ∈ rs) :=
  Stack_routes_from_latest valid eval h T d0 hd

/-- `Stack_update_replaces_data` (GB/Stack/Props.lean), restated here so that `./check C14` audits it: a delivered contract
    change replaces ALL the data behind the routes, for every new description — also one with the same service names. -/
theorem C14_stack_update_replaces_data (valid : Bytes → Bool) (eval : Bytes → Route → Outcome) (h : List Stack.Op) (T : Name)
    (d : Desc) (hpres : presentOf h T = true) :
    let h' := h ++ [.update T d]
    let st := run valid St.init h'
    (specLatest h').desc T = some (named T d) ∧
    (∀ S r, st.svc.routes S = some r → r.target = T → listed (named T d).services S ∧ r.ver = d.ver) ∧
    (∀ m path v r, routeHTTP st.present eval st.pat.static m path = .found T v r →
        v = d.ver ∧ ∃ rs, built valid (named T d) m = some rs ∧ r ∈ rs) :=
  Stack_update_replaces_data valid eval h T d hpres

/-- `Stack_update_to_empty_unroutes` (GB/Stack/Props.lean; corollary of `Stack_update_replaces_data`), restated here so that
    `./check C14` audits it. -/
theorem C14_stack_update_to_empty_unroutes (valid : Bytes → Bool) (eval : Bytes → Route → Outcome) (h : List Stack.Op) (T : Name)
    (d : Desc) (hpres : presentOf h T = true) (hempty : ∀ m, built valid (named T d) m = none) :
    ∀ m path v r,
      routeHTTP (run valid St.init (h ++ [.update T d])).present eval (run valid St.init (h ++ [.update T d])).pat.static m path
        ≠ .found T v r :=
  Stack_update_to_empty_unroutes valid eval h T d hpres hempty

/-- the first-claimant theorem applies: `a` owns `S`, then `b` is added claiming `S` as well -/
example : ∃ r, (run (fun _ => true) St.init ([Stack.Op.add exA (some exDesc)] ++ [Stack.Op.add exB (some exDesc)])).svc.routes exS
    = some r ∧ r.target = exA :=
  C14_stack_first_claimant _ _ _ exA exS ⟨⟨exA, 1, 0⟩, by decide, rfl⟩
    (by intro op hop; simp at hop; subst hop; exact ⟨by simp, by intro d h; cases h⟩)

end StackBlock
/-! STACK composition block — END -/
