import GB.C14.Proofs
import GB.Stack.Props   -- STACK block at the end of this file (area `stack`)
/-
  C14 — property theorems.  `parseRPCName`, `routeGRPC`, `routeHTTPsvc` model
  routing/service_router.go (after fix D16), `setPath`/`parseTarget`/`httpName`/`webName` model what
  net/http + net/url put into `URL.Path` / `URL.RawPath` and which of the two each entry point reads;
  the ownership table is C06's `SvcState` (claims, keeps, releases).
-/
set_option linter.unusedSimpArgs false
set_option linter.unusedVariables false
open GB GB.C06 GB.C14

/-- **Parsing = the specification, for every byte string**: `s` is accepted as (service, method) iff,
    after removing one optional leading '/', it reads `service '/' method` with no '/' inside the service —
    the method is the entire remainder (further slashes, empty parts, dots, escapes included). -/
theorem C14_parse (s svc m : Bytes) : parseRPCName s = some (svc, m) ↔ Names s svc m :=
  parse_iff s svc m

/-- Malformed names are exactly those without a '/' after the optional leading one. -/
theorem C14_parse_malformed (s : Bytes) : parseRPCName s = none ↔ slash ∉ strip s := by
  rw [parseRPCName_eq, cutSlash_none]

/-- **gRPC form**: owner found ⇒ routed to it with the canonical name built from the verbatim method;
    unknown service ⇒ Unimplemented; malformed ⇒ Unimplemented. -/
theorem C14_route_grpc (pool : Name → Bool) (routes : SvcName → Option SvcRoute) (s : Bytes) :
    specGRPC pool routes s (routeGRPC pool routes (some s)) := by
  refine ⟨?_, ?_, ?_⟩
  · intro svc m r hn hr hp
    simp [routeGRPC, (parse_iff s svc m).mpr hn, hr, hp, canonicalRPCName]
  · intro svc m hn hr
    simp [routeGRPC, (parse_iff s svc m).mpr hn, hr]
  · intro hno
    cases hp : parseRPCName s with
    | none => simp [routeGRPC, hp]
    | some p =>
      obtain ⟨svc, m⟩ := p
      exact absurd ⟨svc, m, (parse_iff s svc m).mp hp⟩ hno

/-- **Method passed verbatim**: whenever a call is routed, the RPC name handed on is '/' followed by
    the incoming name without its optional leading '/', byte for byte. -/
theorem C14_method_verbatim (pool : Name → Bool) (routes : SvcName → Option SvcRoute) (s : Bytes)
    (t : Name) (v : Ver) (i : Nat) (rpc : Bytes)
    (h : routeGRPC pool routes (some s) = .ok t v i rpc) :
    rpc = slash :: strip s ∧ ∃ svc m r, Names s svc m ∧ routes svc = some r ∧ r = ⟨t, v, i⟩ := by
  simp only [routeGRPC] at h
  cases hp : parseRPCName s with
  | none => simp [hp] at h
  | some p =>
    obtain ⟨svc, m⟩ := p
    simp only [hp] at h
    cases hr : routes svc with
    | none => simp [hr] at h
    | some r =>
      simp only [hr] at h
      split at h
      · simp only [GRPCRes.ok.injEq] at h
        obtain ⟨h1, h2, h3, h4⟩ := h
        have hn := (parse_iff s svc m).mp hp
        refine ⟨?_, svc, m, r, hn, hr, ?_⟩
        · rw [← h4, hn.1]; simp [canonicalRPCName]
        · cases r; simp_all
      · cases h

/-- The pool is only asked for the owner's connection: no connection ⇒ Unavailable; no method in
    the context ⇒ Internal. -/
theorem C14_route_grpc_other_codes (pool : Name → Bool) (routes : SvcName → Option SvcRoute) :
    routeGRPC pool routes none = .status codeInternal ∧
    ∀ s svc m r, Names s svc m → routes svc = some r → pool r.target = false →
      routeGRPC pool routes (some s) = .status codeUnavailable := by
  refine ⟨rfl, ?_⟩
  intro s svc m r hn hr hp
  simp [routeGRPC, (parse_iff s svc m).mpr hn, hr, hp]

/-- **HTTP form, codes**: non-POST ⇒ Unimplemented with HTTP status 405; POST with a malformed or unknown
    name ⇒ NotFound; POST of a known service ⇒ same target, same verbatim method as the gRPC form, with the
    default binding of that method. -/
theorem C14_route_http (pool : Name → Bool) (routes : SvcName → Option SvcRoute) (hm name : Bytes) :
    (hm ≠ POST → routeHTTPsvcName pool routes hm name = .status codeUnimplemented (some 405)) ∧
    (hm = POST → (∀ svc m, Names name svc m → routes svc = none) →
        routeHTTPsvcName pool routes hm name = .status codeNotFound none) ∧
    (hm = POST → ∀ t v i rpc, routeGRPC pool routes (some name) = .ok t v i rpc →
        routeHTTPsvcName pool routes hm name = .ok t v i rpc POST rpc) := by
  refine ⟨?_, ?_, ?_⟩
  · intro h; simp [routeHTTPsvcName, h]
  · intro h hno
    subst h
    simp only [routeHTTPsvcName, ne_eq, not_true_eq_false, ↓reduceIte]
    cases hp : parseRPCName name with
    | none => rfl
    | some p =>
      obtain ⟨svc, m⟩ := p
      simp [hno svc m ((parse_iff name svc m).mp hp)]
  · intro h t v i rpc hg
    subst h
    simp only [routeGRPC] at hg
    simp only [routeHTTPsvcName, ne_eq, not_true_eq_false, ↓reduceIte]
    cases hp : parseRPCName name with
    | none => simp [hp] at hg
    | some p =>
      obtain ⟨svc, m⟩ := p
      simp only [hp] at hg ⊢
      cases hr : routes svc with
      | none => simp [hr] at hg
      | some r =>
        simp only [hr] at hg ⊢
        split at hg
        · rename_i hpool
          simp only [GRPCRes.ok.injEq] at hg
          obtain ⟨h1, h2, h3, h4⟩ := hg
          rw [h1] at hpool
          simp [hpool, h1, h2, h3, h4]
        · cases hg

/-- **The HTTP form works on requests as net/http delivers them**: for every origin-form request target
    that `url.ParseRequestURI` accepts, `RouteHTTP` routes by the request path exactly as written on the
    request line (everything before the first '?'), although `URL.RawPath` is empty for ordinary paths. -/
theorem C14_http_real_request (pool : Name → Bool) (routes : SvcName → Option SvcRoute) (hm t : Bytes) (u : URL)
    (h : parseTarget t = some u) :
    routeHTTPsvc pool routes hm u = routeHTTPsvcName pool routes hm (targetPath t) := by
  unfold parseTarget at h
  split at h
  · rename_i rest
    rcases httpName_setPath _ u h with hn | ⟨hp, _⟩
    · simp [routeHTTPsvc, hn]
    · -- the path of an origin-form target starts with '/', it is not "%2A"
      exfalso
      simp [targetPath, List.takeWhile_cons] at hp
  · cases h

/-- For every path `setPath` accepts (not only origin-form ones) the name read is the path as written,
    the asterisk form `%2A` being the only exception. -/
theorem C14_http_name (p : Bytes) (u : URL) (h : setPath p = some u) :
    httpName u = p ∨ (p = [37, 50, 65] ∧ u = ⟨[42], []⟩) :=
  httpName_setPath p u h

/-- **All three entry points agree on ordinary names**: for a path made only of bytes net/url leaves
    unescaped (letters, digits, `. _ - ~ / : @ & = + $ , ;` — every legal gRPC name), the request URL has
    an empty RawPath, and gRPC (`:path` verbatim), gRPC-Web (`URL.Path`) and HTTP POST (`RawPath`, else the
    escaped path) read the same name. -/
theorem C14_forms_agree (p : Bytes) (hp : Plain p) (hs : p.head? = some slash) :
    parseTarget p = some ⟨p, []⟩ ∧ webName ⟨p, []⟩ = p ∧ httpName ⟨p, []⟩ = p := by
  have ht := targetPath_plain p hp
  have hu := unescapePath_plain p hp
  have he := escapePath_plain p hp
  refine ⟨?_, rfl, ?_⟩
  · cases p with
    | nil => simp at hs
    | cons c cs =>
      simp only [List.head?_cons, Option.some.injEq] at hs
      subst hs
      show setPath (targetPath (slash :: cs)) = _
      rw [ht]
      simp [setPath, hu, he]
  · simp only [httpName, escapedPathNoRaw]
    have : p ≠ [42] := by
      intro e; subst e; simp [slash] at hs
    simp [this, he]

/-- **First claimant keeps a contested service** over any claim history: if after a history `h` target `n`
    owns `svc`, then after any continuation in which `n` is not closed and every description delivered for
    `n` still lists `svc`, `n` still owns it — whatever the other targets claim, keep or release. -/
theorem C14_first_claimant (h ops : List Op) (n : Name) (svc : SvcName)
    (hown : ∃ r, (SvcState.init.run h).routes svc = some r ∧ r.target = n)
    (hk : Keeps n svc ops) :
    ∃ r, (SvcState.init.run (h ++ ops)).routes svc = some r ∧ r.target = n := by
  have : SvcState.init.run (h ++ ops) = (SvcState.init.run h).run ops := by
    simp [SvcState.run, List.foldl_append]
  rw [this]
  exact first_claimant_run n svc ops _ (C06_service_invariant_base h) hown hk
where
  C06_service_invariant_base (h : List Op) : SInv0 (SvcState.init.run h) := SInv0_run SInv0_init h

/-- A later claimant of an owned service gets nothing: its update leaves the route untouched. -/
theorem C14_later_claimant (h : List Op) (n : Name) (d : Desc) (svc : SvcName) (r : SvcRoute)
    (hr : (SvcState.init.run h).routes svc = some r) (hne : r.target ≠ n) :
    (SvcState.init.run (h ++ [.update n d])).routes svc = some r := by
  rw [run_snoc_svc]
  have inv : SInv0 (SvcState.init.run h) := SInv0_run SInv0_init h
  simp only [SvcState.step]
  split
  · exact hr
  · split
    · exact hr
    · rename_i hd
      have hd' : d.name = n := by simpa using hd
      rw [update_foreign inv d svc ⟨r, hr, by rw [hd']; exact hne⟩]; exact hr

/-- **Release**: when the owner is closed, or delivers a description that no longer lists the service,
    the service is unrouted (Unimplemented / NotFound) until some target claims it with a later update. -/
theorem C14_release (h : List Op) (n : Name) (svc : SvcName) (r : SvcRoute)
    (hr : (SvcState.init.run h).routes svc = some r) (hn : r.target = n) :
    (SvcState.init.run (h ++ [.close n])).routes svc = none ∧
    ∀ d, d.name = n → ¬ listed d.services svc → (SvcState.init.run (h ++ [.update n d])).routes svc = none := by
  have inv : SInv (SvcState.init.run h) (latestOf h) := SInv_run SInv_init h
  have hw : (SvcState.init.run h).watching n = true := by
    rw [inv.watch, ← hn]
    obtain ⟨d, hd, _⟩ := specSvcRoute_some (inv.latest _ _ hr)
    exact desc_some_watched _ _ d hd
  constructor
  · rw [run_snoc_svc]
    simp only [SvcState.step, hw, Bool.not_true, Bool.false_eq_true, ↓reduceIte]
    show ((SvcState.init.run h).removeTarget n).routes svc = none
    rw [removeTarget_routes]
    have := inv.base.owned _ _ hr
    rw [hn] at this
    simp [this]
  · intro d hd hl
    rw [run_snoc_svc]
    simp only [SvcState.step, hw, Bool.not_true, Bool.false_eq_true, ↓reduceIte, hd, ne_eq, not_true_eq_false]
    apply update_unlisted inv.base d svc hl
    rintro ⟨o, ho, hne⟩
    rw [hr] at ho; cases ho
    exact hne (hn.trans hd.symm)

/-! ### D16: what was wrong before the fix (kernel-checked witness on explicit data) -/

/-- the request target `/S/M` as net/http parses it: Path = "/S/M", RawPath = "" -/
theorem C14_ordinary_request_has_empty_rawpath :
    parseTarget [47, 83, 47, 77] = some ⟨[47, 83, 47, 77], []⟩ := by decide

/-- Before fix D16 (`routeHTTPsvcPreFix` reads `URL.RawPath` only) that request is NotFound although
    target "a" owns service "S" … -/
theorem C14_http_real_request_fails_before_fix :
    routeHTTPsvcPreFix (fun _ => true) (fun s => if s = [83] then some ⟨[97], 1, 0⟩ else none) POST
      ⟨[47, 83, 47, 77], []⟩ = .status codeNotFound none := by decide

/-- … whereas the fixed code routes it to "a" with the method name "/S/M". -/
theorem C14_http_real_request_ok_after_fix :
    routeHTTPsvc (fun _ => true) (fun s => if s = [83] then some ⟨[97], 1, 0⟩ else none) POST
      ⟨[47, 83, 47, 77], []⟩ = .ok [97] 1 0 [47, 83, 47, 77] POST [47, 83, 47, 77] := by decide

/-! ### non-vacuity -/

example : Names [47, 112, 46, 83, 47, 77, 47, 120] [112, 46, 83] [77, 47, 120] := by unfold Names; decide
example : Names [112, 46, 83, 47] [112, 46, 83] [] := by unfold Names; decide
example : parseRPCName [47, 47, 77] = some ([], [77]) := by decide
example : Plain [47, 112, 46, 83, 47, 77] := by unfold Plain; decide
/-- an escaped path is *not* read alike by the HTTP form (verbatim) and the gRPC-Web form (decoded) -/
example : (parseTarget [47, 112, 37, 50, 69, 83, 47, 77]).map (fun u => (httpName u, webName u)) =
    some ([47, 112, 37, 50, 69, 83, 47, 77], [47, 112, 46, 83, 47, 77]) := by decide

/-! ═══════════════════════════════════════════════════════════════════════════════════════════════
    STACK composition block (area `stack`, docs/notes/STACK.md) — BEGIN.
    The combined model `GB.Stack.run` (C16 present set ∘ aggregateWatcher fan-out ∘ C06 tables) composed with
    the theorems of this file.  Kept separate from the C14 theorems above; do not interleave.
    ═══════════════════════════════════════════════════════════════════════════════════════════════ -/
section StackBlock
open GB.Stack

/-- **First claimant, end to end**: if after a ReflectionRouter history `h` target `T` owns service `S`, then after
    ANY continuation `k` in which `T` is not removed and every changed contract its polls deliver still lists `S`,
    `T` still owns `S` — whatever other targets are added (claiming `S` too), removed, re-added or fail to be
    added in `k`.  From `C14_first_claimant` through the compilation of the glue (`toC06`). -/
theorem C14_stack_first_claimant (valid : Bytes → Bool) (h k : List Stack.Op) (T : Name) (S : SvcName)
    (hown : ∃ r, (run valid St.init h).svc.routes S = some r ∧ r.target = T)
    (hk : ∀ op ∈ k, op ≠ Stack.Op.remove T ∧ ∀ d, op = Stack.Op.update T d → listed d.services S) :
    ∃ r, (run valid St.init (h ++ k)).svc.routes S = some r ∧ r.target = T := by
  obtain ⟨r, hr, ht⟩ := hown
  have hpres : presentOf h T = true := by
    have := ((Stack_settled_routes valid h S).1 r hr).1
    rw [(Stack_run_eq_compile valid h).2.2, ht] at this
    exact this
  rw [(Stack_run_eq_compile valid (h ++ k)).2.1]
  rw [(Stack_run_eq_compile valid h).2.1] at hr
  have hc : toC06 (h ++ k) = toC06 h ++ toC06From (presentOf h) k := by
    have := toC06From_append h k (fun _ => false)
    simpa [toC06, presentOf] using this
  rw [hc]
  exact C14_first_claimant (toC06 h) _ T S ⟨r, hr, ht⟩ (keeps_compiled T S k _ hpres hk)

/-- **What a routed gRPC-style probe means, end to end** (proxy, gRPC-Web, gRPC-WebSocket): after any router history,
    if the call named `s` is routed, then the method string handed to the target is `"/" ++ strip s` byte for byte,
    the target is PRESENT in the ReflectionRouter, and its LATEST contract lists the service of `s`. -/
theorem C14_stack_probe (valid : Bytes → Bool) (h : List Stack.Op) (s : Bytes) (t : Name) (v : Ver) (i : Nat) (rpc : Bytes)
    (hr : routeGRPC (run valid St.init h).present (run valid St.init h).svc.routes (some s) = .ok t v i rpc) :
    rpc = slash :: strip s ∧ (run valid St.init h).present t = true ∧
      ∃ svc m, Names s svc m ∧ Lists (specLatest h) t svc := by
  obtain ⟨h1, svc, m, r, hn, hrt, hre⟩ := C14_method_verbatim _ _ s t v i rpc hr
  obtain ⟨hp, hl⟩ := (Stack_settled_routes valid h svc).1 r hrt
  subst hre
  exact ⟨h1, hp, svc, m, hn, hl⟩

/-- … and a probe is never answered `Unavailable` for lack of a pooled connection: the owner of a routed service is
    present, and the pool holds a connection exactly for the present names (C16). -/
theorem C14_stack_never_unavailable (valid : Bytes → Bool) (h : List Stack.Op) (s : Bytes) :
    routeGRPC (run valid St.init h).present (run valid St.init h).svc.routes (some s) ≠ .status codeUnavailable := by
  intro hr
  simp only [routeGRPC] at hr
  cases hp : parseRPCName s with
  | none => simp [hp, codeUnimplemented, codeUnavailable] at hr
  | some p =>
    obtain ⟨svc, m⟩ := p
    simp only [hp] at hr
    cases hrt : (run valid St.init h).svc.routes svc with
    | none => simp [hrt, codeUnimplemented, codeUnavailable] at hr
    | some r =>
      have := ((Stack_settled_routes valid h svc).1 r hrt).1
      simp [hrt, this] at hr

/-- `Stack_settled_routes` (GB/Stack/Props.lean), restated here so that `./check C14` audits it. -/
theorem C14_stack_settled_routes (valid : Bytes → Bool) (h : List Stack.Op) (S : SvcName) :
    (∀ r, (run valid St.init h).svc.routes S = some r →
        (run valid St.init h).present r.target = true ∧ Lists (specLatest h) r.target S) ∧
    (NeverShared S Latest.init (toC06 h) → ∀ T, Lists (specLatest h) T S →
        ∃ r, (run valid St.init h).svc.routes S = some r ∧ r.target = T) ∧
    ((∀ T, ¬ Lists (specLatest h) T S) → (run valid St.init h).svc.routes S = none) :=
  Stack_settled_routes valid h S

/-- `Stack_pattern_settled` (GB/Stack/Props.lean), restated here so that `./check C14` audits it. -/
theorem C14_stack_pattern_settled (valid : Bytes → Bool) (eval : Bytes → Route → Outcome) (h : List Stack.Op)
    (names : List Name) (m : HMethod) (path : Bytes)
    (hnames : ∀ n, presentOf h n = true → n ∈ names)
    (hu : Uncontested valid (eval path) (specLatest h) m) :
    routeHTTP (presentOf h) eval (run valid St.init h).pat.static m path =
      routeHTTP (presentOf h) eval (specTable valid (specLatest h) names) m path :=
  Stack_pattern_settled valid eval h names m path hnames hu

/-- `Stack_earliest_lister_not_owner` (GB/Stack/Props.lean), restated here so that `./check C14` audits it. -/
theorem C14_stack_earliest_lister_not_owner :
    (run (fun _ => true) St.init [.add exA (some exDesc), .add exB (some exDesc), .remove exA]).svc.routes exS = none ∧
    (run (fun _ => true) St.init [.add exA (some exDesc), .add exB (some exDesc), .remove exA]).present exB = true ∧
    (run (fun _ => true) St.init [.add exA (some exDesc), .add exB (some exDesc)]).svc.routes exS = some ⟨exA, 1, 0⟩ :=
  Stack_earliest_lister_not_owner 

/-- the first-claimant theorem applies: `a` owns `S`, then `b` is added claiming `S` as well -/
example : ∃ r, (run (fun _ => true) St.init ([Stack.Op.add exA (some exDesc)] ++ [Stack.Op.add exB (some exDesc)])).svc.routes exS
    = some r ∧ r.target = exA :=
  C14_stack_first_claimant _ _ _ exA exS ⟨⟨exA, 1, 0⟩, by decide, rfl⟩
    (by intro op hop; simp at hop; subst hop; exact ⟨by simp, by intro d h; cases h⟩)

end StackBlock
/-! STACK composition block — END -/
