import GB.C14.Spec
/- C14 — property theorems (being built). -/
open GB GB.C14

theorem C14_placeholder : parseRPCName [] = none := rfl
