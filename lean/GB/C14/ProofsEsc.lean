import GB.C14.Proofs
/-
  C14 — percent-escapes in request paths: decoding (`url.unescape`, what `URL.Path` holds) changes a path exactly when
  the path contains a '%' (a valid escape is three bytes and decodes to one).
-/
set_option linter.unusedSimpArgs false
set_option linter.unusedVariables false
namespace GB.C14
open GB.C06

/-- decoding never lengthens a path and strictly shortens one that contains a '%' -/
theorem unescapePath_len : ∀ (n : Nat) (p q : Bytes), p.length ≤ n → unescapePath p = some q →
    q.length ≤ p.length ∧ (percent ∈ p → q.length < p.length)
  | 0, p, q, hn, h => by
    have : p = [] := List.length_eq_zero_iff.mp (by omega)
    subst this; simp [unescapePath] at h; subst h; simp
  | n+1, p, q, hn, h => by
    match p, hn, h with
    | [], _, h => simp [unescapePath] at h; subst h; simp
    | c :: rest, hn, h =>
      by_cases hc : c = percent
      · subst hc
        match rest, hn, h with
        | [], _, h => simp [unescapePath] at h
        | [a], _, h => simp [unescapePath] at h
        | a :: b :: r, hn, h =>
          simp only [unescapePath, if_true] at h
          split at h
          · cases hr : unescapePath r with
            | none => simp [hr] at h
            | some t =>
              simp only [hr, Option.some.injEq] at h
              subst h
              have := (unescapePath_len n r t (by simp at hn; omega) hr).1
              simp only [List.length_cons]
              omega
          · cases h
      · rw [unescapePath_cons_ne c rest hc] at h
        cases hr : unescapePath rest with
        | none => simp [hr] at h
        | some t =>
          simp only [hr, Option.map, Option.some.injEq] at h
          subst h
          have ih := unescapePath_len n rest t (by simp at hn; omega) hr
          refine ⟨by simp only [List.length_cons]; omega, fun hm => ?_⟩
          have hm' : percent ∈ rest := by
            rcases List.mem_cons.mp hm with e | e
            · exact absurd e.symm hc
            · exact e
          have := ih.2 hm'
          simp only [List.length_cons]
          omega

/-- **decoding leaves a path unchanged iff the path contains no '%'** -/
theorem unescapePath_self_iff (p : Bytes) : unescapePath p = some p ↔ percent ∉ p := by
  constructor
  · intro h hm
    have := (unescapePath_len p.length p p (Nat.le_refl _) h).2 hm
    omega
  · intro h
    induction p with
    | nil => simp [unescapePath]
    | cons c cs ih =>
      have hc : c ≠ percent := fun e => h (by simp [e])
      rw [unescapePath_cons_ne c cs hc, ih (fun hm => h (List.mem_cons_of_mem _ hm))]
      rfl

/-- after fix D39 the gRPC-Web adapter and `RouteHTTP` use the same expression -/
theorem webName_eq_httpName (u : URL) : webName u = httpName u := rfl

/-- what `setPath` stores as `URL.Path` is the decoded request path -/
theorem setPath_path (p : Bytes) (u : URL) (h : setPath p = some u) : unescapePath p = some u.path := by
  simp only [setPath] at h
  cases hu : unescapePath p with
  | none => simp [hu] at h
  | some path =>
    simp only [hu] at h
    split at h <;> (simp only [Option.some.injEq] at h; subst h; rfl)

end GB.C14
