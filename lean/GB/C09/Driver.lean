import GB.Base.Proto
import GB.C09.Spec
import GB.C09.Text
/-
  C09 driver.  Case lines (all byte strings hex, see harness/c09):

  dec <opts> <card> <kind> <key|-> <text>  =>  <u0|u1> <tree|!> fp:<tbl> <impl> <oracle>
      opts: letters d (DiscardUnknown) / s (strict) [/ n UseEnumNumbers]
      tree: the first JSON value of <text> as encoding/json tokenizes it, `!` if it cannot
      fp:   strconv.ParseFloat results for the string/number leaves (float kinds only)
      impl / oracle: ERR | PANIC | OK:<has>:<field>   (oracle = protojson on {"f": <first value>})
  enc <opts> <card> <kind> <key|-> <field> =>  <tree|ERR|PANIC> ff:<tbl> fp:<tbl> <roundtrip> <canon-decode>
  msg <opts> <card> <kind> <key|-> <text>  =>  <impl> <oracle>     (message-typed fields: delegation to protojson)
  sdec <opts> <card> <kind> <key|-> <text> =>  <u> <tree;tree;…|-> fp:<tbl> <res;res;…>   (stream decoder, until first error)
-/
namespace GB.C09
open GB GB.Proto

/-- the enum `c09.E` of the harness schema (harness/c09/schema.go EnumTable) -/
def enumE : EnumDesc :=
  [(ascii "E_ZERO", 0), (ascii "E_ONE", 1), (ascii "E_TWO", 2), (ascii "E_UNO", 1), (ascii "E_NEG", -1),
   (ascii "E_MAX", 2147483647), (ascii "E_MIN", -2147483648), (ascii "true", 7), (ascii "NaN", 8)]

def enumNull : EnumDesc := [(ascii "NULL_VALUE", 0)]

def parseKind : String → Option Kind
  | "bool" => some .bool
  | "int32" | "sint32" | "sfixed32" => some .int32
  | "int64" | "sint64" | "sfixed64" => some .int64
  | "uint32" | "fixed32" => some .uint32
  | "uint64" | "fixed64" => some .uint64
  | "float" => some .float
  | "double" => some .double
  | "string" => some .string
  | "bytes" => some .bytes
  | "enum" => some (.enum enumE false)
  | "nullvalue" => some (.enum enumNull true)
  | _ => none

def kindTag : Kind → String
  | .bool => "bool" | .int32 => "int32" | .int64 => "int64" | .uint32 => "uint32" | .uint64 => "uint64"
  | .float => "float" | .double => "double" | .string => "string" | .bytes => "bytes"
  | .enum _ nv => if nv then "nullvalue" else "enum"

def parseCard (c key : String) : Option (Card × Bool) :=   -- Bool: explicit presence (has is observable)
  match c with
  | "sing" => some (.sing, false)
  | "opt" | "oneof" => some (.sing, true)
  | "rep" => some (.rep, false)
  | "map" => (parseKind key).map fun kk => (.map kk, false)
  | _ => none

/-- `d` = the settings of transcoding.DefaultJSONMarshaler (DiscardUnknown + EmitDefaultValues), `s` = zero options -/
def parseOpts (s : String) : Opts := { discard := s.contains 'd', enumNumbers := s.contains 'n', emitDefaults := s.contains 'd' }

def unhex (s : String) : Option Bytes := hexDecodeChars s.toList
def hex (b : Bytes) : String := String.ofList ((toHex b).toList.drop 1)

/-! tree parser: tokens separated by ','  —  z t f n<hex> s<hex> [ … ] { k<hex> value … } -/

partial def parseJ : List String → Option (J × List String)
  | "z" :: r => some (.null, r)
  | "t" :: r => some (.bool true, r)
  | "f" :: r => some (.bool false, r)
  | "[" :: r => parseArr r []
  | "{" :: r => parseObj r []
  | tok :: r =>
    match tok.toList with
    | 'n' :: h => (hexDecodeChars h).map fun b => (.num b, r)
    | 's' :: h => (hexDecodeChars h).map fun b => (.str b, r)
    | _ => none
  | [] => none
where
  parseArr : List String → List J → Option (J × List String)
    | "]" :: r, acc => some (.arr acc.reverse, r)
    | toks, acc => match parseJ toks with
      | some (j, r) => parseArr r (j :: acc)
      | none => none
  parseObj : List String → List (Bytes × J) → Option (J × List String)
    | "}" :: r, acc => some (.obj acc.reverse, r)
    | k :: toks, acc =>
      match k.toList with
      | 'k' :: h =>
        match hexDecodeChars h, parseJ toks with
        | some kb, some (j, r) => parseObj r ((kb, j) :: acc)
        | _, _ => none
      | _ => none
    | [], _ => none

def parseTree (s : String) : Option J :=
  match parseJ (s.splitOn ",") with
  | some (j, []) => some j
  | _ => none

/-! values -/

def showF : F → String
  | .nan => "nan" | .pinf => "pinf" | .ninf => "ninf" | .fin b => s!"b{b}"

def parseF (s : String) : Option F :=
  match s with
  | "nan" => some .nan
  | "pinf" => some .pinf
  | "ninf" => some .ninf
  | _ => match s.toList with
    | 'b' :: d => (String.ofList d).toNat?.map .fin
    | _ => none

def showScalar : Scalar → String
  | .bool b => if b then "t" else "f"
  | .int i => s!"i{i}"
  | .flt f => showF f
  | .str s => "s" ++ hex s
  | .bytes b => "y" ++ hex b
  | .enum n => s!"e{n}"

def parseScalar (s : String) : Option Scalar :=
  match s with
  | "t" => some (.bool true)
  | "f" => some (.bool false)
  | _ =>
    match parseF s with
    | some f => some (.flt f)
    | none =>
      match s.toList with
      | 'i' :: d => (String.ofList d).toInt?.map .int
      | 'e' :: d => (String.ofList d).toInt?.map .enum
      | 's' :: h => (hexDecodeChars h).map .str
      | 'y' :: h => (hexDecodeChars h).map .bytes
      | _ => none

def strLt (a b : String) : Bool := a < b

def insertSorted (x : String) : List String → List String
  | [] => [x]
  | y :: ys => if strLt y x then y :: insertSorted x ys else x :: y :: ys

def sortStrings (l : List String) : List String := l.foldr insertSorted []

/-- canonical text of a field; map entries sorted (Go map order is not observable) -/
def showField : Field → String
  | .sing none => "S-"
  | .sing (some v) => "S" ++ showScalar v
  | .list xs => "L" ++ ",".intercalate (xs.map showScalar)
  | .map kvs => "M" ++ ",".intercalate (sortStrings (kvs.map fun p => showScalar p.1 ++ "=" ++ showScalar p.2))

def parseField (s : String) : Option Field :=
  match s.toList with
  | 'S' :: r => if r == ['-'] then some (.sing none) else (parseScalar (String.ofList r)).map (fun v => .sing (some v))
  | 'L' :: r =>
    if r.isEmpty then some (.list [])
    else ((String.ofList r).splitOn ",").mapM parseScalar |>.map .list
  | 'M' :: r =>
    if r.isEmpty then some (.map [])
    else ((String.ofList r).splitOn ",").mapM (fun (e : String) =>
      match e.splitOn "=" with
      | [a, b] => match parseScalar a, parseScalar b with
        | some x, some y => some (x, y)
        | _, _ => none
      | _ => none) |>.map .map
  | _ => none

/-- ERR | PANIC | OK:<has>:<field> -/
inductive Obs where
  | err | panic
  | ok (has : String) (f : Field)

def parseObs (s : String) : Option Obs :=
  if s == "ERR" then some .err
  else if s == "PANIC" then some .panic
  else match s.splitOn ":" with
    | ["OK", h, f] => (parseField f).map (.ok h)
    | _ => none

/-! float tables -/

def parseFp (s : String) : Option (List (Bytes × Option F)) :=
  match s.toList with
  | 'f' :: 'p' :: ':' :: r =>
    if r.isEmpty then some []
    else ((String.ofList r).splitOn ";").mapM fun (e : String) =>
      match e.splitOn "=" with
      | [h, v] =>
        match unhex h with
        | none => none
        | some b => if v == "-" then some (b, none) else (parseF v).map fun f => (b, some f)
      | _ => none
  | _ => none

def parseFf (s : String) : Option (List (Nat × Bytes)) :=
  match s.toList with
  | 'f' :: 'f' :: ':' :: r =>
    if r.isEmpty then some []
    else ((String.ofList r).splitOn ";").mapM fun (e : String) =>
      match e.splitOn "=" with
      | [b, h] => match b.toNat?, unhex h with
        | some n, some t => some (n, t)
        | _, _ => none
      | _ => none
  | _ => none

/-- the float operations as observed from the Go runtime for this case (a table; misses = error / empty) -/
def tableOps (fp : List (Bytes × Option F)) (ff : List (Nat × Bytes)) : FloatOps where
  parse := fun _ s => match fp.find? (fun p => p.1 == s) with
    | some (_, r) => r
    | none => none
  fmt := fun _ b => match ff.find? (fun p => p.1 == b) with
    | some (_, t) => t
    | none => []

/-- exactly representable sanity check of the table: a plain integer literal of magnitude < 2^24 must parse
    to the float with exactly that value (guards against a self-fulfilling float table). -/
def smallIntBits (is32 : Bool) (neg : Bool) (n : Nat) : Nat :=
  if n = 0 then (if neg then (if is32 then 2 ^ 31 else 2 ^ 63) else 0)
  else
    let e := n.log2
    let (mb, bias, sh) := if is32 then (23, 127, 31) else (52, 1023, 63)
    (if neg then 2 ^ sh else 0) + (e + bias) * 2 ^ mb + (n - 2 ^ e) * 2 ^ (mb - e)

def fpSane (is32 : Bool) (fp : List (Bytes × Option F)) : Bool :=
  fp.all fun (s, r) =>
    match plainInt s with
    | some (neg, ds) =>
      if ds.length ≤ 7 && isValidNumber s then r == some (.fin (smallIntBits is32 neg (digitsValue ds))) else true
    | none => true

/-! comparison helpers -/

def fieldEq (k : Kind) (a b : Field) : Bool := showField (a.read k) == showField (b.read k)

/-- map results when several JSON names denote one proto key: Go iterates the decoded map in random order,
    every surviving entry must be one of the model's entries and every model key must be present -/
def mapConsistent (model impl : List (Scalar × Scalar)) : Bool :=
  impl.all (fun e => model.contains e) && model.all (fun e => impl.any (fun e' => e'.1 == e.1)) && keysUnique impl

def resTag : Res Field → String
  | .ok f => "OK:" ++ showField f
  | .err => "ERR"
  | .panic => "PANIC"

def specTag : Option (Res Field) → String
  | none => "grey"
  | some r => resTag r

def expectedHas (explicit : Bool) : Field → String
  | .sing (some _) => if explicit then "1" else "-"
  | .sing none => if explicit then "0" else "-"
  | _ => "-"

def leavesOf : J → List J
  | .arr xs => xs
  | .obj kvs => kvs.map (·.2)
  | j => [j]

def isIntKind : Kind → Bool
  | .int32 | .int64 | .uint32 | .uint64 => true
  | _ => false

/-- protojson v1.33 reads the first number token inside a quoted string and ignores what follows
    (`"1,5"`, `"1 2"` are accepted as 1 for integer fields). The specification rejects such strings;
    the cross-check of the specification against protojson is skipped for them. -/
def protojsonLaxQuotedNumber (k : Kind) (tree : Option J) : Bool :=
  isIntKind k && match tree with
    | some j => (leavesOf j).any fun l => match l with
      | .str s => !isValidNumber s
      | _ => false
    | none => false

/-- judge one decode observation against model and specification; returns a verdict -/
def judgeDecM (ops : FloatOps) (o : Opts) (c : Card) (explicit : Bool) (k : Kind) (tree : Option J) (crossCheck : Bool)
    (model : Res Field) (impl oracle : Obs) : String :=
  let spec : Option (Res Field) := match tree with
    | some j => canon ops o c k j
    | none => none
  let kt := kindTag k
  match impl with
  | .panic => s!"VIOL panic model={resTag model} spec={specTag spec}"
  | .err =>
    match model with
    | .err =>
      let nt := if tree.isSome && spec.isSome then " nt" else ""
      -- cross-check the specification with protojson
      match spec, oracle with
      | some (.ok f), .err => if crossCheck then s!"DIFF spec-accepts-oracle-rejects spec={showField f}" else s!"OK{nt} b={kt}.err"
      | some .err, .ok _ f =>
        if crossCheck && !protojsonLaxQuotedNumber k tree then s!"DIFF spec-rejects-oracle-accepts oracle={showField f}" else s!"OK{nt} b={kt}.err"
      | some (.ok f), .ok _ f' => if crossCheck && !fieldEq k f f' then s!"DIFF spec-oracle-value spec={showField f} oracle={showField f'}" else s!"OK{nt} b={kt}.err"
      | _, _ => s!"OK{nt} b={kt}.err"
    | m => s!"DIFF model={resTag m}"
  | .ok has f =>
    -- the property's clauses first
    match spec with
    | some .err => s!"VIOL accepted-what-canonical-rejects impl={showField f} model={resTag model}"
    | _ =>
      let specBad := match spec with
        | some (.ok f') => !fieldEq k f f'
        | _ => false
      let oracleBad := match oracle with
        | .ok _ f'' => crossCheck && !fieldEq k f f''
        | _ => false
      if specBad then s!"VIOL value-differs-from-canonical impl={showField f} spec={specTag spec} model={resTag model}"
      else if oracleBad then
        match oracle with
        | .ok _ f'' => s!"VIOL value-differs-from-protojson impl={showField f} oracle={showField f''} model={resTag model}"
        | _ => "BAD unreachable"
      else
        match model with
        | .ok mf =>
          let same := match mf, f with
            | .map mk, .map ik => if keysUnique mk then showField mf == showField f else mapConsistent mk ik
            | _, _ => showField (mf.read k) == showField f
          if !same then s!"DIFF model={resTag model}"
          else if has != expectedHas explicit mf then s!"DIFF has model={expectedHas explicit mf}"
          else
            match spec, oracle with
            | some (.ok _), .err => if crossCheck then "DIFF spec-accepts-oracle-rejects" else s!"OK nt b={kt}.ok"
            | _, _ =>
              let g := if spec.isNone then "grey" else "ok"
              s!"OK nt b={kt}.{g}"
        | m => s!"DIFF model={resTag m}"

def judgeDec (ops : FloatOps) (o : Opts) (c : Card) (explicit : Bool) (k : Kind) (tree : Option J) (crossCheck : Bool)
    (impl oracle : Obs) : String :=
  judgeDecM ops o c explicit k tree crossCheck (match tree with
    | some j => decode ops o c k j
    | none => .err) impl oracle

/-- after this body the real decoder and the tokenizer are no longer in step: text that does not tokenize, or a
    singular float/double field offered an array/object (`jsonFloatDecode` reads one token, i.e. only the bracket) -/
def desyncs (c : Card) (k : Kind) (tree : Option J) : Bool :=
  match tree with
  | none => true
  | some j =>
    match c, k, j with
    | .sing, .float, .arr _ | .sing, .float, .obj _ | .sing, .double, .arr _ | .sing, .double, .obj _ => true
    | _, _, _ => false

/-- judge a sequence of bodies decoded by ONE stream decoder: the model is `decodeStream` (= body-wise `decode`,
    `C09_stream_is_map`), every element is judged against model / canon / protojson like a single `dec` case;
    judging stops after a body that desynchronises the stream. -/
def judgeStream (ops : FloatOps) (o : Opts) (c : Card) (explicit : Bool) (k : Kind) (crossCheck : Bool)
    (trees : List (Option J)) (impls oracles : List Obs) : String :=
  let valid := trees.filterMap id
  let models := decodeStream ops o c k valid
  let rec go (ts : List (Option J)) (ms : List (Res Field)) (rs os : List Obs) (n : Nat) (okc : Nat) : String :=
    match ts with
    | [] => s!"OK nt b=seq.{kindTag k}.len{n}.ok{okc}"
    | t :: ts' =>
      match rs with
      | [] => s!"DIFF stream-stopped-early at={n}"
      | r :: rs' =>
        let (m, ms') := match t, ms with
          | some _, m :: ms' => (m, ms')
          | _, ms => (Res.err, ms)
        let orc := match os with
          | x :: _ => x
          | [] => Obs.err
        let v := judgeDecM ops o c explicit k t (crossCheck && !os.isEmpty) m r orc
        if !v.startsWith "OK" then s!"{v} at={n}"
        else if desyncs c k t then s!"OK nt b=seq.{kindTag k}.desync{n}"
        else go ts' ms' rs' (os.drop 1) (n + 1) (okc + (match r with | .ok _ _ => 1 | _ => 0))
  go trees models impls oracles 0 0

def scalarsOf : Field → List Scalar
  | .sing (some v) => [v]
  | .sing none => []
  | .list xs => xs
  | .map kvs => kvs.map (·.2) ++ kvs.map (·.1)

def encodable (k : Kind) (f : Field) : Bool :=
  (scalarsOf f).all fun s => match s with
    | .str b => validUtf8 b
    | .enum n => match k with
      | .enum _ true => n == 0
      | _ => true
    | _ => true

/-- tree equality up to the order of object members (Go map order; encoding/json sorts by name) -/
def showJ : J → String
  | .null => "z" | .bool b => if b then "t" else "f"
  | .num l => "n" ++ hex l | .str s => "s" ++ hex s
  | .arr xs => "[" ++ ",".intercalate (xs.attach.map fun ⟨x, _⟩ => showJ x) ++ "]"
  | .obj kvs => "{" ++ ",".intercalate (sortStrings (kvs.attach.map fun ⟨p, _⟩ => "k" ++ hex p.1 ++ ":" ++ showJ p.2)) ++ "}"
termination_by j => sizeOf j
decreasing_by
  all_goals simp_wf
  · have := List.sizeOf_lt_of_mem ‹_›; omega
  · have h := List.sizeOf_lt_of_mem ‹_›
    have : sizeOf p.2 < sizeOf p := by cases p; simp; omega
    omega

/-- order-sensitive text of a tree (to compare the Lean reader's tree with the tokenizer's) -/
def showJOrd : J → String
  | .null => "z" | .bool b => if b then "t" else "f"
  | .num l => "n" ++ hex l | .str s => "s" ++ hex s
  | .arr xs => "[" ++ ",".intercalate (xs.attach.map fun ⟨x, _⟩ => showJOrd x) ++ "]"
  | .obj kvs => "{" ++ ",".intercalate (kvs.attach.map fun ⟨p, _⟩ => "k" ++ hex p.1 ++ ":" ++ showJOrd p.2) ++ "}"
termination_by j => sizeOf j
decreasing_by
  all_goals simp_wf
  · have := List.sizeOf_lt_of_mem ‹_›; omega
  · have h := List.sizeOf_lt_of_mem ‹_›
    have : sizeOf p.2 < sizeOf p := by cases p; simp; omega
    omega

def showOJ : Option J → String
  | none => "!"
  | some j => showJOrd j

/-- the successive values of a stream as the Lean reader sees them: until the end of input or the first error -/
def readAll : Nat → Bytes → List (Option J)
  | 0, _ => []
  | fuel + 1, s =>
    if (skipWS s).isEmpty then []
    else match parseJSON s with
      | some (j, rest) => some j :: readAll fuel rest
      | none => [none]

/-- cross-check of the harness-provided tree(s) with the Lean reader on the raw text -/
def treeCheck (text : Bytes) (harness : List (Option J)) (firstOnly : Bool) : Option String :=
  let mine := if firstOnly then [(parseJSON text).map (·.1)] else readAll 65 text
  if mine.map showOJ == harness.map showOJ then none
  else some s!"BAD tree text-reader={mine.map showOJ} harness={harness.map showOJ}"

/-- the stream text of a `seq` payload `<sep>:<hex>,<hex>,…` (harness/c09 joinBodies) -/
def joinBodies (payload : String) : Option Bytes :=
  match payload.toList with
  | sep :: ':' :: hs =>
    let seps : List Bytes := match sep with
      | 'n' => [[10]] | 's' => [[32]] | 'c' => [[]] | 'r' => [[13, 10]] | 'm' => [[10], [32, 32], [9, 10, 10], []]
      | _ => []
    if seps.isEmpty then none
    else
      let bodies := (String.ofList hs).splitOn ","
      let rec go (bs : List String) (k : Nat) (acc : Bytes) : Option Bytes :=
        match bs with
        | [] => some acc
        | b :: rest =>
          match unhex b with
          | some x => go rest (k + 1) (acc ++ x ++ (seps.getD (k % seps.length) []))
          | none => none
      go bodies 0 []
  | _ => none

/-- the bytes `json.Marshal` writes for the model's tree: members sorted by name, compact -/
def renderSorted (j : J) : Bytes :=
  renderCompact (match j with
    | .obj kvs => .obj (sortMembers kvs)
    | j => j)

/-! glue ops -/

/-- the descriptor sets of harness/c09/glue.go, abstractly: alpha v1 knows Item (type 1) with 2 fields, alpha v2 with 4,
    beta knows Thing (type 2) with 2 fields; the Any of a step carries the target's own item with every field set -/
def histResolver : String → Option Resolver
  | "a1" => some [(1, 2)]
  | "a2" => some [(1, 4)]
  | "b" => some [(2, 2)]
  | _ => none

def histValue : String → Option AnyVal
  | "a1" => some ⟨1, [0, 1]⟩
  | "a2" => some ⟨1, [0, 1, 2, 3]⟩
  | "b" => some ⟨2, [0, 1]⟩
  | _ => none

def parseHistStep (s : String) : Option CodecUse :=
  match s.splitOn "." with
  | [t, path, _shape, _item] =>
    match histResolver t, histValue t with
    | some r, some v =>
      if ["u", "s", "x", "e", "d", "r"].contains path then
        some { stream := ["s", "x", "e", "d"].contains path, res := r, val := v }
      else none
    | _, _ => none
  | _ => none

def histClass (u : CodecUse) : Res AnyVal → String
  | .ok v => if v == u.val then "full" else "lossy"
  | _ => "err"

def parseBridgeCfg (s : String) : Option (BridgeCfg × Bool) :=
  let opt : Char → Option (Option Bool)
    | '-' => some none
    | 's' => some (some false)
    | 'd' => some (some true)
    | _ => none
  match s.toList with
  | [m, d, c] =>
    match opt m, opt d with
    | some mm, some dd => if c == 'c' then some (⟨mm, dd⟩, true) else if c == 'n' then some (⟨mm, dd⟩, false) else none
    | _, _ => none
  | _ => none

def obsOfRes (k : Kind) : Res Field → String
  | .ok f => "acc:" ++ showField (f.read k)
  | _ => "rej"

def handle : Handler
  | ["dec", os, cs, ks, keys, _text], [u, ts, fps, impls, oracles] =>
    match parseKind ks, parseCard cs keys, parseFp fps, parseObs impls, parseObs oracles with
    | some k, some (c, explicit), some fp, some impl, some oracle =>
      let tree := if ts == "!" then some none else (parseTree ts).map some
      match tree, parseHex _text with
      | some tree, some text =>
        match treeCheck text [tree] true with
        | some bad => bad
        | none =>
          if !fpSane (is32 k) fp then "DIFF float-table-not-exact-on-small-integers"
          else judgeDec (tableOps fp []) (parseOpts os) c explicit k tree (u == "u1") impl oracle
      | _, _ => "BAD tree"
    | _, _, _, _, _ => "BAD dec fields"
  | ["enc", os, cs, ks, keys, fs], [ts, ffs, fps, rts, cds, txt] =>
    match parseKind ks, parseCard cs keys, parseField fs, parseFf ffs, parseFp fps with
    | some k, some (c, _), some f, some ff, some fp =>
      let ops := tableOps fp ff
      let o := parseOpts os
      let kt := kindTag k
      if ts == "PANIC" || rts == "PANIC" || cds == "PANIC" then "VIOL panic"
      else if !encodable k f then
        -- outside the round-trip domain (invalid UTF-8 in a string, NullValue ≠ 0): the renderer and the reader's
        -- normalisation are still checked against the real text
        match encode ops o k f, parseTree ts with
        | .ok mj, some ij =>
          if parseHex txt != some (renderSorted mj) then s!"DIFF render model-text={toHex (renderSorted mj)}"
          else if showJ ij != showJ (sanitize mj) then s!"DIFF sanitize model={showJ (sanitize mj)}"
          else s!"OK b=enc.{kt}.unrepresentable"
        | _, _ => s!"OK b=enc.{kt}.unrepresentable"
      else
        let model := encode ops o k f
        match model with
        | .ok mj =>
          if ts == "ERR" then s!"VIOL cannot-encode model={showJ mj}"
          else match parseTree ts with
            | none => "BAD enc tree"
            | some ij =>
              -- round trip and canonical acceptance are the property itself: judged before the model comparison
              let want := showField (f.read k)
              let got (s : String) : Option String := match parseObs s with
                | some (.ok _ g) => some (showField (g.read k))
                | _ => none
              if got rts != some want then s!"VIOL roundtrip got={rts} want={want} text={showJ ij}"
              else if got cds != some want then s!"VIOL canonical-not-accepted got={cds} want={want}"
              else if showJ ij != showJ mj then s!"DIFF model={showJ mj}"
              else if parseHex txt != some (renderSorted mj) then s!"DIFF render model-text={toHex (renderSorted mj)}"
              else if ((parseHex txt).bind fun t => (parseJSON t).map (fun p => showJOrd p.1)) != some (showJOrd ij) then "BAD tree enc-text"
              else match decode ops o c k mj with
                | .ok g => if showField (g.read k) == want then s!"OK nt b=enc.{kt}" else s!"DIFF model-roundtrip={showField g}"
                | r => s!"DIFF model-roundtrip={resTag r}"
        | .err => s!"DIFF model-encode=ERR impl={ts}"
        | .panic => s!"DIFF model-encode=PANIC impl={ts}"
    | _, _, _, _, _ => "BAD enc fields"
  | ["msg", _os, _cs, ks, _keys, _text], [impls, oracles] =>
    -- message-typed fields: the code delegates to protojson; both accept ⇒ same message
    if impls == "PANIC" then "VIOL panic"
    else if impls == "ERR" then (if oracles == "ERR" then s!"OK b=msg.{ks}.botherr" else s!"OK nt b=msg.{ks}.implerr")
    else if oracles == "ERR" then s!"OK nt b=msg.{ks}.implonly"
    else if impls == oracles then s!"OK nt b=msg.{ks}.same"
    else s!"VIOL message-differs-from-protojson impl={impls} oracle={oracles}"
  | ["sdec", os, cs, ks, keys, _text], [u, tss, fps, ress] =>
    match parseKind ks, parseCard cs keys, parseFp fps with
    | some k, some (c, explicit), some fp =>
      let ops := tableOps fp []
      let o := parseOpts os
      let trees := if tss == "-" then [] else tss.splitOn ";"
      let ress := if ress == "-" then [] else ress.splitOn ";"
      let htrees := trees.mapM fun t => if t == "!" then some none else (parseTree t).map some
      let bad : Option String := match htrees, parseHex _text with
        | some ht, some text => treeCheck text ht false
        | _, _ => some "BAD sdec trees"
      -- the model decodes value after value and stops at the first error (the harness does the same)
      let rec go (ts rs : List String) (n : Nat) : String :=
        match ts, rs with
        | [], [] => s!"OK nt b=stream.{n}"
        | _ :: _, [] => s!"DIFF stream-stopped-early at={n}"
        | t :: ts', r :: rs' =>
          match (if t == "!" then some none else (parseTree t).map some), parseObs r with
          | some tree, some impl =>
            let v := judgeDec ops o c explicit k tree false impl .err
            if v.startsWith "OK" then
              match impl with
              | .ok _ _ => go ts' rs' (n + 1)
              | _ => if rs'.isEmpty then s!"OK nt b=stream.{n}.err" else "DIFF stream-continues-after-error"
            else s!"{v} at={n}"
          | _, _ => "BAD sdec item"
        | _, _ => s!"DIFF stream-length trees={trees.length} results={ress.length}"
      let _ := u
      match bad with
      | some b => b
      | none => go trees ress 0
    | _, _, _ => "BAD sdec fields"
  | [op, os, cs, ks, keys, _texts], [u, tss, fps, ress, orcs] =>
    if op == "seqd" || op == "seqt" then
      match parseKind ks, parseCard cs keys, parseFp fps with
      | some k, some (c, explicit), some fp =>
        let split (s : String) : List String := if s == "-" then [] else s.splitOn ";"
        let trees := (split tss).mapM fun t => if t == "!" then some none else (parseTree t).map some
        let impls := (split ress).mapM parseObs
        let oracles := (split orcs).mapM parseObs
        match trees, impls, oracles with
        | some trees, some impls, some oracles =>
          if let some bad := (joinBodies _texts).bind fun t => treeCheck t trees false then bad
          else if (joinBodies _texts).isNone then "BAD seq payload"
          else if !fpSane (is32 k) fp then "DIFF float-table-not-exact-on-small-integers"
          else judgeStream (tableOps fp []) (parseOpts os) c explicit k (u == "u1") trees impls oracles
        | _, _, _ => "BAD seq items"
      | _, _, _ => "BAD seq fields"
    else if op == "sencd" || op == "senct" then
      let fss := _texts
      let streamHex := orcs
      let rts := ress
      let ffs := tss
      let tss := u
      match parseKind ks, parseCard cs keys, (fss.splitOn ";").mapM parseField, parseFf ffs, parseFp fps with
      | some k, some (c, _), some fs, some ff, some fp =>
        let ops := tableOps fp ff
        let o := parseOpts os
        let kt := kindTag k
        if tss == "PANIC" || rts == "PANIC" then "VIOL panic"
        else if !fs.all (encodable k) then s!"OK b=senc.{kt}.unrepresentable"
        else
          -- model: `encodeStream` (= value-wise `encode`, `C09_encode_stream_stateless`)
          let (written, results) := encodeStream ops o k fs
          if results.any (fun r => match r with | .ok _ => false | _ => true) then "DIFF model-encode-fails"
          else if tss == "ERR" then "VIOL cannot-encode-stream"
          else
            match (tss.splitOn ";").mapM parseTree with
            | none => if (tss.splitOn ";").contains "!" then "VIOL stream-encoder-wrote-invalid-json" else "BAD senc trees"
            | some its =>
              -- the property first: decoding the stream the encoder wrote gives the values back, one by one
              let want := fs.map fun f => showField (f.read k)
              let got := (rts.splitOn ";").map fun s => match parseObs s with
                | some (.ok _ g) => showField (g.read k)
                | _ => "?" ++ s
              if got != want then s!"VIOL stream-roundtrip got={rts} want={want}"
              else if its.map showJ != written.map showJ then s!"DIFF model={written.map showJ}"
              else if parseHex streamHex != some (written.flatMap fun j => renderSorted j ++ [10]) then "DIFF render stream-text"
              else if ((parseHex streamHex).map fun t => (readAll 65 t).map showOJ) != some (its.map fun j => showJOrd j) then "BAD tree senc-text"
              else
                let back := decodeStream ops o c k written
                if back.map (fun r => match r with | .ok g => showField (g.read k) | _ => "?") == want then s!"OK nt b=senc.{kt}.len{fs.length}"
                else "DIFF model-stream-roundtrip"
      | _, _, _, _, _ => "BAD senc fields"
    else "BAD c09 line"
  | ["hist", _os, stepss], [classes, ress, refs] =>
    match (stepss.splitOn ",").mapM parseHistStep with
    | none => "BAD hist steps"
    | some uses =>
      -- model: `runUses` — every use resolved with the resolver it was handed (`C09_codec_history_free`)
      let expected := (uses.zip (runUses uses)).map fun (u, r) => histClass u r
      let observed := classes.splitOn ";"
      let rs := ress.splitOn ";"
      let fs := refs.splitOn ";"
      if observed.length != uses.length || rs.length != uses.length || fs.length != uses.length then "BAD hist arity"
      else
        let rec goHist (i : Nat) (es os rs fs : List String) (streamsBefore : Nat) (us : List CodecUse) : String :=
          match es, os, rs, fs, us with
          | e :: es', o :: os', r :: rs', f :: fs', u :: us' =>
            if o != e then
              if streamsBefore > 0 then s!"VIOL result-depends-on-earlier-stream step={i} observed={o} expected={e} result={r} value={f}"
              else s!"VIOL codec-result step={i} observed={o} expected={e} result={r} value={f}"
            else if (o == "full") != (r == f) then s!"BAD hist class step={i}"
            else goHist (i + 1) es' os' rs' fs' (streamsBefore + (if u.stream then 1 else 0)) us'
          | _, _, _, _, _ => s!"OK nt b=hist.len{uses.length}"
        goHist 0 expected observed rs fs 0 uses
  | ["entry", cfgs, cs, ks, keys, text], [u, ts, fps, oHttp, oSs, oSse, oWs, refS, refL] =>
    match parseBridgeCfg cfgs, parseFp fps, parseHex text with
    | some (cfg, ct), some fp, some raw =>
      let tree := if ts == "!" then some none else (parseTree ts).map some
      match tree with
      | none => "BAD tree"
      | some tree =>
        match treeCheck raw [tree] true with
        | some bad => bad
        | none =>
          -- the reference is the single-shot codec under the DiscardUnknown the configuration selects (`pickDiscard`)
          let discard := pickDiscard cfg ct
          let ref := if discard then refL else refS
          -- a WebSocket text frame cannot carry invalid UTF-8 (the frame is refused by the transport, whatever the
          -- marshaler): such bodies are judged on the HTTP entry points only
          let entries := [(Entry.http, "http", oHttp), (Entry.httpStream, "ss", oSs), (Entry.sse, "sse", oSse)] ++
            (if validUtf8 raw then [(Entry.ws, "ws", oWs)] else [])
          -- scalar field bodies: the Lean model of the entry point (`entryDecode (rootWiring cfg)`)
          let modelBad : Option String :=
            match parseKind ks, parseCard cs keys, tree with
            | some k, some (c, _), some j =>
              let ops := tableOps fp []
              entries.findSome? fun (e, name, _) =>
                let m := entryDecode ops (rootWiring cfg) e ct c k j
                let unique := match m with
                  | .ok (.map kvs) => keysUnique kvs
                  | _ => true
                if unique && obsOfRes k m != ref then some s!"DIFF entry-model entry={name} model={obsOfRes k m} reference={ref}" else none
            | _, _, _ => none
          match entries.find? (fun (_, _, o) => o != ref) with
          | some (_, name, o) =>
            s!"VIOL entry-point-ignores-marshaler-config entry={name} observed={o} expected={ref} discard={discard} strict={refS} lenient={refL}"
          | none =>
            match modelBad with
            | some d => d
            | none =>
              let sens := if refS != refL then "sensitive" else "plain"
              let _ := u
              s!"OK nt b=entry.{cfgs}.{sens}"
    | _, _, _ => "BAD entry fields"
  | _, _ => "BAD c09 line"

end GB.C09
