import GB.Base.Proto
namespace GB.C09
open GB GB.Proto

/-- stub: replaced when the C09 slice is built -/
def handle : Handler := fun _ _ => "BAD c09 unimplemented"

end GB.C09
