import GB.C09.Spec
namespace GB.C09

set_option linter.unusedSimpArgs false
set_option linter.unusedVariables false

/-! ### no panic -/

theorem intDecode_ne_panic (p : Bytes → Option Int) (j : J) : intDecode p j ≠ .panic := by
  unfold intDecode
  split
  · simp
  · simp
  · split <;> simp

theorem unmarshalScalar_ne_panic (ops : FloatOps) (o : Opts) (k : Kind) (j : J) :
    unmarshalScalar ops o k j ≠ .panic := by
  cases k <;> cases j <;> simp only [unmarshalScalar, intDecode_ne_panic, ne_eq, not_false_eq_true] <;>
    (repeat' split) <;> simp

theorem store_some (s : Scalar) : protoStore (some s) = .ok s := rfl

theorem unmarshalSingular_ne_panic (ops : FloatOps) (o : Opts) (k : Kind) (j : J) :
    unmarshalSingular ops o k j ≠ .panic := by
  unfold unmarshalSingular
  cases h : unmarshalScalar ops o k j with
  | ok v => cases v <;> simp [Res.bind, protoStore]
  | err => simp [Res.bind]
  | panic => exact absurd h (unmarshalScalar_ne_panic ops o k j)

theorem listLoop_ne_panic (ops : FloatOps) (o : Opts) (k : Kind) (xs : List J) :
    listLoop ops o k xs ≠ .panic := by
  induction xs with
  | nil => simp [listLoop]
  | cons x xs ih =>
    unfold listLoop
    cases h : unmarshalScalar ops o k x with
    | ok v =>
      cases v with
      | none => simpa [Res.bind] using ih
      | some s =>
        cases h2 : listLoop ops o k xs with
        | ok r => simp [Res.bind, protoStore, h2]
        | err => simp [Res.bind, protoStore, h2]
        | panic => exact absurd h2 ih
    | err => simp [Res.bind]
    | panic => exact absurd h (unmarshalScalar_ne_panic ops o k x)

theorem unmarshalMapKey_ne_panic (kk : Kind) (key : Bytes) : unmarshalMapKey kk key ≠ .panic := by
  cases kk <;> simp only [unmarshalMapKey] <;> (repeat' split) <;> simp

theorem mapLoop_ne_panic (ops : FloatOps) (o : Opts) (kk vk : Kind) (kvs : List (Bytes × J)) :
    mapLoop ops o kk vk kvs ≠ .panic := by
  induction kvs with
  | nil => simp [mapLoop]
  | cons e rest ih =>
    obtain ⟨key, raw⟩ := e
    unfold mapLoop
    cases hk : unmarshalMapKey kk key with
    | panic => exact absurd hk (unmarshalMapKey_ne_panic kk key)
    | err => simp [Res.bind]
    | ok kv =>
      cases h : unmarshalScalar ops o vk raw with
      | ok v =>
        cases v with
        | none => simpa [Res.bind] using ih
        | some s =>
          cases h2 : mapLoop ops o kk vk rest with
          | ok r => simp [Res.bind, protoStore, h2]
          | err => simp [Res.bind, protoStore, h2]
          | panic => exact absurd h2 ih
      | err => simp [Res.bind]
      | panic => exact absurd h (unmarshalScalar_ne_panic ops o vk raw)

theorem decode_ne_panic (ops : FloatOps) (o : Opts) (c : Card) (k : Kind) (j : J) :
    decode ops o c k j ≠ .panic := by
  cases c with
  | sing => exact unmarshalSingular_ne_panic ops o k j
  | rep =>
    simp only [decode, unmarshalList]
    split
    · simp
    · rename_i xs
      cases h : listLoop ops o k xs with
      | ok r => simp [Res.bind]
      | err => simp [Res.bind]
      | panic => exact absurd h (listLoop_ne_panic ops o k xs)
    · simp
  | map kk =>
    simp only [decode, unmarshalMap]
    split
    · simp
    · rename_i kvs
      cases h : mapLoop ops o kk k (dedupLast kvs) with
      | ok r => simp [Res.bind]
      | err => simp [Res.bind]
      | panic => exact absurd h (mapLoop_ne_panic ops o kk k _)
    · simp

/-! ### agreement with the canonical mapping -/

theorem isValidNumber_plus (r : Bytes) : isValidNumber (43 :: r) = false := by
  cases r <;> simp [isValidNumber]

theorem canonIntLit_of_parseInt (bits : Nat) (lit : Bytes) (n : Int)
    (h : parseInt bits lit = some n) (hv : isValidNumber lit = true) :
    canonIntLit true bits lit = some (.ok (some (.int n))) := by
  cases lit with
  | nil => simp [parseInt] at h
  | cons c rest =>
    by_cases h45 : c = 45
    · subst h45
      simp only [parseInt] at h
      simp at h
      obtain ⟨h1, h2, h3, h4⟩ := h
      have hall : rest.all isDigit = true := by simpa [List.all_eq_true] using h2
      have hne : rest.isEmpty = false := by cases rest <;> simp_all
      simp [canonIntLit, plainInt, hall, hne, h3, h4]
    · by_cases h43 : c = 43
      · subst h43; rw [isValidNumber_plus] at hv; cases hv
      · simp only [parseInt] at h
        have e1 : (c == 45) = false := by simpa using h45
        have e2 : (c == 43) = false := by simpa using h43
        simp [e1, e2] at h
        obtain ⟨⟨hd, h2⟩, h3, h4⟩ := h
        have hall : rest.all isDigit = true := by simpa [List.all_eq_true] using h2
        simp [canonIntLit, plainInt, e1, hall, hd, h3, h4]

theorem canonIntLit_of_parseUint (bits : Nat) (lit : Bytes) (n : Int)
    (h : parseUint bits lit = some n) :
    canonIntLit false bits lit = some (.ok (some (.int n))) := by
  cases lit with
  | nil => simp [parseUint] at h
  | cons c rest =>
    simp only [parseUint] at h
    simp at h
    obtain ⟨⟨hd, h2⟩, h3, h4⟩ := h
    have hall : rest.all isDigit = true := by simpa [List.all_eq_true] using h2
    have e1 : (c == 45) = false := by
      have : c ≠ 45 := by intro e; subst e; simp [isDigit] at hd
      simpa using this
    simp [canonIntLit, plainInt, e1, hall, hd, h3, h4]


/-- the laws of the float environment the theorems need -/
structure FloatLaws (ops : FloatOps) : Prop where
  nan : ∀ b, ops.parse b strNaN = some .nan
  pinf : ∀ b, ops.parse b strInf = some .pinf
  ninf : ∀ b, ops.parse b strNegInf = some .ninf
  /-- ParseFloat(format(x), bitSize) = x for every finite x (shortest round-trip formatting) -/
  roundtrip : ∀ b bits, ops.parse b (ops.fmt b bits) = some (.fin bits)

theorem intDecode_canon (signed : Bool) (bits : Nat) (parse : Bytes → Option Int)
    (hp : ∀ lit n, parse lit = some n → isValidNumber lit = true → canonIntLit signed bits lit = some (.ok (some (.int n))))
    (j : J) (r : Res Value) (h : canonInt signed bits j = some r) :
    intDecode parse j = r ∨ intDecode parse j = .err := by
  cases j with
  | null => simp [canonInt] at h
  | bool b => simp [canonInt] at h; subst h; simp [intDecode, jsonNumber]
  | arr xs => simp [canonInt] at h; subst h; simp [intDecode, jsonNumber]
  | obj xs => simp [canonInt] at h; subst h; simp [intDecode, jsonNumber]
  | num lit =>
    simp only [canonInt] at h
    split at h
    · rename_i hv
      simp only [intDecode, jsonNumber]
      cases hpl : parse lit with
      | none => simp
      | some n => rw [hp lit n hpl hv] at h; injection h with h; simp [h]
    · cases h
  | str s =>
    simp only [canonInt] at h
    split at h
    · rename_i hv
      simp only [intDecode, jsonNumber, hv, if_true]
      cases hpl : parse s with
      | none => simp
      | some n => rw [hp s n hpl hv] at h; injection h with h; simp [h]
    · rename_i hv
      simp [intDecode, jsonNumber, hv]

theorem unmarshalScalar_canon (ops : FloatOps) (hl : FloatLaws ops) (o : Opts) (k : Kind) (j : J) (r : Res Value)
    (h : canonScalar ops o k j = some r) :
    unmarshalScalar ops o k j = r ∨ unmarshalScalar ops o k j = .err := by
  cases k with
  | int32 => exact intDecode_canon true 32 _ (fun l n a b => canonIntLit_of_parseInt 32 l n a b) j r h
  | int64 => exact intDecode_canon true 64 _ (fun l n a b => canonIntLit_of_parseInt 64 l n a b) j r h
  | uint32 => exact intDecode_canon false 32 _ (fun l n a _ => canonIntLit_of_parseUint 32 l n a) j r h
  | uint64 => exact intDecode_canon false 64 _ (fun l n a _ => canonIntLit_of_parseUint 64 l n a) j r h
  | bool => cases j <;> simp [canonScalar] at h <;> simp [unmarshalScalar, ← h]
  | string => cases j <;> simp [canonScalar] at h <;> simp [unmarshalScalar, ← h]
  | bytes =>
    cases j <;> simp [canonScalar] at h <;> try (simp [unmarshalScalar, ← h])
    rename_i s
    simp only [unmarshalScalar]
    cases hb : b64Decode s with
    | none => simp
    | some b => simp [hb] at h; simp [h.2]
  | float =>
    cases j with
    | null => simp [canonScalar] at h
    | bool b => simp [canonScalar] at h; simp [unmarshalScalar, ← h]
    | arr xs => simp [canonScalar] at h; simp [unmarshalScalar, ← h]
    | obj xs => simp [canonScalar] at h; simp [unmarshalScalar, ← h]
    | num lit =>
      simp only [canonScalar] at h
      simp only [unmarshalScalar]
      split at h
      · cases hp : ops.parse (is32 .float) lit with
        | none => simp
        | some f => simp [hp] at h; simp [h]
      · cases h
    | str s =>
      simp only [canonScalar] at h
      simp only [unmarshalScalar]
      split at h
      · rename_i e; simp at e; subst e; simp at h; simp [hl.nan, h]
      · split at h
        · rename_i e; simp at e; subst e; simp at h; simp [hl.pinf, h]
        · split at h
          · rename_i e; simp at e; subst e; simp at h; simp [hl.ninf, h]
          · split at h
            · cases hp : ops.parse (is32 .float) s with
              | none => simp
              | some f => simp [hp] at h; simp [h]
            · cases h
  | double =>
    cases j with
    | null => simp [canonScalar] at h
    | bool b => simp [canonScalar] at h; simp [unmarshalScalar, ← h]
    | arr xs => simp [canonScalar] at h; simp [unmarshalScalar, ← h]
    | obj xs => simp [canonScalar] at h; simp [unmarshalScalar, ← h]
    | num lit =>
      simp only [canonScalar] at h
      simp only [unmarshalScalar]
      split at h
      · cases hp : ops.parse (is32 .double) lit with
        | none => simp
        | some f => simp [hp] at h; simp [h]
      · cases h
    | str s =>
      simp only [canonScalar] at h
      simp only [unmarshalScalar]
      split at h
      · rename_i e; simp at e; subst e; simp at h; simp [hl.nan, h]
      · split at h
        · rename_i e; simp at e; subst e; simp at h; simp [hl.pinf, h]
        · split at h
          · rename_i e; simp at e; subst e; simp at h; simp [hl.ninf, h]
          · split at h
            · cases hp : ops.parse (is32 .double) s with
              | none => simp
              | some f => simp [hp] at h; simp [h]
            · cases h
  | enum vals nv =>
    cases j with
    | null =>
      simp only [canonScalar] at h
      simp only [unmarshalScalar]
      split at h
      · simp at h; simp [*]
      · cases h
    | bool b => simp [canonScalar] at h; simp [unmarshalScalar, ← h]
    | arr xs => simp [canonScalar] at h; simp [unmarshalScalar, ← h]
    | obj xs => simp [canonScalar] at h; simp [unmarshalScalar, ← h]
    | str s =>
      simp only [canonScalar] at h
      simp only [unmarshalScalar]
      cases hb : byName vals s with
      | some n => simp [hb] at h; simp [h]
      | none =>
        simp [hb] at h
        by_cases hd : o.discard = true <;> simp [hd] at h ⊢ <;> simp [h]
    | num lit =>
      simp only [canonScalar] at h
      simp only [unmarshalScalar]
      split at h
      · rename_i hv
        cases hp : parseInt 32 lit with
        | none => simp
        | some n =>
          rw [canonIntLit_of_parseInt 32 lit n hp hv] at h
          simp at h; simp [h]
      · cases h


theorem listLoop_canon (ops : FloatOps) (hl : FloatLaws ops) (o : Opts) (k : Kind) (xs : List J) :
    ∀ r, canonAll (canonScalar ops o k) xs = some r → listLoop ops o k xs = r ∨ listLoop ops o k xs = .err := by
  induction xs with
  | nil => intro r h; simp [canonAll] at h; simp [listLoop, h]
  | cons x xs ih =>
    intro r h
    simp only [canonAll] at h
    have hx := unmarshalScalar_canon ops hl o k x
    have hnp := unmarshalScalar_ne_panic ops o k x
    have hnl := listLoop_ne_panic ops o k xs
    unfold listLoop
    split at h
    · -- f x = some err
      rename_i hfx
      injection h with h; subst h
      rcases hx _ hfx with e | e <;> simp [e, Res.bind]
    · rename_i hrest _
      injection h with h; subst h
      have := ih _ hrest
      have hxs : listLoop ops o k xs = .err := by rcases this with e | e <;> exact e
      cases hd : unmarshalScalar ops o k x with
      | ok v => cases v <;> simp [Res.bind, protoStore, hxs]
      | err => simp [Res.bind]
      | panic => exact absurd hd hnp
    · cases h
    · cases h
    · cases h
    · cases h
    · rename_i v r' _ _ hfx hrest
      injection h with h; subst h
      rcases hx _ hfx with e | e
      · rcases ih _ hrest with e2 | e2 <;> simp [e, e2, Res.bind, protoStore]
      · simp [e, Res.bind]
    · rename_i r' _ _ hfx hrest
      injection h with h; subst h
      rcases hx _ hfx with e | e
      · rcases ih _ hrest with e2 | e2 <;> simp [e, e2, Res.bind, protoStore]
      · simp [e, Res.bind]

theorem parseInt_mono (s : Bytes) (n : Int) (h : parseInt 32 s = some n) : (parseInt 64 s).isSome = true := by
  have e : (2:Nat) ^ (64 - 1) = 9223372036854775808 := by decide
  have e' : (2:Nat) ^ (32 - 1) = 2147483648 := by decide
  cases s with
  | nil => simp [parseInt] at h
  | cons c rest =>
    by_cases h45 : c = 45
    · subst h45
      simp only [parseInt] at h ⊢
      simp [e'] at h
      obtain ⟨h1, h2, h3, _⟩ := h
      have hall : rest.all isDigit = true := by simpa [List.all_eq_true] using h2
      have hne : rest.isEmpty = false := by cases rest <;> simp_all
      have : digitsValue rest ≤ 9223372036854775808 := by omega
      simp [hall, hne, e, this]
    · by_cases h43 : c = 43
      · subst h43
        simp only [parseInt] at h ⊢
        simp [e'] at h
        obtain ⟨h1, h2, h3, _⟩ := h
        have hall : rest.all isDigit = true := by simpa [List.all_eq_true] using h2
        have hne : rest.isEmpty = false := by cases rest <;> simp_all
        have : digitsValue rest < 9223372036854775808 := by omega
        simp [hall, hne, e, this]
      · have e1 : (c == 45) = false := by simpa using h45
        have e2 : (c == 43) = false := by simpa using h43
        simp only [parseInt] at h ⊢
        simp [e1, e2, e'] at h
        obtain ⟨⟨hd, h2⟩, h3, _⟩ := h
        have hall : rest.all isDigit = true := by simpa [List.all_eq_true] using h2
        have : digitsValue (c :: rest) < 9223372036854775808 := by omega
        simp [e1, e2, hall, hd, e, this]

theorem parseUint_mono (s : Bytes) (n : Int) (h : parseUint 32 s = some n) : (parseUint 64 s).isSome = true := by
  simp only [parseUint] at h ⊢
  split at h
  · cases h
  · split at h
    · cases h
    · rename_i h1 h2
      simp only [h1, h2, if_false]
      split at h
      · rename_i h3
        have : digitsValue s < 2 ^ 64 := by
          have e : (2:Nat) ^ 32 = 4294967296 := by decide
          have e' : (2:Nat) ^ 64 = 18446744073709551616 := by decide
          omega
        simp [this]
      · cases h

/-- integer keys: generic over the parse function of the key kind -/
theorem intKey_canon (signed : Bool) (bits : Nat) (parse : Bytes → Option Int) (key : Bytes)
    (hp : ∀ n, parse key = some n → isValidNumber key = true → canonIntLit signed bits key = some (.ok (some (.int n))))
    (hm : ∀ n, parse key = some n → (parseInt 64 key).isSome = true ∨ (parseUint 64 key).isSome = true)
    (r : Res Scalar)
    (h : (match plainInt key with
      | none => if (parseInt 64 key).isSome || (parseUint 64 key).isSome then none else some Res.err
      | some _ =>
        if !isValidNumber key then none
        else match canonIntLit signed bits key with
          | some (.ok (some v)) => some (.ok v)
          | some _ => some .err
          | none => none) = some r) :
    (match parse key with | some n => Res.ok (Scalar.int n) | none => Res.err) = r ∨
    (match parse key with | some n => Res.ok (Scalar.int n) | none => Res.err) = .err := by
  cases hpk : parse key with
  | none => simp
  | some n =>
    simp only
    split at h
    · split at h
      · cases h
      · rename_i hne
        rcases hm n hpk with e | e <;> simp [e] at hne
    · split at h
      · cases h
      · rename_i hv
        simp at hv
        rw [hp n hpk hv] at h
        simp at h; simp [h]

theorem unmarshalMapKey_canon (kk : Kind) (key : Bytes) (r : Res Scalar) (h : canonKey kk key = some r) :
    unmarshalMapKey kk key = r ∨ unmarshalMapKey kk key = .err := by
  cases kk with
  | string => simp [canonKey] at h; simp [unmarshalMapKey, h]
  | bool =>
    simp only [canonKey] at h
    simp only [unmarshalMapKey]
    split at h
    · simp at h; simp [*]
    · split at h <;> simp at h <;> simp [*]
  | int32 =>
    simp only [canonKey] at h
    simp only [unmarshalMapKey]
    exact intKey_canon true 32 (parseInt 32) key (fun n a b => canonIntLit_of_parseInt 32 key n a b)
      (fun n a => Or.inl (parseInt_mono key n a)) r h
  | int64 =>
    simp only [canonKey] at h
    simp only [unmarshalMapKey]
    exact intKey_canon true 64 (parseInt 64) key (fun n a b => canonIntLit_of_parseInt 64 key n a b)
      (fun n a => Or.inl (by simp [a])) r h
  | uint32 =>
    simp only [canonKey] at h
    simp only [unmarshalMapKey]
    exact intKey_canon false 32 (parseUint 32) key (fun n a _ => canonIntLit_of_parseUint 32 key n a)
      (fun n a => Or.inr (parseUint_mono key n a)) r h
  | uint64 =>
    simp only [canonKey] at h
    simp only [unmarshalMapKey]
    exact intKey_canon false 64 (parseUint 64) key (fun n a _ => canonIntLit_of_parseUint 64 key n a)
      (fun n a => Or.inr (by simp [a])) r h
  | float => simp [canonKey] at h; simp [unmarshalMapKey, ← h]
  | double => simp [canonKey] at h; simp [unmarshalMapKey, ← h]
  | bytes => simp [canonKey] at h; simp [unmarshalMapKey, ← h]
  | enum a b => simp [canonKey] at h; simp [unmarshalMapKey, ← h]

/-- generic element loop: `step` yields a value to keep, nothing (skip), or fails -/
def seqLoop {α β : Type} (step : α → Res (Option β)) : List α → Res (List β)
  | [] => .ok []
  | x :: xs =>
    (step x).bind fun
      | some b => (seqLoop step xs).bind fun r => .ok (b :: r)
      | none => seqLoop step xs

theorem seqLoop_ne_panic {α β : Type} (step : α → Res (Option β)) (hs : ∀ x, step x ≠ .panic) (xs : List α) :
    seqLoop step xs ≠ .panic := by
  induction xs with
  | nil => simp [seqLoop]
  | cons x xs ih =>
    unfold seqLoop
    cases h : step x with
    | panic => exact absurd h (hs x)
    | err => simp [Res.bind]
    | ok v =>
      cases v with
      | none => simpa [Res.bind] using ih
      | some b =>
        cases h2 : seqLoop step xs with
        | panic => exact absurd h2 ih
        | err => simp [Res.bind, h2]
        | ok r => simp [Res.bind, h2]

theorem seqLoop_canon {α β : Type} (f : α → Option (Res (Option β))) (step : α → Res (Option β))
    (hf : ∀ x r, f x = some r → step x = r ∨ step x = .err) (hs : ∀ x, step x ≠ .panic) (xs : List α) :
    ∀ r, canonAll f xs = some r → seqLoop step xs = r ∨ seqLoop step xs = .err := by
  induction xs with
  | nil => intro r h; simp [canonAll] at h; simp [seqLoop, h]
  | cons x xs ih =>
    intro r h
    simp only [canonAll] at h
    have hx := hf x
    have hnp := hs x
    have hnl := seqLoop_ne_panic step hs xs
    unfold seqLoop
    split at h
    · rename_i hfx
      injection h with h; subst h
      rcases hx _ hfx with e | e <;> simp [e, Res.bind]
    · rename_i hrest _
      injection h with h; subst h
      have := ih _ hrest
      have hxs : seqLoop step xs = .err := by rcases this with e | e <;> exact e
      cases hd : step x with
      | ok v => cases v <;> simp [Res.bind, hxs]
      | err => simp [Res.bind]
      | panic => exact absurd hd hnp
    · cases h
    · cases h
    · cases h
    · cases h
    · rename_i v r' _ _ hfx hrest
      injection h with h; subst h
      rcases hx _ hfx with e | e
      · rcases ih _ hrest with e2 | e2 <;> simp [e, e2, Res.bind]
      · simp [e, Res.bind]
    · rename_i r' _ _ hfx hrest
      injection h with h; subst h
      rcases hx _ hfx with e | e
      · rcases ih _ hrest with e2 | e2 <;> simp [e, e2, Res.bind]
      · simp [e, Res.bind]

/-- one entry of `unmarshalMap` -/
def entryStep (ops : FloatOps) (o : Opts) (kk vk : Kind) (e : Bytes × J) : Res (Option (Scalar × Scalar)) :=
  (unmarshalMapKey kk e.1).bind fun kv => (unmarshalScalar ops o vk e.2).bind fun v => .ok (v.map fun s => (kv, s))

theorem mapLoop_eq_seqLoop (ops : FloatOps) (o : Opts) (kk vk : Kind) (kvs : List (Bytes × J)) :
    mapLoop ops o kk vk kvs = seqLoop (entryStep ops o kk vk) kvs := by
  induction kvs with
  | nil => simp [mapLoop, seqLoop]
  | cons e rest ih =>
    obtain ⟨key, raw⟩ := e
    unfold mapLoop seqLoop
    rw [ih]
    simp only [entryStep]
    cases unmarshalMapKey kk key with
    | panic => simp [Res.bind]
    | err => simp [Res.bind]
    | ok kv =>
      cases unmarshalScalar ops o vk raw with
      | panic => simp [Res.bind]
      | err => simp [Res.bind]
      | ok v => cases v <;> simp [Res.bind, protoStore]

theorem entryStep_ne_panic (ops : FloatOps) (o : Opts) (kk vk : Kind) (e : Bytes × J) :
    entryStep ops o kk vk e ≠ .panic := by
  unfold entryStep
  cases h : unmarshalMapKey kk e.1 with
  | panic => exact absurd h (unmarshalMapKey_ne_panic kk e.1)
  | err => simp [Res.bind]
  | ok kv =>
    cases h2 : unmarshalScalar ops o vk e.2 with
    | panic => exact absurd h2 (unmarshalScalar_ne_panic ops o vk e.2)
    | err => simp [Res.bind]
    | ok v => simp [Res.bind]

theorem entryStep_canon (ops : FloatOps) (hl : FloatLaws ops) (o : Opts) (kk vk : Kind) (e : Bytes × J)
    (r : Res (Option (Scalar × Scalar))) (h : canonEntry ops o kk vk e = some r) :
    entryStep ops o kk vk e = r ∨ entryStep ops o kk vk e = .err := by
  have hk := unmarshalMapKey_canon kk e.1
  have hv := unmarshalScalar_canon ops hl o vk e.2
  have hkp := unmarshalMapKey_ne_panic kk e.1
  have hvp := unmarshalScalar_ne_panic ops o vk e.2
  unfold entryStep
  unfold canonEntry at h
  split at h
  · rename_i hck
    injection h with h; subst h
    rcases hk _ hck with e1 | e1 <;> simp [e1, Res.bind]
  · rename_i hcv _
    injection h with h; subst h
    have : unmarshalScalar ops o vk e.2 = .err := by rcases hv _ hcv with e1 | e1 <;> exact e1
    cases hd : unmarshalMapKey kk e.1 with
    | panic => exact absurd hd hkp
    | err => simp [Res.bind]
    | ok kv => simp [Res.bind, this]
  · rename_i kv v hck hcv
    injection h with h; subst h
    rcases hk _ hck with e1 | e1
    · rcases hv _ hcv with e2 | e2 <;> simp [e1, e2, Res.bind]
    · simp [e1, Res.bind]
  · rename_i kv hck hcv
    injection h with h; subst h
    rcases hk _ hck with e1 | e1
    · rcases hv _ hcv with e2 | e2 <;> simp [e1, e2, Res.bind]
    · simp [e1, Res.bind]
  · cases h

theorem dedupLast_of_unique (kvs : List (Bytes × J)) (h : namesUnique kvs = true) : dedupLast kvs = kvs := by
  induction kvs with
  | nil => rfl
  | cons e rest ih =>
    obtain ⟨k, v⟩ := e
    simp only [namesUnique, Bool.and_eq_true, Bool.not_eq_true'] at h
    simp [dedupLast, h.1, ih h.2]


/-- the decoder's outcome `d` is compatible with the canonical outcome `r`: it rejects, or both accept and the
    field reads back the same value -/
def Agree (k : Kind) (d r : Res Field) : Prop :=
  d = .err ∨ ∃ f f', d = .ok f ∧ r = .ok f' ∧ f.read k = f'.read k

theorem agree_list (k : Kind) (d rl : Res (List Scalar)) (hnp : d ≠ .panic) (h : d = rl ∨ d = .err) :
    Agree k (d.bind fun r => .ok (.list r)) (rl.bind fun l => .ok (.list l)) := by
  rcases h with e | e
  · subst e
    cases d with
    | ok l => exact Or.inr ⟨_, _, rfl, rfl, rfl⟩
    | err => exact Or.inl rfl
    | panic => exact absurd rfl hnp
  · subst e; exact Or.inl rfl

theorem agree_map (k : Kind) (d rl : Res (List (Scalar × Scalar))) (hnp : d ≠ .panic) (h : d = rl ∨ d = .err) :
    Agree k (d.bind fun r => .ok (.map r)) (rl.bind fun l => .ok (.map l)) := by
  rcases h with e | e
  · subst e
    cases d with
    | ok l => exact Or.inr ⟨_, _, rfl, rfl, rfl⟩
    | err => exact Or.inl rfl
    | panic => exact absurd rfl hnp
  · subst e; exact Or.inl rfl

theorem unmarshalSingular_eq (ops : FloatOps) (o : Opts) (k : Kind) (j : J) :
    unmarshalSingular ops o k j = (unmarshalScalar ops o k j).bind fun v => .ok (.sing v) := by
  unfold unmarshalSingular
  cases unmarshalScalar ops o k j with
  | ok v => cases v <;> simp [Res.bind, protoStore]
  | err => rfl
  | panic => rfl

theorem agree_sing (k : Kind) (d rv : Res Value) (hnp : d ≠ .panic) (h : d = rv ∨ d = .err) :
    Agree k (d.bind fun v => .ok (.sing v)) (rv.bind fun v => .ok (.sing v)) := by
  rcases h with e | e
  · subst e
    cases d with
    | ok l => exact Or.inr ⟨_, _, rfl, rfl, rfl⟩
    | err => exact Or.inl rfl
    | panic => exact absurd rfl hnp
  · subst e; exact Or.inl rfl

theorem decode_canon (ops : FloatOps) (hl : FloatLaws ops) (o : Opts) (c : Card) (k : Kind) (j : J) (r : Res Field)
    (h : canon ops o c k j = some r) : Agree k (decode ops o c k j) r := by
  cases c with
  | rep =>
    cases j with
    | null =>
      simp only [canon] at h
      split at h
      · cases h
      · injection h with h; subst h; exact Or.inr ⟨_, _, rfl, rfl, rfl⟩
    | arr xs =>
      simp only [canon] at h
      simp only [decode, unmarshalList]
      cases hc : canonAll (canonScalar ops o k) xs with
      | none => simp [hc] at h
      | some rl =>
        simp [hc] at h; subst h
        exact agree_list k _ rl (listLoop_ne_panic ops o k xs) (listLoop_canon ops hl o k xs rl hc)
    | bool b => simp [canon] at h; subst h; exact Or.inl rfl
    | num l => simp [canon] at h; subst h; exact Or.inl rfl
    | str s => simp [canon] at h; subst h; exact Or.inl rfl
    | obj kvs => simp [canon] at h; subst h; exact Or.inl rfl
  | map kk =>
    cases j with
    | null =>
      simp only [canon] at h
      split at h
      · cases h
      · injection h with h; subst h; exact Or.inr ⟨_, _, rfl, rfl, rfl⟩
    | obj kvs =>
      simp only [canon] at h
      simp only [decode, unmarshalMap]
      split at h
      · cases h
      · rename_i hu
        simp at hu
        rw [dedupLast_of_unique kvs hu.1, mapLoop_eq_seqLoop]
        have hnp := seqLoop_ne_panic (entryStep ops o kk k) (entryStep_ne_panic ops o kk k) kvs
        cases hc : canonAll (canonEntry ops o kk k) kvs with
        | none => simp [hc] at h
        | some rl =>
          have hh := seqLoop_canon (canonEntry ops o kk k) (entryStep ops o kk k)
            (entryStep_canon ops hl o kk k) (entryStep_ne_panic ops o kk k) kvs rl hc
          cases rl with
          | ok l => simp [hc] at h; subst h; exact agree_map k _ (.ok l) hnp hh
          | err => simp [hc] at h; subst h; exact agree_map k _ .err hnp hh
          | panic => simp [hc] at h
    | bool b => simp [canon] at h; subst h; exact Or.inl rfl
    | num l => simp [canon] at h; subst h; exact Or.inl rfl
    | str s => simp [canon] at h; subst h; exact Or.inl rfl
    | arr kvs => simp [canon] at h; subst h; exact Or.inl rfl
  | sing =>
    have key : ∀ rv, canonScalar ops o k j = some rv →
        Agree k (decode ops o .sing k j) (rv.bind fun v => .ok (.sing v)) := by
      intro rv hrv
      simp only [decode, unmarshalSingular_eq]
      exact agree_sing k _ rv (unmarshalScalar_ne_panic ops o k j) (unmarshalScalar_canon ops hl o k j rv hrv)
    cases j with
    | null =>
      cases k with
      | enum vals nv =>
        cases nv <;> simp [canon] at h <;> subst h
        · exact Or.inl rfl
        · exact Or.inr ⟨_, _, rfl, rfl, rfl⟩
      | float => simp [canon] at h; subst h; exact Or.inl rfl
      | double => simp [canon] at h; subst h; exact Or.inl rfl
      | bool => simp [canon] at h; subst h; exact Or.inr ⟨_, _, rfl, rfl, rfl⟩
      | int32 => simp [canon] at h; subst h; exact Or.inr ⟨_, _, rfl, rfl, rfl⟩
      | int64 => simp [canon] at h; subst h; exact Or.inr ⟨_, _, rfl, rfl, rfl⟩
      | uint32 => simp [canon] at h; subst h; exact Or.inr ⟨_, _, rfl, rfl, rfl⟩
      | uint64 => simp [canon] at h; subst h; exact Or.inr ⟨_, _, rfl, rfl, rfl⟩
      | string => simp [canon] at h; subst h; exact Or.inr ⟨_, _, rfl, rfl, rfl⟩
      | bytes => simp [canon] at h; subst h; exact Or.inr ⟨_, _, rfl, rfl, rfl⟩
    | bool b =>
      simp only [canon] at h
      cases hc : canonScalar ops o k (.bool b) with
      | none => simp [hc] at h
      | some rv => simp [hc] at h; subst h; exact key rv hc
    | num l =>
      simp only [canon] at h
      cases hc : canonScalar ops o k (.num l) with
      | none => simp [hc] at h
      | some rv => simp [hc] at h; subst h; exact key rv hc
    | str l =>
      simp only [canon] at h
      cases hc : canonScalar ops o k (.str l) with
      | none => simp [hc] at h
      | some rv => simp [hc] at h; subst h; exact key rv hc
    | arr l =>
      simp only [canon] at h
      cases hc : canonScalar ops o k (.arr l) with
      | none => simp [hc] at h
      | some rv => simp [hc] at h; subst h; exact key rv hc
    | obj l =>
      simp only [canon] at h
      cases hc : canonScalar ops o k (.obj l) with
      | none => simp [hc] at h
      | some rv => simp [hc] at h; subst h; exact key rv hc

end GB.C09
