import GB.C09.Model
/-
  C09 — the JSON TEXT layer as `encoding/json` (Go 1.23) implements it for this code.

  * READER  `parseJSON : Bytes → Option (J × Bytes)` — one value and the rest of the input, the way
    `json.Decoder.Decode(&raw)` scans it and `Token()`/`Unmarshal` then decode it: leading white space
    skipped, objects with their members in text order (repeated names kept), arrays, strings with every
    escape (`\uXXXX`, surrogate pairs; a lone surrogate and every byte that is not part of a well-formed
    UTF-8 sequence become U+FFFD, as `unquoteBytes` does), number literals verbatim (`UseNumber`),
    `true`/`false`/`null`; `none` = the scanner's syntax error or an unexpected end of input.
    The value ends where the scanner says `scanEnd`: right after `]`, `}`, the closing quote, the literal,
    or the longest number; what follows is not looked at (so `1x` reads `1` and leaves `x`).
    Not modelled: the nesting limit of 10000 (the reader has fuel 2·length+2 instead, enough for any input).
  * RENDERER `renderCompact : J → Bytes` — what `json.Marshal` writes for the Go values the field encoder
    hands it (bool, integers, floats, strings, `[]json.RawMessage`, `map[string]json.RawMessage` — member
    order is the caller's: `json.Marshal` sorts by name, see `sortMembers`): no white space, strings escaped
    by `appendString` with `escapeHTML = true` (`marshalJSON` calls `json.Marshal`, never `SetEscapeHTML(false)`):
    `\"`, `\\`, `\b`, `\f`, `\n`, `\r`, `\t`, `\u00XX` for the other control characters and for `<`, `>`, `&`,
    ` `/` `, `�` for every byte that is not part of a well-formed UTF-8 sequence.
  Well-formed UTF-8 is `utf8.DecodeRune`'s notion (`utf8Len`): no overlong forms, no surrogates, ≤ U+10FFFF.
  `utf8.EncodeRune (utf8.DecodeRune s) = s` for a well-formed sequence is folded into the model (the reader
  copies the sequence); the driver cross-checks the reader against the real tokenizer on every case.
-/
namespace GB.C09

/-! ### shared: UTF-8 sequences, hex digits -/

/-- length (2, 3, 4) of the well-formed UTF-8 sequence formed by the lead byte `c ≥ 0x80` and the bytes after it;
    0 if there is none (`utf8.DecodeRune` then returns (RuneError, 1)) -/
def valid2 (c b1 : UInt8) : Bool := 194 ≤ c && c ≤ 223 && isCont b1

def valid3 (c b1 b2 : UInt8) : Bool :=
  224 ≤ c && c ≤ 239 &&
    (if c == 224 then 160 ≤ b1 && b1 ≤ 191 else if c == 237 then 128 ≤ b1 && b1 ≤ 159 else isCont b1) && isCont b2

def valid4 (c b1 b2 b3 : UInt8) : Bool :=
  240 ≤ c && c ≤ 244 &&
    (if c == 240 then 144 ≤ b1 && b1 ≤ 191 else if c == 244 then 128 ≤ b1 && b1 ≤ 143 else isCont b1) &&
    isCont b2 && isCont b3

def utf8Len (c : UInt8) (rest : Bytes) : Nat :=
  match rest with
  | [] => 0
  | [b1] => if valid2 c b1 then 2 else 0
  | [b1, b2] => if valid2 c b1 then 2 else if valid3 c b1 b2 then 3 else 0
  | b1 :: b2 :: b3 :: _ => if valid2 c b1 then 2 else if valid3 c b1 b2 then 3 else if valid4 c b1 b2 b3 then 4 else 0

/-- U+FFFD in UTF-8 -/
def fffd : Bytes := [239, 191, 189]

def hexVal (c : UInt8) : Option Nat :=
  if 48 ≤ c && c ≤ 57 then some (c.toNat - 48)
  else if 97 ≤ c && c ≤ 102 then some (c.toNat - 97 + 10)
  else if 65 ≤ c && c ≤ 70 then some (c.toNat - 65 + 10)
  else none

/-- `getu4` on the four digits -/
def hex4 (a b c d : UInt8) : Option Nat :=
  match hexVal a, hexVal b, hexVal c, hexVal d with
  | some w, some x, some y, some z => some (((w * 16 + x) * 16 + y) * 16 + z)
  | _, _, _, _ => none

/-- lower-case hex digit of `n < 16` (`"0123456789abcdef"[n]`) -/
def hexDigit (n : Nat) : UInt8 := if n < 10 then UInt8.ofNat (48 + n) else UInt8.ofNat (87 + n)

/-- `utf8.EncodeRune` for a valid scalar value -/
def encodeRune (r : Nat) : Bytes :=
  if r < 128 then [UInt8.ofNat r]
  else if r < 2048 then [UInt8.ofNat (192 + r / 64), UInt8.ofNat (128 + r % 64)]
  else if r < 65536 then [UInt8.ofNat (224 + r / 4096), UInt8.ofNat (128 + r / 64 % 64), UInt8.ofNat (128 + r % 64)]
  else [UInt8.ofNat (240 + r / 262144), UInt8.ofNat (128 + r / 4096 % 64), UInt8.ofNat (128 + r / 64 % 64), UInt8.ofNat (128 + r % 64)]

/-! ### reader -/

def isWS (c : UInt8) : Bool := c == 32 || c == 9 || c == 10 || c == 13

def skipWS : Bytes → Bytes
  | [] => []
  | c :: r => if isWS c then skipWS r else c :: r

/-- the character an escape `\e` stands for (`u` is handled separately) -/
def simpleEsc (e : UInt8) : Option UInt8 :=
  if e == 34 then some 34 else if e == 92 then some 92 else if e == 47 then some 47
  else if e == 98 then some 8 else if e == 102 then some 12 else if e == 110 then some 10
  else if e == 114 then some 13 else if e == 116 then some 9 else none

def prepend (p : Bytes) (r : Bytes × Bytes) : Bytes × Bytes := (p ++ r.1, r.2)

/-- `utf16.DecodeRune(rr, getu4(s))` for a high or low surrogate `rr` and the text `s` after its escape:
    the rune of a valid pair (`s` starts with the `\uXXXX` of a low surrogate and `rr` is a high one) -/
def surrogatePair (rr : Nat) (s : Bytes) : Option Nat :=
  match s with
  | 92 :: 117 :: g1 :: g2 :: g3 :: g4 :: _ =>
    match hex4 g1 g2 g3 g4 with
    | some rr1 =>
      if rr < 56320 && 56320 ≤ rr1 && rr1 < 57344 then some ((rr - 55296) * 1024 + (rr1 - 56320) + 65536) else none
    | none => none
  | _ => none

/-- a string literal after its opening quote: the decoded bytes and the text after the closing quote
    (`stateInString…` for validity, `unquoteBytes` for the value) -/
def parseStr : Bytes → Option (Bytes × Bytes)
  | [] => none
  | c :: rest =>
    if c == 34 then some ([], rest)
    else if c == 92 then
      match rest with
      | [] => none
      | e :: r =>
        if e == 117 then
          match r with
          | h1 :: h2 :: h3 :: h4 :: r' =>
            match hex4 h1 h2 h3 h4 with
            | none => none
            | some rr =>
              if 55296 ≤ rr && rr < 57344 then
                -- a surrogate: a valid pair with a following \uXXXX is one rune, anything else is U+FFFD
                match surrogatePair rr r' with
                | some code =>
                  match r' with
                  | _ :: _ :: _ :: _ :: _ :: _ :: r'' => (parseStr r'').map (prepend (encodeRune code))
                  | _ => none
                | none => (parseStr r').map (prepend fffd)
              else (parseStr r').map (prepend (encodeRune rr))
          | _ => none
        else
          match simpleEsc e with
          | some b => (parseStr r).map (prepend [b])
          | none => none
    else if c < 32 then none
    else if c < 128 then (parseStr rest).map (prepend [c])
    else
      -- coerce to well-formed UTF-8
      let n := utf8Len c rest
      if n = 2 then
        match rest with
        | b1 :: r1 => (parseStr r1).map (prepend [c, b1])
        | _ => none
      else if n = 3 then
        match rest with
        | b1 :: b2 :: r2 => (parseStr r2).map (prepend [c, b1, b2])
        | _ => none
      else if n = 4 then
        match rest with
        | b1 :: b2 :: b3 :: r3 => (parseStr r3).map (prepend [c, b1, b2, b3])
        | _ => none
      else (parseStr rest).map (prepend fffd)

/-- the scanner's number states (`stateNeg, state0, state1, stateDot, stateDot0, stateE, stateESign, stateE0`):
    the text after the longest number literal, `none` where the scanner reports an error -/
def numExp (s : Bytes) : Option Bytes :=
  match s with
  | [] => some []
  | e :: r =>
    if e == 101 || e == 69 then
      let r := match r with
        | c :: r' => if c == 43 || c == 45 then r' else r
        | [] => r
      match r with
      | d :: r' => if isDigit d then some (r'.dropWhile isDigit) else none
      | [] => none
    else some s

def numFrac (s : Bytes) : Option Bytes :=
  match s with
  | c :: r =>
    if c == 46 then
      match r with
      | d :: r' => if isDigit d then numExp (r'.dropWhile isDigit) else none
      | [] => none
    else numExp s
  | [] => some []

def numInt (s : Bytes) : Option Bytes :=
  match s with
  | [] => none
  | c :: r =>
    if c == 48 then numFrac r
    else if 49 ≤ c && c ≤ 57 then numFrac (r.dropWhile isDigit)
    else none

def numRest (s : Bytes) : Option Bytes :=
  match s with
  | c :: r => if c == 45 then numInt r else numInt s
  | [] => none

/-- a number value: the literal verbatim and the rest -/
def parseNum (s : Bytes) : Option (J × Bytes) :=
  match numRest s with
  | some rest => some (.num (s.take (s.length - rest.length)), rest)
  | none => none

mutual
/-- one JSON value at the head of `s` (no leading white space) -/
def parseValue : Nat → Bytes → Option (J × Bytes)
  | 0, _ => none
  | fuel + 1, s =>
    match s with
    | [] => none
    | c :: r =>
      if c == 34 then (parseStr r).map fun p => (.str p.1, p.2)
      else if c == 91 then
        match skipWS r with
        | [] => none
        | d :: t =>
          if d == 93 then some (.arr [], t)
          else
            match parseValue fuel (d :: t) with
            | some (x, t') => (parseTail fuel t').map fun p => (.arr (x :: p.1), p.2)
            | none => none
      else if c == 123 then
        match skipWS r with
        | [] => none
        | d :: t =>
          if d == 125 then some (.obj [], t)
          else (parseMember fuel (d :: t)).bind fun (m, t') => (parseMTail fuel t').map fun p => (.obj (m :: p.1), p.2)
      else if c == 116 then
        match r with
        | 114 :: 117 :: 101 :: t => some (.bool true, t)
        | _ => none
      else if c == 102 then
        match r with
        | 97 :: 108 :: 115 :: 101 :: t => some (.bool false, t)
        | _ => none
      else if c == 110 then
        match r with
        | 117 :: 108 :: 108 :: t => some (.null, t)
        | _ => none
      else parseNum s

/-- after an array element: `,` value … `]` -/
def parseTail : Nat → Bytes → Option (List J × Bytes)
  | 0, _ => none
  | fuel + 1, s =>
    match skipWS s with
    | [] => none
    | c :: r =>
      if c == 93 then some ([], r)
      else if c == 44 then
        match parseValue fuel (skipWS r) with
        | some (x, t) => (parseTail fuel t).map fun p => (x :: p.1, p.2)
        | none => none
      else none

/-- `"name" : value` (no leading white space) -/
def parseMember : Nat → Bytes → Option ((Bytes × J) × Bytes)
  | 0, _ => none
  | fuel + 1, s =>
    match s with
    | [] => none
    | q :: r =>
      if q == 34 then
        match parseStr r with
        | none => none
        | some (name, t) =>
          match skipWS t with
          | [] => none
          | c :: t' =>
            if c == 58 then
              match parseValue fuel (skipWS t') with
              | some (v, t'') => some ((name, v), t'')
              | none => none
            else none
      else none

/-- after an object member: `,` member … `}` -/
def parseMTail : Nat → Bytes → Option (List (Bytes × J) × Bytes)
  | 0, _ => none
  | fuel + 1, s =>
    match skipWS s with
    | [] => none
    | c :: r =>
      if c == 125 then some ([], r)
      else if c == 44 then
        (parseMember fuel (skipWS r)).bind fun (m, t) => (parseMTail fuel t).map fun p => (m :: p.1, p.2)
      else none
end

/-- `json.Decoder.Decode(&raw)` + tokenisation: the first value of the input and the text after it -/
def parseJSON (s : Bytes) : Option (J × Bytes) := parseValue (2 * s.length + 2) (skipWS s)

/-! ### renderer -/

/-- `htmlSafeSet[c]` for `c < 0x80` -/
def htmlSafe (c : UInt8) : Bool := 32 ≤ c && c != 34 && c != 92 && c != 60 && c != 62 && c != 38

/-- `appendString` on one ASCII byte -/
def escAscii (c : UInt8) : Bytes :=
  if htmlSafe c then [c]
  else if c == 92 || c == 34 then [92, c]
  else if c == 8 then [92, 98]
  else if c == 12 then [92, 102]
  else if c == 10 then [92, 110]
  else if c == 13 then [92, 114]
  else if c == 9 then [92, 116]
  else [92, 117, 48, 48, hexDigit (c.toNat / 16), hexDigit (c.toNat % 16)]

def escFFFD : Bytes := [92, 117, 102, 102, 102, 100]

/-- `appendString(dst, s, escapeHTML = true)` without the quotes -/
def escStr : Bytes → Bytes
  | [] => []
  | c :: rest =>
    if c < 128 then escAscii c ++ escStr rest
    else
      let n := utf8Len c rest
      if n = 2 then
        match rest with
        | b1 :: r1 => c :: b1 :: escStr r1
        | _ => []
      else if n = 3 then
        match rest with
        | b1 :: b2 :: r2 =>
          if c == 226 && b1 == 128 && (b2 == 168 || b2 == 169) then
            [92, 117, 50, 48, 50, hexDigit (b2.toNat % 16)] ++ escStr r2      -- U+2028 / U+2029
          else c :: b1 :: b2 :: escStr r2
        | _ => []
      else if n = 4 then
        match rest with
        | b1 :: b2 :: b3 :: r3 => c :: b1 :: b2 :: b3 :: escStr r3
        | _ => []
      else escFFFD ++ escStr rest

mutual
/-- `json.Marshal` of the value the field encoder builds, as a tree (members in the given order) -/
def renderCompact : J → Bytes
  | .null => [110, 117, 108, 108]
  | .bool b => if b then [116, 114, 117, 101] else [102, 97, 108, 115, 101]
  | .num lit => lit
  | .str s => 34 :: (escStr s ++ [34])
  | .arr [] => [91, 93]
  | .arr (x :: xs) => 91 :: (renderCompact x ++ renderTail xs)
  | .obj [] => [123, 125]
  | .obj ((name, v) :: kvs) => 123 :: 34 :: (escStr name ++ 34 :: 58 :: (renderCompact v ++ renderMTail kvs))

/-- the remaining elements, each preceded by a comma, and the closing bracket -/
def renderTail : List J → Bytes
  | [] => [93]
  | x :: xs => 44 :: (renderCompact x ++ renderTail xs)

def renderMTail : List (Bytes × J) → Bytes
  | [] => [125]
  | (name, v) :: kvs => 44 :: 34 :: (escStr name ++ 34 :: 58 :: (renderCompact v ++ renderMTail kvs))
end

/-! ### what the reader normalises -/

/-- a Go string after a trip through JSON text: every byte that is not part of a well-formed UTF-8 sequence
    is U+FFFD (the identity on valid UTF-8) -/
def sanStr : Bytes → Bytes
  | [] => []
  | c :: rest =>
    if c < 128 then c :: sanStr rest
    else
      let n := utf8Len c rest
      if n = 2 then
        match rest with
        | b1 :: r1 => c :: b1 :: sanStr r1
        | _ => []
      else if n = 3 then
        match rest with
        | b1 :: b2 :: r2 => c :: b1 :: b2 :: sanStr r2
        | _ => []
      else if n = 4 then
        match rest with
        | b1 :: b2 :: b3 :: r3 => c :: b1 :: b2 :: b3 :: sanStr r3
        | _ => []
      else fffd ++ sanStr rest

mutual
def sanitize : J → J
  | .null => .null
  | .bool b => .bool b
  | .num lit => .num lit
  | .str s => .str (sanStr s)
  | .arr xs => .arr (sanList xs)
  | .obj kvs => .obj (sanMembers kvs)
def sanList : List J → List J
  | [] => []
  | x :: xs => sanitize x :: sanList xs
def sanMembers : List (Bytes × J) → List (Bytes × J)
  | [] => []
  | (name, v) :: kvs => (sanStr name, sanitize v) :: sanMembers kvs
end

/-- a number literal the scanner reads completely (a JSON number) -/
def validNum (lit : Bytes) : Bool := numRest lit == some []

mutual
/-- every number literal in the tree is a JSON number (true for what the encoder builds and the reader returns) -/
def numsValid : J → Bool
  | .num lit => validNum lit
  | .arr xs => numsValidList xs
  | .obj kvs => numsValidMembers kvs
  | _ => true
def numsValidList : List J → Bool
  | [] => true
  | x :: xs => numsValid x && numsValidList xs
def numsValidMembers : List (Bytes × J) → Bool
  | [] => true
  | (_, v) :: kvs => numsValid v && numsValidMembers kvs
end

mutual
/-- every string and member name in the tree is valid UTF-8 -/
def strsValid : J → Bool
  | .str s => validUtf8 s
  | .arr xs => strsValidList xs
  | .obj kvs => strsValidMembers kvs
  | _ => true
def strsValidList : List J → Bool
  | [] => true
  | x :: xs => strsValid x && strsValidList xs
def strsValidMembers : List (Bytes × J) → Bool
  | [] => true
  | (name, v) :: kvs => validUtf8 name && strsValid v && strsValidMembers kvs
end


/-- `json.Marshal` writes the members of a `map[string]…` sorted by name (byte order) -/
def bytesLt : Bytes → Bytes → Bool
  | [], [] => false
  | [], _ :: _ => true
  | _ :: _, [] => false
  | a :: as, b :: bs => a < b || (a == b && bytesLt as bs)

def insertMember (m : Bytes × J) : List (Bytes × J) → List (Bytes × J)
  | [] => [m]
  | x :: xs => if bytesLt x.1 m.1 then x :: insertMember m xs else m :: x :: xs

def sortMembers (kvs : List (Bytes × J)) : List (Bytes × J) := kvs.foldr insertMember []

end GB.C09
