import GB.C09.Proofs
/-
  C09 — helper lemmas for the round-trip theorems: decimal formatting/parsing, base64.
-/
namespace GB.C09

set_option linter.unusedSimpArgs false
set_option linter.unusedVariables false

/-! ### decimal digits -/

def digitOf (n : Nat) : UInt8 := UInt8.ofNat (48 + n % 10)

theorem digitOf_toNat (n : Nat) : (digitOf n).toNat = 48 + n % 10 := by
  unfold digitOf
  have : 48 + n % 10 < 256 := by omega
  simp [UInt8.toNat_ofNat', Nat.mod_eq_of_lt this]

theorem digitOf_isDigit (n : Nat) : isDigit (digitOf n) = true := by
  have h := digitOf_toNat n
  simp only [isDigit, Bool.and_eq_true, decide_eq_true_eq, UInt8.le_iff_toNat_le, h]
  constructor <;> simp <;> omega

theorem digitsValue_append_single (pre : Bytes) (d : UInt8) :
    digitsValue (pre ++ [d]) = digitsValue pre * 10 + (d.toNat - 48) := by
  simp [digitsValue, List.foldl_append]

/-- `pre` is the canonical decimal numeral of `n`: digits only, value `n`, no leading zero (except "0") -/
structure IsDecimal (n : Nat) (pre : Bytes) : Prop where
  digits : pre.all isDigit = true
  value : digitsValue pre = n
  shape : (pre = [48] ∧ n = 0) ∨ (∃ d ds, pre = d :: ds ∧ d ≠ 48 ∧ 0 < n)

theorem natDigitsAux_spec (fuel : Nat) : ∀ (n : Nat) (acc : Bytes), n < fuel →
    ∃ pre, natDigitsAux fuel n acc = pre ++ acc ∧ IsDecimal n pre := by
  induction fuel with
  | zero => intro n acc h; omega
  | succ fuel ih =>
    intro n acc h
    unfold natDigitsAux
    simp only
    by_cases h0 : n / 10 = 0
    · simp only [h0, if_true]
      have hn : n < 10 := by omega
      refine ⟨[digitOf n], by simp [digitOf], ?_⟩
      have hd := digitOf_toNat n
      refine ⟨by simp [digitOf_isDigit], ?_, ?_⟩
      · simp [digitsValue, hd]; omega
      · by_cases hz : n = 0
        · left; subst hz; exact ⟨by decide, rfl⟩
        · right
          refine ⟨digitOf n, [], rfl, ?_, by omega⟩
          intro e
          have : (digitOf n).toNat = 48 := by rw [e]; rfl
          omega
    · simp only [h0, if_false]
      have hlt : n / 10 < fuel := by omega
      obtain ⟨pre, hpre, hdec⟩ := ih (n / 10) (UInt8.ofNat (48 + n % 10) :: acc) hlt
      refine ⟨pre ++ [digitOf n], by rw [hpre]; simp only [digitOf, List.append_assoc, List.singleton_append], ?_⟩
      have hd := digitOf_toNat n
      refine ⟨?_, ?_, ?_⟩
      · simp [List.all_append, hdec.digits, digitOf_isDigit]
      · rw [digitsValue_append_single, hdec.value, hd]; omega
      · right
        rcases hdec.shape with ⟨_, hz⟩ | ⟨d, ds, e, hne, _⟩
        · omega
        · exact ⟨d, ds ++ [digitOf n], by simp [e], hne, by omega⟩

theorem showNat_decimal (n : Nat) : IsDecimal n (showNat n) := by
  obtain ⟨pre, h, hd⟩ := natDigitsAux_spec (n + 1) n [] (by omega)
  unfold showNat
  rw [h]; simpa using hd

theorem decimal_ne_nil {n : Nat} {pre : Bytes} (h : IsDecimal n pre) : pre.isEmpty = false := by
  rcases h.shape with ⟨e, _⟩ | ⟨d, ds, e, _, _⟩ <;> simp [e]

theorem parseUint_decimal (bits n : Nat) (pre : Bytes) (hd : IsDecimal n pre) (h : n < 2 ^ bits) :
    parseUint bits pre = some (n : Int) := by
  simp [parseUint, decimal_ne_nil hd, hd.digits, hd.value, h]

theorem decimal_head {n : Nat} {pre : Bytes} (h : IsDecimal n pre) :
    ∃ d ds, pre = d :: ds ∧ isDigit d = true ∧ ds.all isDigit = true := by
  have hdig := h.digits
  rcases h.shape with ⟨e, _⟩ | ⟨d, ds, e, _, _⟩
  · exact ⟨48, [], e, by decide, by simp⟩
  · subst e
    simp only [List.all_cons, Bool.and_eq_true] at hdig
    exact ⟨d, ds, rfl, hdig.1, hdig.2⟩

theorem isDigit_ne {d : UInt8} (h : isDigit d = true) : (d == 45) = false ∧ (d == 43) = false := by
  simp only [isDigit, Bool.and_eq_true, decide_eq_true_eq, UInt8.le_iff_toNat_le] at h
  have h1 : (48 : UInt8).toNat = 48 := rfl
  constructor <;> (simp; intro e; subst e; simp at h)

theorem parseInt_decimal_pos (bits n : Nat) (pre : Bytes) (hd : IsDecimal n pre) (h : n < 2 ^ (bits - 1)) :
    parseInt bits pre = some (n : Int) := by
  obtain ⟨d, ds, e, hdd, hds⟩ := decimal_head hd
  have hv := hd.value
  subst e
  obtain ⟨e1, e2⟩ := isDigit_ne hdd
  simp only [parseInt]
  have : ¬ (n ≥ 2 ^ (bits - 1)) := by omega
  simp [e1, e2, hdd, hds, hv, this]

theorem parseInt_decimal_neg (bits n : Nat) (pre : Bytes) (hd : IsDecimal n pre) (h : n ≤ 2 ^ (bits - 1)) :
    parseInt bits (45 :: pre) = some (-(n : Int)) := by
  have hne := decimal_ne_nil hd
  have hv := hd.value
  have hg : ¬ (n > 2 ^ (bits - 1)) := by omega
  simp only [parseInt]
  simp [hne, hd.digits, hv, hg]

theorem parseInt_showInt (bits : Nat) (i : Int) (hlo : -(2 ^ (bits - 1) : Int) ≤ i) (hhi : i < (2 ^ (bits - 1) : Int)) :
    parseInt bits (showInt i) = some i := by
  unfold showInt
  have hd := showNat_decimal i.natAbs
  by_cases hneg : i < 0
  · simp only [hneg, if_true]
    have : i.natAbs ≤ 2 ^ (bits - 1) := by
      have : ((i.natAbs : Nat) : Int) ≤ (2 ^ (bits - 1) : Int) := by omega
      exact_mod_cast this
    rw [parseInt_decimal_neg bits _ _ hd this]
    congr 1; omega
  · simp only [hneg, if_false]
    have : i.natAbs < 2 ^ (bits - 1) := by
      have : ((i.natAbs : Nat) : Int) < (2 ^ (bits - 1) : Int) := by omega
      exact_mod_cast this
    rw [parseInt_decimal_pos bits _ _ hd this]
    congr 1; omega

theorem parseUint_showInt (bits : Nat) (i : Int) (hlo : 0 ≤ i) (hhi : i < (2 ^ bits : Int)) :
    parseUint bits (showInt i) = some i := by
  unfold showInt
  have hd := showNat_decimal i.natAbs
  have hneg : ¬ i < 0 := by omega
  simp only [hneg, if_false]
  have : i.natAbs < 2 ^ bits := by
    have : ((i.natAbs : Nat) : Int) < (2 ^ bits : Int) := by omega
    exact_mod_cast this
  rw [parseUint_decimal bits _ _ hd this]
  congr 1; omega

theorem dropWhile_digits (s : Bytes) (h : s.all isDigit = true) : s.dropWhile isDigit = [] := by
  induction s with
  | nil => rfl
  | cons c r ih =>
    simp only [List.all_cons, Bool.and_eq_true] at h
    simp [List.dropWhile, h.1, ih h.2]

theorem isValidNumber_decimal {n : Nat} {pre : Bytes} (hd : IsDecimal n pre) :
    isValidNumber pre = true ∧ isValidNumber (45 :: pre) = true := by
  rcases hd.shape with ⟨e, _⟩ | ⟨d, ds, e, hne, _⟩
  · subst e; exact ⟨by decide, by decide⟩
  · have hdig := hd.digits
    subst e
    simp only [List.all_cons, Bool.and_eq_true] at hdig
    obtain ⟨e1, e2⟩ := isDigit_ne hdig.1
    have e3 : (d == 48) = false := by simpa using hne
    have hr : 49 ≤ d ∧ d ≤ 57 := by
      have := hdig.1
      simp only [isDigit, Bool.and_eq_true, decide_eq_true_eq, UInt8.le_iff_toNat_le] at this ⊢
      have h48 : d.toNat ≠ 48 := by
        intro e; apply hne; exact UInt8.toNat_inj.mp (by simpa using e)
      have a : (48 : UInt8).toNat = 48 := rfl
      have b : (49 : UInt8).toNat = 49 := rfl
      have c : (57 : UInt8).toNat = 57 := rfl
      omega
    have hdw := dropWhile_digits ds hdig.2
    constructor
    · simp [isValidNumber, e1, e3, hr.1, hr.2, hdw]
    · simp [isValidNumber, e3, hr.1, hr.2, hdw]

theorem isValidNumber_showInt (i : Int) : isValidNumber (showInt i) = true := by
  unfold showInt
  have hd := isValidNumber_decimal (showNat_decimal i.natAbs)
  split
  · exact hd.2
  · exact hd.1


/-! ### base64 -/

theorem b64_char (i : Nat) (h : i < 64) :
    b64Dec (b64Enc i) = some i ∧ (b64Enc i == 61) = false ∧ (b64Enc i != 10 && b64Enc i != 13) = true := by
  revert i
  decide

theorem u8_lt (a : UInt8) : a.toNat < 256 := a.toNat_lt

theorem b64Encode_noNewline (b : Bytes) : (b64Encode b).filter (fun c => c != 10 && c != 13) = b64Encode b := by
  fun_induction b64Encode b with
  | case1 => rfl
  | case2 a =>
    have := u8_lt a
    simp [List.filter, (b64_char (a.toNat / 4) (by omega)).2.2, (b64_char (a.toNat % 4 * 16) (by omega)).2.2]
  | case3 a b =>
    have := u8_lt a; have := u8_lt b
    simp [List.filter, (b64_char (a.toNat / 4) (by omega)).2.2, (b64_char (a.toNat % 4 * 16 + b.toNat / 16) (by omega)).2.2,
      (b64_char (b.toNat % 16 * 4) (by omega)).2.2]
  | case4 a b c rest ih =>
    have := u8_lt a; have := u8_lt b; have := u8_lt c
    simp [List.filter, (b64_char (a.toNat / 4) (by omega)).2.2, (b64_char (a.toNat % 4 * 16 + b.toNat / 16) (by omega)).2.2,
      (b64_char (b.toNat % 16 * 4 + c.toNat / 64) (by omega)).2.2, (b64_char (c.toNat % 64) (by omega)).2.2, ih]

theorem ofNat_toNat_eq (a : UInt8) (n : Nat) (h : n = a.toNat) : UInt8.ofNat n = a := by
  subst h; simp

theorem b64DecodeQuads_encode (b : Bytes) : b64DecodeQuads (b64Encode b) = some b := by
  fun_induction b64Encode b with
  | case1 => rfl
  | case2 a =>
    have := u8_lt a
    have h1 := b64_char (a.toNat / 4) (by omega)
    have h2 := b64_char (a.toNat % 4 * 16) (by omega)
    simp only [b64DecodeQuads, List.isEmpty_nil, Bool.true_and, h1.1, h2.1]
    rw [ofNat_toNat_eq a (a.toNat / 4 * 4 + a.toNat % 4 * 16 / 16) (by omega)]
    simp
  | case3 a b =>
    have := u8_lt a; have := u8_lt b
    have h1 := b64_char (a.toNat / 4) (by omega)
    have h2 := b64_char (a.toNat % 4 * 16 + b.toNat / 16) (by omega)
    have h3 := b64_char (b.toNat % 16 * 4) (by omega)
    simp only [b64DecodeQuads, List.isEmpty_nil, Bool.true_and, h1.1, h2.1, h3.1, h3.2.1]
    rw [ofNat_toNat_eq a (a.toNat / 4 * 4 + (a.toNat % 4 * 16 + b.toNat / 16) / 16) (by omega),
      ofNat_toNat_eq b ((a.toNat % 4 * 16 + b.toNat / 16) % 16 * 16 + b.toNat % 16 * 4 / 4) (by omega)]
    simp
  | case4 a b c rest ih =>
    have := u8_lt a; have := u8_lt b; have := u8_lt c
    have h1 := b64_char (a.toNat / 4) (by omega)
    have h2 := b64_char (a.toNat % 4 * 16 + b.toNat / 16) (by omega)
    have h3 := b64_char (b.toNat % 16 * 4 + c.toNat / 64) (by omega)
    have h4 := b64_char (c.toNat % 64) (by omega)
    simp only [b64DecodeQuads, h1.1, h2.1, h3.1, h4.1, h4.2.1, ih, Bool.and_false]
    rw [ofNat_toNat_eq a (a.toNat / 4 * 4 + (a.toNat % 4 * 16 + b.toNat / 16) / 16) (by omega),
      ofNat_toNat_eq b ((a.toNat % 4 * 16 + b.toNat / 16) % 16 * 16 + (b.toNat % 16 * 4 + c.toNat / 64) / 4) (by omega),
      ofNat_toNat_eq c ((b.toNat % 16 * 4 + c.toNat / 64) % 4 * 64 + c.toNat % 64) (by omega)]
    simp

theorem b64Decode_encode (b : Bytes) : b64Decode (b64Encode b) = some b := by
  unfold b64Decode
  rw [b64Encode_noNewline, b64DecodeQuads_encode]


/-! ### read-back of encoded scalars and keys -/

theorem pow31 : (2:Int) ^ (32 - 1) = 2 ^ 31 := by decide
theorem pow63 : (2:Int) ^ (64 - 1) = 2 ^ 63 := by decide

theorem typed_default (k : Kind) : Typed k (defaultOf k) := by
  cases k <;> simp [Typed, defaultOf]

/-- what `marshalScalar` writes for a typed value is read back as that value -/
theorem marshalScalar_reads (ops : FloatOps) (hl : FloatLaws ops) (o : Opts) (k : Kind) (v : Scalar)
    (hn : EnumNamesUnique k) (ht : Typed k v) :
    ∃ j, marshalScalar ops o k v = .ok j ∧ unmarshalScalar ops o k j = .ok (some v) := by
  cases k <;> cases v <;> simp only [Typed] at ht
  · exact ⟨_, rfl, rfl⟩
  · rename_i i
    refine ⟨_, rfl, ?_⟩
    simp [unmarshalScalar, intDecode, jsonNumber, parseInt_showInt 32 i (by rw [pow31]; exact ht.1) (by rw [pow31]; exact ht.2)]
  · rename_i i
    refine ⟨_, rfl, ?_⟩
    simp [unmarshalScalar, intDecode, jsonNumber, parseInt_showInt 64 i (by rw [pow63]; exact ht.1) (by rw [pow63]; exact ht.2)]
  · rename_i i
    refine ⟨_, rfl, ?_⟩
    simp [unmarshalScalar, intDecode, jsonNumber, parseUint_showInt 32 i ht.1 ht.2]
  · rename_i i
    refine ⟨_, rfl, ?_⟩
    simp [unmarshalScalar, intDecode, jsonNumber, parseUint_showInt 64 i ht.1 ht.2]
  · rename_i f
    cases f
    · exact ⟨_, rfl, by simp [unmarshalScalar, hl.nan]⟩
    · exact ⟨_, rfl, by simp [unmarshalScalar, hl.pinf]⟩
    · exact ⟨_, rfl, by simp [unmarshalScalar, hl.ninf]⟩
    · exact ⟨_, rfl, by simp [unmarshalScalar, hl.roundtrip]⟩
  · rename_i f
    cases f
    · exact ⟨_, rfl, by simp [unmarshalScalar, hl.nan]⟩
    · exact ⟨_, rfl, by simp [unmarshalScalar, hl.pinf]⟩
    · exact ⟨_, rfl, by simp [unmarshalScalar, hl.ninf]⟩
    · exact ⟨_, rfl, by simp [unmarshalScalar, hl.roundtrip]⟩
  · exact ⟨_, rfl, rfl⟩
  · rename_i b
    exact ⟨_, rfl, by simp [unmarshalScalar, b64Decode_encode]⟩
  · rename_i vals nv n
    have hp := parseInt_showInt 32 n (by rw [pow31]; exact ht.1) (by rw [pow31]; exact ht.2.1)
    cases nv
    · cases hb : byNumber vals n with
      | none => exact ⟨.num (showInt n), by simp [marshalScalar, hb], by simp [unmarshalScalar, hp]⟩
      | some name =>
        by_cases hen : o.enumNumbers = true
        · exact ⟨.num (showInt n), by simp [marshalScalar, hb, hen], by simp [unmarshalScalar, hp]⟩
        · exact ⟨.str name, by simp [marshalScalar, hb, hen], by simp [unmarshalScalar, hn n name hb]⟩
    · have : n = 0 := ht.2.2 rfl
      subst this
      exact ⟨.null, by simp [marshalScalar], by simp [unmarshalScalar]⟩

/-- what the canonical encoder writes for a typed value is read back as that value -/
theorem canonEncScalar_reads (ops : FloatOps) (hl : FloatLaws ops) (cfmt : Bool → Nat → Bytes)
    (hc : ∀ b bits, ops.parse b (cfmt b bits) = some (.fin bits)) (o : Opts) (k : Kind) (v : Scalar)
    (hn : EnumNamesUnique k) (ht : Typed k v) :
    ∃ j, canonEncScalar cfmt k v = some j ∧ unmarshalScalar ops o k j = .ok (some v) := by
  cases k <;> cases v <;> simp only [Typed] at ht
  · exact ⟨_, rfl, rfl⟩
  · rename_i i
    refine ⟨_, rfl, ?_⟩
    simp [unmarshalScalar, intDecode, jsonNumber, parseInt_showInt 32 i (by rw [pow31]; exact ht.1) (by rw [pow31]; exact ht.2)]
  · rename_i i
    refine ⟨_, rfl, ?_⟩
    simp [unmarshalScalar, intDecode, jsonNumber, isValidNumber_showInt,
      parseInt_showInt 64 i (by rw [pow63]; exact ht.1) (by rw [pow63]; exact ht.2)]
  · rename_i i
    refine ⟨_, rfl, ?_⟩
    simp [unmarshalScalar, intDecode, jsonNumber, parseUint_showInt 32 i ht.1 ht.2]
  · rename_i i
    refine ⟨_, rfl, ?_⟩
    simp [unmarshalScalar, intDecode, jsonNumber, isValidNumber_showInt, parseUint_showInt 64 i ht.1 ht.2]
  · rename_i f
    cases f
    · exact ⟨_, rfl, by simp [unmarshalScalar, hl.nan]⟩
    · exact ⟨_, rfl, by simp [unmarshalScalar, hl.pinf]⟩
    · exact ⟨_, rfl, by simp [unmarshalScalar, hl.ninf]⟩
    · exact ⟨_, rfl, by simp [unmarshalScalar, hc]⟩
  · rename_i f
    cases f
    · exact ⟨_, rfl, by simp [unmarshalScalar, hl.nan]⟩
    · exact ⟨_, rfl, by simp [unmarshalScalar, hl.pinf]⟩
    · exact ⟨_, rfl, by simp [unmarshalScalar, hl.ninf]⟩
    · exact ⟨_, rfl, by simp [unmarshalScalar, hc]⟩
  · exact ⟨_, rfl, rfl⟩
  · rename_i b
    exact ⟨_, rfl, by simp [unmarshalScalar, b64Decode_encode]⟩
  · rename_i vals nv n
    have hp := parseInt_showInt 32 n (by rw [pow31]; exact ht.1) (by rw [pow31]; exact ht.2.1)
    cases nv
    · cases hb : byNumber vals n with
      | none => exact ⟨.num (showInt n), by simp [canonEncScalar, hb], by simp [unmarshalScalar, hp]⟩
      | some name => exact ⟨.str name, by simp [canonEncScalar, hb], by simp [unmarshalScalar, hn n name hb]⟩
    · have : n = 0 := ht.2.2 rfl
      subst this
      exact ⟨.null, by simp [canonEncScalar], by simp [unmarshalScalar]⟩

/-- `MapKey.String()` of a typed key is read back as that key -/
theorem keyString_reads (kk : Kind) (key : Scalar) (hk : isKeyKind kk = true) (ht : Typed kk key) :
    unmarshalMapKey kk (keyString key) = .ok key := by
  cases kk <;> cases key <;> simp only [Typed] at ht <;> simp [isKeyKind] at hk
  · rename_i b; cases b <;> decide
  · rename_i i
    simp [unmarshalMapKey, keyString, parseInt_showInt 32 i (by rw [pow31]; exact ht.1) (by rw [pow31]; exact ht.2)]
  · rename_i i
    simp [unmarshalMapKey, keyString, parseInt_showInt 64 i (by rw [pow63]; exact ht.1) (by rw [pow63]; exact ht.2)]
  · rename_i i
    simp [unmarshalMapKey, keyString, parseUint_showInt 32 i ht.1 ht.2]
  · rename_i i
    simp [unmarshalMapKey, keyString, parseUint_showInt 64 i ht.1 ht.2]
  · simp [unmarshalMapKey, keyString]


/-! ### lifting to lists and maps -/

/-- element-wise relation of two lists (core Lean has no `All₂`) -/
inductive All₂ {α β : Type} (R : α → β → Prop) : List α → List β → Prop where
  | nil : All₂ R [] []
  | cons {a b as bs} : R a b → All₂ R as bs → All₂ R (a :: as) (b :: bs)

/-- `j` is read back as `v` -/
def ReadsV (ops : FloatOps) (o : Opts) (k : Kind) (j : J) (v : Scalar) : Prop :=
  unmarshalScalar ops o k j = .ok (some v)

/-- the member `e` is read back as the entry `p` -/
def ReadsE (ops : FloatOps) (o : Opts) (kk vk : Kind) (e : Bytes × J) (p : Scalar × Scalar) : Prop :=
  unmarshalMapKey kk e.1 = .ok p.1 ∧ unmarshalScalar ops o vk e.2 = .ok (some p.2)

theorem listLoop_reads (ops : FloatOps) (o : Opts) (k : Kind) (js : List J) (xs : List Scalar)
    (h : All₂ (ReadsV ops o k) js xs) : listLoop ops o k js = .ok xs := by
  induction h with
  | nil => rfl
  | cons hx _ ih =>
    unfold listLoop
    unfold ReadsV at hx
    simp [hx, ih, Res.bind, protoStore]

theorem mapLoop_reads (ops : FloatOps) (o : Opts) (kk vk : Kind) (es : List (Bytes × J)) (kvs : List (Scalar × Scalar))
    (h : All₂ (ReadsE ops o kk vk) es kvs) : mapLoop ops o kk vk es = .ok kvs := by
  induction h with
  | nil => rfl
  | @cons e p es' kvs' hx _ ih =>
    obtain ⟨key, raw⟩ := e
    unfold mapLoop
    obtain ⟨h1, h2⟩ := hx
    simp only at h1 h2
    simp [h1, h2, ih, Res.bind, protoStore]

/-- distinct keys have distinct member names (reading the name back is a function) -/
theorem namesUnique_of_reads (ops : FloatOps) (o : Opts) (kk vk : Kind) (es : List (Bytes × J)) (kvs : List (Scalar × Scalar))
    (h : All₂ (ReadsE ops o kk vk) es kvs) (hu : keysUnique kvs = true) : namesUnique es = true := by
  induction h with
  | nil => rfl
  | @cons e p es' kvs' hx hrest ih =>
    obtain ⟨name, raw⟩ := e
    obtain ⟨key, val⟩ := p
    simp only [keysUnique, Bool.and_eq_true, Bool.not_eq_true'] at hu
    simp only [namesUnique, Bool.and_eq_true, Bool.not_eq_true']
    refine ⟨?_, ih hu.2⟩
    -- a later member with the same name would read back as the same key
    rw [Bool.eq_false_iff]
    intro hany
    have hcontra : kvs'.any (fun q => q.1 == key) = true := by
      clear ih hu
      induction hrest with
      | nil => simp at hany
      | @cons e2 p2 es2 kvs2 hx2 _ ih2 =>
        simp only [List.any_cons, Bool.or_eq_true] at hany ⊢
        rcases hany with h1 | h2
        · left
          have : e2.1 = name := by simpa using h1
          have hk1 := hx.1
          have hk2 := hx2.1
          simp only at hk1
          rw [this, hk1] at hk2
          injection hk2 with hk2
          simp [hk2]
        · right; exact ih2 h2
    rw [hu.1] at hcontra
    cases hcontra


theorem marshalListLoop_reads (ops : FloatOps) (hl : FloatLaws ops) (o : Opts) (k : Kind) (hn : EnumNamesUnique k)
    (xs : List Scalar) (ht : ∀ v, v ∈ xs → Typed k v) :
    ∃ js, marshalListLoop ops o k xs = .ok js ∧ All₂ (ReadsV ops o k) js xs := by
  induction xs with
  | nil => exact ⟨[], rfl, .nil⟩
  | cons v vs ih =>
    obtain ⟨j, hj, hr⟩ := marshalScalar_reads ops hl o k v hn (ht v (by simp))
    obtain ⟨js, hjs, hrs⟩ := ih (fun w hw => ht w (by simp [hw]))
    exact ⟨j :: js, by simp [marshalListLoop, hj, hjs, Res.bind], .cons hr hrs⟩

theorem marshalMapLoop_reads (ops : FloatOps) (hl : FloatLaws ops) (o : Opts) (kk k : Kind) (hn : EnumNamesUnique k)
    (hk : isKeyKind kk = true) (kvs : List (Scalar × Scalar)) (ht : ∀ p, p ∈ kvs → Typed kk p.1 ∧ Typed k p.2) :
    ∃ es, marshalMapLoop ops o k kvs = .ok es ∧ All₂ (ReadsE ops o kk k) es kvs := by
  induction kvs with
  | nil => exact ⟨[], rfl, .nil⟩
  | cons p rest ih =>
    obtain ⟨key, v⟩ := p
    have htp := ht (key, v) (by simp)
    obtain ⟨j, hj, hr⟩ := marshalScalar_reads ops hl o k v hn htp.2
    obtain ⟨es, hes, hrs⟩ := ih (fun w hw => ht w (by simp [hw]))
    exact ⟨(keyString key, j) :: es, by simp [marshalMapLoop, hj, hes, Res.bind],
      .cons ⟨keyString_reads kk key hk htp.1, hr⟩ hrs⟩

theorem canonEncList_reads (ops : FloatOps) (hl : FloatLaws ops) (cfmt : Bool → Nat → Bytes)
    (hc : ∀ b bits, ops.parse b (cfmt b bits) = some (.fin bits)) (o : Opts) (k : Kind) (hn : EnumNamesUnique k)
    (xs : List Scalar) (ht : ∀ v, v ∈ xs → Typed k v) :
    ∃ js, canonEncList cfmt k xs = some js ∧ All₂ (ReadsV ops o k) js xs := by
  induction xs with
  | nil => exact ⟨[], rfl, .nil⟩
  | cons v vs ih =>
    obtain ⟨j, hj, hr⟩ := canonEncScalar_reads ops hl cfmt hc o k v hn (ht v (by simp))
    obtain ⟨js, hjs, hrs⟩ := ih (fun w hw => ht w (by simp [hw]))
    exact ⟨j :: js, by simp [canonEncList, hj, hjs], .cons hr hrs⟩

theorem canonEncMap_reads (ops : FloatOps) (hl : FloatLaws ops) (cfmt : Bool → Nat → Bytes)
    (hc : ∀ b bits, ops.parse b (cfmt b bits) = some (.fin bits)) (o : Opts) (kk k : Kind) (hn : EnumNamesUnique k)
    (hk : isKeyKind kk = true) (kvs : List (Scalar × Scalar)) (ht : ∀ p, p ∈ kvs → Typed kk p.1 ∧ Typed k p.2) :
    ∃ es, canonEncMap cfmt k kvs = some es ∧ All₂ (ReadsE ops o kk k) es kvs := by
  induction kvs with
  | nil => exact ⟨[], rfl, .nil⟩
  | cons p rest ih =>
    obtain ⟨key, v⟩ := p
    have htp := ht (key, v) (by simp)
    obtain ⟨j, hj, hr⟩ := canonEncScalar_reads ops hl cfmt hc o k v hn htp.2
    obtain ⟨es, hes, hrs⟩ := ih (fun w hw => ht w (by simp [hw]))
    exact ⟨(keyString key, j) :: es, by simp [canonEncMap, hj, hes],
      .cons ⟨keyString_reads kk key hk htp.1, hr⟩ hrs⟩

/-- decoding a tree whose parts read back as the parts of `f` stores `f` -/
theorem decode_list_reads (ops : FloatOps) (o : Opts) (k : Kind) (js : List J) (xs : List Scalar)
    (h : All₂ (ReadsV ops o k) js xs) : decode ops o .rep k (.arr js) = .ok (.list xs) := by
  simp [decode, unmarshalList, listLoop_reads ops o k js xs h, Res.bind]

theorem decode_map_reads (ops : FloatOps) (o : Opts) (kk k : Kind) (es : List (Bytes × J)) (kvs : List (Scalar × Scalar))
    (h : All₂ (ReadsE ops o kk k) es kvs) (hu : keysUnique kvs = true) :
    decode ops o (.map kk) k (.obj es) = .ok (.map kvs) := by
  have hnu := namesUnique_of_reads ops o kk k es kvs h hu
  simp [decode, unmarshalMap, dedupLast_of_unique es hnu, mapLoop_reads ops o kk k es kvs h, Res.bind]

theorem decode_sing_reads (ops : FloatOps) (o : Opts) (k : Kind) (j : J) (v : Scalar)
    (h : unmarshalScalar ops o k j = .ok (some v)) : decode ops o .sing k j = .ok (.sing (some v)) := by
  simp [decode, unmarshalSingular, h, Res.bind, protoStore]

/-! ### the encoder never faults -/

theorem marshalScalar_ne_panic (ops : FloatOps) (o : Opts) (k : Kind) (v : Scalar) :
    marshalScalar ops o k v ≠ .panic := by
  cases k <;> cases v <;> simp only [marshalScalar] <;> (repeat' split) <;> simp

theorem marshalListLoop_ne_panic (ops : FloatOps) (o : Opts) (k : Kind) (xs : List Scalar) :
    marshalListLoop ops o k xs ≠ .panic := by
  induction xs with
  | nil => simp [marshalListLoop]
  | cons v vs ih =>
    unfold marshalListLoop
    cases h : marshalScalar ops o k v with
    | panic => exact absurd h (marshalScalar_ne_panic ops o k v)
    | err => simp [Res.bind]
    | ok j =>
      cases h2 : marshalListLoop ops o k vs with
      | panic => exact absurd h2 ih
      | err => simp [Res.bind]
      | ok r => simp [Res.bind]

theorem marshalMapLoop_ne_panic (ops : FloatOps) (o : Opts) (k : Kind) (kvs : List (Scalar × Scalar)) :
    marshalMapLoop ops o k kvs ≠ .panic := by
  induction kvs with
  | nil => simp [marshalMapLoop]
  | cons p rest ih =>
    obtain ⟨key, v⟩ := p
    unfold marshalMapLoop
    cases h : marshalScalar ops o k v with
    | panic => exact absurd h (marshalScalar_ne_panic ops o k v)
    | err => simp [Res.bind]
    | ok j =>
      cases h2 : marshalMapLoop ops o k rest with
      | panic => exact absurd h2 ih
      | err => simp [Res.bind]
      | ok r => simp [Res.bind]

theorem encode_ne_panic (ops : FloatOps) (o : Opts) (k : Kind) (f : Field) : encode ops o k f ≠ .panic := by
  cases f with
  | sing v => cases v <;> exact marshalScalar_ne_panic ops o k _
  | list xs =>
    simp only [encode]
    split
    · simp
    · cases h : marshalListLoop ops o k xs with
      | panic => exact absurd h (marshalListLoop_ne_panic ops o k xs)
      | err => simp [Res.bind]
      | ok r => simp [Res.bind]
  | map kvs =>
    simp only [encode]
    split
    · simp
    · cases h : marshalMapLoop ops o k kvs with
      | panic => exact absurd h (marshalMapLoop_ne_panic ops o k kvs)
      | err => simp [Res.bind]
      | ok r => simp [Res.bind]


theorem marshalScalar_total (ops : FloatOps) (o : Opts) (k : Kind) (v : Scalar) (ht : Typed k v) :
    ∃ j, marshalScalar ops o k v = .ok j := by
  cases k <;> cases v <;> simp only [Typed] at ht <;> simp only [marshalScalar] <;> (repeat' split) <;> simp

theorem marshalListLoop_total (ops : FloatOps) (o : Opts) (k : Kind) (xs : List Scalar) (ht : ∀ v, v ∈ xs → Typed k v) :
    ∃ js, marshalListLoop ops o k xs = .ok js := by
  induction xs with
  | nil => exact ⟨[], rfl⟩
  | cons v vs ih =>
    obtain ⟨j, hj⟩ := marshalScalar_total ops o k v (ht v (by simp))
    obtain ⟨js, hjs⟩ := ih (fun w hw => ht w (by simp [hw]))
    exact ⟨j :: js, by simp [marshalListLoop, hj, hjs, Res.bind]⟩

theorem marshalMapLoop_total (ops : FloatOps) (o : Opts) (k : Kind) (kvs : List (Scalar × Scalar))
    (ht : ∀ p, p ∈ kvs → Typed k p.2) : ∃ es, marshalMapLoop ops o k kvs = .ok es := by
  induction kvs with
  | nil => exact ⟨[], rfl⟩
  | cons p rest ih =>
    obtain ⟨key, v⟩ := p
    obtain ⟨j, hj⟩ := marshalScalar_total ops o k v (ht (key, v) (by simp))
    obtain ⟨es, hes⟩ := ih (fun w hw => ht w (by simp [hw]))
    exact ⟨(keyString key, j) :: es, by simp [marshalMapLoop, hj, hes, Res.bind]⟩

theorem byName_of_mem (vals : EnumDesc) (h : namesNodup vals = true) :
    ∀ p, p ∈ vals → byName vals p.1 = some p.2 := by
  induction vals with
  | nil => intro p hp; cases hp
  | cons q rest ih =>
    obtain ⟨nm, num⟩ := q
    simp only [namesNodup, Bool.and_eq_true, Bool.not_eq_true'] at h
    intro p hp
    rcases List.mem_cons.mp hp with e | hm
    · subst e; simp [byName, List.find?]
    · have hne : (nm == p.1) = false := by
        rw [Bool.eq_false_iff]; intro e
        have : rest.any (fun q => q.1 == nm) = true := by
          simp only [List.any_eq_true]
          have e' : nm = p.1 := by simpa using e
          exact ⟨p, hm, by simp [e']⟩
        rw [h.1] at this; cases this
      have := ih h.2 p hm
      simp only [byName, List.find?, hne] at this ⊢
      exact this

theorem enumNamesUnique_of_nodup (vals : EnumDesc) (nv : Bool) (h : namesNodup vals = true) :
    EnumNamesUnique (.enum vals nv) := by
  intro n name hb
  simp only [byNumber] at hb
  cases hf : vals.find? (fun p => p.2 == n) with
  | none => simp [hf] at hb
  | some p =>
    simp [hf] at hb
    have hm := List.mem_of_find?_eq_some hf
    have hp := List.find?_some hf
    have := byName_of_mem vals h p hm
    rw [hb] at this
    rw [this]; simpa using hp


/-! ### streams -/

theorem decodeWithScratch_fresh (ops : FloatOps) (o : Opts) (c : Card) (k : Kind) (j : J) :
    (decodeWithScratch ops o c k [] j).1 = decode ops o c k j := by
  cases c <;> cases j <;> simp [decodeWithScratch, decode, unmarshalMap]

theorem decodeStreamFrom_fresh (ops : FloatOps) (o : Opts) (c : Card) (k : Kind) (js : List J) :
    ∀ scratch, decodeStreamFrom ops o c k true scratch js = js.map (decode ops o c k) := by
  induction js with
  | nil => intro s; rfl
  | cons j rest ih =>
    intro s
    simp only [decodeStreamFrom, if_true, List.map_cons, decodeWithScratch_fresh, ih]

theorem encodeStreamFrom_results (ops : FloatOps) (o : Opts) (k : Kind) (fs : List Field) :
    ∀ written, (encodeStreamFrom ops o k written fs).2 = fs.map (encode ops o k) := by
  induction fs with
  | nil => intro w; rfl
  | cons f rest ih => intro w; simp only [encodeStreamFrom, List.map_cons, ih]

theorem encodeStreamFrom_written (ops : FloatOps) (o : Opts) (k : Kind) (fs : List Field) :
    ∀ written, (encodeStreamFrom ops o k written fs).1 = written ++ okTrees (fs.map (encode ops o k)) := by
  induction fs with
  | nil => intro w; simp [encodeStreamFrom, okTrees]
  | cons f rest ih =>
    intro w
    simp only [encodeStreamFrom, List.map_cons, ih]
    cases encode ops o k f <;> simp [okTrees]


end GB.C09
