import GB.C09.Spec
/- C09 — property theorems. -/
open GB GB.C09

/-- placeholder while the slice is being built -/
theorem C09_placeholder : decode ⟨fun _ _ => none, fun _ _ => []⟩ { discard := true } .sing .bool (.bool true) = .ok (.sing (some (.bool true))) := by
  rfl
