import GB.C09.ProofsRT
import GB.C09.ProofsText
import GB.Generated.Facts
/-
  C09 — property theorems over the model of the field-level JSON codec (GB/C09/Model.lean, the code
  after fixes D9a–D9h) and the canonical proto3 JSON mapping for one field (GB/C09/Spec.lean).
  `ops : FloatOps` is the float environment (strconv.ParseFloat, encoding/json float formatting);
  theorems that depend on it take `FloatLaws ops` as a hypothesis (an instance is given at the end).
-/
open GB GB.C09

/-- No JSON value offered for any scalar-kinded field (singular, repeated, map with any key kind) makes the
    decoder panic — in particular an unknown enum name under DiscardUnknown no longer reaches
    `Set`/`Append` with an invalid `Value`. -/
theorem C09_no_panic (ops : FloatOps) (o : Opts) (c : Card) (k : Kind) (j : J) :
    decode ops o c k j ≠ .panic :=
  decode_ne_panic ops o c k j

/-- Whenever the decoder accepts a JSON value that canonical proto3 JSON parsing also accepts,
    the field reads back the same value (all kinds, all cardinalities, all key kinds, all trees). -/
theorem C09_agrees (ops : FloatOps) (hl : FloatLaws ops) (o : Opts) (c : Card) (k : Kind) (j : J) (f f' : Field)
    (hd : decode ops o c k j = .ok f) (hc : canon ops o c k j = some (.ok f')) :
    f.read k = f'.read k := by
  rcases decode_canon ops hl o c k j _ hc with e | ⟨g, g', e1, e2, e3⟩
  · rw [hd] at e; cases e
  · rw [hd] at e1; injection e1 with e1; injection e2 with e2; subst e1; subst e2; exact e3

/-- Everything canonical proto3 JSON rejects for the field — a value of the wrong JSON type, a fractional or
    out-of-range number, an unknown enum name without DiscardUnknown, a malformed map key — is rejected with
    an error: nothing is coerced or truncated. -/
theorem C09_rejects (ops : FloatOps) (hl : FloatLaws ops) (o : Opts) (c : Card) (k : Kind) (j : J)
    (hc : canon ops o c k j = some .err) : decode ops o c k j = .err := by
  rcases decode_canon ops hl o c k j _ hc with e | ⟨g, g', _, e2, _⟩
  · exact e
  · cases e2

/-- Unknown enum names: skipped (field untouched, element/entry left out) when unknowns are discarded,
    rejected otherwise. -/
theorem C09_enum_unknown (ops : FloatOps) (o : Opts) (vals : EnumDesc) (nv : Bool) (name : Bytes)
    (hu : byName vals name = none) :
    (o.discard = true →
        decode ops o .sing (.enum vals nv) (.str name) = .ok (.sing none) ∧
        decode ops o .rep (.enum vals nv) (.arr [.str name]) = .ok (.list []) ∧
        decode ops o (.map .string) (.enum vals nv) (.obj [([97], .str name)]) = .ok (.map [])) ∧
    (o.discard = false →
        decode ops o .sing (.enum vals nv) (.str name) = .err ∧
        decode ops o .rep (.enum vals nv) (.arr [.str name]) = .err ∧
        decode ops o (.map .string) (.enum vals nv) (.obj [([97], .str name)]) = .err) := by
  constructor <;> intro hd <;>
    simp [decode, unmarshalSingular, unmarshalList, unmarshalMap, listLoop, mapLoop, dedupLast, unmarshalMapKey,
      unmarshalScalar, hu, hd, Res.bind]

/-- Known names (including aliases) decode to their number. -/
theorem C09_enum_known (ops : FloatOps) (o : Opts) (vals : EnumDesc) (nv : Bool) (name : Bytes) (n : Int)
    (hk : byName vals name = some n) :
    decode ops o .sing (.enum vals nv) (.str name) = .ok (.sing (some (.enum n))) := by
  simp [decode, unmarshalSingular, unmarshalScalar, hk, Res.bind, protoStore]

/-- Integer fields: any literal that is not an optionally signed run of digits (a fraction, an exponent) is
    rejected, for numbers and quoted numbers alike; so is every value outside the field's range. -/
theorem C09_int_exact (ops : FloatOps) (o : Opts) (lit : Bytes) (f : Field)
    (h : decode ops o .sing .int32 (.num lit) = .ok f) :
    ∃ n : Int, f = .sing (some (.int n)) ∧ parseInt 32 lit = some n := by
  simp only [decode, unmarshalSingular, unmarshalScalar, intDecode, jsonNumber] at h
  cases hp : parseInt 32 lit with
  | none => simp [hp, Res.bind] at h
  | some n => simp [hp, Res.bind, protoStore] at h; exact ⟨n, h.symm, rfl⟩

/-- `strconv.ParseInt` accepts exactly sign + digits within range: so what is stored is the exact value. -/
theorem C09_parseInt_sound (bits : Nat) (lit : Bytes) (n : Int) (hv : isValidNumber lit = true)
    (h : parseInt bits lit = some n) :
    ∃ neg ds, plainInt lit = some (neg, ds) ∧ n = (if neg then -(digitsValue ds : Int) else digitsValue ds) ∧
      -(2 ^ (bits - 1) : Int) ≤ n ∧ n < (2 ^ (bits - 1) : Int) := by
  have hc := canonIntLit_of_parseInt bits lit n h hv
  unfold canonIntLit at hc
  cases hp : plainInt lit with
  | none =>
    -- parseInt accepted, so the literal is plain
    cases lit with
    | nil => simp [parseInt] at h
    | cons c rest =>
      by_cases h45 : c = 45
      · subst h45
        simp only [parseInt] at h; simp at h
        have hall : rest.all isDigit = true := by simpa [List.all_eq_true] using h.2.1
        have hne : rest.isEmpty = false := by cases rest <;> simp_all
        simp [plainInt, hall, hne] at hp
      · by_cases h43 : c = 43
        · subst h43; rw [isValidNumber_plus] at hv; cases hv
        · have e1 : (c == 45) = false := by simpa using h45
          have e2 : (c == 43) = false := by simpa using h43
          simp only [parseInt] at h; simp [e1, e2] at h
          have hall : rest.all isDigit = true := by simpa [List.all_eq_true] using h.1.2
          simp [plainInt, e1, hall, h.1.1] at hp
  | some p =>
    obtain ⟨neg, ds⟩ := p
    refine ⟨neg, ds, rfl, ?_⟩
    simp only [hp] at hc
    have hX : (0:Int) < 2 ^ (bits - 1) := Int.pow_pos (by decide)
    cases neg <;> simp at hc
    · split at hc
      · injection hc with hc; injection hc with hc; injection hc with hc; injection hc with hc
        rename_i hr
        have hr' : (digitsValue ds : Int) < (2:Int) ^ (bits - 1) := by exact_mod_cast hr
        refine ⟨by simp [← hc], ?_, ?_⟩ <;> omega
      · cases hc
    · split at hc
      · injection hc with hc; injection hc with hc; injection hc with hc; injection hc with hc
        rename_i hr
        have hr' : (digitsValue ds : Int) ≤ (2:Int) ^ (bits - 1) := by exact_mod_cast hr
        refine ⟨by simp [← hc], ?_, ?_⟩ <;> omega
      · cases hc

/-! ### what the fixes removed (kernel-checked witnesses on the pre-fix model) -/

/-- D9a: before the fix, `1.5` and `1e2` became 0, 2^40 into int32 became 0, `-1` into uint32 became 2^32−1,
    2^64−1 into uint64 became 2^63−1; now all are rejected, and the canonical mapping rejects them or
    (for `1e2`) reads 100. -/
theorem C09_prefix_integers_coerced :
    intDecodePreFix true 32 (.num [49, 46, 53]) = .ok (some (.int 0)) ∧                 -- 1.5
    intDecodePreFix true 32 (.num [49, 101, 50]) = .ok (some (.int 0)) ∧                -- 1e2
    intDecodePreFix true 32 (.num [49,48,57,57,53,49,49,54,50,55,55,55,54]) = .ok (some (.int 0)) ∧   -- 2^40
    intDecodePreFix false 32 (.num [45, 49]) = .ok (some (.int 4294967295)) ∧            -- -1
    intDecodePreFix false 64 (.num [49,56,52,52,54,55,52,52,48,55,51,55,48,57,53,53,49,54,49,53])
      = .ok (some (.int 9223372036854775807)) ∧                                           -- 2^64-1
    intDecode (parseInt 32) (.num [49, 46, 53]) = .err ∧
    intDecode (parseInt 32) (.num [49, 101, 50]) = .err ∧
    intDecode (parseInt 32) (.num [49,48,57,57,53,49,49,54,50,55,55,55,54]) = .err ∧
    intDecode (parseUint 32) (.num [45, 49]) = .err ∧
    intDecode (parseUint 64) (.num [49,56,52,52,54,55,52,52,48,55,51,55,48,57,53,53,49,54,49,53])
      = .ok (some (.int 18446744073709551615)) := by
  decide

/-- D9c: before the fix, an unknown enum name under DiscardUnknown reached `Message.Set` with an invalid
    Value (panic); now the field is skipped. -/
theorem C09_prefix_unknown_enum_panics (ops : FloatOps) :
    unmarshalSingularPreFix ops { discard := true } (.enum [([65], 0)] false) (.str [66]) = .panic ∧
    unmarshalSingular ops { discard := true } (.enum [([65], 0)] false) (.str [66]) = .ok (.sing none) := by
  constructor <;> rfl

/-! ### encode → decode round trip -/

/-- the value has the type of the field and is representable: enum numbers of NullValue are 0 (its only value) -/
def C09_Typed : Kind → Scalar → Prop
  | .bool, .bool _ => True
  | .float, .flt _ | .double, .flt _ => True
  | .string, .str _ => True
  | .enum vals nv, .enum n => (nv = true → n = 0) ∧ (nv = false → byNumber vals n = none → parseInt 32 (showInt n) = some n)
  | _, _ => False

/-- names of an enum are unique (protodesc enforces it): looking up the name found for a number gives the number back -/
def C09_NamesUnique (vals : EnumDesc) : Prop :=
  ∀ n name, byNumber vals n = some name → byName vals name = some n

/-- Round trip for singular bool, float, double (incl. NaN, ±Infinity — fix D9e), string and enum fields:
    marshalling never fails and decoding the result stores the value again.
    PARTIAL: integer and bytes kinds additionally need `parseInt (showInt i) = i` and
    `b64Decode (b64Encode b) = b` for all i, b, which are validated by the differential run
    (and by the instances below) but not yet proved for all inputs; lists and maps follow element-wise. -/
theorem C09_roundtrip_partial (ops : FloatOps) (hl : FloatLaws ops) (o : Opts) (k : Kind) (v : Scalar)
    (ht : C09_Typed k v) (hn : ∀ vals nv, k = .enum vals nv → C09_NamesUnique vals) (hen : o.enumNumbers = false) :
    ∃ j, encode ops o k (.sing (some v)) = .ok j ∧
      (decode ops o .sing k j).bind (fun f => .ok (f.read k)) = .ok (.sing (some v)) := by
  cases k <;> cases v <;> simp only [C09_Typed] at ht
  · exact ⟨_, rfl, rfl⟩
  · rename_i f
    cases f
    · exact ⟨_, rfl, by simp [decode, unmarshalSingular, unmarshalScalar, hl.nan, Res.bind, protoStore, Field.read]⟩
    · exact ⟨_, rfl, by simp [decode, unmarshalSingular, unmarshalScalar, hl.pinf, Res.bind, protoStore, Field.read]⟩
    · exact ⟨_, rfl, by simp [decode, unmarshalSingular, unmarshalScalar, hl.ninf, Res.bind, protoStore, Field.read]⟩
    · exact ⟨_, rfl, by simp [decode, unmarshalSingular, unmarshalScalar, hl.roundtrip, Res.bind, protoStore, Field.read]⟩
  · rename_i f
    cases f
    · exact ⟨_, rfl, by simp [decode, unmarshalSingular, unmarshalScalar, hl.nan, Res.bind, protoStore, Field.read]⟩
    · exact ⟨_, rfl, by simp [decode, unmarshalSingular, unmarshalScalar, hl.pinf, Res.bind, protoStore, Field.read]⟩
    · exact ⟨_, rfl, by simp [decode, unmarshalSingular, unmarshalScalar, hl.ninf, Res.bind, protoStore, Field.read]⟩
    · exact ⟨_, rfl, by simp [decode, unmarshalSingular, unmarshalScalar, hl.roundtrip, Res.bind, protoStore, Field.read]⟩
  · exact ⟨_, rfl, rfl⟩
  · rename_i vals nv n
    cases nv
    · cases hb : byNumber vals n with
      | none =>
        refine ⟨.num (showInt n), by simp [encode, marshalScalar, hb], ?_⟩
        simp [decode, unmarshalSingular, unmarshalScalar, ht.2 rfl hb, Res.bind, protoStore, Field.read]
      | some name =>
        refine ⟨.str name, by simp [encode, marshalScalar, hb, hen], ?_⟩
        simp [decode, unmarshalSingular, unmarshalScalar, hn vals false rfl n name hb, Res.bind, protoStore, Field.read]
    · have : n = 0 := ht.1 rfl
      subst this
      exact ⟨.null, by simp [encode, marshalScalar], by simp [decode, unmarshalSingular, unmarshalScalar, Res.bind, protoStore, Field.read]⟩

/-- instances of the two facts the partial round trip leaves open, at the boundaries -/
example : parseInt 64 (showInt (-9223372036854775808)) = some (-9223372036854775808) := by decide
example : parseUint 64 (showInt 18446744073709551615) = some 18446744073709551615 := by decide
example : parseInt 32 (showInt 2147483647) = some 2147483647 := by decide
example : b64Decode (b64Encode [0, 255, 16, 97]) = some [0, 255, 16, 97] := by decide
example : b64Decode (b64Encode [251, 255]) = some [251, 255] := by decide

/-! ### full round trip, canonical acceptance, encoder totality -/

/-- the two facts the partial round trip left open, for every input -/
theorem C09_parseInt_showInt (bits : Nat) (i : Int)
    (hlo : -(2 ^ (bits - 1) : Int) ≤ i) (hhi : i < (2 ^ (bits - 1) : Int)) : parseInt bits (showInt i) = some i :=
  parseInt_showInt bits i hlo hhi

theorem C09_parseUint_showInt (bits : Nat) (i : Int) (hlo : 0 ≤ i) (hhi : i < (2 ^ bits : Int)) :
    parseUint bits (showInt i) = some i :=
  parseUint_showInt bits i hlo hhi

theorem C09_b64_roundtrip (b : Bytes) : b64Decode (b64Encode b) = some b :=
  b64Decode_encode b

/-- **Round trip, all kinds and cardinalities.** For every typed field value — singular (set or unset), repeated,
    map with every key kind; bool, int32/64, uint32/64 (incl. 2^63..2^64−1), float/double (incl. NaN, ±Infinity),
    string, bytes, enum (known, alias, unknown number, NullValue) — marshalling succeeds and decoding the result
    into a fresh message makes the field read back exactly the value. Holds for any marshal options
    (enum names or numbers, with or without emitted defaults). -/
theorem C09_roundtrip (ops : FloatOps) (hl : FloatLaws ops) (o : Opts) (c : Card) (k : Kind) (f : Field)
    (hn : EnumNamesUnique k) (ht : FieldTyped c k f) :
    ∃ j, encode ops o k f = .ok j ∧ ∃ g, decode ops o c k j = .ok g ∧ g.read k = f.read k := by
  cases c with
  | sing =>
    cases f with
    | sing v =>
      cases v with
      | some v =>
        obtain ⟨j, hj, hr⟩ := marshalScalar_reads ops hl o k v hn ht
        exact ⟨j, hj, _, decode_sing_reads ops o k j v hr, rfl⟩
      | none =>
        obtain ⟨j, hj, hr⟩ := marshalScalar_reads ops hl o k (defaultOf k) hn (typed_default k)
        exact ⟨j, hj, _, decode_sing_reads ops o k j _ hr, rfl⟩
    | list xs => exact absurd ht (by simp [FieldTyped])
    | map kvs => exact absurd ht (by simp [FieldTyped])
  | rep =>
    cases f with
    | sing v => cases v <;> exact absurd ht (by simp [FieldTyped])
    | map kvs => exact absurd ht (by simp [FieldTyped])
    | list xs =>
      simp only [FieldTyped] at ht
      by_cases he : (xs.isEmpty && !o.emitDefaults) = true
      · have hx : xs = [] := by
          simp only [Bool.and_eq_true, List.isEmpty_iff] at he; exact he.1
        subst hx
        have hed : o.emitDefaults = false := by simpa using he
        exact ⟨.null, by simp [encode, hed], _, rfl, rfl⟩
      · obtain ⟨js, hjs, hr⟩ := marshalListLoop_reads ops hl o k hn xs ht
        exact ⟨.arr js, by simp [encode, he, hjs, Res.bind], _, decode_list_reads ops o k js xs hr, rfl⟩
  | map kk =>
    cases f with
    | sing v => cases v <;> exact absurd ht (by simp [FieldTyped])
    | list xs => exact absurd ht (by simp [FieldTyped])
    | map kvs =>
      simp only [FieldTyped] at ht
      obtain ⟨hk, hty, hu⟩ := ht
      by_cases he : (kvs.isEmpty && !o.emitDefaults) = true
      · have hx : kvs = [] := by
          simp only [Bool.and_eq_true, List.isEmpty_iff] at he; exact he.1
        subst hx
        have hed : o.emitDefaults = false := by simpa using he
        exact ⟨.null, by simp [encode, hed], _, rfl, rfl⟩
      · obtain ⟨es, hes, hr⟩ := marshalMapLoop_reads ops hl o kk k hn hk kvs hty
        exact ⟨.obj es, by simp [encode, he, hes, Res.bind], _, decode_map_reads ops o kk k es kvs hr hu, rfl⟩

/-- **The decoder accepts everything the canonical proto3 JSON encoder emits** (`canonEncode`, Spec.lean: 64-bit
    integers as strings, 32-bit as numbers, enum names, padded std base64, "NaN"/"Infinity"/"-Infinity", map keys
    as strings) and stores exactly the encoded value — all kinds, singular / repeated / map with every key kind.
    `cfmt` is the canonical encoder's float formatter; `hc` says its output parses back (shortest round-trip). -/
theorem C09_accepts_canonical (ops : FloatOps) (hl : FloatLaws ops) (cfmt : Bool → Nat → Bytes)
    (hc : ∀ b bits, ops.parse b (cfmt b bits) = some (.fin bits)) (o : Opts) (c : Card) (k : Kind) (f : Field)
    (hn : EnumNamesUnique k) (ht : FieldTyped c k f) :
    ∃ j, canonEncode cfmt k f = some j ∧ ∃ g, decode ops o c k j = .ok g ∧ g.read k = f.read k := by
  cases c with
  | sing =>
    cases f with
    | sing v =>
      cases v with
      | some v =>
        obtain ⟨j, hj, hr⟩ := canonEncScalar_reads ops hl cfmt hc o k v hn ht
        exact ⟨j, hj, _, decode_sing_reads ops o k j v hr, rfl⟩
      | none =>
        obtain ⟨j, hj, hr⟩ := canonEncScalar_reads ops hl cfmt hc o k (defaultOf k) hn (typed_default k)
        exact ⟨j, hj, _, decode_sing_reads ops o k j _ hr, rfl⟩
    | list xs => exact absurd ht (by simp [FieldTyped])
    | map kvs => exact absurd ht (by simp [FieldTyped])
  | rep =>
    cases f with
    | sing v => cases v <;> exact absurd ht (by simp [FieldTyped])
    | map kvs => exact absurd ht (by simp [FieldTyped])
    | list xs =>
      simp only [FieldTyped] at ht
      obtain ⟨js, hjs, hr⟩ := canonEncList_reads ops hl cfmt hc o k hn xs ht
      exact ⟨.arr js, by simp [canonEncode, hjs], _, decode_list_reads ops o k js xs hr, rfl⟩
  | map kk =>
    cases f with
    | sing v => cases v <;> exact absurd ht (by simp [FieldTyped])
    | list xs => exact absurd ht (by simp [FieldTyped])
    | map kvs =>
      simp only [FieldTyped] at ht
      obtain ⟨hk, hty, hu⟩ := ht
      obtain ⟨es, hes, hr⟩ := canonEncMap_reads ops hl cfmt hc o kk k hn hk kvs hty
      exact ⟨.obj es, by simp [canonEncode, hes], _, decode_map_reads ops o kk k es kvs hr hu, rfl⟩

/-- The encoder never panics, for any value (typed or not), kind and options. -/
theorem C09_encode_no_panic (ops : FloatOps) (o : Opts) (k : Kind) (f : Field) : encode ops o k f ≠ .panic :=
  encode_ne_panic ops o k f

/-- Encoder totality: every typed field value is marshalled (no float environment laws needed — in particular
    NaN and ±Infinity no longer fail); an error can only come from a value outside the field's typed domain. -/
theorem C09_encode_total (ops : FloatOps) (o : Opts) (c : Card) (k : Kind) (f : Field) (ht : FieldTyped c k f) :
    ∃ j, encode ops o k f = .ok j := by
  cases c <;> cases f <;> simp only [FieldTyped] at ht
  · rename_i v
    cases v with
    | some v => exact marshalScalar_total ops o k v ht
    | none => exact marshalScalar_total ops o k _ (typed_default k)
  · rename_i xs
    obtain ⟨js, hjs⟩ := marshalListLoop_total ops o k xs ht
    simp only [encode]
    split
    · exact ⟨_, rfl⟩
    · exact ⟨.arr js, by simp [hjs, Res.bind]⟩
  · rename_i kk kvs
    obtain ⟨es, hes⟩ := marshalMapLoop_total ops o k kvs (fun p hp => (ht.2.1 p hp).2)
    simp only [encode]
    split
    · exact ⟨_, rfl⟩
    · exact ⟨.obj es, by simp [hes, Res.bind]⟩

theorem C09_encode_error_untyped (ops : FloatOps) (o : Opts) (c : Card) (k : Kind) (f : Field)
    (he : encode ops o k f = .err) : ¬ FieldTyped c k f := by
  intro ht
  obtain ⟨j, hj⟩ := C09_encode_total ops o c k f ht
  rw [hj] at he; cases he

/-- the enum-name hypothesis of the round-trip theorems follows from what protodesc validates: distinct names -/
theorem C09_enum_names_unique (vals : EnumDesc) (nv : Bool) (h : namesNodup vals = true) :
    EnumNamesUnique (.enum vals nv) :=
  enumNamesUnique_of_nodup vals nv h

/-! ### streams: one Decoder / Encoder for a sequence of bodies -/

/-- The stream decoder (one `jsonDecoder` for the whole stream, each body into a fresh message) yields exactly the
    single-shot results, body by body: nothing is carried over from one body to the next. -/
theorem C09_stream_is_map (ops : FloatOps) (o : Opts) (c : Card) (k : Kind) (js : List J) :
    decodeStream ops o c k js = js.map (decode ops o c k) :=
  decodeStreamFrom_fresh ops o c k js []

/-- The i-th result of a stream depends only on the i-th body (not on the bodies before or after it). -/
theorem C09_stream_stateless (ops : FloatOps) (o : Opts) (c : Card) (k : Kind) (js : List J) (i : Nat) :
    (decodeStream ops o c k js)[i]? = (js[i]?).map (decode ops o c k) := by
  rw [C09_stream_is_map]; simp

/-- …so two streams that agree at position i give the same i-th result, whatever precedes it. -/
theorem C09_stream_prefix_irrelevant (ops : FloatOps) (o : Opts) (c : Card) (k : Kind) (pre pre' : List J) (j : J)
    (rest rest' : List J) :
    (decodeStream ops o c k (pre ++ j :: rest))[pre.length]? = (decodeStream ops o c k (pre' ++ j :: rest'))[pre'.length]? := by
  simp [C09_stream_stateless]

/-- Hence every per-body theorem (`C09_agrees`, `C09_rejects`, `C09_no_panic`, …) holds for every element of a stream. -/
theorem C09_stream_no_panic (ops : FloatOps) (o : Opts) (c : Card) (k : Kind) (js : List J) :
    ∀ r, r ∈ decodeStream ops o c k js → r ≠ .panic := by
  intro r hr
  rw [C09_stream_is_map] at hr
  obtain ⟨j, _, e⟩ := List.mem_map.mp hr
  rw [← e]; exact decode_ne_panic ops o c k j

/-- What statelessness rests on: the map the object is decoded into is a local of `unmarshalMap`. A decoder that
    keeps it between calls (`fresh = false`; encoding/json decodes an object INTO an existing map) stores the
    entries of earlier bodies again: `{"a":"x"}` then `{"b":"y"}` then `{}`. -/
theorem C09_stream_reused_map_leaks (ops : FloatOps) (o : Opts) :
    decodeStreamFrom ops o (.map .string) .string false []
        [.obj [([97], .str [120])], .obj [([98], .str [121])], .obj []] =
      [.ok (.map [(.str [97], .str [120])]),
       .ok (.map [(.str [97], .str [120]), (.str [98], .str [121])]),
       .ok (.map [(.str [97], .str [120]), (.str [98], .str [121])])] ∧
    decodeStream ops o (.map .string) .string
        [.obj [([97], .str [120])], .obj [([98], .str [121])], .obj []] =
      [.ok (.map [(.str [97], .str [120])]), .ok (.map [(.str [98], .str [121])]), .ok (.map [])] := by
  constructor <;> rfl

/-- The stream encoder returns for every value exactly what `Marshal` returns, and the writer receives the
    successful encodings in order — no state between values. -/
theorem C09_encode_stream_stateless (ops : FloatOps) (o : Opts) (k : Kind) (fs : List Field) :
    (encodeStream ops o k fs).2 = fs.map (encode ops o k) ∧
    (encodeStream ops o k fs).1 = okTrees (fs.map (encode ops o k)) := by
  constructor
  · exact encodeStreamFrom_results ops o k fs []
  · have := encodeStreamFrom_written ops o k fs []
    simpa [encodeStream] using this

/-! ### the JSON text layer (Text.lean): reader `parseJSON`, renderer `renderCompact` -/

/-- **The reader reads back what the renderer wrote**: for every value tree whose number literals are JSON numbers,
    `parseJSON (renderCompact j)` is one value and no rest, and the value is `j` up to the one normalisation the
    text layer performs: `sanitize` replaces, in strings and member names, every byte that is not part of a
    well-formed UTF-8 sequence by U+FFFD (the renderer writes `\ufffd` for it). Member order, repeated names,
    number literals and everything else are kept verbatim. -/
theorem C09_parse_render (j : J) (hv : numsValid j = true) :
    parseJSON (renderCompact j) = some (sanitize j, []) :=
  parseJSON_render j hv

/-- …and on trees whose strings are valid UTF-8 (proto3 strings are) there is no normalisation at all. -/
theorem C09_parse_render_exact (j : J) (hv : numsValid j = true) (hs : strsValid j = true) :
    parseJSON (renderCompact j) = some (j, []) := by
  rw [C09_parse_render j hv, sanitize_valid j hs]

theorem C09_sanitize_valid_utf8 (s : Bytes) (h : validUtf8 s = true) : sanStr s = s :=
  sanStr_valid s h

/-- More generally the rendered value is read back in front of any text that cannot continue it (`,`, `]`, `}`, end):
    this is what makes concatenated / newline-separated records readable one by one. -/
theorem C09_parse_render_then (j : J) (rest : Bytes) (hv : numsValid j = true) (hs : stopB rest = true) (fuel : Nat)
    (hf : (renderCompact j).length ≤ fuel) :
    parseValue fuel (renderCompact j ++ rest) = some (sanitize j, rest) :=
  parseValue_render j fuel rest hv (Nat.le_trans (cost_le j hv) hf) hs

/-- **A compact JSON record contains no raw line feed or carriage return** — in fact no byte below 0x20 at all:
    every control character inside strings and member names is escaped, the structural output has no white space,
    number literals consist of digits, sign, `.`, `e`, `E`. (Hypothesis: number literals are JSON numbers — true for
    everything the encoder writes, `C09_encode_numbers_valid`.) -/
theorem C09_render_no_raw_newline (j : J) (hv : numsValid j = true) :
    (10 : UInt8) ∉ renderCompact j ∧ (13 : UInt8) ∉ renderCompact j := by
  have h := render_noCtl j hv
  constructor <;> (intro hm; have := h _ hm; revert this; decide)

theorem C09_render_no_control (j : J) (hv : numsValid j = true) : ∀ b, b ∈ renderCompact j → 32 ≤ b :=
  render_noCtl j hv

/-- a rendered value never starts with a space (or any white space) -/
theorem C09_render_head (j : J) (hv : numsValid j = true) :
    ∃ c t, renderCompact j = c :: t ∧ c ≠ 32 ∧ isWS c = false := by
  obtain ⟨c, t, e, hc⟩ := render_head j hv
  exact ⟨c, t, e, (start_facts hc).2.2.2.2.1, (start_facts hc).1⟩

/-- every number literal the field encoder writes is a JSON number, provided the float formatter's output is
    (integers are written by `strconv.FormatInt`: `validNum (showInt i)` for all `i`) -/
theorem C09_encode_numbers_valid (ops : FloatOps) (hf : ∀ b bits, validNum (ops.fmt b bits) = true) (o : Opts) (k : Kind)
    (f : Field) (j : J) (h : encode ops o k f = .ok j) : numsValid j = true :=
  encode_numsValid ops hf o k f j h

/-- Text-level round trip: the bytes the encoder writes for a typed field value are read by the reader as the tree
    the encoder built (up to `sanitize`), which `decode` turns back into the value (`C09_roundtrip`). -/
theorem C09_text_roundtrip (ops : FloatOps) (hf : ∀ b bits, validNum (ops.fmt b bits) = true) (o : Opts) (k : Kind)
    (f : Field) (j : J) (h : encode ops o k f = .ok j) :
    parseJSON (renderCompact j) = some (sanitize j, []) ∧ (10 : UInt8) ∉ renderCompact j :=
  ⟨C09_parse_render j (C09_encode_numbers_valid ops hf o k f j h),
   (C09_render_no_raw_newline j (C09_encode_numbers_valid ops hf o k f j h)).1⟩

/-- the reader on texts the renderer never writes: white space, all escapes, surrogate pairs, lone surrogates,
    invalid UTF-8, repeated names, trailing text, errors -/
example : parseJSON [32, 10, 123, 34, 97, 34, 58, 91, 49, 44, 32, 116, 114, 117, 101, 93, 44, 34, 97, 34, 58, 110, 117, 108, 108, 125, 120]
    = some (.obj [([97], .arr [.num [49], .bool true]), ([97], .null)], [120]) := by rfl   -- ` \n{"a":[1, true],"a":null}x`
example : parseJSON [34, 92, 117, 100, 56, 51, 100, 92, 117, 100, 101, 48, 48, 34] = some (.str [240, 159, 152, 128], []) := by rfl  -- "\ud83d\ude00"
example : parseJSON [34, 92, 117, 100, 56, 48, 48, 120, 255, 34] = some (.str [239, 191, 189, 120, 239, 191, 189], []) := by rfl    -- lone surrogate, 0xff
example : parseJSON [49, 120] = some (.num [49], [120]) := by rfl                      -- 1x
example : parseJSON [48, 49] = some (.num [48], [49]) := by rfl                        -- 01
example : parseJSON [91, 48, 49, 93] = none := by rfl                                  -- [01]
example : parseJSON [91, 49, 44, 93] = none := by rfl                                  -- [1,]
example : parseJSON [34, 10, 34] = none := by rfl                                      -- raw LF in a string
example : parseJSON [34, 92, 39, 34] = none := by rfl                                  -- "\'"
example : parseJSON [49, 46] = none := by rfl                                          -- 1.
example : renderCompact (.obj [([60, 10], .arr [.str [226, 128, 168, 255, 1]])])
    = [123, 34, 92, 117, 48, 48, 51, 99, 92, 110, 34, 58, 91, 34, 92, 117, 50, 48, 50, 56, 92, 117, 102, 102, 102, 100, 92, 117, 48, 48, 48, 49, 34, 93, 125] := by rfl

/-! ### glue: the codec has no history, the configuration reaches every entry point -/

/-- **The codec is history-free.** A marshaler is a function of (options, the resolver it is handed, the value):
    the results of a sequence of uses — single-shot or through stream encoders/decoders, over any number of
    targets and descriptor versions — are the use-wise results. -/
theorem C09_codec_history_free (us : List CodecUse) :
    runUses us = us.map fun u => encodeAny u.res u.val := by
  unfold runUses
  generalize (none : Option Resolver) = st
  induction us generalizing st with
  | nil => rfl
  | cons u rest ih => simp [runUsesFrom, ih]

/-- …so the i-th result depends on the i-th use only, whatever was encoded or decoded before it. -/
theorem C09_codec_use_independent (us : List CodecUse) (i : Nat) :
    (runUses us)[i]? = (us[i]?).map fun u => encodeAny u.res u.val := by
  rw [C09_codec_history_free]; simp

/-- with the resolver of the value's own target (it knows the type, with all the fields that are set) nothing is lost -/
theorem C09_codec_own_resolver_lossless (res : Resolver) (a : AnyVal) (n : Nat)
    (hk : res.find? (fun p => p.1 == a.typ) = some (a.typ, n)) (hf : ∀ f ∈ a.fields, f < n) :
    encodeAny res a = .ok a := by
  have : a.fields.filter (· < n) = a.fields := List.filter_eq_self.mpr (by simpa using hf)
  simp [encodeAny, hk, this]

/-- Negative witness (kernel-checked): a marshaler that caches a copy of itself bound to the resolver of its FIRST
    stream. Stream for target X (knows type 1 with 2 fields), then a stream for target Y whose body carries an Any
    of type 2, unknown to X: "unable to resolve". And after X's descriptor gained a field (3 fields), the new
    field is silently dropped. The code's sequence gives the values back. -/
theorem C09_cached_resolver_depends_on_history :
    runUsesFrom true none [⟨true, [(1, 2)], ⟨1, [0, 1]⟩⟩, ⟨true, [(2, 2)], ⟨2, [0, 1]⟩⟩] = [.ok ⟨1, [0, 1]⟩, .err] ∧
    runUsesFrom true none [⟨true, [(1, 2)], ⟨1, [0, 1]⟩⟩, ⟨true, [(1, 3)], ⟨1, [0, 1, 2]⟩⟩] = [.ok ⟨1, [0, 1]⟩, .ok ⟨1, [0, 1]⟩] ∧
    runUses [⟨true, [(1, 2)], ⟨1, [0, 1]⟩⟩, ⟨true, [(2, 2)], ⟨2, [0, 1]⟩⟩] = [.ok ⟨1, [0, 1]⟩, .ok ⟨2, [0, 1]⟩] ∧
    runUses [⟨true, [(1, 2)], ⟨1, [0, 1]⟩⟩, ⟨true, [(1, 3)], ⟨1, [0, 1, 2]⟩⟩] = [.ok ⟨1, [0, 1]⟩, .ok ⟨1, [0, 1, 2]⟩] := by
  decide

/-- **Unknown handling follows the configuration on every entry point**: with the root constructor's wiring the
    decoded body is `decode` under the DiscardUnknown of the marshaler the configuration selects for the request
    (`pickDiscard`) — the entry point (plain HTTP, streamed HTTP, SSE, WebSocket) is not an input. -/
theorem C09_unknown_handling_follows_config (ops : FloatOps) (cfg : BridgeCfg) (e : Entry) (ct : Bool) (c : Card) (k : Kind) (j : J) :
    entryDecode ops (rootWiring cfg) e ct c k j = decode ops { discard := pickDiscard cfg ct } c k j := by
  cases e <;> rfl

theorem C09_entry_points_agree (ops : FloatOps) (cfg : BridgeCfg) (e e' : Entry) (ct : Bool) (c : Card) (k : Kind) (j : J) :
    entryDecode ops (rootWiring cfg) e ct c k j = entryDecode ops (rootWiring cfg) e' ct c k j := by
  rw [C09_unknown_handling_follows_config, C09_unknown_handling_follows_config]

/-- in particular a strict configuration rejects an unknown enum name on every entry point, a lenient one skips it -/
theorem C09_entry_unknown_enum (ops : FloatOps) (e : Entry) (vals : EnumDesc) (name : Bytes) (hu : byName vals name = none) :
    entryDecode ops (rootWiring ⟨some false, none⟩) e true .sing (.enum vals false) (.str name) = .err ∧
    entryDecode ops (rootWiring ⟨none, none⟩) e true .sing (.enum vals false) (.str name) = .ok (.sing none) := by
  rw [C09_unknown_handling_follows_config, C09_unknown_handling_follows_config]
  have h := C09_enum_unknown ops
  exact ⟨((h { discard := false } vals false name hu).2 rfl).1, ((h { discard := true } vals false name hu).1 rfl).1⟩

/-- Negative witness: a constructor that does not hand the transcoder to the WebSocket bridge — strict over HTTP,
    but the same body is accepted and the unknown name skipped over WebSocket. -/
theorem C09_dropped_ws_transcoder_ignores_config (ops : FloatOps) :
    entryDecode ops (droppedWsWiring ⟨some false, none⟩) .http true .sing (.enum [([65], 0)] false) (.str [66]) = .err ∧
    entryDecode ops (droppedWsWiring ⟨some false, none⟩) .ws true .sing (.enum [([65], 0)] false) (.str [66]) = .ok (.sing none) := by
  constructor <;> rfl

/-- FACTS (regenerated by go/ast from the sources on every run): package transcoding has no package-level map,
    sync.* value, channel or pointer besides the documented exported default marshaler; `NewEncoder` / `NewDecoder`
    build the codec from their receiver and arguments only (a struct literal, plus `json.NewDecoder` on the reader) —
    no call of another method, no package-level variable; `NewWebBridge` builds one StandardTranscoder and passes it
    to both transcoded bridge handlers (the premise of `rootWiring`). -/
theorem C09_facts_package_state :
    GB.Generated.c09TranscodingPackageVars =
      [("transcoding/http.go:acceptHeader", "other"), ("transcoding/http.go:contentTypeHeader", "other"),
       ("transcoding/json.go:DefaultJSONMarshaler", "ptrMarshaler"), ("transcoding/json.go:nullJson", "slice")] := by
  decide

theorem C09_facts_no_shared_codec_state :
    (GB.Generated.c09TranscodingPackageVars.filter fun p =>
        p.2 == "map" || p.2 == "sync" || p.2 == "chan" || p.2 == "pointer" || p.2 == "ptrMarshaler").map (·.1)
      = ["transcoding/json.go:DefaultJSONMarshaler"] := by
  decide

theorem C09_facts_codec_constructors :
    GB.Generated.c09NewEncoderRefs = ["lit:jsonEncoder"] ∧
    GB.Generated.c09NewDecoderRefs = ["call:json.NewDecoder", "lit:jsonDecoder"] := by
  decide

theorem C09_facts_bridge_wiring :
    GB.Generated.c09BridgeTranscoderSites =
      ["webbridge.TranscodedHTTPBridgeOpts:transcoder", "webbridge.TranscodedWebSocketBridgeOpts:transcoder"] ∧
    GB.Generated.c09BridgeTranscoderCount = 1 := by
  decide

/-! ### non-vacuity: a float environment satisfying the laws; canonical values are accepted -/

/-- toy float environment: finite values are written as their bit pattern in decimal and read back -/
def C09_toyOps : FloatOps where
  parse := fun _ s =>
    if s = strNaN then some .nan else if s = strInf then some .pinf else if s = strNegInf then some .ninf
    else if s.all isDigit && !s.isEmpty && showNat (digitsValue s) = s then some (.fin (digitsValue s)) else none
  fmt := fun _ b => showNat b

example : decode C09_toyOps { discard := true } .sing .double (.str strNaN) = .ok (.sing (some (.flt .nan))) := by decide
example : decode C09_toyOps { discard := true } (.map .bool) .int64 (.obj [(strTrue, .str [45, 53])])
    = .ok (.map [(.bool true, .int (-5))]) := by decide
example : canon C09_toyOps { discard := true } (.map .bool) .int64 (.obj [(strTrue, .str [45, 53])])
    = some (.ok (.map [(.bool true, .int (-5))])) := by decide
example : canon C09_toyOps { discard := false } .sing .uint32 (.num [45, 49]) = some .err := by decide
example : canon C09_toyOps { discard := false } .sing .int32 (.num [49, 46, 53]) = some .err := by decide
example : canon C09_toyOps { discard := false } .sing .int32 (.num [49, 101, 50]) = some (.ok (.sing (some (.int 100)))) := by decide
example : decode C09_toyOps { discard := false } .sing .bytes (.arr [.num [49]]) = .err := by decide

/-- the toy environment satisfies the laws (the hypotheses of the round-trip theorems are satisfiable) -/
theorem C09_toyOps_laws : FloatLaws C09_toyOps := by
  refine ⟨fun _ => rfl, fun _ => rfl, fun _ => rfl, ?_⟩
  intro b bits
  have hd := showNat_decimal bits
  have hne := decimal_ne_nil hd
  have h1 : showNat bits ≠ strNaN := by
    intro e; have := hd.digits; rw [e] at this; revert this; decide
  have h2 : showNat bits ≠ strInf := by
    intro e; have := hd.digits; rw [e] at this; revert this; decide
  have h3 : showNat bits ≠ strNegInf := by
    intro e; have := hd.digits; rw [e] at this; revert this; decide
  simp [C09_toyOps, h1, h2, h3, hd.value]
  exact ⟨by simpa [List.all_eq_true] using hd.digits, by intro e; simp [e] at hne⟩

example : ∃ j, encode C09_toyOps { discard := true } .uint64 (.map [(.bool true, .int 18446744073709551615)]) = .ok j ∧
    ∃ g, decode C09_toyOps { discard := true } (.map .bool) .uint64 j = .ok g ∧
      g.read .uint64 = (Field.map [(.bool true, .int 18446744073709551615)]).read .uint64 :=
  C09_roundtrip C09_toyOps C09_toyOps_laws _ (.map .bool) .uint64 _ trivial
    ⟨rfl, by intro p hp; simp at hp; subst hp; exact ⟨trivial, by decide, by decide⟩, rfl⟩
example : canonEncode C09_toyOps.fmt .int64 (.list [.int (-9223372036854775808)])
    = some (.arr [.str [45,57,50,50,51,51,55,50,48,51,54,56,53,52,55,55,53,56,48,56]]) := by rfl
example : encode C09_toyOps { discard := true } .double (.list [.flt .nan, .flt .ninf])
    = .ok (.arr [.str strNaN, .str strNegInf]) := by rfl
