import GB.C09.Proofs
/-
  C09 — property theorems over the model of the field-level JSON codec (GB/C09/Model.lean, the code
  after fixes D9a–D9h) and the canonical proto3 JSON mapping for one field (GB/C09/Spec.lean).
  `ops : FloatOps` is the float environment (strconv.ParseFloat, encoding/json float formatting);
  theorems that depend on it take `FloatLaws ops` as a hypothesis (an instance is given at the end).
-/
open GB GB.C09

/-- No JSON value offered for any scalar-kinded field (singular, repeated, map with any key kind) makes the
    decoder panic — in particular an unknown enum name under DiscardUnknown no longer reaches
    `Set`/`Append` with an invalid `Value`. -/
theorem C09_no_panic (ops : FloatOps) (o : Opts) (c : Card) (k : Kind) (j : J) :
    decode ops o c k j ≠ .panic :=
  decode_ne_panic ops o c k j

/-- Whenever the decoder accepts a JSON value that canonical proto3 JSON parsing also accepts,
    the field reads back the same value (all kinds, all cardinalities, all key kinds, all trees). -/
theorem C09_agrees (ops : FloatOps) (hl : FloatLaws ops) (o : Opts) (c : Card) (k : Kind) (j : J) (f f' : Field)
    (hd : decode ops o c k j = .ok f) (hc : canon ops o c k j = some (.ok f')) :
    f.read k = f'.read k := by
  rcases decode_canon ops hl o c k j _ hc with e | ⟨g, g', e1, e2, e3⟩
  · rw [hd] at e; cases e
  · rw [hd] at e1; injection e1 with e1; injection e2 with e2; subst e1; subst e2; exact e3

/-- Everything canonical proto3 JSON rejects for the field — a value of the wrong JSON type, a fractional or
    out-of-range number, an unknown enum name without DiscardUnknown, a malformed map key — is rejected with
    an error: nothing is coerced or truncated. -/
theorem C09_rejects (ops : FloatOps) (hl : FloatLaws ops) (o : Opts) (c : Card) (k : Kind) (j : J)
    (hc : canon ops o c k j = some .err) : decode ops o c k j = .err := by
  rcases decode_canon ops hl o c k j _ hc with e | ⟨g, g', _, e2, _⟩
  · exact e
  · cases e2

/-- Unknown enum names: skipped (field untouched, element/entry left out) when unknowns are discarded,
    rejected otherwise. -/
theorem C09_enum_unknown (ops : FloatOps) (o : Opts) (vals : EnumDesc) (nv : Bool) (name : Bytes)
    (hu : byName vals name = none) :
    (o.discard = true →
        decode ops o .sing (.enum vals nv) (.str name) = .ok (.sing none) ∧
        decode ops o .rep (.enum vals nv) (.arr [.str name]) = .ok (.list []) ∧
        decode ops o (.map .string) (.enum vals nv) (.obj [([97], .str name)]) = .ok (.map [])) ∧
    (o.discard = false →
        decode ops o .sing (.enum vals nv) (.str name) = .err ∧
        decode ops o .rep (.enum vals nv) (.arr [.str name]) = .err ∧
        decode ops o (.map .string) (.enum vals nv) (.obj [([97], .str name)]) = .err) := by
  constructor <;> intro hd <;>
    simp [decode, unmarshalSingular, unmarshalList, unmarshalMap, listLoop, mapLoop, dedupLast, unmarshalMapKey,
      unmarshalScalar, hu, hd, Res.bind]

/-- Known names (including aliases) decode to their number. -/
theorem C09_enum_known (ops : FloatOps) (o : Opts) (vals : EnumDesc) (nv : Bool) (name : Bytes) (n : Int)
    (hk : byName vals name = some n) :
    decode ops o .sing (.enum vals nv) (.str name) = .ok (.sing (some (.enum n))) := by
  simp [decode, unmarshalSingular, unmarshalScalar, hk, Res.bind, protoStore]

/-- Integer fields: any literal that is not an optionally signed run of digits (a fraction, an exponent) is
    rejected, for numbers and quoted numbers alike; so is every value outside the field's range. -/
theorem C09_int_exact (ops : FloatOps) (o : Opts) (lit : Bytes) (f : Field)
    (h : decode ops o .sing .int32 (.num lit) = .ok f) :
    ∃ n : Int, f = .sing (some (.int n)) ∧ parseInt 32 lit = some n := by
  simp only [decode, unmarshalSingular, unmarshalScalar, intDecode, jsonNumber] at h
  cases hp : parseInt 32 lit with
  | none => simp [hp, Res.bind] at h
  | some n => simp [hp, Res.bind, protoStore] at h; exact ⟨n, h.symm, rfl⟩

/-- `strconv.ParseInt` accepts exactly sign + digits within range: so what is stored is the exact value. -/
theorem C09_parseInt_sound (bits : Nat) (lit : Bytes) (n : Int) (hv : isValidNumber lit = true)
    (h : parseInt bits lit = some n) :
    ∃ neg ds, plainInt lit = some (neg, ds) ∧ n = (if neg then -(digitsValue ds : Int) else digitsValue ds) ∧
      -(2 ^ (bits - 1) : Int) ≤ n ∧ n < (2 ^ (bits - 1) : Int) := by
  have hc := canonIntLit_of_parseInt bits lit n h hv
  unfold canonIntLit at hc
  cases hp : plainInt lit with
  | none =>
    -- parseInt accepted, so the literal is plain
    cases lit with
    | nil => simp [parseInt] at h
    | cons c rest =>
      by_cases h45 : c = 45
      · subst h45
        simp only [parseInt] at h; simp at h
        have hall : rest.all isDigit = true := by simpa [List.all_eq_true] using h.2.1
        have hne : rest.isEmpty = false := by cases rest <;> simp_all
        simp [plainInt, hall, hne] at hp
      · by_cases h43 : c = 43
        · subst h43; rw [isValidNumber_plus] at hv; cases hv
        · have e1 : (c == 45) = false := by simpa using h45
          have e2 : (c == 43) = false := by simpa using h43
          simp only [parseInt] at h; simp [e1, e2] at h
          have hall : rest.all isDigit = true := by simpa [List.all_eq_true] using h.1.2
          simp [plainInt, e1, hall, h.1.1] at hp
  | some p =>
    obtain ⟨neg, ds⟩ := p
    refine ⟨neg, ds, rfl, ?_⟩
    simp only [hp] at hc
    have hX : (0:Int) < 2 ^ (bits - 1) := Int.pow_pos (by decide)
    cases neg <;> simp at hc
    · split at hc
      · injection hc with hc; injection hc with hc; injection hc with hc; injection hc with hc
        rename_i hr
        have hr' : (digitsValue ds : Int) < (2:Int) ^ (bits - 1) := by exact_mod_cast hr
        refine ⟨by simp [← hc], ?_, ?_⟩ <;> omega
      · cases hc
    · split at hc
      · injection hc with hc; injection hc with hc; injection hc with hc; injection hc with hc
        rename_i hr
        have hr' : (digitsValue ds : Int) ≤ (2:Int) ^ (bits - 1) := by exact_mod_cast hr
        refine ⟨by simp [← hc], ?_, ?_⟩ <;> omega
      · cases hc

/-! ### what the fixes removed (kernel-checked witnesses on the pre-fix model) -/

/-- D9a: before the fix, `1.5` and `1e2` became 0, 2^40 into int32 became 0, `-1` into uint32 became 2^32−1,
    2^64−1 into uint64 became 2^63−1; now all are rejected, and the canonical mapping rejects them or
    (for `1e2`) reads 100. -/
theorem C09_prefix_integers_coerced :
    intDecodePreFix true 32 (.num [49, 46, 53]) = .ok (some (.int 0)) ∧                 -- 1.5
    intDecodePreFix true 32 (.num [49, 101, 50]) = .ok (some (.int 0)) ∧                -- 1e2
    intDecodePreFix true 32 (.num [49,48,57,57,53,49,49,54,50,55,55,55,54]) = .ok (some (.int 0)) ∧   -- 2^40
    intDecodePreFix false 32 (.num [45, 49]) = .ok (some (.int 4294967295)) ∧            -- -1
    intDecodePreFix false 64 (.num [49,56,52,52,54,55,52,52,48,55,51,55,48,57,53,53,49,54,49,53])
      = .ok (some (.int 9223372036854775807)) ∧                                           -- 2^64-1
    intDecode (parseInt 32) (.num [49, 46, 53]) = .err ∧
    intDecode (parseInt 32) (.num [49, 101, 50]) = .err ∧
    intDecode (parseInt 32) (.num [49,48,57,57,53,49,49,54,50,55,55,55,54]) = .err ∧
    intDecode (parseUint 32) (.num [45, 49]) = .err ∧
    intDecode (parseUint 64) (.num [49,56,52,52,54,55,52,52,48,55,51,55,48,57,53,53,49,54,49,53])
      = .ok (some (.int 18446744073709551615)) := by
  decide

/-- D9c: before the fix, an unknown enum name under DiscardUnknown reached `Message.Set` with an invalid
    Value (panic); now the field is skipped. -/
theorem C09_prefix_unknown_enum_panics (ops : FloatOps) :
    unmarshalSingularPreFix ops { discard := true } (.enum [([65], 0)] false) (.str [66]) = .panic ∧
    unmarshalSingular ops { discard := true } (.enum [([65], 0)] false) (.str [66]) = .ok (.sing none) := by
  constructor <;> rfl

/-! ### encode → decode round trip -/

/-- the value has the type of the field and is representable: enum numbers of NullValue are 0 (its only value) -/
def C09_Typed : Kind → Scalar → Prop
  | .bool, .bool _ => True
  | .float, .flt _ | .double, .flt _ => True
  | .string, .str _ => True
  | .enum vals nv, .enum n => (nv = true → n = 0) ∧ (nv = false → byNumber vals n = none → parseInt 32 (showInt n) = some n)
  | _, _ => False

/-- names of an enum are unique (protodesc enforces it): looking up the name found for a number gives the number back -/
def C09_NamesUnique (vals : EnumDesc) : Prop :=
  ∀ n name, byNumber vals n = some name → byName vals name = some n

/-- Round trip for singular bool, float, double (incl. NaN, ±Infinity — fix D9e), string and enum fields:
    marshalling never fails and decoding the result stores the value again.
    PARTIAL: integer and bytes kinds additionally need `parseInt (showInt i) = i` and
    `b64Decode (b64Encode b) = b` for all i, b, which are validated by the differential run
    (and by the instances below) but not yet proved for all inputs; lists and maps follow element-wise. -/
theorem C09_roundtrip_partial (ops : FloatOps) (hl : FloatLaws ops) (o : Opts) (k : Kind) (v : Scalar)
    (ht : C09_Typed k v) (hn : ∀ vals nv, k = .enum vals nv → C09_NamesUnique vals) (hen : o.enumNumbers = false) :
    ∃ j, encode ops o k (.sing (some v)) = .ok j ∧
      (decode ops o .sing k j).bind (fun f => .ok (f.read k)) = .ok (.sing (some v)) := by
  cases k <;> cases v <;> simp only [C09_Typed] at ht
  · exact ⟨_, rfl, rfl⟩
  · rename_i f
    cases f
    · exact ⟨_, rfl, by simp [decode, unmarshalSingular, unmarshalScalar, hl.nan, Res.bind, protoStore, Field.read]⟩
    · exact ⟨_, rfl, by simp [decode, unmarshalSingular, unmarshalScalar, hl.pinf, Res.bind, protoStore, Field.read]⟩
    · exact ⟨_, rfl, by simp [decode, unmarshalSingular, unmarshalScalar, hl.ninf, Res.bind, protoStore, Field.read]⟩
    · exact ⟨_, rfl, by simp [decode, unmarshalSingular, unmarshalScalar, hl.roundtrip, Res.bind, protoStore, Field.read]⟩
  · rename_i f
    cases f
    · exact ⟨_, rfl, by simp [decode, unmarshalSingular, unmarshalScalar, hl.nan, Res.bind, protoStore, Field.read]⟩
    · exact ⟨_, rfl, by simp [decode, unmarshalSingular, unmarshalScalar, hl.pinf, Res.bind, protoStore, Field.read]⟩
    · exact ⟨_, rfl, by simp [decode, unmarshalSingular, unmarshalScalar, hl.ninf, Res.bind, protoStore, Field.read]⟩
    · exact ⟨_, rfl, by simp [decode, unmarshalSingular, unmarshalScalar, hl.roundtrip, Res.bind, protoStore, Field.read]⟩
  · exact ⟨_, rfl, rfl⟩
  · rename_i vals nv n
    cases nv
    · cases hb : byNumber vals n with
      | none =>
        refine ⟨.num (showInt n), by simp [encode, marshalScalar, hb], ?_⟩
        simp [decode, unmarshalSingular, unmarshalScalar, ht.2 rfl hb, Res.bind, protoStore, Field.read]
      | some name =>
        refine ⟨.str name, by simp [encode, marshalScalar, hb, hen], ?_⟩
        simp [decode, unmarshalSingular, unmarshalScalar, hn vals false rfl n name hb, Res.bind, protoStore, Field.read]
    · have : n = 0 := ht.1 rfl
      subst this
      exact ⟨.null, by simp [encode, marshalScalar], by simp [decode, unmarshalSingular, unmarshalScalar, Res.bind, protoStore, Field.read]⟩

/-- instances of the two facts the partial round trip leaves open, at the boundaries -/
example : parseInt 64 (showInt (-9223372036854775808)) = some (-9223372036854775808) := by decide
example : parseUint 64 (showInt 18446744073709551615) = some 18446744073709551615 := by decide
example : parseInt 32 (showInt 2147483647) = some 2147483647 := by decide
example : b64Decode (b64Encode [0, 255, 16, 97]) = some [0, 255, 16, 97] := by decide
example : b64Decode (b64Encode [251, 255]) = some [251, 255] := by decide

/-! ### non-vacuity: a float environment satisfying the laws; canonical values are accepted -/

/-- toy float environment: finite values are written as their bit pattern in decimal and read back -/
def C09_toyOps : FloatOps where
  parse := fun _ s =>
    if s = strNaN then some .nan else if s = strInf then some .pinf else if s = strNegInf then some .ninf
    else if s.all isDigit && !s.isEmpty && showNat (digitsValue s) = s then some (.fin (digitsValue s)) else none
  fmt := fun _ b => showNat b

example : decode C09_toyOps { discard := true } .sing .double (.str strNaN) = .ok (.sing (some (.flt .nan))) := by decide
example : decode C09_toyOps { discard := true } (.map .bool) .int64 (.obj [(strTrue, .str [45, 53])])
    = .ok (.map [(.bool true, .int (-5))]) := by decide
example : canon C09_toyOps { discard := true } (.map .bool) .int64 (.obj [(strTrue, .str [45, 53])])
    = some (.ok (.map [(.bool true, .int (-5))])) := by decide
example : canon C09_toyOps { discard := false } .sing .uint32 (.num [45, 49]) = some .err := by decide
example : canon C09_toyOps { discard := false } .sing .int32 (.num [49, 46, 53]) = some .err := by decide
example : canon C09_toyOps { discard := false } .sing .int32 (.num [49, 101, 50]) = some (.ok (.sing (some (.int 100)))) := by decide
example : decode C09_toyOps { discard := false } .sing .bytes (.arr [.num [49]]) = .err := by decide
