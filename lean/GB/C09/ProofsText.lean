import GB.C09.Text
import GB.C09.ProofsRT
/-
  C09 — lemmas about the JSON text layer (Text.lean): the renderer writes no control character,
  the reader reads back what the renderer wrote.
-/
namespace GB.C09

set_option linter.unusedSimpArgs false
set_option linter.unusedVariables false

/-! ### the renderer writes no byte below 0x20 (in particular no raw LF / CR) -/

/-- no control character -/
def noCtl (bs : Bytes) : Prop := ∀ b, b ∈ bs → 32 ≤ b

theorem noCtl_nil : noCtl [] := by intro b hb; cases hb

theorem noCtl_cons {c : UInt8} {bs : Bytes} (hc : 32 ≤ c) (h : noCtl bs) : noCtl (c :: bs) := by
  intro b hb
  rcases List.mem_cons.mp hb with e | e
  · subst e; exact hc
  · exact h b e

theorem noCtl_append {as bs : Bytes} (ha : noCtl as) (hb : noCtl bs) : noCtl (as ++ bs) := by
  intro b h
  rcases List.mem_append.mp h with e | e
  · exact ha b e
  · exact hb b e

theorem noCtl_of_all {bs : Bytes} (h : bs.all (fun b => decide (32 ≤ b)) = true) : noCtl bs := by
  intro b hb
  have := List.all_eq_true.mp h b hb
  simpa using this

theorem escAscii_noCtl_nat : ∀ n, n < 128 → (escAscii (UInt8.ofNat n)).all (fun b => decide (32 ≤ b)) = true := by
  decide

theorem escAscii_noCtl (c : UInt8) (h : c < 128) : noCtl (escAscii c) := by
  have hn : c.toNat < 128 := by simpa [UInt8.lt_iff_toNat_lt] using h
  have := escAscii_noCtl_nat c.toNat hn
  rw [UInt8.ofNat_toNat] at this
  exact noCtl_of_all this

theorem ge128 {c : UInt8} (h : ¬ c < 128) : 32 ≤ c := by
  simp only [UInt8.lt_iff_toNat_lt, UInt8.le_iff_toNat_le] at *
  have a : (128 : UInt8).toNat = 128 := rfl
  have b : (32 : UInt8).toNat = 32 := rfl
  omega

theorem isCont_ge {b : UInt8} (h : isCont b = true) : 32 ≤ b := by
  simp only [isCont, Bool.and_eq_true, decide_eq_true_eq, UInt8.le_iff_toNat_le] at *
  have a : (128 : UInt8).toNat = 128 := rfl
  have b' : (32 : UInt8).toNat = 32 := rfl
  omega

/-! characterisation of `utf8Len` -/

theorem utf8Len_eq2 {c : UInt8} {rest : Bytes} (h : utf8Len c rest = 2) :
    ∃ b1 r, rest = b1 :: r ∧ valid2 c b1 = true := by
  match rest, h with
  | [], h => simp [utf8Len] at h
  | [b1], h => by_cases v : valid2 c b1 = true <;> simp [utf8Len, v] at h; exact ⟨b1, [], rfl, v⟩
  | [b1, b2], h =>
    by_cases v : valid2 c b1 = true
    · exact ⟨b1, [b2], rfl, v⟩
    · by_cases w : valid3 c b1 b2 = true <;> simp [utf8Len, v, w] at h
  | b1 :: b2 :: b3 :: r, h =>
    by_cases v : valid2 c b1 = true
    · exact ⟨b1, b2 :: b3 :: r, rfl, v⟩
    · by_cases w : valid3 c b1 b2 = true <;> by_cases x : valid4 c b1 b2 b3 = true <;> simp [utf8Len, v, w, x] at h

theorem utf8Len_eq3 {c : UInt8} {rest : Bytes} (h : utf8Len c rest = 3) :
    ∃ b1 b2 r, rest = b1 :: b2 :: r ∧ valid3 c b1 b2 = true := by
  match rest, h with
  | [], h => simp [utf8Len] at h
  | [b1], h => by_cases v : valid2 c b1 = true <;> simp [utf8Len, v] at h
  | [b1, b2], h =>
    by_cases v : valid2 c b1 = true
    · simp [utf8Len, v] at h
    · by_cases w : valid3 c b1 b2 = true
      · exact ⟨b1, b2, [], rfl, w⟩
      · simp [utf8Len, v, w] at h
  | b1 :: b2 :: b3 :: r, h =>
    by_cases v : valid2 c b1 = true
    · simp [utf8Len, v] at h
    · by_cases w : valid3 c b1 b2 = true
      · exact ⟨b1, b2, b3 :: r, rfl, w⟩
      · by_cases x : valid4 c b1 b2 b3 = true <;> simp [utf8Len, v, w, x] at h

theorem utf8Len_eq4 {c : UInt8} {rest : Bytes} (h : utf8Len c rest = 4) :
    ∃ b1 b2 b3 r, rest = b1 :: b2 :: b3 :: r ∧ valid4 c b1 b2 b3 = true := by
  match rest, h with
  | [], h => simp [utf8Len] at h
  | [b1], h => by_cases v : valid2 c b1 = true <;> simp [utf8Len, v] at h
  | [b1, b2], h =>
    by_cases v : valid2 c b1 = true <;> by_cases w : valid3 c b1 b2 = true <;> simp [utf8Len, v, w] at h
  | b1 :: b2 :: b3 :: r, h =>
    by_cases v : valid2 c b1 = true
    · simp [utf8Len, v] at h
    · by_cases w : valid3 c b1 b2 = true
      · simp [utf8Len, v, w] at h
      · by_cases x : valid4 c b1 b2 b3 = true
        · exact ⟨b1, b2, b3, r, rfl, x⟩
        · simp [utf8Len, v, w, x] at h

macro "u8arith" : tactic => `(tactic| (
  simp only [valid2, valid3, valid4, isCont, Bool.and_eq_true, Bool.or_eq_true, decide_eq_true_eq, beq_iff_eq, bne_iff_ne,
    UInt8.le_iff_toNat_le, UInt8.lt_iff_toNat_lt, ← UInt8.toNat_inj, Bool.not_eq_true, Bool.and_eq_false_iff, decide_eq_false_iff_not] at *
  <;> simp at * <;> omega))

theorem valid2_facts {c b1 : UInt8} (h : valid2 c b1 = true) : 128 ≤ c ∧ 128 ≤ b1 := by u8arith

theorem valid3_facts {c b1 b2 : UInt8} (h : valid3 c b1 b2 = true) :
    224 ≤ c ∧ c ≤ 239 ∧ 128 ≤ b1 ∧ 128 ≤ b2 := by
  by_cases h1 : c = 224
  · subst h1; u8arith
  · by_cases h2 : c = 237
    · subst h2; u8arith
    · simp only [valid3] at h
      have e1 : (c == 224) = false := by simpa using h1
      have e2 : (c == 237) = false := by simpa using h2
      simp only [e1, e2] at h
      u8arith

theorem valid4_facts {c b1 b2 b3 : UInt8} (h : valid4 c b1 b2 b3 = true) :
    240 ≤ c ∧ 128 ≤ b1 ∧ 128 ≤ b2 ∧ 128 ≤ b3 := by
  by_cases h1 : c = 240
  · subst h1; u8arith
  · by_cases h2 : c = 244
    · subst h2; u8arith
    · simp only [valid4] at h
      have e1 : (c == 240) = false := by simpa using h1
      have e2 : (c == 244) = false := by simpa using h2
      simp only [e1, e2] at h
      u8arith

theorem not_valid2_of_ge {c x : UInt8} (h : 224 ≤ c) : valid2 c x = false := by
  rw [Bool.eq_false_iff]; intro hv; u8arith

theorem not_valid3_of_ge {c x y : UInt8} (h : 240 ≤ c) : valid3 c x y = false := by
  rw [Bool.eq_false_iff]; intro hv
  have := valid3_facts hv
  u8arith


theorem utf8Len_of_valid2 {c b1 : UInt8} (r : Bytes) (h : valid2 c b1 = true) : utf8Len c (b1 :: r) = 2 := by
  match r with
  | [] => simp [utf8Len, h]
  | [_] => simp [utf8Len, h]
  | _ :: _ :: _ => simp [utf8Len, h]

theorem utf8Len_of_valid3 {c b1 b2 : UInt8} (r : Bytes) (h : valid3 c b1 b2 = true) : utf8Len c (b1 :: b2 :: r) = 3 := by
  have h2 : valid2 c b1 = false := not_valid2_of_ge (valid3_facts h).1
  match r with
  | [] => simp [utf8Len, h, h2]
  | _ :: _ => simp [utf8Len, h, h2]

theorem utf8Len_of_valid4 {c b1 b2 b3 : UInt8} (r : Bytes) (h : valid4 c b1 b2 b3 = true) :
    utf8Len c (b1 :: b2 :: b3 :: r) = 4 := by
  have hf := valid4_facts h
  have h2 : valid2 c b1 = false := not_valid2_of_ge (by have := hf.1; u8arith)
  have h3 : valid3 c b1 b2 = false := not_valid3_of_ge hf.1
  simp [utf8Len, h, h2, h3]

theorem escStr_noCtl (s : Bytes) : noCtl (escStr s) := by
  fun_induction escStr s with
  | case1 => exact noCtl_nil
  | case2 c rest hc ih => exact noCtl_append (escAscii_noCtl c hc) ih
  | case3 c hc b1 r1 n hn ih =>
    obtain ⟨b1', r', e, hv⟩ := utf8Len_eq2 hn
    injection e with e1 e2; subst e1
    have hf := valid2_facts hv
    exact noCtl_cons (ge128 hc) (noCtl_cons (by have := hf.2; u8arith) ih)
  | case4 => exact noCtl_nil
  | case5 c hc b1 b2 r2 h226 n hn2 hn ih =>
    refine noCtl_append ?_ ih
    have hb : b2 = 168 ∨ b2 = 169 := by
      simp only [Bool.and_eq_true, Bool.or_eq_true, beq_iff_eq] at h226; exact h226.2
    rcases hb with e | e <;> subst e <;> (apply noCtl_of_all; decide)
  | case6 c hc b1 b2 r2 h226 n hn2 hn ih =>
    obtain ⟨b1', b2', r', e, hv⟩ := utf8Len_eq3 hn
    injection e with e1 e2; injection e2 with e2 e3; subst e1; subst e2
    have hf := valid3_facts hv
    exact noCtl_cons (ge128 hc) (noCtl_cons (by have := hf.2.2.1; u8arith) (noCtl_cons (by have := hf.2.2.2; u8arith) ih))
  | case7 => exact noCtl_nil
  | case8 c hc b1 b2 b3 r3 n hn2 hn3 hn ih =>
    obtain ⟨b1', b2', b3', r', e, hv⟩ := utf8Len_eq4 hn
    injection e with e1 e2; injection e2 with e2 e3; injection e3 with e3 e4; subst e1; subst e2; subst e3
    have hf := valid4_facts hv
    exact noCtl_cons (ge128 hc) (noCtl_cons (by have := hf.2.1; u8arith)
      (noCtl_cons (by have := hf.2.2.1; u8arith) (noCtl_cons (by have := hf.2.2.2; u8arith) ih)))
  | case9 => exact noCtl_nil
  | case10 c r hc n h2 h3 h4 ih => exact noCtl_append (by apply noCtl_of_all; decide) ih

/-! ### number literals -/

/-- the bytes a number literal can consist of -/
def numChar (c : UInt8) : Bool := isDigit c || c == 45 || c == 43 || c == 46 || c == 101 || c == 69

theorem digit_numChar {c : UInt8} (h : isDigit c = true) : numChar c = true := by simp [numChar, h]

theorem dropWhile_split (s : Bytes) : ∃ p, s = p ++ s.dropWhile isDigit ∧ p.all numChar = true := by
  induction s with
  | nil => exact ⟨[], rfl, rfl⟩
  | cons c r ih =>
    by_cases h : isDigit c = true
    · obtain ⟨p, e, hp⟩ := ih
      refine ⟨c :: p, ?_, by simp [digit_numChar h, hp]⟩
      simp only [List.dropWhile, h, List.cons_append]
      rw [← e]
    · exact ⟨[], by simp [List.dropWhile, h], rfl⟩

/-- every stage consumes a prefix made of number characters -/
theorem numExp_prefix {s t : Bytes} (h : numExp s = some t) : ∃ p, s = p ++ t ∧ p.all numChar = true := by
  cases s with
  | nil => simp [numExp] at h; subst h; exact ⟨[], rfl, rfl⟩
  | cons e r =>
    simp only [numExp] at h
    by_cases he : (e == 101 || e == 69) = true
    · simp only [he, if_true] at h
      have hen : numChar e = true := by
        simp only [Bool.or_eq_true, beq_iff_eq] at he
        rcases he with e1 | e1 <;> subst e1 <;> decide
      -- optional sign
      cases r with
      | nil => simp at h
      | cons c r' =>
        by_cases hs : (c == 43 || c == 45) = true
        · simp only [hs, if_true] at h
          have hcn : numChar c = true := by
            simp only [Bool.or_eq_true, beq_iff_eq] at hs
            rcases hs with e1 | e1 <;> subst e1 <;> decide
          cases r' with
          | nil => simp at h
          | cons d r'' =>
            by_cases hd : isDigit d = true
            · simp only [hd, if_true, Option.some.injEq] at h
              obtain ⟨p, e1, hp⟩ := dropWhile_split r''
              refine ⟨e :: c :: d :: p, ?_, by simp [hen, hcn, digit_numChar hd, hp]⟩
              rw [← h]; simp only [List.cons_append]; rw [← e1]
            · simp [hd] at h
        · have hs' : (c == 43 || c == 45) = false := by simpa using hs
          simp only [hs', Bool.false_eq_true, if_false] at h
          by_cases hd : isDigit c = true
          · simp only [hd, if_true, Option.some.injEq] at h
            obtain ⟨p, e1, hp⟩ := dropWhile_split r'
            refine ⟨e :: c :: p, ?_, by simp [hen, digit_numChar hd, hp]⟩
            rw [← h]; simp only [List.cons_append]; rw [← e1]
          · simp [hd] at h
    · simp only [he] at h
      simp at h; subst h
      exact ⟨[], rfl, rfl⟩

theorem numFrac_prefix {s t : Bytes} (h : numFrac s = some t) : ∃ p, s = p ++ t ∧ p.all numChar = true := by
  cases s with
  | nil => simp [numFrac] at h; subst h; exact ⟨[], rfl, rfl⟩
  | cons c r =>
    simp only [numFrac] at h
    by_cases hc : (c == 46) = true
    · simp only [hc, if_true] at h
      have hcn : numChar c = true := by
        have : c = 46 := by simpa using hc
        subst this; decide
      cases r with
      | nil => simp at h
      | cons d r' =>
        by_cases hd : isDigit d = true
        · simp only [hd, if_true] at h
          obtain ⟨p1, e1, hp1⟩ := dropWhile_split r'
          obtain ⟨p2, e2, hp2⟩ := numExp_prefix h
          refine ⟨c :: d :: (p1 ++ p2), ?_, by simp [hcn, digit_numChar hd, hp1, hp2]⟩
          simp only [List.cons_append, List.append_assoc]; rw [← e2, ← e1]
        · simp [hd] at h
    · simp only [hc] at h
      exact numExp_prefix h

theorem numInt_prefix {s t : Bytes} (h : numInt s = some t) :
    ∃ c p, s = c :: p ++ t ∧ isDigit c = true ∧ p.all numChar = true := by
  cases s with
  | nil => simp [numInt] at h
  | cons c r =>
    simp only [numInt] at h
    by_cases h0 : (c == 48) = true
    · simp only [h0, if_true] at h
      have : c = 48 := by simpa using h0
      obtain ⟨p, e, hp⟩ := numFrac_prefix h
      exact ⟨c, p, by simp [e], by subst this; decide, hp⟩
    · simp only [h0] at h
      by_cases h1 : (49 ≤ c && c ≤ 57) = true
      · simp only [h1, if_true] at h
        obtain ⟨p1, e1, hp1⟩ := dropWhile_split r
        obtain ⟨p2, e2, hp2⟩ := numFrac_prefix h
        refine ⟨c, p1 ++ p2, ?_, ?_, by simp [hp1, hp2]⟩
        · simp only [List.cons_append, List.append_assoc]; rw [← e2, ← e1]
        · simp only [isDigit]; u8arith
      · simp [h1] at h

theorem numRest_prefix {s t : Bytes} (h : numRest s = some t) :
    ∃ c p, s = c :: p ++ t ∧ (c = 45 ∨ isDigit c = true) ∧ p.all numChar = true := by
  cases s with
  | nil => simp [numRest] at h
  | cons c r =>
    simp only [numRest] at h
    by_cases hm : (c == 45) = true
    · simp only [hm, if_true] at h
      obtain ⟨d, p, e, hd, hp⟩ := numInt_prefix h
      exact ⟨c, d :: p, by simp [e], Or.inl (by simpa using hm), by simp [digit_numChar hd, hp]⟩
    · have hm' : (c == 45) = false := by simpa using hm
      simp only [hm', Bool.false_eq_true, if_false] at h
      obtain ⟨d, p, e, hd, hp⟩ := numInt_prefix h
      injection e with e1 e2
      exact ⟨c, p, by simp [e2], Or.inr (e1 ▸ hd), hp⟩


/-- what may follow a value inside this text: nothing, `,`, `]` or `}` -/
def stopB : Bytes → Bool
  | [] => true
  | c :: _ => c == 44 || c == 93 || c == 125

theorem stop_head {c : UInt8} {r : Bytes} (h : stopB (c :: r) = true) :
    isDigit c = false ∧ (c == 46) = false ∧ (c == 101 || c == 69) = false ∧ (c == 43 || c == 45) = false ∧ isWS c = false := by
  simp only [stopB, Bool.or_eq_true, beq_iff_eq] at h
  rcases h with (e | e) | e <;> subst e <;> decide

theorem dropWhile_append_stop (r rest : Bytes) (hs : stopB rest = true) :
    (r ++ rest).dropWhile isDigit = r.dropWhile isDigit ++ rest := by
  induction r with
  | nil =>
    cases rest with
    | nil => rfl
    | cons c t => simp [List.dropWhile, (stop_head hs).1]
  | cons c r ih =>
    by_cases h : isDigit c = true
    · simp [List.dropWhile, h, ih]
    · simp [List.dropWhile, h]

theorem numExp_append {s t : Bytes} (rest : Bytes) (hs : stopB rest = true) (h : numExp s = some t) :
    numExp (s ++ rest) = some (t ++ rest) := by
  cases s with
  | nil =>
    simp [numExp] at h; subst h
    cases rest with
    | nil => rfl
    | cons c r => simp [numExp, (stop_head hs).2.2.1]
  | cons e r =>
    simp only [numExp] at h
    simp only [List.cons_append, numExp]
    by_cases he : (e == 101 || e == 69) = true
    · simp only [he, if_true] at h ⊢
      cases r with
      | nil => simp at h
      | cons c r' =>
        simp only [List.cons_append]
        by_cases hsg : (c == 43 || c == 45) = true
        · simp only [hsg, if_true] at h ⊢
          cases r' with
          | nil => simp at h
          | cons d r'' =>
            simp only [List.cons_append]
            by_cases hd : isDigit d = true
            · simp only [hd, if_true, Option.some.injEq] at h ⊢
              rw [dropWhile_append_stop r'' rest hs, h]
            · simp [hd] at h
        · have hsg' : (c == 43 || c == 45) = false := by simpa using hsg
          simp only [hsg', Bool.false_eq_true, if_false] at h ⊢
          by_cases hd : isDigit c = true
          · simp only [hd, if_true, Option.some.injEq] at h ⊢
            rw [dropWhile_append_stop r' rest hs, h]
          · simp [hd] at h
    · have he' : (e == 101 || e == 69) = false := by simpa using he
      simp only [he', Bool.false_eq_true, if_false, Option.some.injEq] at h ⊢
      rw [← h]; rfl

theorem numFrac_append {s t : Bytes} (rest : Bytes) (hs : stopB rest = true) (h : numFrac s = some t) :
    numFrac (s ++ rest) = some (t ++ rest) := by
  cases s with
  | nil =>
    simp [numFrac] at h; subst h
    cases rest with
    | nil => rfl
    | cons c r =>
      have := stop_head hs
      simp [numFrac, this.2.1, numExp, this.2.2.1]
  | cons c r =>
    simp only [numFrac] at h
    simp only [List.cons_append, numFrac]
    by_cases hc : (c == 46) = true
    · simp only [hc, if_true] at h ⊢
      cases r with
      | nil => simp at h
      | cons d r' =>
        simp only [List.cons_append]
        by_cases hd : isDigit d = true
        · simp only [hd, if_true] at h ⊢
          rw [dropWhile_append_stop r' rest hs]
          exact numExp_append rest hs h
        · simp [hd] at h
    · have hc' : (c == 46) = false := by simpa using hc
      simp only [hc', Bool.false_eq_true, if_false] at h ⊢
      exact numExp_append rest hs h

theorem numInt_append {s t : Bytes} (rest : Bytes) (hs : stopB rest = true) (h : numInt s = some t) :
    numInt (s ++ rest) = some (t ++ rest) := by
  cases s with
  | nil => simp [numInt] at h
  | cons c r =>
    simp only [numInt] at h
    simp only [List.cons_append, numInt]
    by_cases h0 : (c == 48) = true
    · simp only [h0, if_true] at h ⊢
      exact numFrac_append rest hs h
    · have h0' : (c == 48) = false := by simpa using h0
      simp only [h0', Bool.false_eq_true, if_false] at h ⊢
      by_cases h1 : (49 ≤ c && c ≤ 57) = true
      · simp only [h1, if_true] at h ⊢
        rw [dropWhile_append_stop r rest hs]
        exact numFrac_append rest hs h
      · simp [h1] at h

theorem numRest_append {s t : Bytes} (rest : Bytes) (hs : stopB rest = true) (h : numRest s = some t) :
    numRest (s ++ rest) = some (t ++ rest) := by
  cases s with
  | nil => simp [numRest] at h
  | cons c r =>
    simp only [numRest] at h
    simp only [List.cons_append, numRest]
    by_cases hm : (c == 45) = true
    · simp only [hm, if_true] at h ⊢
      exact numInt_append rest hs h
    · have hm' : (c == 45) = false := by simpa using hm
      simp only [hm', Bool.false_eq_true, if_false] at h ⊢
      have := numInt_append rest hs h
      simpa using this

/-- the reader reads a valid literal completely and verbatim when what follows cannot continue it -/
theorem parseNum_valid (lit rest : Bytes) (hv : validNum lit = true) (hs : stopB rest = true) :
    parseNum (lit ++ rest) = some (.num lit, rest) := by
  have h : numRest lit = some [] := by simpa [validNum] using hv
  have := numRest_append rest hs h
  simp only [List.nil_append] at this
  simp [parseNum, this]


/-! ### strings: the reader undoes the renderer's escaping -/

theorem parseStr_plain {c : UInt8} (t : Bytes) (h1 : (c == 34) = false) (h2 : (c == 92) = false) (h3 : ¬ c < 32) (h4 : c < 128) :
    parseStr (c :: t) = (parseStr t).map (prepend [c]) := by
  rw [parseStr.eq_def]; simp [h1, h2, h3, h4]

theorem parseStr_esc {e b : UInt8} (t : Bytes) (he : (e == 117) = false) (hb : simpleEsc e = some b) :
    parseStr (92 :: e :: t) = (parseStr t).map (prepend [b]) := by
  rw [parseStr.eq_def]; simp [he, hb]

theorem parseStr_u {h1 h2 h3 h4 : UInt8} {rr : Nat} (t : Bytes) (hh : hex4 h1 h2 h3 h4 = some rr)
    (hs : (decide (55296 ≤ rr) && decide (rr < 57344)) = false) :
    parseStr (92 :: 117 :: h1 :: h2 :: h3 :: h4 :: t) = (parseStr t).map (prepend (encodeRune rr)) := by
  rw [parseStr.eq_def]; simp [hh, hs]

theorem parseStr_2 {c b1 : UInt8} (t : Bytes) (hv : valid2 c b1 = true) :
    parseStr (c :: b1 :: t) = (parseStr t).map (prepend [c, b1]) := by
  have hf := valid2_facts hv
  have h1 : (c == 34) = false := by rw [Bool.eq_false_iff]; intro h; have := hf.1; u8arith
  have h2 : (c == 92) = false := by rw [Bool.eq_false_iff]; intro h; have := hf.1; u8arith
  have h3 : ¬ c < 32 := by have := hf.1; u8arith
  have h4 : ¬ c < 128 := by have := hf.1; u8arith
  rw [parseStr.eq_def]; simp [h1, h2, h3, h4, utf8Len_of_valid2 t hv]

theorem parseStr_3 {c b1 b2 : UInt8} (t : Bytes) (hv : valid3 c b1 b2 = true) :
    parseStr (c :: b1 :: b2 :: t) = (parseStr t).map (prepend [c, b1, b2]) := by
  have hf := valid3_facts hv
  have h1 : (c == 34) = false := by rw [Bool.eq_false_iff]; intro h; have := hf.1; u8arith
  have h2 : (c == 92) = false := by rw [Bool.eq_false_iff]; intro h; have := hf.1; u8arith
  have h3 : ¬ c < 32 := by have := hf.1; u8arith
  have h4 : ¬ c < 128 := by have := hf.1; u8arith
  rw [parseStr.eq_def]; simp [h1, h2, h3, h4, utf8Len_of_valid3 t hv]

theorem parseStr_4 {c b1 b2 b3 : UInt8} (t : Bytes) (hv : valid4 c b1 b2 b3 = true) :
    parseStr (c :: b1 :: b2 :: b3 :: t) = (parseStr t).map (prepend [c, b1, b2, b3]) := by
  have hf := valid4_facts hv
  have h1 : (c == 34) = false := by rw [Bool.eq_false_iff]; intro h; have := hf.1; u8arith
  have h2 : (c == 92) = false := by rw [Bool.eq_false_iff]; intro h; have := hf.1; u8arith
  have h3 : ¬ c < 32 := by have := hf.1; u8arith
  have h4 : ¬ c < 128 := by have := hf.1; u8arith
  rw [parseStr.eq_def]; simp [h1, h2, h3, h4, utf8Len_of_valid4 t hv]

/-- table facts about the ASCII escapes, checked for all 128 values -/
theorem ascii_table : ∀ n, n < 128 →
    let c := UInt8.ofNat n
    (htmlSafe c = true → (c == 34) = false ∧ (c == 92) = false ∧ 32 ≤ n) ∧
    hex4 48 48 (hexDigit (n / 16)) (hexDigit (n % 16)) = some n ∧
    encodeRune n = [c] := by
  decide

theorem parseStr_ascii (c : UInt8) (t : Bytes) (hc : c < 128) :
    parseStr (escAscii c ++ t) = (parseStr t).map (prepend [c]) := by
  have hn : c.toNat < 128 := by simpa [UInt8.lt_iff_toNat_lt] using hc
  have tab := ascii_table c.toNat hn
  simp only [UInt8.ofNat_toNat] at tab
  obtain ⟨tsafe, thex, tenc⟩ := tab
  unfold escAscii
  by_cases hs : htmlSafe c = true
  · simp only [hs, if_true, List.singleton_append]
    obtain ⟨a, b, d⟩ := tsafe hs
    exact parseStr_plain t a b (by u8arith) hc
  · simp only [hs, Bool.false_eq_true, if_false]
    by_cases h1 : (c == 92 || c == 34) = true
    · simp only [h1, if_true]
      simp only [Bool.or_eq_true, beq_iff_eq] at h1
      rcases h1 with e | e <;> subst e <;> exact parseStr_esc t (by decide) (by decide)
    · simp only [h1, Bool.false_eq_true, if_false]
      by_cases h2 : (c == 8) = true
      · simp only [h2, if_true]; have : c = 8 := by simpa using h2
        subst this; exact parseStr_esc t (by decide) (by decide)
      · simp only [h2, Bool.false_eq_true, if_false]
        by_cases h3 : (c == 12) = true
        · simp only [h3, if_true]; have : c = 12 := by simpa using h3
          subst this; exact parseStr_esc t (by decide) (by decide)
        · simp only [h3, Bool.false_eq_true, if_false]
          by_cases h4 : (c == 10) = true
          · simp only [h4, if_true]; have : c = 10 := by simpa using h4
            subst this; exact parseStr_esc t (by decide) (by decide)
          · simp only [h4, Bool.false_eq_true, if_false]
            by_cases h5 : (c == 13) = true
            · simp only [h5, if_true]; have : c = 13 := by simpa using h5
              subst this; exact parseStr_esc t (by decide) (by decide)
            · simp only [h5, Bool.false_eq_true, if_false]
              by_cases h6 : (c == 9) = true
              · simp only [h6, if_true]; have : c = 9 := by simpa using h6
                subst this; exact parseStr_esc t (by decide) (by decide)
              · simp only [h6, Bool.false_eq_true, if_false, List.cons_append, List.nil_append]
                rw [parseStr_u t thex (by simp; omega), tenc]

theorem parseStr_escStr (s rest : Bytes) : parseStr (escStr s ++ 34 :: rest) = some (sanStr s, rest) := by
  fun_induction escStr s with
  | case1 => rw [parseStr.eq_def]; simp [sanStr]
  | case2 c r hc ih =>
    rw [List.append_assoc, parseStr_ascii c _ hc, ih]
    conv => rhs; rw [sanStr.eq_def]
    simp [hc, prepend]
  | case3 c hc b1 r1 n hn ih =>
    obtain ⟨b1', r', e, hv⟩ := utf8Len_eq2 hn
    injection e with e1 e2; subst e1
    simp only [List.cons_append]
    rw [parseStr_2 _ hv, ih]
    conv => rhs; rw [sanStr.eq_def]
    simp [hc, utf8Len_of_valid2 r1 hv, prepend]
  | case4 c r hc n hn hx =>
    obtain ⟨b1', r', e, hv⟩ := utf8Len_eq2 hn
    exact absurd e (fun e => hx _ _ e)
  | case5 c hc b1 b2 r2 h226 n hn2 hn ih =>
    obtain ⟨b1', b2', r', e, hv⟩ := utf8Len_eq3 hn
    injection e with e1 e2; injection e2 with e2 e3; subst e1; subst e2
    simp only [Bool.and_eq_true, Bool.or_eq_true, beq_iff_eq] at h226
    obtain ⟨⟨ec, eb1⟩, eb2⟩ := h226
    subst ec; subst eb1
    simp only [List.cons_append, List.nil_append, List.append_assoc]
    rcases eb2 with e | e <;> subst e
    · rw [parseStr_u _ (show hex4 50 48 50 (hexDigit ((168 : UInt8).toNat % 16)) = some 8232 by decide) (by decide), ih]
      conv => rhs; rw [sanStr.eq_def]
      have he : encodeRune 8232 = [226, 128, 168] := by decide
      simp [utf8Len_of_valid3 r2 hv, prepend, he]
    · rw [parseStr_u _ (show hex4 50 48 50 (hexDigit ((169 : UInt8).toNat % 16)) = some 8233 by decide) (by decide), ih]
      conv => rhs; rw [sanStr.eq_def]
      have he : encodeRune 8233 = [226, 128, 169] := by decide
      simp [utf8Len_of_valid3 r2 hv, prepend, he]
  | case6 c hc b1 b2 r2 h226 n hn2 hn ih =>
    obtain ⟨b1', b2', r', e, hv⟩ := utf8Len_eq3 hn
    injection e with e1 e2; injection e2 with e2 e3; subst e1; subst e2
    simp only [List.cons_append]
    rw [parseStr_3 _ hv, ih]
    conv => rhs; rw [sanStr.eq_def]
    simp [hc, utf8Len_of_valid3 r2 hv, prepend]
  | case7 c r hc n hn2 hn hx =>
    obtain ⟨b1', b2', r', e, hv⟩ := utf8Len_eq3 hn
    exact absurd e (fun e => hx _ _ _ e)
  | case8 c hc b1 b2 b3 r3 n hn2 hn3 hn ih =>
    obtain ⟨b1', b2', b3', r', e, hv⟩ := utf8Len_eq4 hn
    injection e with e1 e2; injection e2 with e2 e3; injection e3 with e3 e4; subst e1; subst e2; subst e3
    simp only [List.cons_append]
    rw [parseStr_4 _ hv, ih]
    conv => rhs; rw [sanStr.eq_def]
    simp [hc, utf8Len_of_valid4 r3 hv, prepend]
  | case9 c r hc n hn2 hn3 hn hx =>
    obtain ⟨b1', b2', b3', r', e, hv⟩ := utf8Len_eq4 hn
    exact absurd e (fun e => hx _ _ _ _ e)
  | case10 c r hc n h2 h3 h4 ih =>
    simp only [escFFFD, List.cons_append, List.nil_append, List.append_assoc]
    rw [parseStr_u _ (show hex4 102 102 102 100 = some 65533 by decide) (by decide), ih]
    have e2 : ¬ utf8Len c r = 2 := h2
    have e3 : ¬ utf8Len c r = 3 := h3
    have e4 : ¬ utf8Len c r = 4 := h4
    conv => rhs; rw [sanStr.eq_def]
    have he : encodeRune 65533 = fffd := by decide
    simp [hc, e2, e3, e4, prepend, he]


/-! ### values -/

/-- the bytes a rendered value can start with -/
def startB (c : UInt8) : Bool :=
  c == 110 || c == 116 || c == 102 || c == 34 || c == 91 || c == 123 || c == 45 || isDigit c

theorem u8_ne_of_toNat {c d : UInt8} (h : c.toNat ≠ d.toNat) : (c == d) = false := by
  rw [Bool.eq_false_iff]; intro e
  have : c = d := by simpa using e
  exact h (by rw [this])

theorem start_facts {c : UInt8} (h : startB c = true) :
    isWS c = false ∧ (c == 93) = false ∧ (c == 125) = false ∧ (c == 44) = false ∧ c ≠ 32 ∧ 32 ≤ c := by
  simp only [startB, Bool.or_eq_true, beq_iff_eq] at h
  rcases h with ((((((e | e) | e) | e) | e) | e) | e) | e
  all_goals first
    | (subst e; decide)
    | skip
  have hd : 48 ≤ c.toNat ∧ c.toNat ≤ 57 := by
    simp only [isDigit, Bool.and_eq_true, decide_eq_true_eq, UInt8.le_iff_toNat_le] at e
    simpa using e
  have ne : ∀ d : UInt8, d.toNat < 48 ∨ 57 < d.toNat → (c == d) = false := by
    intro d hdd; apply u8_ne_of_toNat; omega
  refine ⟨?_, ne 93 (by decide), ne 125 (by decide), ne 44 (by decide), ?_, ?_⟩
  · simp [isWS, ne 32 (by decide), ne 9 (by decide), ne 10 (by decide), ne 13 (by decide)]
  · intro e32; have := ne 32 (by decide); simp [e32] at this
  · simp only [UInt8.le_iff_toNat_le]; simp; omega

theorem render_head (j : J) (hv : numsValid j = true) : ∃ c t, renderCompact j = c :: t ∧ startB c = true := by
  cases j with
  | null => exact ⟨110, [117, 108, 108], by simp [renderCompact], by decide⟩
  | bool b =>
    cases b
    · exact ⟨102, [97, 108, 115, 101], by simp [renderCompact], by decide⟩
    · exact ⟨116, [114, 117, 101], by simp [renderCompact], by decide⟩
  | str s => exact ⟨34, escStr s ++ [34], by simp [renderCompact], by decide⟩
  | num lit =>
    simp only [numsValid, validNum, beq_iff_eq] at hv
    obtain ⟨c, p, e, hc, _⟩ := numRest_prefix hv
    refine ⟨c, p, by simp [renderCompact, e], ?_⟩
    rcases hc with e | e
    · subst e; decide
    · simp [startB, e]
  | arr xs =>
    cases xs with
    | nil => exact ⟨91, [93], by simp [renderCompact], by decide⟩
    | cons x r => exact ⟨91, _, by rw [renderCompact], by decide⟩
  | obj kvs =>
    cases kvs with
    | nil => exact ⟨123, [125], by simp [renderCompact], by decide⟩
    | cons p r => obtain ⟨n, v⟩ := p; exact ⟨123, _, by rw [renderCompact], by decide⟩

theorem skipWS_start {c : UInt8} (t : Bytes) (h : startB c = true) : skipWS (c :: t) = c :: t := by
  simp [skipWS, (start_facts h).1]

mutual
/-- fuel the reader needs for a rendered value -/
def cost : J → Nat
  | .arr [] => 1
  | .arr (x :: xs) => 1 + cost x + costTail xs
  | .obj [] => 1
  | .obj ((_, v) :: kvs) => 2 + cost v + costMTail kvs
  | _ => 1
def costTail : List J → Nat
  | [] => 1
  | x :: xs => 1 + cost x + costTail xs
def costMTail : List (Bytes × J) → Nat
  | [] => 1
  | (_, v) :: kvs => 2 + cost v + costMTail kvs
end

theorem renderTail_stop (xs : List J) (rest : Bytes) : stopB (renderTail xs ++ rest) = true := by
  cases xs <;> simp [renderTail, stopB]

theorem renderMTail_stop (kvs : List (Bytes × J)) (rest : Bytes) : stopB (renderMTail kvs ++ rest) = true := by
  cases kvs with
  | nil => simp [renderMTail, stopB]
  | cons p r => obtain ⟨n, v⟩ := p; simp [renderMTail, stopB]


theorem parseValue_num (f : Nat) (lit rest : Bytes) (hv : validNum lit = true) (hs : stopB rest = true) :
    parseValue (f + 1) (lit ++ rest) = some (.num lit, rest) := by
  have h : numRest lit = some [] := by simpa [validNum] using hv
  obtain ⟨c, p, e, hc, _⟩ := numRest_prefix h
  have hpn := parseNum_valid lit rest hv hs
  simp only [List.append_nil] at e
  subst e
  simp only [List.cons_append] at hpn ⊢
  have hne : (c == 34) = false ∧ (c == 91) = false ∧ (c == 123) = false ∧ (c == 116) = false ∧ (c == 102) = false ∧ (c == 110) = false := by
    rcases hc with e | e
    · subst e; decide
    · have hd : 48 ≤ c.toNat ∧ c.toNat ≤ 57 := by
        simp only [isDigit, Bool.and_eq_true, decide_eq_true_eq, UInt8.le_iff_toNat_le] at e
        simpa using e
      have ne : ∀ d : UInt8, d.toNat < 48 ∨ 57 < d.toNat → (c == d) = false := by
        intro d hdd; apply u8_ne_of_toNat; omega
      exact ⟨ne 34 (by decide), ne 91 (by decide), ne 123 (by decide), ne 116 (by decide), ne 102 (by decide), ne 110 (by decide)⟩
  rw [parseValue.eq_def]
  simp [hne.1, hne.2.1, hne.2.2.1, hne.2.2.2.1, hne.2.2.2.2.1, hne.2.2.2.2.2, hpn]

theorem fuel_succ {n fuel : Nat} (h : 1 ≤ n) (hf : n ≤ fuel) : ∃ f, fuel = f + 1 := ⟨fuel - 1, by omega⟩

theorem cost_pos (j : J) : 1 ≤ cost j := by
  cases j with
  | arr xs => cases xs <;> simp [cost] <;> omega
  | obj kvs =>
    cases kvs with
    | nil => simp [cost]
    | cons p r => obtain ⟨n, v⟩ := p; simp [cost]; omega
  | _ => simp [cost]

/-- one member: `"name":value` -/
theorem parseMember_render (g : Nat) (name : Bytes) (v : J) (rest : Bytes)
    (ihv : parseValue g (renderCompact v ++ rest) = some (sanitize v, rest)) (hv : numsValid v = true) :
    parseMember (g + 1) (34 :: (escStr name ++ 34 :: 58 :: (renderCompact v ++ rest))) = some ((sanStr name, sanitize v), rest) := by
  obtain ⟨c, t, e, hc⟩ := render_head v hv
  rw [parseMember.eq_def]
  simp only [beq_self_eq_true, if_true]
  rw [parseStr_escStr]
  simp only
  have h58 : skipWS (58 :: (renderCompact v ++ rest)) = 58 :: (renderCompact v ++ rest) := by
    simp [skipWS, isWS]
  rw [h58]
  simp only [beq_self_eq_true, if_true]
  have hsk : skipWS (renderCompact v ++ rest) = renderCompact v ++ rest := by
    rw [e]; exact skipWS_start _ hc
  rw [hsk, ihv]

mutual
theorem parseValue_render : (j : J) → (fuel : Nat) → (rest : Bytes) → numsValid j = true → cost j ≤ fuel → stopB rest = true →
    parseValue fuel (renderCompact j ++ rest) = some (sanitize j, rest)
  | .null, fuel, rest, _, hf, _ => by
    obtain ⟨f, rfl⟩ := fuel_succ (cost_pos .null) hf
    rw [parseValue.eq_def]; simp [renderCompact, sanitize]
  | .bool b, fuel, rest, _, hf, _ => by
    obtain ⟨f, rfl⟩ := fuel_succ (cost_pos (.bool b)) hf
    cases b <;> (rw [parseValue.eq_def]; simp [renderCompact, sanitize])
  | .num lit, fuel, rest, hv, hf, hs => by
    obtain ⟨f, rfl⟩ := fuel_succ (cost_pos (.num lit)) hf
    simp only [renderCompact, sanitize]
    exact parseValue_num f lit rest (by simpa [numsValid] using hv) hs
  | .str s, fuel, rest, _, hf, _ => by
    obtain ⟨f, rfl⟩ := fuel_succ (cost_pos (.str s)) hf
    rw [parseValue.eq_def]
    simp only [renderCompact, List.cons_append, List.append_assoc, beq_self_eq_true, if_true]
    rw [parseStr_escStr]; simp [sanitize]
  | .arr [], fuel, rest, _, hf, _ => by
    obtain ⟨f, rfl⟩ := fuel_succ (cost_pos (.arr [])) hf
    rw [parseValue.eq_def]; simp [renderCompact, sanitize, sanList, skipWS, isWS]
  | .arr (x :: xs), fuel, rest, hv, hf, hs => by
    obtain ⟨f, rfl⟩ := fuel_succ (cost_pos (.arr (x :: xs))) hf
    simp only [numsValid, numsValidList, Bool.and_eq_true] at hv
    simp only [cost] at hf
    obtain ⟨c, t, e, hc⟩ := render_head x hv.1
    have ihx := parseValue_render x f (renderTail xs ++ rest) hv.1 (by omega) (renderTail_stop xs rest)
    have iht := parseTail_render xs f rest hv.2 (by omega)
    rw [parseValue.eq_def]
    simp only [renderCompact, List.cons_append, List.append_assoc]
    have h91 : ((91 : UInt8) == 34) = false := by decide
    simp only [h91, Bool.false_eq_true, if_false, beq_self_eq_true, if_true]
    have hsk : skipWS (renderCompact x ++ (renderTail xs ++ rest)) = c :: (t ++ (renderTail xs ++ rest)) := by
      rw [e]; exact skipWS_start _ hc
    rw [hsk]
    simp only [(start_facts hc).2.1, Bool.false_eq_true, if_false]
    have : c :: (t ++ (renderTail xs ++ rest)) = renderCompact x ++ (renderTail xs ++ rest) := by rw [e]; rfl
    rw [this, ihx]
    simp only [iht, Option.map_some, sanitize, sanList]
  | .obj [], fuel, rest, _, hf, _ => by
    obtain ⟨f, rfl⟩ := fuel_succ (cost_pos (.obj [])) hf
    rw [parseValue.eq_def]; simp [renderCompact, sanitize, sanMembers, skipWS, isWS]
  | .obj ((name, v) :: kvs), fuel, rest, hv, hf, hs => by
    obtain ⟨f, rfl⟩ := fuel_succ (cost_pos (.obj ((name, v) :: kvs))) hf
    simp only [numsValid, numsValidMembers, Bool.and_eq_true] at hv
    simp only [cost] at hf
    obtain ⟨g, rfl⟩ : ∃ g, f = g + 1 := ⟨f - 1, by omega⟩
    have ihv := parseValue_render v g (renderMTail kvs ++ rest) hv.1 (by omega) (renderMTail_stop kvs rest)
    have iht := parseMTail_render kvs (g + 1) rest hv.2 (by omega)
    have hm := parseMember_render g name v (renderMTail kvs ++ rest) ihv hv.1
    rw [parseValue.eq_def]
    simp only [renderCompact, List.cons_append, List.append_assoc]
    have h1 : ((123 : UInt8) == 34) = false := by decide
    have h2 : ((123 : UInt8) == 91) = false := by decide
    simp only [h1, h2, Bool.false_eq_true, if_false, beq_self_eq_true, if_true]
    have hsk : skipWS (34 :: (escStr name ++ 34 :: 58 :: (renderCompact v ++ (renderMTail kvs ++ rest)))) =
        34 :: (escStr name ++ 34 :: 58 :: (renderCompact v ++ (renderMTail kvs ++ rest))) := by simp [skipWS, isWS]
    rw [hsk]
    have h3 : ((34 : UInt8) == 125) = false := by decide
    simp only [h3, Bool.false_eq_true, if_false]
    rw [hm]
    simp only [Option.bind_some, iht, Option.map_some, sanitize, sanMembers]

theorem parseTail_render : (xs : List J) → (fuel : Nat) → (rest : Bytes) → numsValidList xs = true → costTail xs ≤ fuel →
    parseTail fuel (renderTail xs ++ rest) = some (sanList xs, rest)
  | [], fuel, rest, _, hf => by
    obtain ⟨f, rfl⟩ : ∃ f, fuel = f + 1 := ⟨fuel - 1, by simp [costTail] at hf; omega⟩
    rw [parseTail.eq_def]; simp [renderTail, sanList, skipWS, isWS]
  | x :: xs, fuel, rest, hv, hf => by
    simp only [costTail] at hf
    obtain ⟨f, rfl⟩ : ∃ f, fuel = f + 1 := ⟨fuel - 1, by omega⟩
    simp only [numsValidList, Bool.and_eq_true] at hv
    obtain ⟨c, t, e, hc⟩ := render_head x hv.1
    have ihx := parseValue_render x f (renderTail xs ++ rest) hv.1 (by omega) (renderTail_stop xs rest)
    have iht := parseTail_render xs f rest hv.2 (by omega)
    rw [parseTail.eq_def]
    simp only [renderTail, List.cons_append, List.append_assoc]
    have hsk0 : skipWS (44 :: (renderCompact x ++ (renderTail xs ++ rest))) = 44 :: (renderCompact x ++ (renderTail xs ++ rest)) := by
      simp [skipWS, isWS]
    rw [hsk0]
    have h1 : ((44 : UInt8) == 93) = false := by decide
    simp only [h1, Bool.false_eq_true, if_false, beq_self_eq_true, if_true]
    have hsk : skipWS (renderCompact x ++ (renderTail xs ++ rest)) = renderCompact x ++ (renderTail xs ++ rest) := by
      rw [e]; exact skipWS_start _ hc
    rw [hsk, ihx]
    simp only [iht, Option.map_some, sanList]

theorem parseMTail_render : (kvs : List (Bytes × J)) → (fuel : Nat) → (rest : Bytes) → numsValidMembers kvs = true →
    costMTail kvs ≤ fuel → parseMTail fuel (renderMTail kvs ++ rest) = some (sanMembers kvs, rest)
  | [], fuel, rest, _, hf => by
    obtain ⟨f, rfl⟩ : ∃ f, fuel = f + 1 := ⟨fuel - 1, by simp [costMTail] at hf; omega⟩
    rw [parseMTail.eq_def]; simp [renderMTail, sanMembers, skipWS, isWS]
  | (name, v) :: kvs, fuel, rest, hv, hf => by
    simp only [costMTail] at hf
    obtain ⟨f, rfl⟩ : ∃ f, fuel = f + 1 := ⟨fuel - 1, by omega⟩
    obtain ⟨g, rfl⟩ : ∃ g, f = g + 1 := ⟨f - 1, by omega⟩
    simp only [numsValidMembers, Bool.and_eq_true] at hv
    have ihv := parseValue_render v g (renderMTail kvs ++ rest) hv.1 (by omega) (renderMTail_stop kvs rest)
    have iht := parseMTail_render kvs (g + 1) rest hv.2 (by omega)
    have hm := parseMember_render g name v (renderMTail kvs ++ rest) ihv hv.1
    rw [parseMTail.eq_def]
    simp only [renderMTail, List.cons_append, List.append_assoc]
    have hsk0 : skipWS (44 :: 34 :: (escStr name ++ 34 :: 58 :: (renderCompact v ++ (renderMTail kvs ++ rest)))) =
        44 :: 34 :: (escStr name ++ 34 :: 58 :: (renderCompact v ++ (renderMTail kvs ++ rest))) := by simp [skipWS, isWS]
    rw [hsk0]
    have h1 : ((44 : UInt8) == 125) = false := by decide
    simp only [h1, Bool.false_eq_true, if_false, beq_self_eq_true, if_true]
    have hsk : skipWS (34 :: (escStr name ++ 34 :: 58 :: (renderCompact v ++ (renderMTail kvs ++ rest)))) =
        34 :: (escStr name ++ 34 :: 58 :: (renderCompact v ++ (renderMTail kvs ++ rest))) := by simp [skipWS, isWS]
    rw [hsk, hm]
    simp only [Option.bind_some, iht, Option.map_some, sanMembers]
end


theorem numChar_ge {c : UInt8} (h : numChar c = true) : 32 ≤ c := by
  simp only [numChar, Bool.or_eq_true, beq_iff_eq] at h
  rcases h with ((((e | e) | e) | e) | e) | e
  · simp only [isDigit, Bool.and_eq_true, decide_eq_true_eq] at e; u8arith
  all_goals (subst e; decide)

theorem validNum_noCtl {lit : Bytes} (hv : validNum lit = true) : noCtl lit ∧ 1 ≤ lit.length := by
  have h : numRest lit = some [] := by simpa [validNum] using hv
  obtain ⟨c, p, e, hc, hp⟩ := numRest_prefix h
  simp only [List.append_nil] at e
  subst e
  refine ⟨?_, by simp⟩
  apply noCtl_cons
  · rcases hc with e | e
    · subst e; decide
    · exact numChar_ge (digit_numChar e)
  · intro b hb
    exact numChar_ge (List.all_eq_true.mp hp b hb)

mutual
theorem render_noCtl : (j : J) → numsValid j = true → noCtl (renderCompact j)
  | .null, _ => by apply noCtl_of_all; decide
  | .bool b, _ => by cases b <;> (apply noCtl_of_all; decide)
  | .num lit, hv => by simp only [renderCompact]; exact (validNum_noCtl (by simpa [numsValid] using hv)).1
  | .str s, _ => by
    simp only [renderCompact]
    exact noCtl_cons (by decide) (noCtl_append (escStr_noCtl s) (noCtl_cons (by decide) noCtl_nil))
  | .arr [], _ => by apply noCtl_of_all; decide
  | .arr (x :: xs), hv => by
    simp only [numsValid, numsValidList, Bool.and_eq_true] at hv
    simp only [renderCompact]
    exact noCtl_cons (by decide) (noCtl_append (render_noCtl x hv.1) (renderTail_noCtl xs hv.2))
  | .obj [], _ => by apply noCtl_of_all; decide
  | .obj ((name, v) :: kvs), hv => by
    simp only [numsValid, numsValidMembers, Bool.and_eq_true] at hv
    simp only [renderCompact]
    exact noCtl_cons (by decide) (noCtl_cons (by decide) (noCtl_append (escStr_noCtl name)
      (noCtl_cons (by decide) (noCtl_cons (by decide) (noCtl_append (render_noCtl v hv.1) (renderMTail_noCtl kvs hv.2))))))
theorem renderTail_noCtl : (xs : List J) → numsValidList xs = true → noCtl (renderTail xs)
  | [], _ => by apply noCtl_of_all; decide
  | x :: xs, hv => by
    simp only [numsValidList, Bool.and_eq_true] at hv
    simp only [renderTail]
    exact noCtl_cons (by decide) (noCtl_append (render_noCtl x hv.1) (renderTail_noCtl xs hv.2))
theorem renderMTail_noCtl : (kvs : List (Bytes × J)) → numsValidMembers kvs = true → noCtl (renderMTail kvs)
  | [], _ => by apply noCtl_of_all; decide
  | (name, v) :: kvs, hv => by
    simp only [numsValidMembers, Bool.and_eq_true] at hv
    simp only [renderMTail]
    exact noCtl_cons (by decide) (noCtl_cons (by decide) (noCtl_append (escStr_noCtl name)
      (noCtl_cons (by decide) (noCtl_cons (by decide) (noCtl_append (render_noCtl v hv.1) (renderMTail_noCtl kvs hv.2))))))
end

mutual
theorem cost_le : (j : J) → numsValid j = true → cost j ≤ (renderCompact j).length
  | .null, _ => by simp [cost, renderCompact]
  | .bool b, _ => by cases b <;> simp [cost, renderCompact]
  | .num lit, hv => by simp only [cost, renderCompact]; exact (validNum_noCtl (by simpa [numsValid] using hv)).2
  | .str s, _ => by simp [cost, renderCompact]
  | .arr [], _ => by simp [cost, renderCompact]
  | .arr (x :: xs), hv => by
    simp only [numsValid, numsValidList, Bool.and_eq_true] at hv
    have := cost_le x hv.1; have := costTail_le xs hv.2
    simp only [cost, renderCompact, List.length_cons, List.length_append]; omega
  | .obj [], _ => by simp [cost, renderCompact]
  | .obj ((name, v) :: kvs), hv => by
    simp only [numsValid, numsValidMembers, Bool.and_eq_true] at hv
    have := cost_le v hv.1; have := costMTail_le kvs hv.2
    simp only [cost, renderCompact, List.length_cons, List.length_append]; omega
theorem costTail_le : (xs : List J) → numsValidList xs = true → costTail xs ≤ (renderTail xs).length
  | [], _ => by simp [costTail, renderTail]
  | x :: xs, hv => by
    simp only [numsValidList, Bool.and_eq_true] at hv
    have := cost_le x hv.1; have := costTail_le xs hv.2
    simp only [costTail, renderTail, List.length_cons, List.length_append]; omega
theorem costMTail_le : (kvs : List (Bytes × J)) → numsValidMembers kvs = true → costMTail kvs ≤ (renderMTail kvs).length
  | [], _ => by simp [costMTail, renderMTail]
  | (name, v) :: kvs, hv => by
    simp only [numsValidMembers, Bool.and_eq_true] at hv
    have := cost_le v hv.1; have := costMTail_le kvs hv.2
    simp only [costMTail, renderMTail, List.length_cons, List.length_append]; omega
end

theorem parseJSON_render (j : J) (hv : numsValid j = true) : parseJSON (renderCompact j) = some (sanitize j, []) := by
  obtain ⟨c, t, e, hc⟩ := render_head j hv
  have hsk : skipWS (renderCompact j) = renderCompact j := by rw [e]; exact skipWS_start _ hc
  have := parseValue_render j (2 * (renderCompact j).length + 2) [] hv (by have := cost_le j hv; omega) rfl
  simpa [parseJSON, hsk] using this


/-- the reader's normalisation is the identity on valid UTF-8 -/
theorem sanStr_valid (s : Bytes) (h : validUtf8 s = true) : sanStr s = s := by
  fun_induction validUtf8 s with
  | case1 => rfl
  | case2 c rest hc ih => rw [sanStr.eq_def]; simp [hc, ih h]
  | case3 c hc hr b1 r ih =>
    simp only [Bool.and_eq_true] at h
    have hv : valid2 c b1 = true := by simp [valid2, hr, h.1]
    rw [sanStr.eq_def]; simp [hc, utf8Len_of_valid2 r hv, ih h.2]
  | case4 => cases h
  | case5 c hc h2 hr b1 b2 r ih =>
    simp only [Bool.and_eq_true] at h
    have hv : valid3 c b1 b2 = true := by
      simp only [valid3, hr, Bool.true_and, Bool.and_eq_true]; exact ⟨h.1.1, h.1.2⟩
    rw [sanStr.eq_def]; simp [hc, utf8Len_of_valid3 r hv, ih h.2]
  | case6 => cases h
  | case7 c hc h2 h3 hr b1 b2 b3 r ih =>
    simp only [Bool.and_eq_true] at h
    have hv : valid4 c b1 b2 b3 = true := by
      simp only [valid4, hr, Bool.true_and, Bool.and_eq_true]; exact ⟨⟨h.1.1.1, h.1.1.2⟩, h.1.2⟩
    rw [sanStr.eq_def]; simp [hc, utf8Len_of_valid4 r hv, ih h.2]
  | case8 => cases h
  | case9 => cases h

mutual
theorem sanitize_valid : (j : J) → strsValid j = true → sanitize j = j
  | .null, _ => rfl
  | .bool _, _ => rfl
  | .num _, _ => rfl
  | .str s, h => by simp only [sanitize]; rw [sanStr_valid s (by simpa [strsValid] using h)]
  | .arr xs, h => by simp only [sanitize]; rw [sanList_valid xs (by simpa [strsValid] using h)]
  | .obj kvs, h => by simp only [sanitize]; rw [sanMembers_valid kvs (by simpa [strsValid] using h)]
theorem sanList_valid : (xs : List J) → strsValidList xs = true → sanList xs = xs
  | [], _ => rfl
  | x :: xs, h => by
    simp only [strsValidList, Bool.and_eq_true] at h
    simp only [sanList]; rw [sanitize_valid x h.1, sanList_valid xs h.2]
theorem sanMembers_valid : (kvs : List (Bytes × J)) → strsValidMembers kvs = true → sanMembers kvs = kvs
  | [], _ => rfl
  | (name, v) :: kvs, h => by
    simp only [strsValidMembers, Bool.and_eq_true] at h
    simp only [sanMembers]; rw [sanStr_valid name h.1.1, sanitize_valid v h.1.2, sanMembers_valid kvs h.2]
end

/-- decimal integers are JSON numbers -/
theorem validNum_showInt (i : Int) : validNum (showInt i) = true := by
  have key : ∀ n pre, IsDecimal n pre → numInt pre = some [] := by
    intro n pre hd
    rcases hd.shape with ⟨e, _⟩ | ⟨d, ds, e, hne, _⟩
    · subst e; decide
    · have hdig := hd.digits
      subst e
      simp only [List.all_cons, Bool.and_eq_true] at hdig
      have e3 : (d == 48) = false := by simpa using hne
      have hr : (49 ≤ d && d ≤ 57) = true := by
        have := hdig.1
        simp only [isDigit, Bool.and_eq_true, decide_eq_true_eq] at this ⊢
        have h48 : d.toNat ≠ 48 := by
          intro e; apply hne; exact UInt8.toNat_inj.mp (by simpa using e)
        u8arith
      simp [numInt, e3, hr, dropWhile_digits ds hdig.2, numFrac]
  have hd := showNat_decimal i.natAbs
  unfold showInt validNum
  split
  · simp [numRest, key _ _ hd]
  · obtain ⟨d, ds, e, hdd, _⟩ := decimal_head hd
    have := key _ _ hd
    rw [e] at this ⊢
    have e1 : (d == 45) = false := (isDigit_ne hdd).1
    simp [numRest, e1, this]


theorem marshalScalar_numsValid (ops : FloatOps) (hf : ∀ b bits, validNum (ops.fmt b bits) = true) (o : Opts) (k : Kind)
    (v : Scalar) (j : J) (h : marshalScalar ops o k v = .ok j) : numsValid j = true := by
  cases k <;> cases v <;> simp only [marshalScalar] at h
  all_goals first
    | (cases h; done)
    | skip
  all_goals first
    | (injection h with h; subst h; simp [numsValid, validNum_showInt]; done)
    | skip
  · rename_i f; cases f <;> simp at h <;> subst h <;> simp [numsValid, hf]
  · rename_i f; cases f <;> simp at h <;> subst h <;> simp [numsValid, hf]
  · split at h
    · injection h with h; subst h; rfl
    · split at h
      · split at h <;> (injection h with h; subst h; simp [numsValid, validNum_showInt])
      · injection h with h; subst h; simp [numsValid, validNum_showInt]

theorem marshalListLoop_numsValid (ops : FloatOps) (hf : ∀ b bits, validNum (ops.fmt b bits) = true) (o : Opts) (k : Kind) :
    ∀ (xs : List Scalar) (js : List J), marshalListLoop ops o k xs = .ok js → numsValidList js = true := by
  intro xs
  induction xs with
  | nil => intro js h; simp [marshalListLoop] at h; subst h; rfl
  | cons v vs ih =>
    intro js h
    simp only [marshalListLoop] at h
    cases h1 : marshalScalar ops o k v with
    | ok j =>
      cases h2 : marshalListLoop ops o k vs with
      | ok r =>
        simp [h1, h2, Res.bind] at h; subst h
        simp [numsValidList, marshalScalar_numsValid ops hf o k v j h1, ih r h2]
      | err => simp [h1, h2, Res.bind] at h
      | panic => simp [h1, h2, Res.bind] at h
    | err => simp [h1, Res.bind] at h
    | panic => simp [h1, Res.bind] at h

theorem marshalMapLoop_numsValid (ops : FloatOps) (hf : ∀ b bits, validNum (ops.fmt b bits) = true) (o : Opts) (k : Kind) :
    ∀ (kvs : List (Scalar × Scalar)) (es : List (Bytes × J)), marshalMapLoop ops o k kvs = .ok es → numsValidMembers es = true := by
  intro kvs
  induction kvs with
  | nil => intro es h; simp [marshalMapLoop] at h; subst h; rfl
  | cons p rest ih =>
    obtain ⟨key, v⟩ := p
    intro es h
    simp only [marshalMapLoop] at h
    cases h1 : marshalScalar ops o k v with
    | ok j =>
      cases h2 : marshalMapLoop ops o k rest with
      | ok r =>
        simp [h1, h2, Res.bind] at h; subst h
        simp [numsValidMembers, marshalScalar_numsValid ops hf o k v j h1, ih r h2]
      | err => simp [h1, h2, Res.bind] at h
      | panic => simp [h1, h2, Res.bind] at h
    | err => simp [h1, Res.bind] at h
    | panic => simp [h1, Res.bind] at h

/-- every number literal the field encoder writes is a JSON number (given that the float formatter's are) -/
theorem encode_numsValid (ops : FloatOps) (hf : ∀ b bits, validNum (ops.fmt b bits) = true) (o : Opts) (k : Kind)
    (f : Field) (j : J) (h : encode ops o k f = .ok j) : numsValid j = true := by
  cases f with
  | sing v => cases v <;> exact marshalScalar_numsValid ops hf o k _ j h
  | list xs =>
    simp only [encode] at h
    split at h
    · injection h with h; subst h; rfl
    · cases h1 : marshalListLoop ops o k xs with
      | ok r => simp [h1, Res.bind] at h; subst h; simpa [numsValid] using marshalListLoop_numsValid ops hf o k xs r h1
      | err => simp [h1, Res.bind] at h
      | panic => simp [h1, Res.bind] at h
  | map kvs =>
    simp only [encode] at h
    split at h
    · injection h with h; subst h; rfl
    · cases h1 : marshalMapLoop ops o k kvs with
      | ok r => simp [h1, Res.bind] at h; subst h; simpa [numsValid] using marshalMapLoop_numsValid ops hf o k kvs r h1
      | err => simp [h1, Res.bind] at h
      | panic => simp [h1, Res.bind] at h


end GB.C09
