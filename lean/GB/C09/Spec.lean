import GB.C09.Model
/-
  C09 — the canonical proto3 JSON mapping (protobuf.dev/programming-guides/proto3/#json) for ONE
  field, on the JSON value tree.  `canon … = none` marks the grey zone in which the property
  text does not constrain the codec:
    * `null` as a list element / map value (the mapping says "null is accepted for every field
      type and treated as the default"; protojson rejects it inside containers),
    * non-canonical spellings of the right JSON type (`"inf"`, `"+1"` as an int key, `-0` for an
      unsigned field, base64 with line breaks or the URL alphabet, exponents beyond ±1000),
    * objects with repeated names, or with different names denoting one map key (the
      property quantifies over unique keys),
    * trees the tokenizer cannot produce (a `num` whose literal is not a JSON number).
  `some .err`  = canonical parsing rejects: wrong JSON type, fractional or out-of-range number,
  unknown enum name (without DiscardUnknown), malformed key.
  `some (.ok f)` = canonical parsing accepts and stores `f`.
-/
namespace GB.C09

/-- a plain integer literal: optional '-', one or more digits -/
def plainInt (s : Bytes) : Option (Bool × Bytes) :=
  match s with
  | [] => none
  | c :: rest =>
    if c == 45 then (if !rest.isEmpty && rest.all isDigit then some (true, rest) else none)
    else if s.all isDigit then some (false, s) else none

inductive LitVal where
  | grey
  | frac
  | int (neg : Bool) (mag : Nat)

/-- digits up to the first non-digit, and the rest -/
def spanDigits : Bytes → Bytes × Bytes
  | [] => ([], [])
  | c :: r => if isDigit c then let (d, t) := spanDigits r; (c :: d, t) else ([], c :: r)

/-- numeric value of a valid JSON number literal with a fraction and/or exponent: is it an integer, and which? -/
def litValue (s : Bytes) : LitVal :=
  let (neg, s) := match s with
    | 45 :: r => (true, r)
    | _ => (false, s)
  let (ip, s) := spanDigits s
  let (fp, s) := match s with
    | 46 :: r => spanDigits r
    | _ => ([], s)
  let (eneg, ed) := match s with
    | _ :: 45 :: r => (true, r)
    | _ :: 43 :: r => (false, r)
    | _ :: r => (false, r)
    | [] => (false, [])
  let m := digitsValue (ip ++ fp)
  if m = 0 then .int neg 0
  else if ed.length > 3 then .grey
  else
    let ev := digitsValue ed
    if eneg then
      let d := 10 ^ (ev + fp.length)
      if m % d = 0 then .int neg (m / d) else .frac
    else if ev ≥ fp.length then .int neg (m * 10 ^ (ev - fp.length))
    else
      let d := 10 ^ (fp.length - ev)
      if m % d = 0 then .int neg (m / d) else .frac

/-- canonical reading of a literal (already known to be a valid JSON number) as an integer of a kind -/
def canonIntLit (signed : Bool) (bits : Nat) (lit : Bytes) : Option (Res Value) :=
  let inRange (neg : Bool) (mag : Nat) : Option (Res Value) :=
    if neg && mag = 0 && !signed then none                       -- "-0" for an unsigned field
    else if signed then
      if (!neg && mag < 2 ^ (bits - 1)) || (neg && mag ≤ 2 ^ (bits - 1)) then
        some (.ok (some (.int (if neg then -(mag : Int) else mag))))
      else some .err
    else if !neg && mag < 2 ^ bits then some (.ok (some (.int mag))) else some .err
  match plainInt lit with
  | some (neg, ds) => inRange neg (digitsValue ds)
  | none =>
    match litValue lit with
    | .grey => none
    | .frac => some .err
    | .int neg mag => inRange neg mag

def canonInt (signed : Bool) (bits : Nat) (j : J) : Option (Res Value) :=
  match j with
  | .null => none
  | .num lit => if isValidNumber lit then canonIntLit signed bits lit else none
  | .str s => if isValidNumber s then canonIntLit signed bits s else some .err
  | _ => some .err

/-- canonical proto3 JSON reading of one scalar (list element, map value, or singular non-null value). -/
def canonScalar (ops : FloatOps) (o : Opts) (k : Kind) (j : J) : Option (Res Value) :=
  match k with
  | .bool =>
    match j with
    | .bool b => some (.ok (some (.bool b)))
    | .null => none
    | _ => some .err
  | .int32 => canonInt true 32 j
  | .int64 => canonInt true 64 j
  | .uint32 => canonInt false 32 j
  | .uint64 => canonInt false 64 j
  | .float | .double =>
    match j with
    | .null => none
    | .num lit =>
      if isValidNumber lit then
        match ops.parse (is32 k) lit with
        | some f => some (.ok (some (.flt f)))
        | none => some .err                                       -- out of range for the field
      else none
    | .str s =>
      if s == strNaN then some (.ok (some (.flt .nan)))
      else if s == strInf then some (.ok (some (.flt .pinf)))
      else if s == strNegInf then some (.ok (some (.flt .ninf)))
      else if isValidNumber s then
        match ops.parse (is32 k) s with
        | some f => some (.ok (some (.flt f)))
        | none => some .err
      else none                                                   -- other spellings: not constrained
    | _ => some .err
  | .string =>
    match j with
    | .str s => some (.ok (some (.str s)))
    | .null => none
    | _ => some .err
  | .bytes =>
    match j with
    | .str s =>
      if s.all (fun c => c != 10 && c != 13) then
        match b64Decode s with
        | some b => some (.ok (some (.bytes b)))
        | none => none                                            -- URL alphabet / unpadded: canonical accepts, codec may reject
      else none
    | .null => none
    | _ => some .err
  | .enum vals nullValue =>
    match j with
    | .null => if nullValue then some (.ok (some (.enum 0))) else none
    | .str s =>
      match byName vals s with
      | some n => some (.ok (some (.enum n)))
      | none => if o.discard then some (.ok none) else some .err  -- unknown name: skipped or rejected
    | .num lit => if isValidNumber lit then canonIntLit true 32 lit |>.map (fun r => match r with
        | .ok (some (.int n)) => .ok (some (.enum n))
        | r => r) else none
    | _ => some .err

/-- all-or-nothing combination: any rejection rejects; otherwise any grey element makes the whole grey -/
def canonAll {α β : Type} (f : α → Option (Res (Option β))) : List α → Option (Res (List β))
  | [] => some (.ok [])
  | x :: xs =>
    match f x, canonAll f xs with
    | some .err, _ => some .err
    | _, some .err => some .err
    | some .panic, _ => none
    | _, some .panic => none
    | none, _ => none
    | _, none => none
    | some (.ok (some v)), some (.ok r) => some (.ok (v :: r))
    | some (.ok none), some (.ok r) => some (.ok r)

/-- canonical map key -/
def canonKey (kk : Kind) (key : Bytes) : Option (Res Scalar) :=
  let intKey (signed : Bool) (bits : Nat) : Option (Res Scalar) :=
    match plainInt key with
    | none => if (parseInt 64 key).isSome || (parseUint 64 key).isSome then none else some .err  -- "+1"
    | some _ =>
      if !isValidNumber key then none                                                             -- "01"
      else match canonIntLit signed bits key with
        | some (.ok (some v)) => some (.ok v)
        | some _ => some .err
        | none => none
  match kk with
  | .string => some (.ok (.str key))
  | .bool => if key == strTrue then some (.ok (.bool true)) else if key == strFalse then some (.ok (.bool false)) else some .err
  | .int32 => intKey true 32
  | .int64 => intKey true 64
  | .uint32 => intKey false 32
  | .uint64 => intKey false 64
  | _ => some .err

def canonEntry (ops : FloatOps) (o : Opts) (kk vk : Kind) (e : Bytes × J) : Option (Res (Option (Scalar × Scalar))) :=
  match canonKey kk e.1, canonScalar ops o vk e.2 with
  | some .err, _ => some .err
  | _, some .err => some .err
  | some (.ok kv), some (.ok (some v)) => some (.ok (some (kv, v)))
  | some (.ok _), some (.ok none) => some (.ok none)
  | _, _ => none

/-- the map keys the member names denote (names that are no key are left out) -/
def canonKeys (kk : Kind) : List (Bytes × J) → List Scalar
  | [] => []
  | (n, _) :: rest =>
    match canonKey kk n with
    | some (.ok k) => k :: canonKeys kk rest
    | _ => canonKeys kk rest

def scalarsUnique : List Scalar → Bool
  | [] => true
  | k :: rest => !rest.contains k && scalarsUnique rest

def namesUnique : List (Bytes × J) → Bool
  | [] => true
  | (k, _) :: rest => !rest.any (fun p => p.1 == k) && namesUnique rest

def keysUnique : List (Scalar × Scalar) → Bool
  | [] => true
  | (k, _) :: rest => !rest.any (fun p => p.1 == k) && keysUnique rest

def isNullValue : Kind → Bool
  | .enum _ nv => nv
  | _ => false

/-- canonical proto3 JSON reading of the JSON value offered for one field. -/
def canon (ops : FloatOps) (o : Opts) (c : Card) (k : Kind) (j : J) : Option (Res Field) :=
  match c with
  | .sing =>
    match k, j with
    | .enum _ true, .null => some (.ok (.sing (some (.enum 0))))
    | _, .null => some (.ok (.sing none))                         -- null: the field keeps its default
    | _, _ => (canonScalar ops o k j).map fun r => r.bind fun v => .ok (.sing v)
  | .rep =>
    match j with
    | .null => if isNullValue k then none else some (.ok (.list []))   -- protojson hands a NullValue list's null to the list parser
    | .arr xs => (canonAll (canonScalar ops o k) xs).map fun r => r.bind fun l => .ok (.list l)
    | _ => some .err
  | .map kk =>
    match j with
    | .null => if isNullValue k then none else some (.ok (.map []))
    | .obj kvs =>
      if !namesUnique kvs || !scalarsUnique (canonKeys kk kvs) then none   -- repeated names / one key twice
      else match canonAll (canonEntry ops o kk k) kvs with
        | some (.ok l) => some (.ok (.map l))
        | some .err => some .err
        | _ => none
    | _ => some .err

/-- the value `msg.Get(fd)` reads back after a decode into a fresh message -/
def Field.read (k : Kind) : Field → Field
  | .sing none => .sing (some (defaultOf k))
  | f => f

/-! ### canonical encoder (what protojson emits for the field's value) -/

/-- canonical proto3 JSON of one scalar; `cfmt` is protojson's float formatter (environment). -/
def canonEncScalar (cfmt : Bool → Nat → Bytes) (k : Kind) (v : Scalar) : Option J :=
  match k, v with
  | .bool, .bool b => some (.bool b)
  | .int32, .int i | .uint32, .int i => some (.num (showInt i))
  | .int64, .int i | .uint64, .int i => some (.str (showInt i))   -- 64-bit integers are strings
  | .float, .flt f | .double, .flt f =>
    match f with
    | .nan => some (.str strNaN)
    | .pinf => some (.str strInf)
    | .ninf => some (.str strNegInf)
    | .fin b => some (.num (cfmt (is32 k) b))
  | .string, .str s => some (.str s)
  | .bytes, .bytes b => some (.str (b64Encode b))
  | .enum vals nullValue, .enum n =>
    if nullValue then some .null
    else match byNumber vals n with
      | some name => some (.str name)
      | none => some (.num (showInt n))
  | _, _ => none

/-- canonical proto3 JSON of a list / of the entries of a map (member names are `MapKey.String()`) -/
def canonEncList (cfmt : Bool → Nat → Bytes) (k : Kind) : List Scalar → Option (List J)
  | [] => some []
  | v :: vs =>
    match canonEncScalar cfmt k v, canonEncList cfmt k vs with
    | some j, some js => some (j :: js)
    | _, _ => none

def canonEncMap (cfmt : Bool → Nat → Bytes) (k : Kind) : List (Scalar × Scalar) → Option (List (Bytes × J))
  | [] => some []
  | (key, v) :: rest =>
    match canonEncScalar cfmt k v, canonEncMap cfmt k rest with
    | some j, some es => some ((keyString key, j) :: es)
    | _, _ => none

/-- the canonical proto3 JSON encoder for the value of one field (what protojson emits for the member):
    64-bit integers as strings, 32-bit as numbers, enum names (numbers when unknown), std padded base64,
    "NaN"/"Infinity"/"-Infinity", map keys as strings; an unset singular field is emitted with its default. -/
def canonEncode (cfmt : Bool → Nat → Bytes) (k : Kind) (f : Field) : Option J :=
  match f with
  | .sing (some v) => canonEncScalar cfmt k v
  | .sing none => canonEncScalar cfmt k (defaultOf k)
  | .list xs => (canonEncList cfmt k xs).map .arr
  | .map kvs => (canonEncMap cfmt k kvs).map .obj

/-! ### the typed value domain (protoreflect values are typed) -/

/-- the scalar is a value of the field's kind: integers within the kind's range, enum numbers are int32,
    `NullValue` has the single value 0 -/
def Typed : Kind → Scalar → Prop
  | .bool, .bool _ => True
  | .int32, .int i => -(2 ^ 31 : Int) ≤ i ∧ i < (2 ^ 31 : Int)
  | .int64, .int i => -(2 ^ 63 : Int) ≤ i ∧ i < (2 ^ 63 : Int)
  | .uint32, .int i => 0 ≤ i ∧ i < (2 ^ 32 : Int)
  | .uint64, .int i => 0 ≤ i ∧ i < (2 ^ 64 : Int)
  | .float, .flt _ | .double, .flt _ => True
  | .string, .str _ => True
  | .bytes, .bytes _ => True
  | .enum _ nv, .enum n => -(2 ^ 31 : Int) ≤ n ∧ n < (2 ^ 31 : Int) ∧ (nv = true → n = 0)
  | _, _ => False

/-- the kinds proto3 permits as map keys -/
def isKeyKind : Kind → Bool
  | .bool | .int32 | .int64 | .uint32 | .uint64 | .string => true
  | _ => false

/-- the field value is typed for (cardinality, kind); map keys are pairwise distinct (it is a map) -/
def FieldTyped : Card → Kind → Field → Prop
  | .sing, k, .sing (some v) => Typed k v
  | .sing, _, .sing none => True
  | .rep, k, .list xs => ∀ v, v ∈ xs → Typed k v
  | .map kk, k, .map kvs => isKeyKind kk = true ∧ (∀ p, p ∈ kvs → Typed kk p.1 ∧ Typed k p.2) ∧ keysUnique kvs = true
  | _, _, _ => False

/-- value names of an enum are unique (protodesc enforces it): the name found for a number leads back to it -/
def EnumNamesUnique : Kind → Prop
  | .enum vals _ => ∀ n name, byNumber vals n = some name → byName vals name = some n
  | _ => True

/-- pairwise distinct value names (what protodesc validates) -/
def namesNodup : EnumDesc → Bool
  | [] => true
  | (nm, _) :: rest => !rest.any (fun p => p.1 == nm) && namesNodup rest


/-- what the writer holds afterwards: what it held before, then the encodings that succeeded, in order -/
def okTrees : List (Res J) → List J
  | [] => []
  | .ok j :: rest => j :: okTrees rest
  | _ :: rest => okTrees rest


end GB.C09
