import GB.Base.Bytes
/-
  C09 — model of the field-level JSON codec of `transcoding/json.go` (JSONMarshaler.Marshal /
  Unmarshal and the stream Encoder/Decoder) for non-message fields, *after* the fixes D9a–D9h.

  The model works on the JSON value tree `J` that `encoding/json` hands to the codec; the
  tokenizer (text → tree, string unescaping, UTF-8 replacement) is environment: the harness
  sends the tree the real `encoding/json` produced for the text.

  Integers are exact (`Int`).  Floats are abstract: `FloatOps` carries `strconv.ParseFloat`
  and the `encoding/json` float formatter; theorems take their laws as hypotheses
  (`FloatLaws`), the driver instantiates them with a table computed by the real functions.

  Message-typed fields are not in the model: the code hands them to `protojson` unchanged
  (`unmarshalMessage` / `opts.Marshal`), which is the canonical codec itself.
-/
namespace GB.C09

/-- JSON value tree as `encoding/json` decodes it (strings already unescaped, numbers as literals). -/
inductive J where
  | null
  | bool (b : Bool)
  | num (lit : Bytes)
  | str (s : Bytes)
  | arr (xs : List J)
  | obj (kvs : List (Bytes × J))

/-- A float value: all NaNs are one value (proto equality on NaN is by "is NaN"), finite values by their IEEE bits. -/
inductive F where
  | nan | pinf | ninf
  | fin (bits : Nat)
  deriving DecidableEq, Repr

/-- The float operations of the Go runtime the codec calls (environment). `is32` selects float/double. -/
structure FloatOps where
  /-- `strconv.ParseFloat(s, bitSize)` followed by the exact conversion `T(f)`; `none` = error (syntax or range). -/
  parse : (is32 : Bool) → Bytes → Option F
  /-- the text `encoding/json` writes for a finite `float32`/`float64` with these bits. -/
  fmt : (is32 : Bool) → Nat → Bytes

/-- Enum descriptor: (name, number) in declaration order. -/
abbrev EnumDesc := List (Bytes × Int)

/-- Field kinds of the model. `sint32/sfixed32` behave as `int32` etc. (the codec switches on exactly these groups).
    `enum vals nullValue`: `nullValue = true` for `google.protobuf.NullValue`. -/
inductive Kind where
  | bool | int32 | int64 | uint32 | uint64 | float | double | string | bytes
  | enum (vals : EnumDesc) (nullValue : Bool)

/-- A scalar `protoreflect.Value`. -/
inductive Scalar where
  | bool (b : Bool)
  | int (i : Int)
  | flt (f : F)
  | str (s : Bytes)
  | bytes (b : Bytes)
  | enum (n : Int)
  deriving DecidableEq, Repr

/-- `protoreflect.Value` as returned by `unmarshalScalar`: `none` is the invalid (zero) `Value{}`. -/
abbrev Value := Option Scalar

/-- Outcome of a Go call: result, returned error, or panic. -/
inductive Res (α : Type) where
  | ok (a : α)
  | err
  | panic
  deriving DecidableEq, Repr

def Res.bind {α β : Type} (r : Res α) (f : α → Res β) : Res β :=
  match r with
  | .ok a => f a
  | .err => .err
  | .panic => .panic

/-- What a field-level decode did to the (fresh) message. -/
inductive Field where
  /-- singular: `some v` = `msg.Set(fd, v)` was called; `none` = the field was left untouched -/
  | sing (v : Option Scalar)
  | list (xs : List Scalar)
  /-- the `Map.Set(k, v)` calls, in the order of the JSON text (the code iterates a Go map: any order) -/
  | map (kvs : List (Scalar × Scalar))
  deriving DecidableEq, Repr

inductive Card where
  | sing
  | rep
  | map (key : Kind)

structure Opts where
  /-- `UnmarshalOptions.DiscardUnknown` -/
  discard : Bool
  /-- `MarshalOptions.UseEnumNumbers` -/
  enumNumbers : Bool := false
  /-- `MarshalOptions.EmitUnpopulated || MarshalOptions.EmitDefaultValues` -/
  emitDefaults : Bool := true

/-! ### strconv / encoding/json helpers -/

def isDigit (b : UInt8) : Bool := 48 ≤ b && b ≤ 57

/-- value of a string of ASCII digits, most significant first -/
def digitsValue (ds : Bytes) : Nat := ds.foldl (fun acc b => acc * 10 + (b.toNat - 48)) 0

/-- `strconv.ParseUint(s, 10, bits)`: non-empty, digits only (no sign, no `_` in base 10), value < 2^bits. -/
def parseUint (bits : Nat) (s : Bytes) : Option Int :=
  if s.isEmpty then none
  else if !s.all isDigit then none
  else if digitsValue s < 2 ^ bits then some (digitsValue s : Int) else none

/-- `strconv.ParseInt(s, 10, bits)`: optional sign, digits, range −2^(bits−1) … 2^(bits−1)−1. -/
def parseInt (bits : Nat) (s : Bytes) : Option Int :=
  match s with
  | [] => none
  | c :: rest =>
    let neg := c == 45
    let body := if c == 43 || c == 45 then rest else s
    if body.isEmpty then none
    else if !body.all isDigit then none
    else
      let un := digitsValue body
      if !neg && un ≥ 2 ^ (bits - 1) then none
      else if neg && un > 2 ^ (bits - 1) then none
      else some (if neg then -(un : Int) else (un : Int))

/-- `encoding/json.isValidNumber`, statement by statement. -/
def isValidNumber (s0 : Bytes) : Bool :=
  match s0 with
  | [] => false
  | c0 :: r0 =>
    -- optional '-'
    let s := if c0 == 45 then r0 else s0
    match s with
    | [] => false
    | c :: r =>
      -- digits
      let afterInt : Option Bytes :=
        if c == 48 then some r
        else if 49 ≤ c && c ≤ 57 then some (r.dropWhile isDigit)
        else none
      match afterInt with
      | none => false
      | some s =>
        -- '.' followed by one or more digits
        let s := match s with
          | 46 :: d :: r => if isDigit d then r.dropWhile isDigit else s
          | _ => s
        -- 'e' or 'E', optional sign, digits
        match s with
        | [] => true
        | [_] => false
        | e :: x :: r =>
          if e == 101 || e == 69 then
            if x == 43 || x == 45 then
              if r.isEmpty then false else (r.dropWhile isDigit).isEmpty
            else ((x :: r).dropWhile isDigit).isEmpty
          else false

/-- Decoding a JSON value into a Go `json.Number`: `none` = error, `some none` = left empty (null),
    `some (some lit)` = the literal (a number, or a string that is a valid number). -/
def jsonNumber : J → Option (Option Bytes)
  | .null => some none
  | .num lit => some (some lit)
  | .str s => if isValidNumber s then some (some s) else none
  | _ => none

/-! ### base64 (encoding/base64.StdEncoding) -/

def b64Enc (i : Nat) : UInt8 :=
  if i < 26 then UInt8.ofNat (65 + i)
  else if i < 52 then UInt8.ofNat (97 + (i - 26))
  else if i < 62 then UInt8.ofNat (48 + (i - 52))
  else if i = 62 then 43 else 47

def b64Dec (c : UInt8) : Option Nat :=
  if 65 ≤ c && c ≤ 90 then some (c.toNat - 65)
  else if 97 ≤ c && c ≤ 122 then some (c.toNat - 97 + 26)
  else if 48 ≤ c && c ≤ 57 then some (c.toNat - 48 + 52)
  else if c == 43 then some 62
  else if c == 47 then some 63
  else none

/-- `base64.StdEncoding.EncodeToString` -/
def b64Encode : Bytes → Bytes
  | [] => []
  | [a] => [b64Enc (a.toNat / 4), b64Enc (a.toNat % 4 * 16), 61, 61]
  | [a, b] => [b64Enc (a.toNat / 4), b64Enc (a.toNat % 4 * 16 + b.toNat / 16), b64Enc (b.toNat % 16 * 4), 61]
  | a :: b :: c :: rest =>
    b64Enc (a.toNat / 4) :: b64Enc (a.toNat % 4 * 16 + b.toNat / 16) ::
      b64Enc (b.toNat % 16 * 4 + c.toNat / 64) :: b64Enc (c.toNat % 64) :: b64Encode rest

/-- padded, non-strict (trailing bits ignored) decoding of a newline-free string, 4 characters at a time -/
def b64DecodeQuads : Bytes → Option Bytes
  | [] => some []
  | c1 :: c2 :: c3 :: c4 :: rest =>
    if rest.isEmpty && c4 == 61 then
      if c3 == 61 then
        match b64Dec c1, b64Dec c2 with
        | some a, some b => some [UInt8.ofNat (a * 4 + b / 16)]
        | _, _ => none
      else
        match b64Dec c1, b64Dec c2, b64Dec c3 with
        | some a, some b, some c => some [UInt8.ofNat (a * 4 + b / 16), UInt8.ofNat (b % 16 * 16 + c / 4)]
        | _, _, _ => none
    else
      match b64Dec c1, b64Dec c2, b64Dec c3, b64Dec c4, b64DecodeQuads rest with
      | some a, some b, some c, some d, some r =>
        some (UInt8.ofNat (a * 4 + b / 16) :: UInt8.ofNat (b % 16 * 16 + c / 4) :: UInt8.ofNat (c % 4 * 64 + d) :: r)
      | _, _, _, _, _ => none
  | _ => none

/-- `base64.StdEncoding.DecodeString`: `\r` and `\n` are skipped wherever they occur. -/
def b64Decode (s : Bytes) : Option Bytes :=
  b64DecodeQuads (s.filter (fun c => c != 10 && c != 13))

/-! ### enum descriptor lookups, integer formatting -/

/-- `fd.Enum().Values().ByName(name)` -/
def byName (vals : EnumDesc) (name : Bytes) : Option Int :=
  (vals.find? (fun p => p.1 == name)).map (·.2)

/-- `fd.Enum().Values().ByNumber(n)` (first declared value with that number) -/
def byNumber (vals : EnumDesc) (n : Int) : Option Bytes :=
  (vals.find? (fun p => p.2 == n)).map (·.1)

/-- decimal digits of `n`, most significant first, by fuel (fuel = n+1 always suffices) -/
def natDigitsAux : Nat → Nat → Bytes → Bytes
  | 0, _, acc => acc
  | fuel + 1, n, acc =>
    let acc' := UInt8.ofNat (48 + n % 10) :: acc
    if n / 10 = 0 then acc' else natDigitsAux fuel (n / 10) acc'

def showNat (n : Nat) : Bytes := natDigitsAux (n + 1) n []

/-- `strconv.FormatInt(i, 10)` — what `encoding/json` writes for integers and `MapKey.String()` for integer keys -/
def showInt (i : Int) : Bytes :=
  if i < 0 then 45 :: showNat i.natAbs else showNat i.natAbs

def strNaN : Bytes := [78, 97, 78]
def strInf : Bytes := [73, 110, 102, 105, 110, 105, 116, 121]
def strNegInf : Bytes := 45 :: strInf
def strTrue : Bytes := [116, 114, 117, 101]
def strFalse : Bytes := [102, 97, 108, 115, 101]

/-! ### decoder -/

def is32 : Kind → Bool
  | .float => true
  | _ => false

/-- `jsonIntDecode` (fix D9a): json.Number, null ⇒ 0, then ParseInt/ParseUint with the field's size. -/
def intDecode (parse : Bytes → Option Int) (j : J) : Res Value :=
  match jsonNumber j with
  | none => .err
  | some none => .ok (some (.int 0))
  | some (some lit) =>
    match parse lit with
    | some n => .ok (some (.int n))
    | none => .err

/-- `jsonDecoder.unmarshalScalar`. -/
def unmarshalScalar (ops : FloatOps) (o : Opts) (k : Kind) (j : J) : Res Value :=
  match k with
  | .bool =>
    match j with
    | .bool b => .ok (some (.bool b))
    | .null => .ok (some (.bool false))
    | _ => .err
  | .int32 => intDecode (parseInt 32) j
  | .int64 => intDecode (parseInt 64) j
  | .uint32 => intDecode (parseUint 32) j
  | .uint64 => intDecode (parseUint 64) j
  | .float | .double =>
    -- jsonFloatDecode (fix D9f): Token() with UseNumber, then ParseFloat(literal, bitSize)
    match j with
    | .num lit | .str lit =>
      match ops.parse (is32 k) lit with
      | some f => .ok (some (.flt f))
      | none => .err
    | _ => .err
  | .string =>
    match j with
    | .str s => .ok (some (.str s))
    | .null => .ok (some (.str []))
    | _ => .err
  | .bytes =>
    -- fix D9h: decoded as a Go string, then base64.StdEncoding.DecodeString
    match j with
    | .str s =>
      match b64Decode s with
      | some b => .ok (some (.bytes b))
      | none => .err
    | .null => .ok (some (.bytes []))
    | _ => .err
  | .enum vals nullValue =>
    match j with
    | .null => if nullValue then .ok (some (.enum 0)) else .err
    | .str s =>
      match byName vals s with
      | some n => .ok (some (.enum n))
      | none => if o.discard then .ok none else .err
    | .num lit =>
      -- fix D9b: json.Number parsed as a 32-bit integer
      match parseInt 32 lit with
      | some n => .ok (some (.enum n))
      | none => .err
    | _ => .err

/-- `Message.Set` / `List.Append` / `Map.Set` panic when handed an invalid `Value`. -/
def protoStore (v : Value) : Res Scalar :=
  match v with
  | some s => .ok s
  | none => .panic

/-- `unmarshalSingular` for scalar kinds (fix D9c: an invalid Value is skipped). -/
def unmarshalSingular (ops : FloatOps) (o : Opts) (k : Kind) (j : J) : Res Field :=
  (unmarshalScalar ops o k j).bind fun v =>
    if v.isSome then (protoStore v).bind fun s => .ok (.sing (some s))
    else .ok (.sing none)

/-- the element loop of `unmarshalList` -/
def listLoop (ops : FloatOps) (o : Opts) (k : Kind) : List J → Res (List Scalar)
  | [] => .ok []
  | x :: xs =>
    (unmarshalScalar ops o k x).bind fun v =>
      if v.isSome then
        (protoStore v).bind fun s => (listLoop ops o k xs).bind fun r => .ok (s :: r)
      else listLoop ops o k xs

/-- `unmarshalList`: `[]json.RawMessage` accepts an array or null. -/
def unmarshalList (ops : FloatOps) (o : Opts) (k : Kind) (j : J) : Res Field :=
  match j with
  | .null => .ok (.list [])
  | .arr xs => (listLoop ops o k xs).bind fun r => .ok (.list r)
  | _ => .err

/-- `unmarshalMapKey` (fix D9d): the member name converted directly by key kind. -/
def unmarshalMapKey (kk : Kind) (key : Bytes) : Res Scalar :=
  match kk with
  | .string => .ok (.str key)
  | .bool => if key == strTrue then .ok (.bool true) else if key == strFalse then .ok (.bool false) else .err
  | .int32 => match parseInt 32 key with | some n => .ok (.int n) | none => .err
  | .int64 => match parseInt 64 key with | some n => .ok (.int n) | none => .err
  | .uint32 => match parseUint 32 key with | some n => .ok (.int n) | none => .err
  | .uint64 => match parseUint 64 key with | some n => .ok (.int n) | none => .err
  | _ => .err

/-- Decoding an object into `map[string]json.RawMessage`: a repeated name overwrites the earlier one. -/
def dedupLast : List (Bytes × J) → List (Bytes × J)
  | [] => []
  | (k, v) :: rest => if rest.any (fun p => p.1 == k) then dedupLast rest else (k, v) :: dedupLast rest

/-- the entry loop of `unmarshalMap` -/
def mapLoop (ops : FloatOps) (o : Opts) (kk vk : Kind) : List (Bytes × J) → Res (List (Scalar × Scalar))
  | [] => .ok []
  | (key, raw) :: rest =>
    (unmarshalMapKey kk key).bind fun kv =>
      (unmarshalScalar ops o vk raw).bind fun v =>
        if v.isSome then
          (protoStore v).bind fun s => (mapLoop ops o kk vk rest).bind fun r => .ok ((kv, s) :: r)
        else mapLoop ops o kk vk rest

/-- `unmarshalMap` -/
def unmarshalMap (ops : FloatOps) (o : Opts) (kk vk : Kind) (j : J) : Res Field :=
  match j with
  | .null => .ok (.map [])
  | .obj kvs => (mapLoop ops o kk vk (dedupLast kvs)).bind fun r => .ok (.map r)
  | _ => .err

/-- `jsonDecoder.Decode(msg, fd)` for a non-message field of a fresh message. -/
def decode (ops : FloatOps) (o : Opts) (c : Card) (k : Kind) (j : J) : Res Field :=
  match c with
  | .sing => unmarshalSingular ops o k j
  | .rep => unmarshalList ops o k j
  | .map kk => unmarshalMap ops o kk k j

/-! ### stream Decoder / Encoder (`JSONMarshaler.NewDecoder` / `NewEncoder`, used for a whole request/response stream)

  One `jsonDecoder` decodes body after body. Its only state is the position in the reader (environment:
  the harness hands over the sequence of value trees the tokenizer yields). The intermediate containers
  `var marshaled []json.RawMessage` / `var marshaled map[string]json.RawMessage` are LOCALS of
  `unmarshalList` / `unmarshalMap`, so every call starts from empty ones. That matters because `encoding/json`
  resets a slice before decoding an array into it but decodes an object INTO an existing map, keeping the
  entries that are already there; `decodeWithScratch` makes the scratch map explicit so that the difference
  between the code (`fresh = true`) and a decoder that keeps the map between calls (`fresh = false`) can be stated. -/

/-- one `Decode(msg, fd)` call when the Go map that `unmarshalMap` decodes the object into holds `scratch`;
    returns the outcome and the map afterwards (`null` sets a Go map to nil) -/
def decodeWithScratch (ops : FloatOps) (o : Opts) (c : Card) (k : Kind) (scratch : List (Bytes × J)) (j : J) :
    Res Field × List (Bytes × J) :=
  match c, j with
  | .map kk, .obj kvs =>
    let m := dedupLast (scratch ++ kvs)
    ((mapLoop ops o kk k m).bind fun r => .ok (.map r), m)
  | .map _, .null => (decode ops o c k j, [])
  | _, _ => (decode ops o c k j, scratch)

/-- the results of decoding the bodies `js` one after the other with ONE decoder, each into a fresh message -/
def decodeStreamFrom (ops : FloatOps) (o : Opts) (c : Card) (k : Kind) (fresh : Bool) :
    List (Bytes × J) → List J → List (Res Field)
  | _, [] => []
  | scratch, j :: rest =>
    let r := decodeWithScratch ops o c k (if fresh then [] else scratch) j
    r.1 :: decodeStreamFrom ops o c k fresh r.2 rest

/-- the stream decoder of the code: the scratch containers are locals (`fresh = true`) -/
def decodeStream (ops : FloatOps) (o : Opts) (c : Card) (k : Kind) (js : List J) : List (Res Field) :=
  decodeStreamFrom ops o c k true [] js

/-! ### the codec as a function of (options, target resolver, value): sequences of uses over several descriptor sets

  Message-typed bodies (and `google.protobuf.Any` inside them) are handed to protojson with the type resolver of
  the request's target: `JSONMarshaler.Marshal / Unmarshal / NewEncoder / NewDecoder(types, …)` take the resolver
  as an ARGUMENT and copy their options per call. Abstractly a resolver is the list of message types it knows,
  each with the number of fields its descriptor has; an Any-carried value is a type and the field numbers set. -/

/-- a target's type resolver: (message type, number of fields of its descriptor) -/
abbrev Resolver := List (Nat × Nat)

/-- the message packed into an Any: its type and the (0-based) numbers of the fields that are set -/
structure AnyVal where
  typ : Nat
  fields : List Nat
  deriving DecidableEq, Repr

/-- protojson of an Any with a resolver: an unknown type cannot be resolved (error); fields the resolver's
    descriptor does not have are unknown fields and are not written -/
def encodeAny (res : Resolver) (a : AnyVal) : Res AnyVal :=
  match res.find? (fun p => p.1 == a.typ) with
  | none => .err
  | some (_, n) => .ok { typ := a.typ, fields := a.fields.filter (· < n) }

/-- one use of a marshaler: through a stream Encoder/Decoder (`NewEncoder`/`NewDecoder`) or single-shot,
    for a target with resolver `res`, on a body carrying `val` -/
structure CodecUse where
  stream : Bool
  res : Resolver
  val : AnyVal
  deriving DecidableEq, Repr

/-- the uses of ONE marshaler in a process, in order. `sticky = false` is the code: every use resolves with the
    resolver it was given. `sticky = true` is a marshaler that binds the resolver of its first stream into a cached
    copy of itself (state: that resolver) and uses it for every later stream. -/
def runUsesFrom (sticky : Bool) : Option Resolver → List CodecUse → List (Res AnyVal)
  | _, [] => []
  | cached, u :: rest =>
    let res := if sticky && u.stream then cached.getD u.res else u.res
    let cached' := if u.stream && cached.isNone then some u.res else cached
    encodeAny res u.val :: runUsesFrom sticky cached' rest

def runUses (us : List CodecUse) : List (Res AnyVal) := runUsesFrom false none us

/-! ### the root constructor's wiring of the configured marshalers to the entry points

  `grpcbridge.NewWebBridge(router, WithMarshalers(…), WithDefaultMarshaler(…))` builds ONE StandardTranscoder from the
  options and hands it to the transcoded HTTP bridge (plain HTTP, streamed and SSE responses) and to the transcoded
  WebSocket bridge. `StandardTranscoder.pickRequestMarshaler`: a request with `Content-Type: application/json` gets the
  marshaler registered for it (`WithMarshalers`, default `[DefaultJSONMarshaler]`), a request without Content-Type the
  default marshaler (`WithDefaultMarshaler`, default `DefaultJSONMarshaler`, which discards unknowns). -/

/-- the JSON marshalers configured at the root: `none` = option not given, `some d` = a JSONMarshaler with DiscardUnknown = d -/
structure BridgeCfg where
  marshalers : Option Bool
  dflt : Option Bool
  deriving DecidableEq, Repr

/-- DiscardUnknown of the marshaler `pickRequestMarshaler` picks -/
def pickDiscard (t : BridgeCfg) (hasContentType : Bool) : Bool :=
  if hasContentType then t.marshalers.getD true else t.dflt.getD true

inductive Entry where
  | http | httpStream | sse | ws
  deriving DecidableEq, Repr

/-- which transcoder configuration each bridge handler was constructed with -/
structure Wiring where
  http : BridgeCfg
  ws : BridgeCfg

/-- `NewWebBridge`: the same transcoder for both handlers -/
def rootWiring (cfg : BridgeCfg) : Wiring := { http := cfg, ws := cfg }

/-- a constructor that forgets to pass the transcoder to the WebSocket bridge (it then builds its own default one) -/
def droppedWsWiring (cfg : BridgeCfg) : Wiring := { http := cfg, ws := { marshalers := none, dflt := none } }

def entryCfg (w : Wiring) : Entry → BridgeCfg
  | .ws => w.ws
  | _ => w.http

/-- decoding the request body of a call that arrives at entry point `e` -/
def entryDecode (ops : FloatOps) (w : Wiring) (e : Entry) (hasContentType : Bool) (c : Card) (k : Kind) (j : J) : Res Field :=
  decode ops { discard := pickDiscard (entryCfg w e) hasContentType } c k j

/-! ### the code before the fixes (kept to state what was wrong) -/

/-- two's-complement wrap of `i` to `bits` bits — Go's `T(i)` conversion -/
def wrapInt (signed : Bool) (bits : Nat) (i : Int) : Int :=
  let m := i % (2 ^ bits : Int)
  if signed && m ≥ (2 ^ (bits - 1) : Int) then m - (2 ^ bits : Int) else m

/-- `json.Number.Int64()` with the error ignored: syntax error ⇒ 0, range error ⇒ the clamped value -/
def int64Ignored (lit : Bytes) : Int :=
  match lit with
  | [] => 0
  | c :: rest =>
    let neg := c == 45
    let body := if c == 43 || c == 45 then rest else lit
    if body.isEmpty || !body.all isDigit then 0
    else
      let un := digitsValue body
      if !neg && un ≥ 2 ^ 63 then (2 ^ 63 - 1 : Int)
      else if neg && un > 2 ^ 63 then -(2 ^ 63 : Int)
      else if neg then -(un : Int) else (un : Int)

/-- `jsonConvertNumber` before fix D9a -/
def intDecodePreFix (signed : Bool) (bits : Nat) (j : J) : Res Value :=
  match jsonNumber j with
  | none => .err
  | some none => .ok (some (.int 0))
  | some (some lit) => .ok (some (.int (wrapInt signed bits (int64Ignored lit))))

/-- `unmarshalSingular` before fix D9c: the Value is stored without the validity check -/
def unmarshalSingularPreFix (ops : FloatOps) (o : Opts) (k : Kind) (j : J) : Res Field :=
  (unmarshalScalar ops o k j).bind fun v => (protoStore v).bind fun s => .ok (.sing (some s))

/-! ### encoder -/

/-- the proto3 default of a kind (what `msg.Get` returns for an unset field) -/
def defaultOf : Kind → Scalar
  | .bool => .bool false
  | .int32 | .int64 | .uint32 | .uint64 => .int 0
  | .float | .double => .flt (.fin 0)
  | .string => .str []
  | .bytes => .bytes []
  | .enum _ _ => .enum 0

/-- `MapKey.String()` -/
def keyString : Scalar → Bytes
  | .bool b => if b then strTrue else strFalse
  | .int i => showInt i
  | .str s => s
  | _ => []

/-- `marshalSingular` for scalar kinds (with fix D9e) followed by `json.MarshalIndent` of the Go value,
    read back as a tree. `err` for a value that does not have the field's type (cannot happen:
    protoreflect values are typed). Strings are assumed valid UTF-8 (proto3 strings are). -/
def marshalScalar (ops : FloatOps) (o : Opts) (k : Kind) (v : Scalar) : Res J :=
  match k, v with
  | .bool, .bool b => .ok (.bool b)
  | .int32, .int i | .int64, .int i | .uint32, .int i | .uint64, .int i => .ok (.num (showInt i))
  | .float, .flt f | .double, .flt f =>
    match f with
    | .nan => .ok (.str strNaN)
    | .pinf => .ok (.str strInf)
    | .ninf => .ok (.str strNegInf)
    | .fin b => .ok (.num (ops.fmt (is32 k) b))
  | .string, .str s => .ok (.str s)
  | .bytes, .bytes b => .ok (.str (b64Encode b))
  | .enum vals nullValue, .enum n =>
    if nullValue then .ok .null
    else
      match byNumber vals n with
      | some name => if o.enumNumbers then .ok (.num (showInt n)) else .ok (.str name)
      | none => .ok (.num (showInt n))
  | _, _ => .err

def marshalListLoop (ops : FloatOps) (o : Opts) (k : Kind) : List Scalar → Res (List J)
  | [] => .ok []
  | x :: xs => (marshalScalar ops o k x).bind fun j => (marshalListLoop ops o k xs).bind fun r => .ok (j :: r)

def marshalMapLoop (ops : FloatOps) (o : Opts) (k : Kind) : List (Scalar × Scalar) → Res (List (Bytes × J))
  | [] => .ok []
  | (key, v) :: rest =>
    (marshalScalar ops o k v).bind fun j => (marshalMapLoop ops o k rest).bind fun r => .ok ((keyString key, j) :: r)

/-- `JSONMarshaler.Marshal(types, msg, fd)` for a non-message field holding `f`
    (`sing none` = unset field: `msg.Get` returns the default). -/
def encode (ops : FloatOps) (o : Opts) (k : Kind) (f : Field) : Res J :=
  match f with
  | .sing (some v) => marshalScalar ops o k v
  | .sing none => marshalScalar ops o k (defaultOf k)
  | .list xs =>
    -- an empty list/map is an invalid (unpopulated) protoreflect value: `null` unless defaults are emitted
    if xs.isEmpty && !o.emitDefaults then .ok .null
    else (marshalListLoop ops o k xs).bind fun r => .ok (.arr r)
  | .map kvs =>
    if kvs.isEmpty && !o.emitDefaults then .ok .null
    else (marshalMapLoop ops o k kvs).bind fun r => .ok (.obj r)

/-- the stream encoder: `jsonEncoder.Encode` is `Marshal` followed by a write of the bytes and the delimiter;
    `written` is what the writer holds (as value trees). An error writes nothing. -/
def encodeStreamFrom (ops : FloatOps) (o : Opts) (k : Kind) : List J → List Field → List J × List (Res J)
  | written, [] => (written, [])
  | written, f :: rest =>
    let r := encode ops o k f
    let written' := match r with
      | .ok j => written ++ [j]
      | _ => written
    let out := encodeStreamFrom ops o k written' rest
    (out.1, r :: out.2)

def encodeStream (ops : FloatOps) (o : Opts) (k : Kind) (fs : List Field) : List J × List (Res J) :=
  encodeStreamFrom ops o k [] fs

/-! ### UTF-8 validity (`unicode/utf8.Valid`) — the encoder model assumes it for strings -/

def isCont (b : UInt8) : Bool := 128 ≤ b && b ≤ 191

def validUtf8 : Bytes → Bool
  | [] => true
  | b0 :: rest =>
    if b0 < 128 then validUtf8 rest
    else if 194 ≤ b0 && b0 ≤ 223 then
      match rest with
      | b1 :: r => isCont b1 && validUtf8 r
      | _ => false
    else if 224 ≤ b0 && b0 ≤ 239 then
      match rest with
      | b1 :: b2 :: r =>
        (if b0 == 224 then 160 ≤ b1 && b1 ≤ 191 else if b0 == 237 then 128 ≤ b1 && b1 ≤ 159 else isCont b1)
          && isCont b2 && validUtf8 r
      | _ => false
    else if 240 ≤ b0 && b0 ≤ 244 then
      match rest with
      | b1 :: b2 :: b3 :: r =>
        (if b0 == 240 then 144 ≤ b1 && b1 ≤ 191 else if b0 == 244 then 128 ≤ b1 && b1 ≤ 143 else isCont b1)
          && isCont b2 && isCont b3 && validUtf8 r
      | _ => false
    else false

end GB.C09
