import GB.C10.Spec
import GB.C09.Spec
/-
  C10 ∩ C09 — the JSON body of a `google.rpc.Status` WITHOUT details, built from the scalar codecs C09 models.

  `{"code": <int32>, "message": <string>, "details": []}`: `code` and `message` are an int32 and a string field,
  whose proto3 JSON mapping is exactly what GB.C09 models (`encode`/`decode` for `Kind.int32` / `Kind.string`,
  proved to round-trip in `C09_roundtrip`). As in C09 the codec works on the JSON value tree `J`; the text ↔ tree
  step (`encoding/json` tokenizer / protojson's writer: escaping, whitespace) is environment, here the two functions
  `print`/`parse` of a `Tokenizer` with the law `parse (print j) = some j`.
  The details array is `[]` in this sub-case; the general case (expanding `Any` with the target's resolver) stays a
  hypothesis of `C10_failure_body`.
-/
namespace GB.C10
open GB.C09

def keyCode : Bytes := ascii "code"
def keyMessage : Bytes := ascii "message"
def keyDetails : Bytes := ascii "details"

/-- marshal options of `DefaultJSONMarshaler`: EmitDefaultValues, enum names; DiscardUnknown on the way in -/
def statusOpts : Opts := { discard := true, enumNumbers := false, emitDefaults := true }

/-- protojson of a Status without details, field by field with the C09 scalar encoder. -/
def statusTree (ops : FloatOps) (st : St) : Res J :=
  (encode ops statusOpts .int32 (.sing (some (.int st.code)))).bind fun jc =>
  (encode ops statusOpts .string (.sing (some (.str st.msg)))).bind fun jm =>
  .ok (.obj [(keyCode, jc), (keyMessage, jm), (keyDetails, .arr [])])

def objGet (kvs : List (Bytes × J)) (k : Bytes) : Option J :=
  (kvs.find? (fun p => p.1 == k)).map (·.2)

/-- the client's decoder: the three members, `code`/`message` through the C09 scalar decoder, `details` must be `[]`. -/
def statusOfTree (ops : FloatOps) (j : J) : Option St :=
  match j with
  | .obj kvs =>
    match objGet kvs keyCode, objGet kvs keyMessage, objGet kvs keyDetails with
    | some jc, some jm, some (.arr []) =>
      match decode ops statusOpts .sing .int32 jc, decode ops statusOpts .sing .string jm with
      | .ok fc, .ok fm =>
        match fc.read .int32, fm.read .string with
        | .sing (some (.int c)), .sing (some (.str m)) => if 0 ≤ c then some ⟨c.toNat, m, []⟩ else none
        | _, _ => none
      | _, _ => none
    | _, _, _ => none
  | _ => none

/-- text ↔ value tree (environment): what protojson writes is read back as the same tree. -/
structure Tokenizer where
  print : J → Bytes
  parse : Bytes → Option J
  roundtrip : ∀ j, parse (print j) = some j
  nonempty : ∀ j, print j ≠ []

/-- the JSON response transcoder restricted to statuses without details -/
def jsonStatusEnc (ops : FloatOps) (tk : Tokenizer) (st : St) : Except Bytes Bytes :=
  match statusTree ops st with
  | .ok j => .ok (tk.print j)
  | _ => .error (ascii "marshal")

def jsonStatusDec (ops : FloatOps) (tk : Tokenizer) (b : Bytes) : Option St :=
  (tk.parse b).bind (statusOfTree ops)

end GB.C10
