import GB.Base.Proto
namespace GB.C10
open GB GB.Proto

/-- stub: replaced when the C10 slice is built -/
def handle : Handler := fun _ _ => "BAD c10 unimplemented"

end GB.C10
