import GB.Base.Proto
import GB.C10.Spec
import GB.C10.Options
import GB.C10.CreateStatus
import GB.C10.RespPath
import GB.C10.TwoTargets
/-
  C10 driver — judges one case line of harness/c10 (see that file for the line formats).
    tbl <code> => <http>
    cvt <rawerr> => <code> <msg> <letters> <http>
    e2e rpc= inj= err= gone= ct= acc= body= rbp= tmo= n= resp= md=
        => st= ct= xcto= body= ds= dm= hdr= trl= pm= fe= nat= tr= u8=
-/
namespace GB.C10
open GB GB.Proto

/-! ### small parsers -/

def kv? (key tok : String) : Option String :=
  let p := key ++ "="
  if tok.startsWith p then some ((tok.drop p.length).toString) else none

def hexList? (s : String) : Option (List Bytes) :=
  if s == "-" then some [] else (s.splitOn ",").mapM parseHex

def hexPairs? (s : String) : Option (List (Bytes × Bytes)) :=
  if s == "-" then some []
  else (s.splitOn ",").mapM (fun p =>
    match p.splitOn ":" with
    | [k, v] => do let k ← parseHex k; let v ← parseHex v; pure (k, v)
    | _ => none)

def detailOfLetter (c : Char) : Option Detail :=
  let id := UInt8.ofNat c.toNat
  match c with
  | 'r' => some ⟨.resolvable, id⟩
  | 'q' => some ⟨.resolvable, id⟩
  | 'u' => some ⟨.unknownType, id⟩
  | 'm' => some ⟨.malformed, id⟩
  | 'e' => some ⟨.noTypeURL, id⟩
  | 'b' => some ⟨.badURL, id⟩
  | '?' => some ⟨.badURL, id⟩   -- harness: a decoded detail that is none of the known payloads (never expected)
  | _ => none

def details? (s : String) : Option (List Detail) :=
  if s == "-" then some [] else s.toList.mapM detailOfLetter

def lettersOf (ds : List Detail) : String :=
  if ds.isEmpty then "-" else String.ofList (ds.map (fun d => Char.ofNat d.id.toNat))

def parseBase (s : String) : Option RawErr :=
  match s.splitOn ":" with
  | ["S", c, m, d] => do
    let c ← c.toNat?; let m ← parseHex m; let d ← details? d
    pure (.status ⟨c, m, d⟩)
  | ["P", m] => do let m ← parseHex m; pure (.plain m)
  | [b, c, m, d] =>
    if b.startsWith "B" then do
      let h ← (b.drop 1).toString.toNat?; let c ← c.toNat?; let m ← parseHex m; let d ← details? d
      pure (.both h ⟨c, m, d⟩)
    else none
  | _ => none

def applyWrappers : List String → RawErr → Option RawErr
  | [], e => some e
  | w :: rest, e => do
    let inner ← applyWrappers rest e
    if w.startsWith "H" then do
      let h ← (w.drop 1).toString.toNat?
      pure (.http h inner)
    else if w.startsWith "W" then do
      let p ← parseHex (w.drop 1).toString
      pure (.wrapf p inner)
    else none

def parseRawErr (s : String) : Option RawErr :=
  let parts := s.splitOn "/"
  match parts.getLast? with
  | none => none
  | some b => do
    let e ← parseBase b
    applyWrappers parts.dropLast e

def showSt (st : St) : String := s!"{st.code}:{toHex st.msg}:{lettersOf st.details}"

def showOptBytes : Option Bytes → String
  | none => "-"
  | some b => toHex b

def showMD (md : MD) : String :=
  if md.isEmpty then "-"
  else ",".intercalate (md.map (fun p => toHex p.1 ++ ":" ++ "|".intercalate (p.2.map toHex)))

def parseMD? (s : String) : Option MD :=
  if s == "-" then some []
  else (s.splitOn ",").mapM (fun p =>
    match p.splitOn ":" with
    | [k, vs] => do
      let k ← parseHex k
      let vs ← (vs.splitOn "|").mapM parseHex
      pure (k, vs)
    | _ => none)

def sameMD (a b : MD) : Bool :=
  a.length == b.length && a.all (fun p => (b.find? (fun q => q.1 == p.1)).map (·.2) == some p.2)

/-! ### tbl / cvt -/

def handleTbl (c out : String) : String :=
  match c.toNat?, out.toNat? with
  | some c, some o =>
    let m := httpStatusFromCode c
    if c < 17 && o != canonicalHttp c then s!"VIOL table code={c} impl={o} canonical={canonicalHttp c} model={m}"
    else if o != m then s!"DIFF model={m}"
    else s!"OK nt b=tbl"
  | _, _ => "BAD tbl"

def handleCvt (e : String) (out : List String) : String :=
  match parseRawErr e, out with
  | some e, [c, m, d, h] =>
    let (st, hs) := errorStatus e
    let model := s!"{st.code} {toHex st.msg} {lettersOf st.details} {hs}"
    let impl := s!"{c} {m} {d} {h}"
    let kind := match e with
      | .status _ => "status" | .plain _ => "plain" | .both _ _ => "both" | .http _ _ => "http" | .wrapf _ _ => "wrapf"
    -- the specification is judged on the code the implementation's status.Convert produced
    let want := match explicitOf e with
      | some x => x
      | none => canonicalHttp (c.toNat?.getD 99)
    if h != toString want then s!"VIOL errorStatus http impl={h} want={want} (explicit or canonical for code {c}) model={hs}"
    else if impl != model then s!"DIFF model={model}"
    else s!"OK nt b=cvt.{kind}"
  | _, _ => "BAD cvt"

/-! ### e2e -/

structure Obs where
  status : Nat
  ct : Option (List Bytes)
  xcto : Option (List Bytes)
  body : Bytes
  ds : Option St
  dm : String
  hdr : MD
  trl : MD
  fe : Option (St × Nat)
  u8 : Option Bool

def parseSt? (s : String) : Option (Option St) :=
  if s == "-" then some none
  else match s.splitOn ":" with
    | [c, m, d] => do
      let c ← c.toNat?; let m ← parseHex m; let d ← details? d
      pure (some ⟨c, m, d⟩)
    | _ => none

def parseFe? (s : String) : Option (Option (St × Nat)) :=
  if s == "-" then some none
  else match s.splitOn ":" with
    | [c, m, d, h] => do
      let c ← c.toNat?; let m ← parseHex m; let d ← details? d; let h ← h.toNat?
      pure (some (⟨c, m, d⟩, h))
    | _ => none

def optHexList? (s : String) : Option (Option (List Bytes)) :=
  if s == "-" then some none else (hexList? s).map some

def parsePM? (s : String) : Option (List (Option Bytes)) :=
  if s == "-" then some []
  else (s.splitOn ",").mapM (fun p => if p == "!" then some none else (parseHex p).map some)

def parseNat? (s : String) : Option (Option RawErr) :=
  if s == "-" then some none
  else match s.splitOn ":" with
    | [d, c, m] => do
      let c ← c.toNat?; let m ← parseHex m
      pure (some (if d == "1" then .status ⟨c, m, []⟩ else .plain m))
    | _ => none

/-- recorded Transcode calls of the bound response transcoder: (kind, ok?, bytes) -/
def parseTr? (s : String) : Option (List (String × Bool × Bytes)) :=
  if s == "-" then some []
  else (s.splitOn ",").mapM (fun p =>
    match p.splitOn ":" with
    | [k, r, h] => do let b ← parseHex h; pure (k, r == "ok", b)
    | _ => none)

def parseRpc? : String → Option Rpc
  | "u" => some .unary | "s" => some .serverStream | "c" => some .clientStream
  -- upper case: the harness ran the request through a real net/http server (same expected response)
  | "U" => some .unary | "S" => some .serverStream | "C" => some .clientStream | _ => none

def parseInj? : String → Option Inj
  | "none" => some .none | "router" => some .router | "bind" => some .bind | "decode" => some .decode
  | "create" => some .create | "target" => some .target | "deadline" => some .deadline | _ => none

def showOrigin : Option Origin → String
  | none => "success"
  | some .router => "router" | some .bind => "bind" | some .requestDecode => "decode" | some .streamCreate => "create"
  | some .targetStatus => "target" | some .deadline => "deadline" | some .bridge => "bridge" | some .responseEncode => "encode"

def noRecord : Bytes := ascii "<no record>"

/-- expected decoding of one transcoded response value -/
def showValue (sel : Selected) (ra rb : Bytes) : String :=
  match sel with
  | .whole => s!"m:{toHex ra}:{toHex rb}"
  | .field f =>
    if f == ascii "resource_name" then s!"s:{toHex ra}"
    else if f == ascii "owner" then s!"s:{toHex rb}"
    else "s:x"

/-- expected decoding of a streamed body: framing (newline-delimited values / SSE records) and the values -/
def showItems (sel : Selected) (cnt : Nat) (sse : Bool) (ra rb : Bytes) : String :=
  (if sse then "sse|" else "nl|") ++ ";".intercalate (List.replicate cnt (showValue sel ra rb))

def handleE2E (i o : List String) : String :=
  match i, o with
  | rpc :: inj :: err :: gone :: _ct :: acc :: body :: rbp :: tmo :: n :: resp :: md :: methTail,
    [st, ct, xcto, obody, ds, dm, hdr, trl, pm, fe, nat, tr, u8, late] =>
    -- optional 13th input field `meth=<METHOD>[*]`: the HTTP method of the request and whether the binding has a body.
    -- It is NOT an input of the model (C10_negotiation_method_independent): the expected response is the same.
    if !(methTail.isEmpty || (methTail.length == 1 && (methTail.head?.bind (kv? "meth")).isSome)) then "BAD e2e arity" else
    let parsed : Option (Scenario × Env × Obs × Bytes × Bytes × String × Option (String × Bool × Bytes)) := do
      let rpc ← (kv? "rpc" rpc) >>= parseRpc?
      let inj ← (kv? "inj" inj) >>= parseInj?
      let errS ← kv? "err" err
      let e ← if errS == "-" then some (RawErr.plain []) else parseRawErr errS
      let gone ← kv? "gone" gone
      let acc ← (kv? "acc" acc) >>= hexList?
      let body ← (kv? "body" body) >>= parseHex
      let rbp ← (kv? "rbp" rbp) >>= parseHex
      let tmo ← kv? "tmo" tmo
      let n ← (kv? "n" n) >>= String.toNat?
      let resp ← kv? "resp" resp
      let (ra, rb) ← match resp.splitOn "/" with
        | [a, b] => do let a ← parseHex a; let b ← parseHex b; pure (a, b)
        | _ => none
      let md ← kv? "md" md
      let (h, t, ah, at_, ph, pt) ← match md.splitOn "/" with
        | [h, t, ah, at_, ph, pt] => do
          let h ← hexPairs? h; let t ← hexPairs? t; let ah ← hexList? ah; let at_ ← hexList? at_
          let ph ← parseHex ph; let pt ← parseHex pt
          pure (h, t, ah, at_, ph, pt)
        | _ => none
      -- output side
      let ost ← (kv? "st" st) >>= String.toNat?
      let oct ← (kv? "ct" ct) >>= optHexList?
      let oxcto ← (kv? "xcto" xcto) >>= optHexList?
      let obody ← (kv? "body" obody) >>= parseHex
      let ods ← (kv? "ds" ds) >>= parseSt?
      let odm ← kv? "dm" dm
      let ohdr ← (kv? "hdr" hdr) >>= parseMD?
      let otrl ← (kv? "trl" trl) >>= parseMD?
      let pm ← (kv? "pm" pm) >>= parsePM?
      let fe ← (kv? "fe" fe) >>= parseFe?
      let nat ← (kv? "nat" nat) >>= parseNat?
      let tr ← (kv? "tr" tr) >>= parseTr?
      let u8 ← kv? "u8" u8
      let deadlineOn := inj == .deadline
      let sc : Scenario := {
        rpc := rpc, inj := inj, err := e, gone := gone == "1", accept := acc, bodyEmpty := body.isEmpty, rbp := rbp, n := n,
        hdr := if deadlineOn then [] else mdOfPairs h, trl := if deadlineOn then [] else mdOfPairs t,
        allowH := ah, allowT := at_, prefH := ph, prefT := pt }
      let sEnc := tr.find? (fun x => x.1 == "S")
      let mEnc := tr.find? (fun x => x.1 == "M" && x.2.1)
      let synth : Bytes := match fe with
        | some (s, _) => s.msg
        | none => match ods with
          | some s => s.msg
          | none => []
      let env : Env := {
        pm := pm,
        stEnc := fun _ => match sEnc with
          | some (_, true, b) => .ok b
          | some (_, false, b) => .error b
          | none => .error noRecord,
        msgEnc := fun _ => match mEnc with
          | some (_, _, b) => b
          | none => noRecord,
        natDecode := nat, synthMsg := synth }
      let obs : Obs := { status := ost, ct := oct, xcto := oxcto, body := obody, ds := ods, dm := odm, hdr := ohdr, trl := otrl,
                         fe := fe, u8 := if u8 == "-" then none else some (u8 == "1") }
      pure (sc, env, obs, ra, rb, tmo, sEnc)
    match parsed with
    | none => "BAD e2e fields"
    | some (sc, env, obs, ra, rb, tmo, sRec) =>
      -- C10_no_write_after_return: nothing may use the ResponseWriter once ServeHTTP has returned
      if (kv? "late" late) != some "0" then s!"VIOL write-after-return {late} (Write/WriteHeader/Flush still running or started after ServeHTTP returned)" else
      if (tmo != "-") != (sc.inj == .deadline) then "BAD e2e racy scenario: tmo must be set exactly when inj=deadline" else
      let r := serve sc env
      -- model output, canonical
      let wantCt : Option (List Bytes) := r.ct.map (fun c => [c])
      let wantXcto : Option (List Bytes) := if r.nosniff then some [ascii "nosniff"] else none
      let bodyOk : Bool := match r.body with
        | .bytes b => obs.body == b
        | .items sel cnt sse => obs.dm == showItems sel cnt sse ra rb
      let gone499 := r.origin.isSome && r.status == httpStatusCanceled && r.ct.isNone
      let sameOut := obs.status == r.status && obs.ct == wantCt && obs.xcto == wantXcto && bodyOk
        && sameMD obs.hdr r.hdrs && sameMD obs.trl r.trls
      -- tie of the model's control flow: the error value handed to writeError is the recorded one
      -- (client gone: ctx.Done and the injected error race inside Forward, both end in 499)
      let feOk : Bool := gone499 || match r.err, obs.fe, r.origin with
        | some e, some (s, h), _ => errorStatus e == (s, h)
        | some _, none, some .bridge => true         -- made inside ServeHTTP: not observable at a boundary
        | some _, none, _ => false
        | none, some _, _ => (match r.body with | .items _ _ _ => true | _ => false)   -- a stream that already started keeps its 200
        | none, none, _ => true
      -- tie of `encodable`: the real transcoder could encode the status iff the specification says it can
      let negotiated : Bytes := match negotiatedResp registry env.pm sc.accept with
        | some m => m.mime
        | none => []
      -- a success is served in the marshaler's type, or as text/event-stream when SSE was negotiated;
      -- an error status always in the marshaler's type (one plain document, never an event)
      let negotiatedSuccess : Bytes := match negotiatedResp registry env.pm sc.accept with
        | some m => successType registry sc.accept m
        | none => []
      let encOk : Bool := match r.err, sRec with
        | some e, some (_, ok, _) => ok == encodable negotiated (convert e)
        | _, _ => true
      let u8Ok : Bool := gone499 || match r.err, obs.u8 with
        | some e, some v => validUTF8 (convert e).msg == v
        | _, _ => true
      -- is the rendered failure the injected error (and not a natural one that pre-empted it)?
      let injectedRendered : Bool := match sc.inj, r.origin with
        | .router, some .router => true
        | .bind, some .bind => true
        | .decode, some .requestDecode => true
        | .create, some .streamCreate => true
        | .target, some .targetStatus => true
        | _, _ => false
      -- the specification, judged on the implementation's output
      let specViol : Option String :=
        match r.origin, r.err with
        | some _, some e =>
          if gone499 then none     -- client gone: nothing is promised
          else match failureWhy e r.bound negotiated obs.status (obs.ct.bind List.head?) obs.body ⟨obs.ds⟩ with
          | none =>
            (if injectedRendered && !isInfix sc.err.rawMessage (match obs.ds with | some s => s.msg | none => obs.body)
              then some "message-not-carried" else none)
          | some why =>
            let st := convert e
            some s!"failure-rendering:{why} origin={showOrigin r.origin} want-status={wantStatus e} bound={r.bound} encodable={encodable negotiated st} negotiated={bytesToString negotiated} code={st.code} msg={toHex st.msg}"
        | _, _ =>
          if obs.status != 200 then some "success-status"
          else match r.body with
            | .bytes _ =>
              if r.ct.isSome then
                match traverseFieldPath respFields sc.rbp with
                | some sel => if obs.ct == some [negotiatedSuccess] && obs.dm == showValue sel ra rb then none else some "success-body"
                | none => none
              else none
            | .items sel cnt sse =>
              if obs.ct != some [negotiatedSuccess] then some "stream-not-in-negotiated-content-type"
              else if sse != negotiatedSSE registry sc.accept || obs.dm != showItems sel cnt (negotiatedSSE registry sc.accept) ra rb then some "stream-body"
              else none
      -- 415: an unsupported Content-Type (no line names a registered type) is answered with 415
      let spec415 : Option String :=
        if sc.inj != .router && sc.inj != .bind && !env.pm.isEmpty && (negotiatedReq registry env.pm).isNone && obs.status != 415
        then some "unsupported-content-type-not-415" else none
      let specDeadline : Option String :=
        if sc.inj == .deadline && r.origin == some .deadline && obs.status != 504 then some "deadline-not-504" else none
      -- allow-listed headers (and, before the first byte, trailers) appear as HTTP headers
      let specHdr : Option String :=
        if r.origin == some .targetStatus || (r.origin.isNone && sc.rpc == .unary) then
          let wantH := sc.allowH.filter (fun k => !(mdGet sc.hdr (lower k)).isEmpty)
          let missH := wantH.any (fun k =>
            !(mdGet sc.hdr (lower k)).all (fun v => (mdGet obs.hdr (canonicalHeaderKey (lower (sc.prefH ++ k)))).contains v))
          let trailersAsHeaders := sc.n ≤ 1
          let wantT := sc.allowT.filter (fun k => !(mdGet sc.trl (lower k)).isEmpty)
          let missT := trailersAsHeaders && wantT.any (fun k =>
            !(mdGet sc.trl (lower k)).all (fun v => (mdGet obs.hdr (canonicalHeaderKey (lower (sc.prefT ++ k)))).contains v))
          if missH then some "allow-listed-header-missing" else if missT then some "allow-listed-trailer-missing" else none
        else none
      let viol := [specViol, spec415, specDeadline, specHdr].filterMap id
      let branch := s!"b={showOrigin r.origin}" ++
        (match r.origin, r.err with
         | some _, some e =>
           if gone499 then ".gone" else if !r.bound then ".text" else if encodable negotiated (convert e) then ".status" else ".fallback"
         | _, _ => "")
      let modelStr := s!"st={r.status} ct={showOptBytes r.ct} nosniff={r.nosniff} body={match r.body with | .bytes b => toHex b | .items _ c _ => s!"items:{c}"} hdr={showMD r.hdrs} trl={showMD r.trls} err={match r.err with | some e => showSt (convert e) | none => "-"}"
      match viol with
      | v :: _ => s!"VIOL {v} model: {modelStr}"
      | [] =>
        if !sameOut then s!"DIFF model: {modelStr}"
        else if !feOk then s!"DIFF final-error model: {modelStr}"
        else if !encOk then s!"DIFF encodable model: {modelStr}"
        else if !u8Ok then "DIFF utf8-validity"
        else s!"OK nt {branch}"
  | _, _ => "BAD e2e arity"

/-! ### opts: the root constructor's option plumbing -/

def mimeText : Bytes := ascii "application/x-verif-text"
def mimePB : Bytes := ascii "application/x-test-pb"

/-- the marshalers of harness/c10/opts.go -/
def marshalerOfLetter : Char → Option Marshaler
  | 'j' => some jsonM
  | 'J' => some { mime := mimeJSON, streams := false, id := 2 }
  | 't' => some { mime := mimeText, streams := false, id := 1 }
  | 'b' => some { mime := mimePB, streams := false, id := 3 }
  | _ => none

def codecOf (m : Marshaler) : String :=
  if m.id == 0 then "json" else if m.id == 1 then "text" else if m.id == 2 then "J" else "bin"

def parseBOpt (tok : String) : Option BOpt :=
  if tok == "L" || tok == "F" then some .other
  else if tok == "M:nil" then some (.withMarshalers none)
  else if tok == "M:empty" then some (.withMarshalers (some []))
  else if tok.startsWith "M:" then ((tok.drop 2).toString.toList.mapM marshalerOfLetter).map (fun ms => .withMarshalers (some ms))
  else if tok == "D:nil" then some (.withDefault none)
  else if tok.startsWith "D:" then
    match (tok.drop 2).toString.toList with
    | [c] => (marshalerOfLetter c).map (fun m => .withDefault (some m))
    | _ => none
  else none

def parseBOpts (s : String) : Option (List BOpt) :=
  if s == "-" then some [] else (s.splitOn ",").mapM parseBOpt

inductive OptSc | ok | fail (code : Nat) | sfail (code : Nat)

def parseOptSc (s : String) : Option OptSc :=
  if s == "ok" then some .ok
  else match s.splitOn ":" with
    | ["fail", c] => c.toNat?.map .fail
    | ["sfail", c] => c.toNat?.map .sfail
    | _ => none

/-- expected observation: status, Content-Type, codec, decoded status, decoded message -/
structure OptExp where
  status : Nat
  ct : Bytes
  codec : String
  ds : String
  dm : String

def boomMsg (c : Nat) : Bytes := ascii s!"boom {c}"

/-- what a WebBridge over registry `r` answers (the e2e model `serveWith`, specialised to the three scenarios) -/
def optExpect (r : Registry) (pm : List (Option Bytes)) (acc : List Bytes) (sc : OptSc) : OptExp :=
  let ss := match sc with | .sfail _ => true | _ => false
  match bind r pm acc false ss with
  | .error e =>
    let (_, hs) := errorStatus e
    { status := hs, ct := textPlain, codec := "plain", ds := "-", dm := "-" }
  | .ok b =>
    let m := b.resp
    match sc with
    | .ok => { status := 200, ct := m.mime, codec := codecOf m, ds := "-", dm := s!"m:{toHex (ascii "n")}:{toHex (ascii "o")}" }
    | .fail c =>
      { status := httpStatusFromCode c, ct := m.mime, codec := codecOf m, ds := s!"{c}:{toHex (boomMsg c)}", dm := "-" }
    | .sfail c =>
      if !m.streams then
        { status := 400, ct := m.mime, codec := codecOf m,
          ds := s!"3:{toHex (ascii "encoding does not support streaming")}", dm := "-" }
      else { status := httpStatusFromCode c, ct := m.mime, codec := codecOf m, ds := s!"{c}:{toHex (boomMsg c)}", dm := "-" }

def handleOpts (i o : List String) : String :=
  match i, o with
  | os :: ct :: acc :: sc :: methTail, [st, oct, codec, ds, dm, pm] =>
    -- optional 5th input field `m=<METHOD>[*]`: not an input of the model (C10_negotiation_method_independent)
    if !(methTail.isEmpty || (methTail.length == 1 && (methTail.head?.bind (kv? "m")).isSome)) then "BAD opts arity" else
    let parsed : Option (List BOpt × List Bytes × OptSc × Nat × Option (List Bytes) × String × String × String × List (Option Bytes)) := do
      let opts ← (kv? "o" os) >>= parseBOpts
      let _ ← (kv? "ct" ct) >>= hexList?
      let acc ← (kv? "acc" acc) >>= hexList?
      let sc ← (kv? "sc" sc) >>= parseOptSc
      let st ← (kv? "st" st) >>= String.toNat?
      let oct ← (kv? "ct" oct) >>= optHexList?
      let codec ← kv? "codec" codec
      let ds ← kv? "ds" ds
      let dm ← kv? "dm" dm
      let pm ← (kv? "pm" pm) >>= parsePM?
      pure (opts, acc, sc, st, oct, codec, ds, dm, pm)
    match parsed with
    | none => "BAD opts fields"
    | some (opts, acc, sc, st, oct, codec, ds, dm, pm) =>
      -- the model of the code: fold of the options, withDefaults, MIME map
      let r := effectiveRegistry opts
      -- the specification: what the options mean (C10_options_effective proves the two are the same registry)
      let rs : Registry := { marshalers := (specMarshalers opts).reverse, default := specDefault opts }
      let e := optExpect r pm acc sc
      let es := optExpect rs pm acc sc
      let obsCt : Bytes := match oct with | some [c] => c | _ => []
      let same (x : OptExp) : Bool := st == x.status && obsCt == x.ct && codec == x.codec && ds == x.ds && dm == x.dm
      let isFail := match sc with | .ok => false | _ => true
      let acceptNamed := acc.findSome? rs.lookup
      let branch := s!"b=opts.{es.codec}" ++ (if es.status == 415 then ".415" else if isFail then ".error" else ".ok")
      if same es then
        (if same e then s!"OK nt {branch}" else s!"DIFF model: st={e.status} ct={bytesToString e.ct} codec={e.codec} ds={e.ds}")
      else
        let why :=
          if st == 415 && (negotiatedReq rs pm).isSome then "registered-type-refused-415"
          else if es.status == 415 && st != 415 then "unsupported-content-type-not-refused-415"
          else if acceptNamed.isSome && (obsCt != es.ct || codec != es.codec) then "accept-ignored"
          else if isFail && (obsCt != es.ct || codec != es.codec) then "error-body-wrong-codec"
          else if isFail && st == es.status && ds != es.ds then "error-body-not-decodable-with-negotiated-codec"
          else if st != es.status then "wrong-http-status"
          else if !isFail && (obsCt != es.ct || codec != es.codec) then "success-body-wrong-codec"
          else "success-body"
        s!"VIOL {why} want: st={es.status} ct={bytesToString es.ct} codec={es.codec} ds={es.ds} dm={es.dm} (marshalers in force: {(specMarshalers opts).map codecOf}, default: {codecOf (specDefault opts)})"
  | _, _ => "BAD opts arity"

/-! ### strag: a `Send` abandoned by withCtx while its write is blocked (D21) -/

/-- The sequential reading of these runs (`C10_stream_final_is_sequential`, `C10_abandoned_send_fenced`): the one
    `Send` whose helper holds `mu` is waited for by `finish()` and counts, so the response is 200 with exactly its bytes
    (one record, whatever `n` is — the pump stopped), the DeadlineExceeded that Forward returned is not rendered
    (`C10_stream_no_error_after_success`), and nothing touches the writer after the return. -/
def handleStrag (i o : List String) : String :=
  match i, o with
  | [rpc, _tmo, _n], [st, ct, dm, late, ret] =>
    match kv? "rpc" rpc, kv? "st" st, (kv? "ct" ct) >>= optHexList?, kv? "dm" dm, kv? "late" late, kv? "ret" ret with
    | some rpc, some st, some ct, some dm, some late, some ret =>
      let item := s!"m:{toHex (ascii "held")}:{toHex (ascii "bytes")}"
      let wantDm := if rpc == "s" then "nl|" ++ item else item
      if late != "0" then s!"VIOL write-after-return late={late} returned-before-the-write-ended={ret}"
      else if st != "200" || ct != some [mimeJSON] || dm != wantDm then
        s!"VIOL abandoned-send-not-a-sequential-reading want st=200 ct=application/json dm={wantDm} (the bytes of the send that got through, no error document)"
      else if ret != "0" then "DIFF handler returned while the write was blocked"
      else s!"OK nt b=strag.{rpc}"
    | _, _, _, _, _, _ => "BAD strag fields"
  | _, _ => "BAD strag arity"

/-! ### create: failures while the outgoing stream is created, with the real AdaptedClientConn -/

/-- expected gRPC code of `AdaptedClientConn.Stream`'s answer, from the C16 model (clock unit: one quarter of the
    deadline, D = 4, called at 0, outgoing metadata installed by `baseContext`): `none` = a stream -/
def createModelCode (mode : String) : Option (Option Nat) :=
  let ctx : GB.C16.Conn.Ctx := { deadline := some 4, outMD := true }
  let avail : Option GB.C16.Conn.Avail :=
    if mode == "ready" then some (.readyAt 0)
    else if mode == "hang" then some .connecting
    else if mode == "refuse" then some .refusing
    else if mode.startsWith "hold" then (mode.drop 4).toString.toNat?.map .readyAt
    else none
  avail.map (fun a => createCode (GB.C16.Conn.streamOpen 0 ctx a))

def handleCreate (i o : List String) : String :=
  match i, o with
  | [mode, _d, rpc], [st, ct, ds, dm, ac, _q, late] =>
    match kv? "mode" mode, kv? "rpc" rpc, (kv? "st" st) >>= String.toNat?, (kv? "ct" ct) >>= optHexList?, kv? "ds" ds,
          kv? "dm" dm, kv? "ac" ac, kv? "late" late with
    | some mode, some rpc, some st, some ct, some ds, some dm, some ac, some late =>
      if late != "0" then s!"VIOL write-after-return late={late}" else
      let dsCode : Option Nat := (ds.splitOn ":").head?.bind String.toNat?
      let okDm := if rpc == "s" then s!"nl|m:{toHex (ascii "n")}:{toHex (ascii "o")}" else s!"m:{toHex (ascii "n")}:{toHex (ascii "o")}"
      -- rendering, judged with C10's table on the code the adapter really returned (C10_stream_creation_status)
      let renderViol : Option String :=
        match ac.toNat? with
        | some c =>
          if mode == "cancel" then (if st == 499 && ct.isNone then none else some "client-gone-not-499")
          else if st != canonicalHttp c then some s!"stream-creation-status-not-canonical-for-code-{c}"
          else if ct != some [mimeJSON] || dsCode != some c then some s!"stream-creation-status-body-not-code-{c}"
          else none
        | none => if ac == "ok" then (if st == 200 && dm == okDm then none else some "success-after-stream-creation") else some "no-stream-call"
      -- the adapter's code, expected from the C16 model of Stream (or fixed for the Close / cancel cells)
      let wantCodes : List (Option Nat) :=
        if mode == "closed" then [some cUnavailable]
        else if mode == "closing" then [some 1, some cUnavailable]     -- gRPC's closing error (Canceled) or Unavailable
        else if mode == "cancel" then [some 1]
        else match createModelCode mode with
          | some x => [x]
          | none => []
      let acCode : Option Nat := ac.toNat?
      let codeOk := (ac == "ok" && wantCodes.contains none) || (acCode.isSome && wantCodes.contains acCode)
      match renderViol with
      | some v => s!"VIOL {v} st={st} ds={ds} ac={ac}"
      | none =>
        if wantCodes.isEmpty then "BAD create mode"
        else if !codeOk then
          -- the property's cell: a deadline during stream creation is DeadlineExceeded ⇒ 504
          if wantCodes == [some cDeadlineExceeded] then
            s!"VIOL deadline-during-stream-creation-not-504 st={st} code={ac} (C16 model of Stream: DeadlineExceeded; table: 504)"
          else if wantCodes == [some cUnavailable] then s!"VIOL stream-creation-refused-not-503 st={st} code={ac}"
          else s!"DIFF adapter code={ac} model={wantCodes}"
        else s!"OK nt b=create.{mode}"
    | _, _, _, _, _, _, _, _ => "BAD create fields"
  | _, _ => "BAD create arity"

/-! ### rb: response_body selection on nested response messages (GB/C10/RespPath.lean) -/

def strTail (s : String) : String := String.ofList (s.toList.drop 1)

def rbKind? : String → Option C09.Kind
  | "b" => some .bool | "i32" => some .int32 | "i64" => some .int64 | "u32" => some .uint32 | "u64" => some .uint64
  | "s" => some .string | "y" => some .bytes
  | _ => none

def rbType? (t : String) : Option RP.RType :=
  match rbKind? t with
  | some k => some (.leaf .sing k)
  | none =>
    match t.toList.head? with
    | some 'R' => (rbKind? (strTail t)).map (RP.RType.leaf .rep)
    | some 'M' =>
      match (strTail t).splitOn "/" with
      | [a, b] => do let kk ← rbKind? a; let k ← rbKind? b; pure (.leaf (.map kk) k)
      | _ => none
    | some 'm' => (strTail t).toNat?.map RP.RType.msg
    | some 'r' => (strTail t).toNat?.map RP.RType.repMsg
    | some 'p' => (strTail t).toNat?.map RP.RType.mapMsg
    | _ => none

def rbSchema? (s : String) : Option RP.RSchema :=
  (s.splitOn ";").mapM fun d =>
    if d == "-" then some [] else
    (d.splitOn ",").mapM fun f =>
      match f.splitOn ":" with
      | [n, t] => (rbType? t).map fun ty => ({ name := ascii n, ty := ty } : RP.RField)
      | _ => none

def rbVal? (v : String) : Option C09.Scalar :=
  match v.toList.head? with
  | some 'b' => if v == "b1" then some (.bool true) else if v == "b0" then some (.bool false) else none
  | some 'i' => (strTail v).toInt?.map C09.Scalar.int
  | some 's' => (parseHex (strTail v)).map C09.Scalar.str
  | some 'y' => (parseHex (strTail v)).map C09.Scalar.bytes
  | _ => none

def rbCell? (c : String) : Option RP.RCell :=
  match c.toList.head? with
  | some 'P' => some .present
  | some 'O' => some .opaque
  | some 'S' => (rbVal? (strTail c)).map fun v => .leaf (.sing (some v))
  | some 'L' => ((strTail c).splitOn ",").mapM rbVal? |>.map fun vs => .leaf (.list vs)
  | some 'K' => ((strTail c).splitOn ",").mapM (fun (e : String) => match e.splitOn "~" with
      | [k, v] => do let k ← rbVal? k; let v ← rbVal? v; pure (k, v)
      | _ => none) |>.map fun kvs => .leaf (.map kvs)
  | _ => none

def rbPath (s : String) : RP.Path := (s.splitOn ".").map ascii

def rbMsg? (s : String) : Option RP.RMsg :=
  if s == "-" then some [] else
  (s.splitOn ";").mapM fun e =>
    match e.splitOn "=" with
    | [p, c] => (rbCell? c).map fun c => (rbPath p, c)
    | _ => none

def rbOracle? (s : String) : Option (List (RP.Path × Bytes)) :=
  (s.splitOn ";").mapM fun e =>
    match e.splitOn ":" with
    | [p, h] => (parseHex h).map fun b => ((if p == "*" then [] else rbPath p), b)
    | _ => none

/-- compact rendering, members of the outermost object sorted by name (as in the C09 driver) -/
def rbRender (j : C09.J) : Bytes :=
  C09.renderCompact (match j with
    | .obj kvs => .obj (C09.sortMembers kvs)
    | j => j)

def rbOps : C09.FloatOps := { parse := fun _ _ => none, fmt := fun _ _ => [] }

def rbJson? (b : Bytes) : Option C09.J :=
  match C09.parseJSON b with
  | some (j, rest) => if (C09.skipWS rest).isEmpty then some j else none
  | none => none

def rbEnv (orc : List (RP.Path × Bytes)) : RP.REnv :=
  { msgJson := fun p => match orc.find? (fun e => e.1 == p) with
      | some e => (match rbJson? e.2 with
        | some j => .ok j
        | none => .err)
      | none => .err }

def rbShowSel : Option (RP.Path × RP.RField) → String
  | none => "*"
  | some (pre, fd) => ".".intercalate ((pre ++ [fd.name]).map bytesToString)

def splitOn10 : Bytes → List Bytes
  | [] => [[]]
  | c :: rest =>
    if c == 10 then [] :: splitOn10 rest
    else match splitOn10 rest with
      | [] => [[c]]
      | h :: t => (c :: h) :: t

/-- the response STREAM of the same binding fed the same message twice must be the unary body twice, each followed by
    the JSON delimiter; a failing path fails the stream with the same code and writes nothing -/
def rbStreamWhy (res st : String) : Option String :=
  match res.splitOn ":", st.splitOn ":" with
  | _, ["nostream"] => some "response transcoder bound for JSON does not stream"
  | ["err", code], ["err", code', w] =>
    if code != code' then some s!"stream error {code'} differs from unary {code}"
    else if w != "x" then some "stream wrote bytes although the path is invalid" else none
  | ["err", _], _ => some "stream accepted a path the unary transcoder rejects"
  | ["ok", h], ["ok", hs] =>
    match (parseHex h).bind rbJson?, parseHex hs with
    | some j, some bs =>
      match splitOn10 bs with
      | [d1, d2, []] =>
        match rbJson? d1, rbJson? d2 with
        | some j1, some j2 =>
          if rbRender j1 != rbRender j then some "first streamed message differs from the unary body"
          else if rbRender j2 != rbRender j then some "second pass over the same message renders a different body"
          else none
        | _, _ => some "streamed document is not JSON"
      | _ => some "stream is not two newline-delimited documents"
    | _, _ => some "unparsable stream output"
  | ["ok", _], _ => some "stream rejected a path the unary transcoder accepts"
  | _, _ => some "unparsable stream output"

def handleRb1 (i o : List String) : String :=
  match i, o with
  | [schS, msgS, pathS], [orcS, res] =>
    match rbSchema? schS, rbMsg? msgS, parseHex pathS, rbOracle? orcS with
    | some (root :: sch), some m, some path, some orc =>
      let sch := root :: sch
      let env := rbEnv orc
      let model := RP.respond rbOps sch root env m path
      let spec := RP.specSelect sch root path
      -- the specification's body: the JSON of the addressed sub-value, by the declarative resolution
      let specBody : Option (Option Bytes) := spec.map fun sel => sel.bind fun sel =>
        match RP.renderSel rbOps env m sel with
        | .ok j => some (rbRender j)
        | _ => none
      let br := match spec with
        | none => "unclean"
        | some none => "invalid"
        | some (some none) => "whole"
        | some (some (some (pre, fd))) =>
          let unset := (List.range pre.length).any (fun k => (RP.RMsg.get m (pre.take (k + 1))).isNone)
          let kind := match fd.ty with
            | .leaf .sing _ => "scalar" | .leaf .rep _ => "list" | .leaf (.map _) _ => "map"
            | .msg _ => "msg" | .repMsg _ => "repmsg" | .mapMsg _ => "mapmsg"
          s!"d{pre.length}.{kind}{if unset then ".unset" else ""}"
      match res.splitOn ":" with
      | ["err", code] =>
        if code != "Internal" then s!"VIOL response-body-path-error-not-Internal impl={code}"
        else match specBody with
          | some (some _) => s!"VIOL response-body-valid-path-rejected spec={rbShowSel ((spec.bind id).bind id)}"
          | _ => (match model with
            | .internal => s!"OK b=rb.err.{br}"
            | .body j => s!"DIFF model=ok:{toHex (rbRender j)}")
      | ["ok", h] =>
        match (parseHex h).bind rbJson? with
        | none => "VIOL response-body-not-json"
        | some ij =>
          let ib := rbRender ij
          match specBody with
          | some none => "VIOL response-body-invalid-path-accepted (spec: no such field path / path through a non-message or repeated field)"
          | some (some sb) =>
            if sb != ib then s!"VIOL response-body-is-not-the-addressed-value spec={rbShowSel ((spec.bind id).bind id)} want={toHex sb}"
            else (match model with
              | .body j => if rbRender j == ib then s!"OK nt b=rb.{br}" else s!"DIFF model=ok:{toHex (rbRender j)}"
              | .internal => "DIFF model=err")
          | none => (match model with
              | .body j => if rbRender j == ib then s!"OK nt b=rb.{br}" else s!"DIFF model=ok:{toHex (rbRender j)}"
              | .internal => "DIFF model=err")
      | _ => "BAD rb result"
    | _, _, _, _ => "BAD rb parse"
  | _, _ => "BAD rb arity"

def handleRb (i o : List String) : String :=
  match o with
  | [orcS, res, st] =>
    let v := handleRb1 i [orcS, res]
    if v.startsWith "OK" then
      match rbStreamWhy res st with
      | some why => s!"VIOL response-stream-differs-from-unary: {why}"
      | none => v
    else v
  | _ => "BAD rb arity"

/-! ### seq: sequences of calls over two targets through one bridge (GB/C10/TwoTargets.lean) -/

def seqStep? (tok : String) : Option TT.Step :=
  match tok.splitOn ":" with
  | [t, r] =>
    let tgt? : Option TT.Tgt := if t == "A" then some .A else if t == "B" then some .B else none
    tgt?.bind fun tgt =>
      if r == "o" then some { tgt := tgt, ok := true, code := 0, dets := [] }
      else match r.toList with
        -- 'E' = the target ended the call before the request was written (Send ⇒ io.EOF): same expected response
        | c :: rest =>
          if !(c == 'e' || c == 'E') then none else
          let ds := rest.takeWhile Char.isDigit
          let tl := rest.dropWhile Char.isDigit
          match (String.ofList ds).toNat?, tl.mapM (fun c => if c == 'a' then some (some TT.Det.a) else if c == 'b' then some (some TT.Det.b) else if c == '-' then some none else none) with
          | some code, some dets => if tl.isEmpty then none else some { tgt := tgt, ok := false, code := code, dets := dets.filterMap id }
          | _, _ => none
        | _ => none
  | _ => none

def seqWant (s : TT.Step) : TT.Out → String
  | .msg => "200/json/M"
  | .status code dets =>
    let letters := if dets.isEmpty then "-" else String.ofList (dets.map fun d => match d with | .a => 'a' | .b => 'b')
    s!"{httpStatusFromCode code}/json/S.{code}.{toHex (ascii s!"boom {code}")}.{letters}"
  | .fallback code => let _ := s; s!"{httpStatusFromCode code}/plain/T.1"

def handleSeq (i o : List String) : String :=
  match i with
  | [mk, ct, steps] =>
    match kv? "mk" mk, kv? "ct" ct, (kv? "steps" steps).bind (fun s => (s.splitOn ",").mapM seqStep?) with
    | some _, some _, some steps =>
      if o.length != steps.length then s!"VIOL seq: {o.length} responses for {steps.length} calls"
      else
        -- the specification = each call on its own (history-free); the model of the code = `runSeq false`
        let spec := steps.map TT.specOut
        let model := TT.runSeq false { resolver := none } steps
        let rec go (k : Nat) : List TT.Step → List TT.Out → List String → Option String
          | s :: ss, w :: ws, g :: gs =>
            if seqWant s w == g then go (k + 1) ss ws gs
            else
              let why := match w with
                | .status _ _ => if (g.splitOn "/plain/").length == 2 then "error-body-not-a-decodable-Status-although-the-routed-target-knows-every-detail" else "wrong-response"
                | .msg => "success-not-rendered"
                | .fallback _ => "wrong-response"
              let hint := if why.startsWith "error-body" then " (rendering depends on earlier calls / another target)" else ""
              some s!"{why} call={k + 1}{hint} want={seqWant s w} got={g}"
          | _, _, _ => none
        match go 0 steps spec o with
        | some why => s!"VIOL seq {why}"
        | none =>
          if model != spec then "BAD seq model is not history-free (contradicts C10_rendering_history_free)"
          else s!"OK nt b=seq.{steps.length}"
    | _, _, _ => "BAD seq parse"
  | _ => "BAD seq arity"

def handle : Handler
  | "seq" :: _, "HANG" :: why => s!"VIOL hang {" ".intercalate (why.map (fun h => (parseHex h).map bytesToString |>.getD h))}"
  | "seq" :: _, "PANIC" :: why => s!"VIOL panic {" ".intercalate (why.map (fun h => (parseHex h).map bytesToString |>.getD h))}"
  | "seq" :: _, "SETUP" :: why => s!"BAD seq setup {" ".intercalate why}"
  | "seq" :: i, o => handleSeq i o
  | "rb" :: _, "PANIC" :: why => s!"VIOL panic (response transcoder panicked on this response_body path) {" ".intercalate (why.map (fun h => (parseHex h).map bytesToString |>.getD h))}"
  | "rb" :: i, o => handleRb i o
  | ["tbl", c], [out] => handleTbl c out
  | "cvt" :: [e], out => handleCvt e out
  -- the implementation crashed / hung / panicked on this request: never an acceptable outcome
  | "e2e" :: _, "CRASH" :: why => s!"VIOL process-crash (Go runtime fatal error while serving this request) {" ".intercalate (why.map (fun h => (parseHex h).map bytesToString |>.getD h))}"
  | "e2e" :: _, "HANG" :: why => s!"VIOL hang {" ".intercalate (why.map (fun h => (parseHex h).map bytesToString |>.getD h))}"
  | "e2e" :: _, "PANIC" :: why => s!"VIOL panic {" ".intercalate (why.map (fun h => (parseHex h).map bytesToString |>.getD h))}"
  | "e2e" :: _, "SRVERR" :: why => s!"VIOL server-connection-failed {" ".intercalate (why.map (fun h => (parseHex h).map bytesToString |>.getD h))}"
  | "e2e" :: i, o => handleE2E i o
  | "opts" :: _, "CRASH" :: why => s!"VIOL process-crash {" ".intercalate (why.map (fun h => (parseHex h).map bytesToString |>.getD h))}"
  | "opts" :: _, "HANG" :: why => s!"VIOL hang {" ".intercalate (why.map (fun h => (parseHex h).map bytesToString |>.getD h))}"
  | "opts" :: _, "PANIC" :: why => s!"VIOL panic {" ".intercalate (why.map (fun h => (parseHex h).map bytesToString |>.getD h))}"
  | "opts" :: i, o => handleOpts i o
  | "strag" :: _, "CRASH" :: why => s!"VIOL process-crash {" ".intercalate (why.map (fun h => (parseHex h).map bytesToString |>.getD h))}"
  | "strag" :: _, "HANG" :: why => s!"VIOL hang {" ".intercalate (why.map (fun h => (parseHex h).map bytesToString |>.getD h))}"
  | "strag" :: _, "PANIC" :: why => s!"VIOL panic {" ".intercalate (why.map (fun h => (parseHex h).map bytesToString |>.getD h))}"
  | "strag" :: i, o => handleStrag i o
  | "create" :: _, "CRASH" :: why => s!"VIOL process-crash {" ".intercalate (why.map (fun h => (parseHex h).map bytesToString |>.getD h))}"
  | "create" :: _, "HANG" :: why => s!"VIOL hang {" ".intercalate (why.map (fun h => (parseHex h).map bytesToString |>.getD h))}"
  | "create" :: _, "PANIC" :: why => s!"VIOL panic {" ".intercalate (why.map (fun h => (parseHex h).map bytesToString |>.getD h))}"
  | "create" :: _, "SETUP" :: why => s!"BAD create setup {" ".intercalate why}"
  | "create" :: i, o => handleCreate i o
  | _, _ => "BAD c10 line"

end GB.C10
