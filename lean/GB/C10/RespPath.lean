import GB.C10.Model
import GB.C09.Spec
import GB.C09.Text
/-
  C10 — `response_body` selection on NESTED response messages (deepening round 5).

  `traverseFieldPath(msg, path)` (transcoding/http.go) as coded, on a message type whose fields may be scalars
  (singular / repeated / map), singular sub-messages, repeated sub-messages and maps of sub-messages:
  the `strings.Cut` loop statement by statement (`walk`), and what `standardResponseTranscoder.Transcode` then hands
  to the marshaler — `Marshal(types, msg, fd)` on the message the walk ended in.
    * a scalar / list / map-of-scalar field is rendered by GB.C09's field codec (`C09.encode`, the model of
      JSONMarshaler.marshalSingular / marshalList / marshalMap; an unset field reads as its default),
    * a message-valued selection (whole message, singular / repeated / map-of message field) is rendered by protojson
      itself: a parameter (`REnv.msgJson`, what protojson printed for THAT sub-value; the harness obtains it by
      navigating protoreflect directly, not through traverseFieldPath).
  `Mutable(fd)` on an unset intermediate message materialises an empty sub-message in the RESPONSE message (a write to
  a message nobody reads afterwards); the observable is what is rendered: the default of the addressed field.
  Core-only (the driver links this file).
-/
namespace GB.C10.RP
open GB GB.C09

abbrev Path := List Bytes

inductive RType where
  | leaf (c : Card) (k : Kind)     -- scalar field: singular, repeated, map<key, scalar>
  | msg (ref : Nat)                -- singular sub-message (index into the schema)
  | repMsg (ref : Nat)             -- repeated sub-message
  | mapMsg (ref : Nat)             -- map<string, sub-message>

structure RField where
  name : Bytes
  ty : RType

abbrev RDesc := List RField
abbrev RSchema := List RDesc

/-- `Descriptor().Fields().ByName(elem)` -/
def RDesc.byName (md : RDesc) (n : Bytes) : Option RField := md.find? (fun f => f.name == n)

inductive RCell where
  | present                 -- a singular sub-message is set (possibly empty)
  | leaf (f : Field)        -- a populated scalar / list / map-of-scalar field
  | opaque                  -- a populated repeated / map-of message field (rendered by protojson)

/-- a response message: populated field paths (proto names from the root) -/
abbrev RMsg := List (Path × RCell)

def RMsg.get (m : RMsg) (p : Path) : Option RCell :=
  match m with
  | [] => none
  | (q, c) :: rest => if q == p then some c else RMsg.get rest p

/-- the loop of `traverseFieldPath`; `fuel` = number of `strings.Cut` calls available. `none` = an error return.
    Result: path of the message the loop ended in (`msg`), and the last field descriptor (`fd`). -/
def walk (sch : RSchema) : Nat → RDesc → Path → Bytes → Option (Path × RField)
  | 0, _, _, _ => none
  | fuel + 1, md, pre, s =>
    match cutDot s with
    | (elem, rest, found) =>
      if found && elem == [] then none                          -- "contains empty element"
      else match md.byName elem with
        | none => none                                          -- "no field … found"
        | some fd =>
          if rest == [] then some (pre, fd)                     -- `if rest == "" { break }`
          else match fd.ty with
            | .msg ref =>                                       -- fd.Message() != nil && Cardinality != Repeated
              match sch[ref]? with
              | some sub => walk sch fuel sub (pre ++ [fd.name]) rest   -- msg = msg.Mutable(fd).Message()
              | none => none
            | _ => none                                         -- "… is not a message" (scalar, repeated, map)

/-- `traverseFieldPath`: `none` = error, `some none` = the whole message (`fd == nil`), `some (some (pre, fd))` = field
    `fd` of the message at `pre`. -/
def traverse (sch : RSchema) (root : RDesc) (path : Bytes) : Option (Option (Path × RField)) :=
  if path == [] || path == [42] then some none
  else (walk sch (path.length + 1) root [] path).map some

structure REnv where
  /-- protojson's rendering of the message-valued field at this path ([] = the whole response message) -/
  msgJson : Path → Res J

/-- `msg.Get(fd)` for a scalar-typed field: the populated value, or what an unset field reads as -/
def defaultField : Card → Field
  | .sing => .sing none
  | .rep => .list []
  | .map _ => .map []

def fieldValue (m : RMsg) (p : Path) (c : Card) : Field :=
  match RMsg.get m p with
  | some (.leaf f) => f
  | _ => defaultField c

/-- marshal options of `DefaultJSONMarshaler` (EmitDefaultValues) -/
def rpOpts : Opts := { discard := true, enumNumbers := false, emitDefaults := true }

/-- `marshaler.Marshal(types, msg, fd)` on the selection -/
def renderSel (ops : FloatOps) (env : REnv) (m : RMsg) : Option (Path × RField) → Res J
  | none => env.msgJson []
  | some (pre, fd) =>
    match fd.ty with
    | .leaf c k => encode ops rpOpts k (fieldValue m (pre ++ [fd.name]) c)
    | _ => env.msgJson (pre ++ [fd.name])

inductive Outcome where
  | internal            -- "response body path …" / "marshaling response body" ⇒ codes.Internal
  | body (j : J)

/-- `standardResponseTranscoder.Transcode` for a non-Status message -/
def respond (ops : FloatOps) (sch : RSchema) (root : RDesc) (env : REnv) (m : RMsg) (path : Bytes) : Outcome :=
  match traverse sch root path with
  | none => .internal
  | some sel =>
    match renderSel ops env m sel with
    | .ok j => .body j
    | _ => .internal

/-! ### specification vocabulary -/

/-- the message type reached from `md` by following singular sub-message fields named `p` -/
def descAt (sch : RSchema) : RDesc → Path → Option RDesc
  | md, [] => some md
  | md, n :: rest =>
    match md.byName n with
    | some fd =>
      match fd.ty with
      | .msg ref =>
        match sch[ref]? with
        | some sub => descAt sch sub rest
        | none => none
      | _ => none
    | none => none

/-- elements joined by '.' -/
def joinDots : List Bytes → Bytes
  | [] => []
  | [a] => a
  | a :: rest => a ++ 46 :: joinDots rest

/-- `strings.Split(path, ".")` -/
def splitDots : Bytes → List Bytes
  | [] => [[]]
  | c :: rest =>
    if c == 46 then [] :: splitDots rest
    else match splitDots rest with
      | [] => [[c]]
      | h :: t => (c :: h) :: t

/-- declarative resolution of a list of field names: every element but the last names a singular sub-message field,
    the last names any field; result = (names of the sub-messages walked through, the addressed field) -/
def resolveEls (sch : RSchema) : RDesc → Path → List Bytes → Option (Path × RField)
  | _, _, [] => none
  | md, pre, [e] => (md.byName e).map (fun fd => (pre, fd))
  | md, pre, e :: e2 :: rest =>
    match md.byName e with
    | none => none
    | some fd =>
      match fd.ty with
      | .msg ref =>
        match sch[ref]? with
        | some sub => resolveEls sch sub (pre ++ [fd.name]) (e2 :: rest)
        | none => none
      | _ => none

/-- The specification of `response_body`: "" / "*" = the whole response message; a dotted path of non-empty field names
    = that field (`some (some …)`), an error if it does not resolve (`some none`); `none` = the text is no clean
    dotted path (an empty element): not specified here (the code: one trailing '.' is ignored, anything else an error). -/
def specSelect (sch : RSchema) (root : RDesc) (path : Bytes) : Option (Option (Option (Path × RField))) :=
  if path == [] || path == [42] then some (some none)
  else if (splitDots path).any (fun e => e == []) then none
  else some ((resolveEls sch root [] (splitDots path)).map some)

/-- every populated path has all its proper prefixes populated as sub-messages (what a proto message is) -/
def WFMsg (m : RMsg) : Prop :=
  ∀ p c, RMsg.get m p = some c → ∀ i, 0 < i → i < p.length → ∃ c', RMsg.get m (p.take i) = some c'

end GB.C10.RP
