import GB.C10.Spec
import GB.C16.Conn
/-
  C10 × C16 — failures while the outgoing stream is created (`AdaptedClientConn.Stream`, grpcadapter/conn.go).

  What `Stream` yields — established, Unavailable, DeadlineExceeded, never — for a connection that is Ready /
  becomes Ready at some time / stays Connecting / refuses, under the caller's deadline, is the C16 slice's model
  `GB.C16.Conn.streamOpen` (tied to the real adapter by C16's `cstream` op). The failed `NewStream` is re-wrapped with
  the ORIGINAL error's gRPC code (`status.Errorf(stErr.Code(), "initiating duplex stream …")`), so the code C10 renders
  is the code the model's outcome stands for.
-/
namespace GB.C10
open GB.C16

/-- the gRPC code of `Stream`'s error for an outcome of the C16 model (`none`: no error / no answer) -/
def createCode : Conn.SRes → Option Nat
  | .unavailable _ => some cUnavailable
  | .deadlineExceeded _ => some cDeadlineExceeded
  | .ok _ _ => none
  | .never => none

/-- the error value `Forward` returns when stream creation failed with gRPC code `c` (a plain status error) -/
def createErr (c : Nat) (msg : Bytes) : RawErr := .status ⟨c, msg, []⟩

end GB.C10
