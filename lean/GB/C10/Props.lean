import GB.C10.Proofs
import GB.C10.StatusJson
import GB.C10.CreateStatus
import GB.C10.OptionsProofs
import GB.C10.FwdRules
import GB.C10.StreamWitness
import GB.C10.RespPathProofs
import GB.C10.TwoTargets
import GB.C09.Props
import GB.Generated.Facts
/-
  C10 — property theorems: gRPC outcomes map to the right HTTP status and a decodable error body.
  Theorems only (plus non-vacuity examples); helper lemmas live in Proofs.lean.

  The response transcoder (protojson behind `HTTPResponseTranscoder.Transcode`) is a PARAMETER of the model
  (`Env.stEnc`, `Env.msgEnc`): every theorem below holds for every transcoder; where the property needs something
  from it (a Status body can be decoded back, it is not empty) that is an explicit hypothesis, and the
  correspondence run checks those hypotheses on the real marshaler in every case.
-/
open GB GB.C10

/-! ### facts tie: what the sources say today (regenerated on every run by extract/c10.go) -/

/-- The switch of the pinned grpc-gateway's `runtime.HTTPStatusFromCode` (read from the module cache with go/ast)
    gives, row by row, the model's table — for all 17 codes; it has no other rows and its default is 500. -/
theorem C10_facts_gateway_table :
    (∀ c, c < 17 → generatedStatus GB.Generated.c10GatewayTable c = some (httpStatusFromCode c)) ∧
    GB.Generated.c10GatewayTable.length = 17 ∧
    GB.Generated.c10GatewayDefault = "StatusInternalServerError" := by decide

/-- Constants of webbridge.go: 499 for a cancelled request, the headers of the plain-text fallback. -/
theorem C10_facts_constants :
    GB.Generated.c10HttpStatusCanceled = httpStatusCanceled ∧
    GB.Generated.c10FallbackHeaders = ["text/plain; charset=utf-8", "nosniff"] ∧
    textPlain = ascii "text/plain; charset=utf-8" := by decide

/-- The model's fallback text is the source's format string applied to (code name, message, transcoding error). -/
theorem C10_facts_fallback_format (st : St) (terr : Bytes) :
    fallbackText st terr = sprintfS GB.Generated.c10FallbackFormat.toList [codeName st.code, st.msg, terr] := by
  have h : GB.Generated.c10FallbackFormat.toList =
      "unable to transcode response status code = %s desc = %s: %s\n".toList := by decide
  rw [h]
  simp [fallbackText, sprintfS, ascii]

/-! ### the status table -/

/-- The table of `runtime.HTTPStatusFromCode` equals the canonical gRPC→HTTP mapping for all 17 codes
    (a finite quantifier, so `decide` is a proof). -/
theorem C10_table : ∀ c, c < 17 → httpStatusFromCode c = canonicalHttp c := by decide

/-- Numbers that are not gRPC codes are answered with 500. -/
theorem C10_table_default (c : Nat) (h : 17 ≤ c) : httpStatusFromCode c = 500 := by
  obtain ⟨k, rfl⟩ : ∃ k, c = k + 17 := ⟨c - 17, by omega⟩
  rfl

/-- `errorStatus`: the HTTP status is the error's explicit `HTTPStatus()` if it has one, otherwise the canonical
    status of its gRPC code — for every error value. -/
theorem C10_status (e : RawErr) :
    (errorStatus e).2 = (explicitOf e).getD (canonicalHttp (convert e).code) := by
  rw [errorStatus_http]; unfold wantStatus; cases explicitOf e <;> rfl

/-- `status.Convert` keeps the message the error was made with (possibly inside a longer text). -/
theorem C10_message_carried (e : RawErr) : e.rawMessage <:+: (convert e).msg :=
  rawMessage_infix_convert e

/-- Errors of a request transcoder: a status error passes unchanged, anything else becomes InvalidArgument
    (response transcoder: Internal) — and still carries the message. -/
theorem C10_transcoding_error (e : RawErr) (c : Nat) :
    (∀ st, e.direct = some st → wrapTranscodingError e c = e) ∧
    (e.direct = none → (convert (wrapTranscodingError e c)).code = c ∧ explicitOf (wrapTranscodingError e c) = none) ∧
    e.rawMessage <:+: (convert (wrapTranscodingError e c)).msg := by
  unfold wrapTranscodingError
  cases hd : e.direct with
  | some st => simp [rawMessage_infix_convert]
  | none => simp [convert, RawErr.direct, explicitOf, rawMessage_infix_text]

/-! ### which `HTTPStatus()` override wins, for arbitrarily nested error values -/

/-- **Only the outermost value's own `HTTPStatus()` counts** (`err.(interface{ HTTPStatus() int })` is a type
    assertion, not `errors.As`): an error has an explicit HTTP status exactly when it is itself an
    `httperr.StatusError` or a type implementing both interfaces — whatever is nested inside. -/
theorem C10_explicit_iff_outermost (e : RawErr) (h : Nat) :
    explicitOf e = some h ↔ (∃ i, e = .http h i) ∨ (∃ st, e = .both h st) := by
  cases e <;> simp [explicitOf]

/-- The outer override wins over any inner one, and a `fmt.Errorf("%w")` (or any other wrapper without the method)
    HIDES every override below it: the status then falls back to the canonical one of the gRPC code. -/
theorem C10_explicit_nesting (h : Nat) (p : Bytes) (i : RawErr) :
    explicitOf (.http h i) = some h ∧ explicitOf (.wrapf p i) = none ∧
    (errorStatus (.http h i)).2 = h ∧
    (errorStatus (.wrapf p i)).2 = canonicalHttp (convert (.wrapf p i)).code := by
  refine ⟨rfl, rfl, ?_, ?_⟩
  · rw [errorStatus_http]; rfl
  · rw [errorStatus_http]; rfl

/-- The gRPC code, in contrast, IS found through every wrapper (`errors.As`): it is the code of the first status
    along the unwrap chain, Unknown if there is none; wrappers only change the message (to `err.Error()`). -/
theorem C10_code_through_wrappers (e : RawErr) :
    (convert e).code = (e.findStatus.map (·.code)).getD cUnknown ∧
    (convert e).details = (e.findStatus.map (·.details)).getD [] ∧
    (e.direct = none → (convert e).msg = e.text) := by
  unfold convert
  cases hd : e.direct with
  | some st =>
    have hf : e.findStatus = some st := by
      cases e <;> simp_all [RawErr.direct, RawErr.findStatus]
    simp [hf]
  | none =>
    cases hf : e.findStatus <;> simp

/-- **Full characterisation of `errorStatus` on nested values**: the status comes from the first status in the
    unwrap chain (message replaced by `err.Error()` unless the value is a status itself), the HTTP code is the
    outermost value's own override if it has one, else the canonical code of that status' gRPC code. -/
theorem C10_errorStatus_nested (e : RawErr) :
    (errorStatus e).2 =
      (match e with
       | .http h _ => h
       | .both h _ => h
       | _ => canonicalHttp ((e.findStatus.map (·.code)).getD cUnknown)) := by
  rw [errorStatus_http]
  have hc := (C10_code_through_wrappers e).1
  cases e <;> simp_all [wantStatus, explicitOf]

/-- **The documented loss.** A `httperr.StatusError` (grpcbridge's own carrier of an explicit HTTP status) that is
    returned by a request or response TRANSCODER's `Transcode` loses both its HTTP status and its gRPC code:
    `wrapTranscodingError` checks `err.(grpcstatus)` by type assertion, `StatusError` has no `GRPCStatus()`, so the
    error is replaced by `status.Error(defaultCode, err.Error())` — InvalidArgument ⇒ 400 for requests, Internal ⇒ 500
    for responses — whatever `h` and the inner error were. The text survives. (From the router and from `Bind` the same
    value keeps its override: `C10_explicit_nesting`.) -/
theorem C10_transcoder_statuserror_loses_override (h : Nat) (i : RawErr) :
    explicitOf (requestTranscodingError (.http h i)) = none ∧
    (convert (requestTranscodingError (.http h i))).code = cInvalidArgument ∧
    (errorStatus (requestTranscodingError (.http h i))).2 = 400 ∧
    (errorStatus (responseTranscodingError (.http h i))).2 = 500 ∧
    (convert (requestTranscodingError (.http h i))).msg = (RawErr.http h i).text := by
  refine ⟨rfl, rfl, ?_, ?_, rfl⟩
  · rw [errorStatus_http]; rfl
  · rw [errorStatus_http]; rfl

/-- …whereas an error type that implements `GRPCStatus()` AND `HTTPStatus()` itself passes a transcoder unchanged
    and keeps its override. -/
theorem C10_transcoder_both_keeps_override (h : Nat) (st : St) :
    requestTranscodingError (.both h st) = .both h st ∧
    (errorStatus (requestTranscodingError (.both h st))).2 = h := by
  refine ⟨rfl, ?_⟩
  rw [errorStatus_http]; rfl

/-- witness: 413 Payload Too Large from a request transcoder is answered as 400 InvalidArgument -/
example : (errorStatus (requestTranscodingError (.http 413 (.status ⟨8, [98, 105, 103], []⟩)))).2 = 400 ∧
    (errorStatus (.http 413 (.status ⟨8, [98, 105, 103], []⟩))).2 = 413 := by decide

/-! ### the decision tree of `writeError` -/

/-- Once a status or a byte has been written, errors are not rendered. -/
theorem C10_written_silent (g : Bool) (t : Option RespTranscoder) (e : RawErr) :
    writeError true g t e = .nothing := rfl

/-- Client gone (request context cancelled): 499, no body, whatever the error. -/
theorem C10_client_gone (t : Option RespTranscoder) (e : RawErr) :
    writeError false true t e = .resp 499 none false [] := rfl

/-- Before the request is bound (router / Bind errors): plain text, the message and a newline. -/
theorem C10_unbound_plain_text (e : RawErr) :
    writeError false false none e = .resp (wantStatus e) (some textPlain) true ((convert e).msg ++ [10]) := by
  simp [writeError, writeTextError_eq]

/-- Bound and encodable: the transcoder's Status body in the negotiated content type. -/
theorem C10_bound_status_body (t : RespTranscoder) (e : RawErr) (data : Bytes)
    (h : t.status (convert e) = .ok data) :
    writeError false false (some t) e = .resp (wantStatus e) (some t.mime) false data := by
  simp [writeError, transcodeError_ok t e data h]

/-- Bound but the status cannot be encoded (e.g. details of a type unknown to the target): a readable,
    non-empty text naming the code, the message and the encoding error. -/
theorem C10_bound_fallback_readable (t : RespTranscoder) (e : RawErr) (terr : Bytes)
    (h : t.status (convert e) = .error terr) :
    ∃ body, writeError false false (some t) e = .resp (wantStatus e) (some textPlain) true body ∧
      body ≠ [] ∧ (convert e).msg <:+: body ∧ e.rawMessage <:+: body ∧
      codeName (convert e).code <:+: body ∧ terr <:+: body := by
  refine ⟨fallbackText (convert e) terr, by simp [writeError, transcodeError_err t e terr h],
    fallbackText_ne_nil _ _, msg_infix_fallbackText _ _, ?_, codeName_infix_fallbackText _ _, terr_infix_fallbackText _ _⟩
  exact List.IsInfix.trans (rawMessage_infix_convert e) (msg_infix_fallbackText _ _)

/-- What was wrong before fix D10: on exactly that path the body was EMPTY, for every transcoder and error. -/
theorem C10_prefix_fallback_empty (t : RespTranscoder) (e : RawErr) (terr : Bytes)
    (h : t.status (convert e) = .error terr) :
    transcodeErrorPreFix t e = .resp (wantStatus e) (some textPlain) true [] := by
  simp [transcodeErrorPreFix, errorStatus_http, errorStatus_fst, h]

/-! ### marshaler negotiation -/

/-- `pickRequestMarshaler` = the declarative reading: default without Content-Type, otherwise the first line whose
    media type (parameters stripped by `mime.ParseMediaType`) is registered, otherwise the 415 error. -/
theorem C10_negotiation_request (r : Registry) (pm : List (Option Bytes)) :
    pickRequestMarshaler r pm = match negotiatedReq r pm with
      | some m => .ok m
      | none => .error unsupportedMediaTypeErr :=
  pickRequestMarshaler_eq r pm

/-- A successful `Bind` picked the negotiated types: first exactly-matching Accept line, else the request's; it is
    in SSE mode exactly when no Accept line matched and one of them is `text/event-stream`. -/
theorem C10_negotiation_response (r : Registry) (pm : List (Option Bytes)) (acc : List Bytes) (cs ss : Bool) (b : Bound)
    (h : bind r pm acc cs ss = .ok b) :
    negotiatedReq r pm = some b.req ∧ negotiatedResp r pm acc = some b.resp ∧ b.sse = negotiatedSSE r acc :=
  bind_ok_negotiated r pm acc cs ss b h

/-- SSE is only ever bound for server-streaming methods (otherwise `Bind` fails with InvalidArgument). -/
theorem C10_sse_only_server_streaming (r : Registry) (pm : List (Option Bytes)) (acc : List Bytes) (cs ss : Bool) (b : Bound)
    (h : GB.C10.bind r pm acc cs ss = .ok b) (hs : b.sse = true) : cs = false ∧ ss = true := by
  unfold GB.C10.bind at h
  cases hq : pickRequestMarshaler r pm with
  | error e => simp [hq] at h
  | ok reqM =>
    simp only [hq] at h
    cases hp : pickResponseMarshaler r acc with
    | some m =>
      simp only [hp] at h
      split at h
      · simp at h
      · split at h
        · simp at h
        · injection h with h; subst h; simp at hs
    | none =>
      simp only [hp] at h
      split at h
      · simp at h
      · split at h
        · simp at h
        · injection h with h; subst h
          cases cs <;> cases ss <;> simp_all

/-- The error of an unsupported Content-Type asks for 415 and nothing else does so implicitly. -/
theorem C10_415_error : wantStatus unsupportedMediaTypeErr = 415 ∧ (convert unsupportedMediaTypeErr).code = cInvalidArgument := by
  decide

/-! ### end to end: `ServeHTTP` -/

/-- **Failure rendering.** Whatever the scenario (origin, error value, headers, negotiation) and whatever the
    transcoder does: if the call fails before the first response byte with error `e` of origin `o` and the client
    is still there, then the status is `e`'s explicit HTTP status or the canonical one of its code; for the
    unbound origins (router, Bind) the body is plain text `message ⏎`; for all bound origins it is the
    transcoder's Status body in the negotiated type when the status can be encoded, and otherwise the readable
    fallback text. -/
theorem C10_failure (sc : Scenario) (env : Env) (hg : sc.gone = false) (o : Origin) (e : RawErr)
    (ho : (serve sc env).origin = some o) (he : (serve sc env).err = some e) :
    (serve sc env).status = wantStatus e ∧ (serve sc env).bound = o.bound ∧
    (o.bound = false →
      (serve sc env).ct = some textPlain ∧ (serve sc env).nosniff = true ∧
      (serve sc env).body = .bytes ((convert e).msg ++ [10])) ∧
    (o.bound = true → ∃ m, negotiatedResp registry env.pm sc.accept = some m ∧
      (∀ data, env.stEnc (convert e) = .ok data →
        (serve sc env).ct = some m.mime ∧ (serve sc env).nosniff = false ∧ (serve sc env).body = .bytes data) ∧
      (∀ terr, env.stEnc (convert e) = .error terr →
        (serve sc env).ct = some textPlain ∧ (serve sc env).nosniff = true ∧
        (serve sc env).body = .bytes (fallbackText (convert e) terr))) := by
  refine serve_ind sc env (fun r => r.origin = some o → r.err = some e →
    r.status = wantStatus e ∧ r.bound = o.bound ∧
    (o.bound = false → r.ct = some textPlain ∧ r.nosniff = true ∧ r.body = .bytes ((convert e).msg ++ [10])) ∧
    (o.bound = true → ∃ m, negotiatedResp registry env.pm sc.accept = some m ∧
      (∀ data, env.stEnc (convert e) = .ok data → r.ct = some m.mime ∧ r.nosniff = false ∧ r.body = .bytes data) ∧
      (∀ terr, env.stEnc (convert e) = .error terr →
        r.ct = some textPlain ∧ r.nosniff = true ∧ r.body = .bytes (fallbackText (convert e) terr)))) ?_ ?_ ?_ ho he
  · intro o' g e' hb hgone ho he
    have hgf : g = false := by cases g <;> simp_all
    subst hgf
    obtain ⟨h1, h2, _, _⟩ := failResp_fields o' false none e' []
    rw [h1] at ho; rw [h2] at he
    injection ho with ho; injection he with he; subst ho; subst he
    have hw := C10_unbound_plain_text e'
    simp [failResp, hw, hb]
  · intro b o' g t e' h hbind hb hgone hst hm ho he
    have hgf : g = false := by cases g <;> simp_all
    subst hgf
    obtain ⟨h1, h2, _, _⟩ := failResp_fields o' false (some t) e' h
    rw [h1] at ho; rw [h2] at he
    injection ho with ho; injection he with he; subst ho; subst he
    obtain ⟨_, hneg, _⟩ := bind_ok_negotiated _ _ _ _ _ _ hbind
    cases henc : t.status (convert e') with
    | ok data =>
      have hw := C10_bound_status_body t e' data henc
      simp [failResp, hw, hb, hneg, ← hst, henc, hm]
    | error terr =>
      have hw : writeError false false (some t) e' = .resp (wantStatus e') (some textPlain) true (fallbackText (convert e') terr) := by
        simp [writeError, transcodeError_err t e' terr henc]
      simp [failResp, hw, hb, hneg, ← hst, henc]
  · intro b r _ hs ho
    rw [hs.1] at ho; cases ho

/-- **The error body is never empty and can be read.** With a transcoder whose Status bodies decode back
    (`dec`, the client's decoder) and are non-empty: the body of every rendered failure is non-empty and either
    decodes to exactly the status (code, message, details) or is text containing the message. -/
theorem C10_failure_body (sc : Scenario) (env : Env) (hg : sc.gone = false) (o : Origin) (e : RawErr)
    (ho : (serve sc env).origin = some o) (he : (serve sc env).err = some e)
    (dec : Bytes → Option St)
    (hlaw : ∀ st b, env.stEnc st = .ok b → dec b = some st ∧ b ≠ []) :
    ∃ b, (serve sc env).body = .bytes b ∧ b ≠ [] ∧
      ((o.bound = true ∧ (serve sc env).nosniff = false ∧ dec b = some (convert e)) ∨
       ((serve sc env).ct = some textPlain ∧ (convert e).msg <:+: b)) := by
  obtain ⟨_, _, hu, hb⟩ := C10_failure sc env hg o e ho he
  cases hbo : o.bound with
  | false =>
    obtain ⟨hct, _, hbody⟩ := hu hbo
    exact ⟨_, hbody, by simp, Or.inr ⟨hct, infix_append_right _ _ _ (List.infix_refl _)⟩⟩
  | true =>
    obtain ⟨m, _, hok, herr⟩ := hb hbo
    cases henc : env.stEnc (convert e) with
    | ok data =>
      obtain ⟨_, hns, hbody⟩ := hok data henc
      obtain ⟨hd, hne⟩ := hlaw _ _ henc
      exact ⟨_, hbody, hne, Or.inl ⟨rfl, hns, hd⟩⟩
    | error terr =>
      obtain ⟨hct, _, hbody⟩ := herr terr henc
      exact ⟨_, hbody, fallbackText_ne_nil _ _, Or.inr ⟨hct, msg_infix_fallbackText _ _⟩⟩

/-- **The model meets the executable specification the driver judges the implementation with** (`failureWhy`,
    Spec.lean), for every scenario: given a transcoder whose Status bodies decode back and that can encode a
    status exactly when the specification says it is encodable (`encodable`: valid UTF-8 message; for JSON every
    detail resolvable by the target and well-formed). The correspondence run checks both hypotheses on the real
    protojson-backed transcoder in every case. -/
theorem C10_failure_meets_spec (sc : Scenario) (env : Env) (hg : sc.gone = false) (o : Origin) (e : RawErr)
    (ho : (serve sc env).origin = some o) (he : (serve sc env).err = some e)
    (dec : Bytes → Option St)
    (hlaw : ∀ st b, env.stEnc st = .ok b → dec b = some st ∧ b ≠ [])
    (henc : ∀ m, negotiatedResp registry env.pm sc.accept = some m →
      (env.stEnc (convert e)).toBool = encodable m.mime (convert e)) :
    ∃ b, (serve sc env).body = .bytes b ∧
      failureWhy e (serve sc env).bound (((negotiatedResp registry env.pm sc.accept).map (·.mime)).getD [])
        (serve sc env).status (serve sc env).ct b ⟨dec b⟩ = none := by
  obtain ⟨hs, hbd, hu, hb⟩ := C10_failure sc env hg o e ho he
  cases hbo : o.bound with
  | false =>
    obtain ⟨hct, _, hbody⟩ := hu hbo
    refine ⟨_, hbody, ?_⟩
    have hinf : isInfix (convert e).msg ((convert e).msg ++ [10]) = true :=
      (isInfix_iff _ _).2 (infix_append_right _ _ _ (List.infix_refl _))
    simp [failureWhy, hs, hbd, hbo, hct, hinf]
  | true =>
    obtain ⟨m, hneg, hok, herr⟩ := hb hbo
    have hE := henc m hneg
    cases hstenc : env.stEnc (convert e) with
    | ok data =>
      obtain ⟨hct, _, hbody⟩ := hok data hstenc
      obtain ⟨hd, hne⟩ := hlaw _ _ hstenc
      refine ⟨_, hbody, ?_⟩
      rw [hstenc] at hE
      simp [failureWhy, hs, hbd, hbo, hct, hneg, ← hE, Except.toBool, hd, hne]
    | error terr =>
      obtain ⟨hct, _, hbody⟩ := herr terr hstenc
      refine ⟨_, hbody, ?_⟩
      rw [hstenc] at hE
      have hinf : isInfix (convert e).msg (fallbackText (convert e) terr) = true :=
        (isInfix_iff _ _).2 (msg_infix_fallbackText _ _)
      simp [failureWhy, hs, hbd, hbo, hct, hneg, ← hE, Except.toBool, hinf, fallbackText_ne_nil]

/-- **Success.** A call that does not fail answers 200 in the negotiated content type — the negotiated marshaler's,
    or `text/event-stream` when SSE was negotiated — with the transcoded response value: the whole message or the
    field named by `response_body`. (A server stream that ends before its first message has no body and no
    Content-Type.) -/
theorem C10_success (sc : Scenario) (env : Env) (h : (serve sc env).origin = none) :
    (serve sc env).status = 200 ∧ (serve sc env).err = none ∧
    ∃ m, negotiatedResp registry env.pm sc.accept = some m ∧
      (((serve sc env).ct = none ∧ (serve sc env).body = .bytes [] ∧ sc.rpc = .serverStream ∧ sc.n = 0) ∨
       ∃ sel, traverseFieldPath respFields sc.rbp = some sel ∧
         (serve sc env).ct = some (successType registry sc.accept m) ∧
         (((serve sc env).body = .bytes (env.msgEnc sel) ∧ sc.rpc ≠ .serverStream) ∨
          ((serve sc env).body = .items sel sc.n (negotiatedSSE registry sc.accept) ∧ sc.rpc = .serverStream))) := by
  refine serve_ind sc env (fun r => r.origin = none →
    r.status = 200 ∧ r.err = none ∧
    ∃ m, negotiatedResp registry env.pm sc.accept = some m ∧
      ((r.ct = none ∧ r.body = .bytes [] ∧ sc.rpc = .serverStream ∧ sc.n = 0) ∨
       ∃ sel, traverseFieldPath respFields sc.rbp = some sel ∧ r.ct = some (successType registry sc.accept m) ∧
         ((r.body = .bytes (env.msgEnc sel) ∧ sc.rpc ≠ .serverStream) ∨
          (r.body = .items sel sc.n (negotiatedSSE registry sc.accept) ∧ sc.rpc = .serverStream)))) ?_ ?_ ?_ h
  · intro o g e _ _ ho
    rw [(failResp_fields o g none e []).1] at ho; cases ho
  · intro b o g t e h _ _ _ _ _ ho
    rw [(failResp_fields o g (some t) e h).1] at ho; cases ho
  · intro b r hbind hs _
    obtain ⟨_, hneg, hsse⟩ := bind_ok_negotiated _ _ _ _ _ _ hbind
    refine ⟨hs.2.2.1, hs.2.1, b.resp, hneg, ?_⟩
    have := hs.2.2.2.2
    unfold successType
    rw [← hsse]
    exact this

/-- **415.** If the request has Content-Type lines and none of them names a registered media type, the answer
    is 415 (unless routing already failed / Bind was replaced), as plain text carrying the message. -/
theorem C10_415 (sc : Scenario) (env : Env) (h1 : sc.inj ≠ .router) (h2 : sc.inj ≠ .bind)
    (hun : negotiatedReq registry env.pm = none) :
    (serve sc env).status = 415 ∧ (serve sc env).ct = some textPlain ∧
    (serve sc env).body = .bytes (rpcErrorText ⟨cInvalidArgument, ascii "Unsupported Media Type", []⟩ ++ [10]) ∧
    (serve sc env).origin = some .bind := by
  have hb := bind_unsupported registry env.pm sc.accept (sc.rpc == .clientStream) (sc.rpc == .serverStream) hun
  have hw := C10_unbound_plain_text unsupportedMediaTypeErr
  unfold serve serveWith
  simp only [beq_iff_eq, h1, h2, ↓reduceIte, hb]
  simp only [natBindErr, unsupportedMediaTypeErr] at hw ⊢
  simp [failResp, hw]
  decide

/-! ### part of the transcoder law discharged with the C09 slice -/

/-- **A Status body without details decodes back to the status** — the decode-back law that `C10_failure_body`
    takes as a hypothesis, PROVED for the sub-case `details = []` from the C09 slice: `code` is an int32 field and
    `message` a string field, whose JSON codecs round-trip by `C09_roundtrip` (for every message, incl. quotes,
    control characters, non-ASCII: escaping is the tokenizer's business, `Tokenizer.roundtrip`). The body is
    non-empty. Covers every error made inside grpcbridge (router, Bind, decode, deadline, EOF, …: none has details)
    and every target status without details. With details the law stays a hypothesis (protojson's `Any` expansion). -/
theorem C10_status_body_roundtrip_no_details (ops : GB.C09.FloatOps) (hl : GB.C09.FloatLaws ops) (tk : Tokenizer)
    (st : St) (hd : st.details = []) (hc : st.code < 2 ^ 31) :
    ∃ b, jsonStatusEnc ops tk st = .ok b ∧ jsonStatusDec ops tk b = some st ∧ b ≠ [] := by
  obtain ⟨jc, hjc, gc, hdc, hrc⟩ := C09_roundtrip ops hl statusOpts .sing .int32 (.sing (some (.int st.code)))
    trivial (by
      show GB.C09.Typed .int32 (.int st.code)
      simp only [GB.C09.Typed]
      constructor <;> omega)
  obtain ⟨jm, hjm, gm, hdm, hrm⟩ := C09_roundtrip ops hl statusOpts .sing .string (.sing (some (.str st.msg)))
    trivial (by show GB.C09.Typed .string (.str st.msg); simp [GB.C09.Typed])
  have htree : statusTree ops st = .ok (.obj [(keyCode, jc), (keyMessage, jm), (keyDetails, .arr [])]) := by
    simp [statusTree, hjc, hjm, GB.C09.Res.bind]
  refine ⟨tk.print (.obj [(keyCode, jc), (keyMessage, jm), (keyDetails, .arr [])]), ?_, ?_, tk.nonempty _⟩
  · simp [jsonStatusEnc, htree]
  · have h1 : objGet [(keyCode, jc), (keyMessage, jm), (keyDetails, GB.C09.J.arr [])] keyCode = some jc := by
      simp [objGet, List.find?]
    have h2 : objGet [(keyCode, jc), (keyMessage, jm), (keyDetails, GB.C09.J.arr [])] keyMessage = some jm := by
      have : (keyCode == keyMessage) = false := by decide
      simp [objGet, List.find?, this]
    have h3 : objGet [(keyCode, jc), (keyMessage, jm), (keyDetails, GB.C09.J.arr [])] keyDetails = some (.arr []) := by
      have a : (keyCode == keyDetails) = false := by decide
      have b : (keyMessage == keyDetails) = false := by decide
      simp [objGet, List.find?, a, b]
    have hrc' : gc.read .int32 = .sing (some (.int st.code)) := by rw [hrc]; rfl
    have hrm' : gm.read .string = .sing (some (.str st.msg)) := by rw [hrm]; rfl
    cases st with
    | mk code msg details =>
      simp only at hd; subst hd
      simp [jsonStatusDec, tk.roundtrip, statusOfTree, h1, h2, h3, hdc, hdm, hrc', hrm']

/-- Consequently the hypothesis of `C10_failure_body` is met by the JSON transcoder on every status without details
    (stated for the encoder/decoder pair above; `2^31` bounds gRPC codes by far). -/
theorem C10_decode_law_no_details (ops : GB.C09.FloatOps) (hl : GB.C09.FloatLaws ops) (tk : Tokenizer)
    (st : St) (b : Bytes) (hd : st.details = []) (hc : st.code < 2 ^ 31)
    (henc : jsonStatusEnc ops tk st = .ok b) : jsonStatusDec ops tk b = some st ∧ b ≠ [] := by
  obtain ⟨b', h1, h2, h3⟩ := C10_status_body_roundtrip_no_details ops hl tk st hd hc
  rw [h1] at henc
  injection henc with henc
  subst henc
  exact ⟨h2, h3⟩

/-! ### the option plumbing of the root constructor (GB/C10/Options.lean) -/

/-- facts tie (extract/c10.go, go/ast over bridge.go and transcoding/http.go, regenerated on every run):
    `NewWebBridge` hands `options.transcoderOpts` to `NewStandardTranscoder` and writes to it nowhere;
    `WithMarshalers` / `WithDefaultMarshaler` assign their parameter to exactly that field; `withDefaults` assigns
    `Marshalers` and `DefaultMarshaler` only under `== nil`, to `[DefaultJSONMarshaler]` / `DefaultJSONMarshaler`. -/
theorem C10_facts_option_plumbing :
    GB.Generated.c10NewWebBridgeTranscoderArg = "options.transcoderOpts" ∧
    GB.Generated.c10NewWebBridgeWrites = [] ∧
    GB.Generated.c10MarshalerOptions =
      [("WithDefaultMarshaler", "o.transcoderOpts.DefaultMarshaler", "m"), ("WithMarshalers", "o.transcoderOpts.Marshalers", "marshalers")] ∧
    GB.Generated.c10WithDefaults =
      [("o.Marshalers == nil", "o.Marshalers", "[]Marshaler{DefaultJSONMarshaler}"),
       ("o.DefaultMarshaler == nil", "o.DefaultMarshaler", "DefaultJSONMarshaler")] ∧
    GB.Generated.c10WithDefaultsUnguarded = [] := by decide

/-- **The effective options.** Whatever the option list — `WithMarshalers` / `WithDefaultMarshaler` given or not,
    repeated, in any order, mixed with options that do not concern the transcoder — after `NewWebBridge` and
    `withDefaults` the marshaler list is the argument of the LAST `WithMarshalers` (if it is not nil), otherwise exactly
    `[DefaultJSONMarshaler]`; the default marshaler is the argument of the last `WithDefaultMarshaler` (if not nil),
    otherwise JSON; the two do not influence each other; a MIME type is served by the last marshaler of the list
    claiming it. -/
theorem C10_options_effective (opts : List BOpt) :
    withDefaults (plumb opts) = (specMarshalers opts, specDefault opts) ∧
    (effectiveRegistry opts).default = specDefault opts ∧
    (∀ mime, (effectiveRegistry opts).lookup mime = specLookup opts mime) := by
  have h : withDefaults (plumb opts) = (specMarshalers opts, specDefault opts) := by
    rw [plumb_eq]; rfl
  refine ⟨h, ?_, ?_⟩
  · simp [effectiveRegistry, registryOf, h]
  · intro mime
    simp [effectiveRegistry, registryOf, h, Registry.lookup, specLookup]

/-- **Order independence.** Two option lists with the same sequence of `WithMarshalers` arguments and the same
    sequence of `WithDefaultMarshaler` arguments — any interleaving of the two kinds, any other options in between —
    give the same registry (only the last of each kind counts). -/
theorem C10_options_order_independent (opts opts' : List BOpt)
    (hm : (opts.filterMap marshalersArg).getLast? = (opts'.filterMap marshalersArg).getLast?)
    (hd : (opts.filterMap defaultArg).getLast? = (opts'.filterMap defaultArg).getLast?) :
    effectiveRegistry opts = effectiveRegistry opts' := by
  simp [effectiveRegistry, plumb_eq, hm, hd]

/-- **JSON is registered by default.** Without `WithMarshalers` (or with its last argument nil), for EVERY choice of
    `WithDefaultMarshaler`: `application/json` is a registered type — a request with `Content-Type: application/json`
    is accepted by the JSON marshaler (no 415), and `Accept: application/json` selects JSON for the response and for
    error bodies, whatever the request's type is. -/
theorem C10_json_registered_by_default (opts : List BOpt)
    (h : ((opts.filterMap marshalersArg).getLast?).join = none) :
    (effectiveRegistry opts).lookup jsonM.mime = some jsonM ∧
    negotiatedReq (effectiveRegistry opts) [some jsonM.mime] = some jsonM ∧
    (∀ pm, (negotiatedReq (effectiveRegistry opts) pm).isSome = true →
      negotiatedResp (effectiveRegistry opts) pm [jsonM.mime] = some jsonM) := by
  have hl : (effectiveRegistry opts).lookup jsonM.mime = some jsonM := by
    rw [(C10_options_effective opts).2.2]
    unfold specLookup specMarshalers
    rw [h]
    decide
  refine ⟨hl, ?_, ?_⟩
  · simp [negotiatedReq, hl]
  · intro pm hq
    cases hr : negotiatedReq (effectiveRegistry opts) pm with
    | none => rw [hr] at hq; cases hq
    | some q => simp [negotiatedResp, hl, hr]

/-- The negotiated marshaler is always one the options put in force: a member of the list, or the default. -/
theorem C10_options_negotiated_in_force (opts : List BOpt) (pm : List (Option Bytes)) (acc : List Bytes) (m : Marshaler)
    (h : negotiatedResp (effectiveRegistry opts) pm acc = some m) :
    m ∈ specMarshalers opts ∨ m = specDefault opts := by
  have := negotiatedResp_mem _ pm acc m h
  have he := C10_options_effective opts
  rcases this with h1 | h1
  · left
    have : (effectiveRegistry opts).marshalers = (specMarshalers opts).reverse := by
      simp [effectiveRegistry, registryOf, he.1]
    rw [this] at h1
    exact List.mem_reverse.1 h1
  · right; rw [h1, he.2.1]

/-- `C10_failure` for a transcoder over ANY marshaler registry (the e2e theorems above are the instance `registry`). -/
theorem C10_failure_registry (reg : Registry) (sc : Scenario) (env : Env) (hg : sc.gone = false) (o : Origin) (e : RawErr)
    (ho : (serveWith reg sc env).origin = some o) (he : (serveWith reg sc env).err = some e) :
    (serveWith reg sc env).status = wantStatus e ∧ (serveWith reg sc env).bound = o.bound ∧
    (o.bound = false →
      (serveWith reg sc env).ct = some textPlain ∧ (serveWith reg sc env).nosniff = true ∧
      (serveWith reg sc env).body = .bytes ((convert e).msg ++ [10])) ∧
    (o.bound = true → ∃ m, negotiatedResp reg env.pm sc.accept = some m ∧
      (∀ data, env.stEnc (convert e) = .ok data →
        (serveWith reg sc env).ct = some m.mime ∧ (serveWith reg sc env).nosniff = false ∧ (serveWith reg sc env).body = .bytes data) ∧
      (∀ terr, env.stEnc (convert e) = .error terr →
        (serveWith reg sc env).ct = some textPlain ∧ (serveWith reg sc env).nosniff = true ∧
        (serveWith reg sc env).body = .bytes (fallbackText (convert e) terr))) := by
  refine serveWith_ind reg sc env (fun r => r.origin = some o → r.err = some e →
    r.status = wantStatus e ∧ r.bound = o.bound ∧
    (o.bound = false → r.ct = some textPlain ∧ r.nosniff = true ∧ r.body = .bytes ((convert e).msg ++ [10])) ∧
    (o.bound = true → ∃ m, negotiatedResp reg env.pm sc.accept = some m ∧
      (∀ data, env.stEnc (convert e) = .ok data → r.ct = some m.mime ∧ r.nosniff = false ∧ r.body = .bytes data) ∧
      (∀ terr, env.stEnc (convert e) = .error terr →
        r.ct = some textPlain ∧ r.nosniff = true ∧ r.body = .bytes (fallbackText (convert e) terr)))) ?_ ?_ ?_ ho he
  · intro o' g e' hb hgone ho he
    have hgf : g = false := by cases g <;> simp_all
    subst hgf
    obtain ⟨h1, h2, _, _⟩ := failResp_fields o' false none e' []
    rw [h1] at ho; rw [h2] at he
    injection ho with ho; injection he with he; subst ho; subst he
    have hw := C10_unbound_plain_text e'
    simp [failResp, hw, hb]
  · intro b o' g t e' h hbind hb hgone hst hm ho he
    have hgf : g = false := by cases g <;> simp_all
    subst hgf
    obtain ⟨h1, h2, _, _⟩ := failResp_fields o' false (some t) e' h
    rw [h1] at ho; rw [h2] at he
    injection ho with ho; injection he with he; subst ho; subst he
    obtain ⟨_, hneg, _⟩ := bind_ok_negotiated _ _ _ _ _ _ hbind
    cases henc : t.status (convert e') with
    | ok data =>
      have hw := C10_bound_status_body t e' data henc
      simp [failResp, hw, hb, hneg, ← hst, henc, hm]
    | error terr =>
      have hw : writeError false false (some t) e' = .resp (wantStatus e') (some textPlain) true (fallbackText (convert e') terr) := by
        simp [writeError, transcodeError_err t e' terr henc]
      simp [failResp, hw, hb, hneg, ← hst, henc]
  · intro b r _ hs ho
    rw [hs.1] at ho; cases ho


/-- `C10_failure_body` for any registry. -/
theorem C10_failure_body_registry (reg : Registry) (sc : Scenario) (env : Env) (hg : sc.gone = false) (o : Origin) (e : RawErr)
    (ho : (serveWith reg sc env).origin = some o) (he : (serveWith reg sc env).err = some e)
    (dec : Bytes → Option St)
    (hlaw : ∀ st b, env.stEnc st = .ok b → dec b = some st ∧ b ≠ []) :
    ∃ b, (serveWith reg sc env).body = .bytes b ∧ b ≠ [] ∧
      ((o.bound = true ∧ (serveWith reg sc env).nosniff = false ∧ dec b = some (convert e)) ∨
       ((serveWith reg sc env).ct = some textPlain ∧ (convert e).msg <:+: b)) := by
  obtain ⟨_, _, hu, hb⟩ := C10_failure_registry reg sc env hg o e ho he
  cases hbo : o.bound with
  | false =>
    obtain ⟨hct, _, hbody⟩ := hu hbo
    exact ⟨_, hbody, by simp, Or.inr ⟨hct, infix_append_right _ _ _ (List.infix_refl _)⟩⟩
  | true =>
    obtain ⟨m, _, hok, herr⟩ := hb hbo
    cases henc : env.stEnc (convert e) with
    | ok data =>
      obtain ⟨_, hns, hbody⟩ := hok data henc
      obtain ⟨hd, hne⟩ := hlaw _ _ henc
      exact ⟨_, hbody, hne, Or.inl ⟨rfl, hns, hd⟩⟩
    | error terr =>
      obtain ⟨hct, _, hbody⟩ := herr terr henc
      exact ⟨_, hbody, fallbackText_ne_nil _ _, Or.inr ⟨hct, msg_infix_fallbackText _ _⟩⟩


/-- **Error-body corollary for a WebBridge built from options.** For every option list: a failure after binding is
    rendered by the marshaler negotiated over the registry the options put in force (`m`, a member of the effective list
    or the effective default) — Content-Type `m.mime`, the body that marshaler's transcoder produced — and, with a
    transcoder whose Status bodies decode back, the body is non-empty and decodes with it to exactly the status (or is
    the readable text when it cannot be encoded). -/
theorem C10_options_error_body (opts : List BOpt) (sc : Scenario) (env : Env) (hg : sc.gone = false) (o : Origin)
    (e : RawErr) (ho : (serveWith (effectiveRegistry opts) sc env).origin = some o)
    (he : (serveWith (effectiveRegistry opts) sc env).err = some e) (hb : o.bound = true)
    (dec : Bytes → Option St) (hlaw : ∀ st b, env.stEnc st = .ok b → dec b = some st ∧ b ≠ []) :
    ∃ m, negotiatedResp (effectiveRegistry opts) env.pm sc.accept = some m ∧
      (m ∈ specMarshalers opts ∨ m = specDefault opts) ∧
      (∀ data, env.stEnc (convert e) = .ok data →
        (serveWith (effectiveRegistry opts) sc env).ct = some m.mime ∧
        (serveWith (effectiveRegistry opts) sc env).body = .bytes data ∧ dec data = some (convert e) ∧ data ≠ []) ∧
      (∀ terr, env.stEnc (convert e) = .error terr →
        (serveWith (effectiveRegistry opts) sc env).ct = some textPlain ∧
        (serveWith (effectiveRegistry opts) sc env).body = .bytes (fallbackText (convert e) terr)) := by
  obtain ⟨_, _, _, hbound⟩ := C10_failure_registry (effectiveRegistry opts) sc env hg o e ho he
  obtain ⟨m, hneg, hok, herr⟩ := hbound hb
  refine ⟨m, hneg, C10_options_negotiated_in_force opts _ _ m hneg, ?_, ?_⟩
  · intro data hd
    obtain ⟨h1, _, h3⟩ := hok data hd
    obtain ⟨h4, h5⟩ := hlaw _ _ hd
    exact ⟨h1, h3, h4, h5⟩
  · intro terr ht
    obtain ⟨h1, _, h3⟩ := herr terr ht
    exact ⟨h1, h3⟩

/-- facts tie: inside `Bind`, `pickRequestMarshaler` and `pickResponseMarshaler` the raw request is read through
    `.Header` only — not `.Method`, `.URL`, `.Body`, … (go/ast over transcoding/http.go, regenerated every run). -/
theorem C10_facts_negotiation_reads : GB.Generated.c10NegotiationReads = ["Header"] := by decide

/-- **The HTTP method is not an input of the negotiation.** Which marshalers are bound — and whether the answer is
    415 — is a function of the option-made registry, the Content-Type lines, the Accept lines and the streaming kind
    only: two requests that differ in nothing but their method (GET, HEAD, DELETE, POST, …; binding with or without a
    body) get the same marshalers, or the same error. -/
theorem C10_negotiation_method_independent (r : Registry) (q q' : NegReq)
    (hpm : q.pm = q'.pm) (hacc : q.accept = q'.accept) (hcs : q.cs = q'.cs) (hss : q.ss = q'.ss) :
    bindReq r q = bindReq r q' := by
  simp [bindReq, hpm, hacc, hcs, hss]

/-- …in particular an unsupported Content-Type is refused with the 415 error on every method, and a supported one
    selects its marshaler (hence, without a matching Accept, the encoding of the response and of error bodies) on
    every method. -/
theorem C10_negotiation_method_415 (r : Registry) (q : NegReq) (h : negotiatedReq r q.pm = none) :
    bindReq r q = .error unsupportedMediaTypeErr :=
  bind_unsupported r q.pm q.accept q.cs q.ss h

/-- **What is wrong with C10-m8** (kernel-checked): under the variant a GET with `Content-Type: img/png` is bound
    (to the default marshaler) instead of refused, and a GET with `Content-Type: application/json` under a custom
    default marshaler gets the custom encoding for its response and error bodies — while the same requests as POST
    are refused / get JSON, as the code as it is does for every method. -/
theorem C10_m8_method_dependent :
    (bindReqM8 (effectiveRegistry []) ⟨methodGET, [some (ascii "img/png")], [], false, false⟩).toOption =
      some ⟨jsonM, jsonM, false⟩ ∧
    (bindReq (effectiveRegistry []) ⟨methodGET, [some (ascii "img/png")], [], false, false⟩).toOption = none ∧
    (bindReqM8 (effectiveRegistry m5Opts) ⟨methodGET, [some jsonM.mime], [], false, false⟩).toOption =
      some ⟨m5Custom, m5Custom, false⟩ ∧
    (bindReq (effectiveRegistry m5Opts) ⟨methodGET, [some jsonM.mime], [], false, false⟩).toOption =
      some ⟨jsonM, jsonM, false⟩ ∧
    (bindReqM8 (effectiveRegistry m5Opts) ⟨ascii "POST", [some jsonM.mime], [], false, false⟩).toOption =
      some ⟨jsonM, jsonM, false⟩ := by
  decide

/-- a custom text codec used in the witnesses below -/
example : (effectiveRegistry m5Opts).lookup jsonM.mime = some jsonM := by
  decide

/-- **What is wrong with C10-m5** (kernel-checked). With only `WithDefaultMarshaler(custom)`: the variant's list is
    `[custom]`, JSON is gone — `Content-Type: application/json` finds no marshaler (⇒ 415) and `Accept: application/json`
    is ignored (the custom marshaler renders the response and every error body), whereas the code as it is keeps JSON
    registered and answers both with JSON. With `WithMarshalers` given, or a JSON default, the variant agrees. -/
theorem C10_m5_drops_json :
    (withDefaults (plumbM5 m5Opts)).1 = [m5Custom] ∧
    (registryOf (plumbM5 m5Opts)).lookup jsonM.mime = none ∧
    negotiatedReq (registryOf (plumbM5 m5Opts)) [some jsonM.mime] = none ∧
    negotiatedResp (registryOf (plumbM5 m5Opts)) [] [jsonM.mime] = some m5Custom ∧
    negotiatedReq (effectiveRegistry m5Opts) [some jsonM.mime] = some jsonM ∧
    negotiatedResp (effectiveRegistry m5Opts) [] [jsonM.mime] = some jsonM ∧
    registryOf (plumbM5 [.withMarshalers (some [jsonM]), .withDefault (some jsonM)]) =
      effectiveRegistry [.withMarshalers (some [jsonM]), .withDefault (some jsonM)] := by
  decide

/-! ### failures while the outgoing stream is created (real adapter; C16's model of `Stream`) -/

/-- **Stream-creation failures.** Whatever the connection does while `AdaptedClientConn.Stream` runs (C16's model
    `Conn.streamOpen`: Ready at some time, Connecting for ever, refusing) and whatever the caller's context is: if
    `Stream` fails, with the gRPC code `c` the adapter model yields, then `ServeHTTP` renders origin `streamCreate`,
    bound, with HTTP status = the canonical status of `c` and a Status whose code is `c` (via `C10_failure`); and the
    cells of the origin table are: a deadline that expires while the channel is still CONNECTING ⇒ DeadlineExceeded ⇒
    **504** (never 503), a refusing target ⇒ Unavailable ⇒ 503, also when the deadline expires before a slow
    connection got Ready ⇒ 504. -/
theorem C10_stream_creation_status (now : Nat) (c : GB.C16.Conn.Ctx) (a : GB.C16.Conn.Avail) (code : Nat) (msg : Bytes)
    (h : createCode (GB.C16.Conn.streamOpen now c a) = some code) :
    (errorStatus (createErr code msg)).2 = canonicalHttp code ∧
    (convert (createErr code msg)).code = code ∧ explicitOf (createErr code msg) = none ∧
    (code = cUnavailable ∨ code = cDeadlineExceeded) ∧
    (∀ d, a = .connecting → c.deadline = some d → code = cDeadlineExceeded ∧ (errorStatus (createErr code msg)).2 = 504) ∧
    (∀ d, a = .refusing → c.deadline = some d → code = cUnavailable ∧ (errorStatus (createErr code msg)).2 = 503) := by
  have hst : (errorStatus (createErr code msg)).2 = canonicalHttp code := by rw [errorStatus_http]; rfl
  have hcases : code = cUnavailable ∨ code = cDeadlineExceeded := by
    cases hr : GB.C16.Conn.streamOpen now c a <;> simp [hr, createCode] at h <;> simp [← h]
  refine ⟨hst, rfl, rfl, hcases, ?_, ?_⟩
  · intro d ha hd
    subst ha
    have : GB.C16.Conn.streamOpen now c .connecting = .deadlineExceeded d := by
      simp [GB.C16.Conn.streamOpen, GB.C16.Conn.waitReturn, GB.C16.Conn.halved, hd]
    rw [this] at h
    simp [createCode] at h
    subst h
    exact ⟨rfl, by rw [hst]; rfl⟩
  · intro d ha hd
    subst ha
    have : GB.C16.Conn.streamOpen now c .refusing = .unavailable (now + (d - now) / 2) := by
      simp [GB.C16.Conn.streamOpen, GB.C16.Conn.waitReturn, GB.C16.Conn.halved, hd]
    rw [this] at h
    simp [createCode] at h
    subst h
    exact ⟨rfl, by rw [hst]; rfl⟩

/-- …and this is what `serve` renders for it: a failure of origin `streamCreate` with exactly that error, after a
    successful bind and request decoding, nothing written before. -/
theorem C10_stream_creation_rendered (sc : Scenario) (env : Env) (t : RespTranscoder) (sse : Bool)
    (hi : sc.inj = .create) (hb : sc.bodyEmpty = true) :
    serveForward sc env t sse = failResp .streamCreate sc.gone (some t) sc.err [] := by
  unfold serveForward
  simp [hi, hb]

/-- What is wrong with C10-m7 (the adapter reports every failed `NewStream` as Unavailable): the deadline cell of the
    table becomes 503 instead of 504 — kernel-checked on the hanging-dial outcome of the C16 model. -/
theorem C10_m7_deadline_cell :
    createCode (GB.C16.Conn.streamOpen 0 ⟨some 4, true⟩ .connecting) = some cDeadlineExceeded ∧
    (errorStatus (createErr cDeadlineExceeded [])).2 = 504 ∧
    (errorStatus (createErr cUnavailable [])).2 = 503 := by decide

/-! ### a unary target that answers first and fails afterwards -/

/-- **Message first, then failure (unary).** If the target sends its response message and then ends the call with
    an error (non-OK status in the trailers, transport error), the held-back message is NOT sent: the call is
    rendered as a failure of origin `targetStatus` with exactly that error — `writeError` on a response that has
    not started — for every error value, transcoder and header set. -/
theorem C10_unary_message_then_failure (sc : Scenario) (env : Env) (t : RespTranscoder)
    (hn : sc.n = 1) (hi : sc.inj = .target) :
    serveUnary sc env t = failResp .targetStatus sc.gone (some t) sc.err
      (appendHeaders (appendHeaders [] (headerMD sc)) (trailerMD sc)) := by
  unfold serveUnary
  simp [hn, hi]

/-- The same for a status-only answer (no message at all). -/
theorem C10_unary_status_only (sc : Scenario) (env : Env) (t : RespTranscoder)
    (hn : sc.n = 0) (hi : sc.inj = .target) :
    serveUnary sc env t = failResp .targetStatus sc.gone (some t) sc.err
      (appendHeaders (appendHeaders [] (headerMD sc)) (trailerMD sc)) := by
  unfold serveUnary
  simp [hn, hi]

/-- A deadline that expires before the call completed — also after the response message arrived, while waiting
    for the status — is a failure of origin `deadline` (DeadlineExceeded ⇒ 504 by `C10_table`), whatever `n` is, as long
    as nothing was written: every unary method, and a server stream before its first message. -/
theorem C10_deadline_after_message (sc : Scenario) (env : Env) (t : RespTranscoder) (sse : Bool)
    (hi : sc.inj = .deadline) (hu : sc.rpc ≠ .serverStream ∨ sc.n = 0) :
    serveForward sc env t sse = failResp .deadline false (some t) (deadlineErr env) [] ∧
    wantStatus (deadlineErr env) = 504 := by
  constructor
  · unfold serveForward
    rcases hu with hu | hu <;> simp [hi, hu]
  · simp [wantStatus, explicitOf, deadlineErr, convert, RawErr.direct, cDeadlineExceeded, canonicalHttp]

/-- Consequently such a call is never answered with 200 + the message: end to end, a unary scenario whose target
    fails after (or without) its message and that reaches the target has origin `targetStatus` and no success. -/
theorem C10_unary_target_failure_is_failure (sc : Scenario) (env : Env) (t : RespTranscoder)
    (hn : sc.n ≤ 1) (hi : sc.inj = .target) :
    (serveUnary sc env t).origin = some .targetStatus ∧ (serveUnary sc env t).err = some sc.err := by
  have h : serveUnary sc env t = failResp .targetStatus sc.gone (some t) sc.err
      (appendHeaders (appendHeaders [] (headerMD sc)) (trailerMD sc)) := by
    rcases Nat.le_one_iff_eq_zero_or_eq_one.1 hn with h0 | h1
    · exact C10_unary_status_only sc env t h0 hi
    · exact C10_unary_message_then_failure sc env t h1 hi
  rw [h]
  exact ⟨(failResp_fields _ _ _ _ _).1, (failResp_fields _ _ _ _ _).2.1⟩

/-! ### httpStream as an LTS: all interleavings Forward's call rules permit (GB/C10/Stream.lean) -/

/-- **Forward's call rules, imported from the Forward LTS of C01/C02.** In every run of `ProxyForwarder.Forward` for a
    method that is not client-streaming — any client, any target, any schedule, any faults — the events on the
    incoming stream form a word the discipline automaton accepts: `Recv` once and first; `SetHeader / SetTrailer /
    Send` never while a `Send` is pending (single owner: they all come from the response pump) and only after `Recv`
    returned; Forward returns only with no call pending and calls nothing afterwards. -/
theorem C10_forward_call_rules {M E : Type} [DecidableEq M] [DecidableEq E] (p : GB.Fwd.Params) (hcs : p.cs = false)
    (tr : List (GB.Fwd.Label M E)) (s : GB.Fwd.State M E) (h : GB.Fwd.Run p tr s) :
    HS.drun HS.dinit (tr.filterMap HS.kindOf) = some (HS.discOf s) :=
  HS.fwd_run_accepts p hcs tr s h

/-- …in particular (from `C02_cleanup`: both pumps have exited when Forward returns) no `Send` is pending and `Recv`
    has returned when the handler gets control back — its `writeError` is ordered after every completed call. -/
theorem C10_forward_returns_idle {M E : Type} [DecidableEq M] [DecidableEq E] (p : GB.Fwd.Params)
    (s : GB.Fwd.State M E) (hr : GB.Fwd.Reachable p s) (hd : GB.Fwd.isDone s = true) :
    (HS.discOf s).pendingSend = false ∧ (HS.discOf s).recv = .returned :=
  HS.fwd_returned_idle p s hr hd

/-- The httpStream LTS is driven exactly under these rules: each of its call/return steps is a step of the
    discipline (its runs are permitted interleavings), and whenever the rules allow Forward a call or its return,
    the LTS has that step (it excludes nothing Forward may do), in states without an abandoned `Send`. -/
theorem C10_stream_lts_under_rules (cfg : HS.Cfg) (hfx : cfg.fx = true) (s : HS.St) :
    (∀ s' ev, HS.step cfg s ev = some s' →
      (match HS.kindEv ev with
       | some k => HS.dstep (HS.discOfHS s) k = some (HS.discOfHS s')
       | none => HS.discOfHS s' = HS.discOfHS s)) ∧
    (HS.Reachable cfg s → s.abandoned = false →
      (∀ d' md, HS.dstep (HS.discOfHS s) .setHeader = some d' → (HS.step cfg s (.setHeader md)).isSome = true) ∧
      (∀ d' md, HS.dstep (HS.discOfHS s) .setTrailer = some d' → (HS.step cfg s (.setTrailer md)).isSome = true) ∧
      (∀ d' x, HS.dstep (HS.discOfHS s) .sendCall = some d' → (HS.step cfg s (.sendCall x)).isSome = true) ∧
      (∀ d' e, HS.dstep (HS.discOfHS s) .fwdRet = some d' → (HS.step cfg s (.fwdRet e)).isSome = true)) := by
  refine ⟨fun s' ev hs => HS.hs_sim cfg s s' ev hs, fun hr ha => ?_⟩
  obtain ⟨_, h2, h3, h4, h5⟩ := HS.hs_offers cfg hfx s hr ha
  exact ⟨h2, h3, h4, h5⟩

/-- **Confluence: the rendered response is the sequential one — in ALL runs of the repaired code** (`cfg.fx = true`:
    `mu` + `finish()`, repo fix for D21), abandoned `Send`s included. In every reachable state in which the handler has
    returned — whatever the interleaving of helper steps, returns, `withCtx` abandonments and handler steps — the
    ResponseWriter holds exactly what the completed response-side calls, applied one after the other in call order,
    followed by the handler's `writeError` on Forward's return value, produce. An abandoned `Send` is one of the
    completed calls iff its helper took `mu` before `finish()` did; otherwise it found `finished` and did nothing. -/
theorem C10_stream_final_is_sequential (cfg : HS.Cfg) (hfx : cfg.fx = true) (s : HS.St) (h : HS.Reachable cfg s)
    (hf : s.finished = true) :
    ∃ ret, s.fwd = some ret ∧ s.core = HS.seqCore cfg s.log ret :=
  HS.final_core cfg hfx s h hf

/-- **The LTS refines `serve`.** For the calls Forward makes for the scenario's scripted target
    (`callsUnary/callsStream`, `retUnary/retStream`): EVERY run of the httpStream LTS of the repaired code that the call
    rules permit ends, once the handler returned, in the response the `serve` model computes — status, Content-Type,
    X-Content-Type-Options, headers, trailers and body (`item` = the bytes of one streamed value). -/
theorem C10_stream_lts_refines_serve (sc : Scenario) (env : Env) (t : RespTranscoder) (sse : Bool) (item : Bytes) :
    (∀ s, HS.Reachable (HS.cfgUnary sc t) s → s.finished = true →
      s.log = HS.callsUnary sc env → s.fwd = some (HS.retUnary sc env) →
      HS.Matches (serveUnary sc env t) s.core.observe item) ∧
    (∀ s, HS.Reachable (HS.cfgStream sc t) s → s.finished = true →
      s.log = HS.callsStream sc env item → s.fwd = some (HS.retStream sc env) →
      HS.Matches (serveStream sc env t sse) s.core.observe item) := by
  constructor
  · intro s hr hf hl hret
    obtain ⟨ret, h1, h2⟩ := HS.final_core _ rfl s hr hf
    rw [hret] at h1; injection h1 with h1; subst h1
    rw [h2, hl]
    exact HS.unary_seq_is_serve sc env t item
  · intro s hr hf hl hret
    obtain ⟨ret, h1, h2⟩ := HS.final_core _ rfl s hr hf
    rw [hret] at h1; injection h1 with h1; subst h1
    rw [h2, hl]
    exact HS.stream_seq_is_serve sc env t sse item

/-- **The status line is decided exactly once, headers count only before the first byte.** What the first
    `WriteHeader`/`Write` committed — status, header snapshot, Content-Type — is what the client sees after every later
    step, in EVERY run (`SetHeader` after the first byte, a second `WriteHeader` by `writeError`, … change nothing). -/
theorem C10_stream_status_once (cfg : HS.Cfg) (s s' : HS.St) (l : HS.Ev) (hs : HS.step cfg s l = some s')
    (w : HS.Wire) (hw : s.core.wire = some w) :
    s'.core.wire = some w ∧ s'.core.observe.status = w.status ∧ s'.core.observe.hdrs = w.hdrs ∧
    s'.core.observe.ct = w.ct := by
  have h := HS.wire_stable cfg s s' l hs w hw
  simp [h, HS.Core.observe]

/-- **No error body after a success byte — all runs of the repaired code.** If a `Send` (abandoned or not) has put
    bytes on the wire, the handler's error path renders nothing: the final state is exactly the calls'. -/
theorem C10_stream_no_error_after_success (cfg : HS.Cfg) (hfx : cfg.fx = true) (s : HS.St) (h : HS.Reachable cfg s)
    (hf : s.finished = true)
    (hw : (s.log.foldl (HS.Core.apply cfg) {}).wire.isSome = true) :
    s.core = s.log.foldl (HS.Core.apply cfg) {} := by
  obtain ⟨ret, _, h2⟩ := HS.final_core cfg hfx s h hf
  rw [h2]
  cases ret with
  | none => rfl
  | some e => simp [HS.seqCore, hw, writeError, HS.Core.render]

/-- **No write after the handler's return**, any schedule (repaired code): in every reachable state after `ServeHTTP`
    returned, the number of steps that have touched the ResponseWriter (`SetHeader`, `SetTrailer`, the header and body
    writes of a `Send` helper, `writeError`'s write) is the number it was when the handler returned — a straggling
    helper is either waited for by `finish()` or finds `finished` and touches nothing. Cited for the fence of D21. -/
theorem C10_no_write_after_return (cfg : HS.Cfg) (hfx : cfg.fx = true) (s : HS.St) (h : HS.Reachable cfg s)
    (hf : s.finished = true) : s.returnedAt = some s.writes :=
  HS.no_write_after_return cfg hfx s h hf

/-- The handler never decides (reads `writtenStatus`) or returns while a `Send` helper holds `mu`, and a helper never
    marks or writes once `finished` is set: the two writers of the response are serialized (repaired code). -/
theorem C10_stream_single_writer (cfg : HS.Cfg) (hfx : cfg.fx = true) (s : HS.St) (h : HS.Reachable cfg s) :
    (s.mu = true ↔ s.sendHelper.isMarked = true) ∧
    (s.fin = true → s.sendHelper.isMarked = false ∧ s.mu = false) ∧
    (s.decision.isSome = true → s.fin = true) ∧ (s.finished = true → s.fin = true) := by
  obtain ⟨C, _⟩ := HS.inv_reach cfg hfx s h
  refine ⟨by rw [C.mu_iff], fun hf => ⟨C.fin_nomark hf, by rw [C.mu_iff, C.fin_nomark hf]⟩,
    fun hd => (C.dec_fin hd).1, fun hf => (C.fin hf).1⟩

/-- **Trailer placement.** `SetTrailer` before the first `Send` adds plain headers; afterwards it only adds
    `Trailer:`-prefixed keys (HTTP trailers) and leaves the headers alone. `SetHeader` after a `Send` is ignored. -/
theorem C10_stream_trailer_placement (c : HS.Core) (md : MD) :
    (c.sent = false → (c.setTrailer md).hdrs = appendHeaders c.hdrs md ∧ (c.setTrailer md).trls = c.trls) ∧
    (c.sent = true → (c.setTrailer md).hdrs = c.hdrs ∧ (c.setTrailer md).trls = appendHeaders c.trls md ∧
      c.setHeader md = c) := by
  constructor <;> intro h <;> simp [HS.Core.setTrailer, HS.Core.setHeader, h]

/-- **What was wrong (D21), as a statement about the ORIGINAL epilogue** (`fx := false`: no mutex, no `finish()`).
    With a `Send` that `withCtx` abandoned (`sendRet true`: the context ended, the helper is still before its write)
    there is a run, permitted by every call rule, in which the handler's `writeError` decides on an unwritten response,
    the abandoned helper then writes the success bytes (status 200), and the error body is appended after them: two
    writers, a 200 carrying the success bytes followed by an error document — neither sequential reading (the `Send`
    counted: 200 + the bytes only; the `Send` dropped: 504 + the Status body only). Kernel-checked on `HS.d21Run`. -/
theorem C10_abandoned_send_breaks_single_writer :
    ∃ s, HS.Reachable HS.d21Cfg s ∧ s.finished = true ∧ s.abandoned = true ∧
      s.core.observe.status = 200 ∧ s.core.observe.body = [[79, 75], [69]] ∧
      s.fwd = some (some HS.d21Err) ∧
      (HS.seqCore HS.d21Cfg [] (some HS.d21Err)).observe.status = 504 ∧
      (HS.seqCore HS.d21Cfg [] (some HS.d21Err)).observe.body = [[69]] ∧
      (HS.seqCore HS.d21Cfg [.send (.ok [79, 75])] (some HS.d21Err)).observe.body = [[79, 75]] ∧
      s.core ≠ HS.seqCore HS.d21Cfg [] (some HS.d21Err) ∧
      s.core ≠ HS.seqCore HS.d21Cfg [.send (.ok [79, 75])] (some HS.d21Err) := by
  have hrun : ∃ s, GB.LTS.run (HS.step HS.d21Cfg) HS.init HS.d21Run = some s ∧ s.finished = true ∧ s.abandoned = true ∧
      s.core.observe.status = 200 ∧ s.core.observe.body = [[79, 75], [69]] ∧
      s.fwd = some (some HS.d21Err) ∧
      (HS.seqCore HS.d21Cfg [] (some HS.d21Err)).observe.status = 504 ∧
      (HS.seqCore HS.d21Cfg [] (some HS.d21Err)).observe.body = [[69]] ∧
      (HS.seqCore HS.d21Cfg [.send (.ok [79, 75])] (some HS.d21Err)).observe.body = [[79, 75]] ∧
      s.core ≠ HS.seqCore HS.d21Cfg [] (some HS.d21Err) ∧
      s.core ≠ HS.seqCore HS.d21Cfg [.send (.ok [79, 75])] (some HS.d21Err) := by
    refine ⟨_, rfl, ?_⟩
    decide
  obtain ⟨s, hr, rest⟩ := hrun
  exact ⟨s, GB.LTS.run_reachable _ _ _ _ GB.LTS.Reachable.init hr, rest⟩

/-- The same schedule is NOT a run of the repaired code (the helper's write needs `mu`, the handler's decision needs
    `finish()`), and both ways the race can go there end in a sequential reading: `finish()` first ⇒ the straggler does
    nothing, 504 + the Status body only; the helper first ⇒ `finish()` waits, 200 + the response bytes, no error
    document; in both no writer step after the return. Kernel-checked. -/
theorem C10_abandoned_send_fenced :
    GB.LTS.run (HS.step HS.d21Fixed) HS.init HS.d21Run = none ∧
    (∃ s, GB.LTS.run (HS.step HS.d21Fixed) HS.init HS.d21FenceFirst = some s ∧ s.finished = true ∧ s.abandoned = true ∧
      s.core.observe.status = 504 ∧ s.core.observe.body = [[69]] ∧ s.log = [] ∧
      s.core = HS.seqCore HS.d21Fixed s.log (some HS.d21Err) ∧ s.returnedAt = some s.writes) ∧
    (∃ s, GB.LTS.run (HS.step HS.d21Fixed) HS.init HS.d21HelperFirst = some s ∧ s.finished = true ∧ s.abandoned = true ∧
      s.core.observe.status = 200 ∧ s.core.observe.body = [[79, 75]] ∧ s.log = [.send (.ok [79, 75])] ∧
      s.core = HS.seqCore HS.d21Fixed s.log (some HS.d21Err) ∧ s.returnedAt = some s.writes) := by
  refine ⟨by decide, ⟨_, rfl, by decide⟩, ⟨_, rfl, by decide⟩⟩

/-- non-vacuity of the positive theorems: the orderly run of the same call (repaired code, `finish()` included) ends
    finished, not abandoned, as a 200 with exactly the response bytes -/
example : ∃ s, GB.LTS.run (HS.step HS.d21Fixed) HS.init
      [.recvCall, .hRecvDone, .recvRet false, .sendCall (.ok [79, 75]), .hSendEnter, .hSendMark, .hSendWrite,
       .sendRet false, .fwdRet none, .weFence, .finish] = some s ∧ s.finished = true ∧
    s.abandoned = false ∧ s.core.observe.status = 200 ∧ s.core.observe.body = [[79, 75]] ∧
    s.core = HS.seqCore HS.d21Fixed s.log none := by
  refine ⟨_, rfl, ?_⟩
  decide

/-! ### headers and trailers -/

/-- `ProxyMDFilter.filterResponse` + `appendHeaders`: every value of an allow-listed metadata key appears in the
    HTTP headers under the canonical form of `prefix+key` (values already there are kept). -/
theorem C10_headers_allowed (allow : List Bytes) (pre : Bytes) (md h0 : MD) (k v : Bytes)
    (hk : k ∈ allow) (hv : v ∈ mdGet md (lower k)) :
    v ∈ mdGet (appendHeaders h0 (filterResponse allow pre md)) (canonicalHeaderKey (lower (pre ++ k))) :=
  mem_headers_of_allowed allow pre md h0 k v hk hv

/-- Unary calls that reach the target (success, target status, missing response, response that cannot be
    encoded): allow-listed response headers appear as HTTP headers, and so do allow-listed trailers unless the
    target misbehaved by sending a second message (`n ≥ 2`). This holds for error responses too. -/
theorem C10_headers_unary (sc : Scenario) (env : Env) (t : RespTranscoder) (k v : Bytes) :
    (k ∈ sc.allowH → v ∈ mdGet sc.hdr (lower k) →
      v ∈ mdGet (serveUnary sc env t).hdrs (canonicalHeaderKey (lower (sc.prefH ++ k)))) ∧
    (sc.n ≤ 1 → k ∈ sc.allowT → v ∈ mdGet sc.trl (lower k) →
      v ∈ mdGet (serveUnary sc env t).hdrs (canonicalHeaderKey (lower (sc.prefT ++ k)))) := by
  have hH : k ∈ sc.allowH → v ∈ mdGet sc.hdr (lower k) →
      v ∈ mdGet (appendHeaders [] (headerMD sc)) (canonicalHeaderKey (lower (sc.prefH ++ k))) :=
    fun hk hv => mem_headers_of_allowed _ _ _ _ _ _ hk hv
  have hHT : k ∈ sc.allowH → v ∈ mdGet sc.hdr (lower k) →
      v ∈ mdGet (appendHeaders (appendHeaders [] (headerMD sc)) (trailerMD sc)) (canonicalHeaderKey (lower (sc.prefH ++ k))) :=
    fun hk hv => mem_appendHeaders _ _ _ _ (Or.inr (hH hk hv))
  have hT : k ∈ sc.allowT → v ∈ mdGet sc.trl (lower k) →
      v ∈ mdGet (appendHeaders (appendHeaders [] (headerMD sc)) (trailerMD sc)) (canonicalHeaderKey (lower (sc.prefT ++ k))) :=
    fun hk hv => mem_headers_of_allowed _ _ _ _ _ _ hk hv
  unfold serveUnary
  repeat' split
  all_goals simp only [(failResp_fields _ _ _ _ _).2.2.2]
  all_goals first
    | exact ⟨hHT, fun _ => hT⟩
    | (refine ⟨?_, ?_⟩
       · first | exact hHT | exact hH
       · intro hn; first | exact hT | (exfalso; simp_all; omega))

/-- Server-streaming calls: allow-listed response headers always appear as HTTP headers; allow-listed trailers
    appear as HTTP headers when nothing was sent yet (`n = 0`), and as HTTP trailers after a successful stream. -/
theorem C10_headers_stream (sc : Scenario) (env : Env) (t : RespTranscoder) (sse : Bool) (k v : Bytes) :
    (k ∈ sc.allowH → v ∈ mdGet sc.hdr (lower k) →
      v ∈ mdGet (serveStream sc env t sse).hdrs (canonicalHeaderKey (lower (sc.prefH ++ k)))) ∧
    (k ∈ sc.allowT → v ∈ mdGet sc.trl (lower k) → (sc.n = 0 ∨ (serveStream sc env t sse).origin = none) →
      v ∈ mdGet (serveStream sc env t sse).hdrs (canonicalHeaderKey (lower (sc.prefT ++ k))) ∨
      v ∈ mdGet (serveStream sc env t sse).trls (canonicalHeaderKey (lower (sc.prefT ++ k)))) := by
  have hH : k ∈ sc.allowH → v ∈ mdGet sc.hdr (lower k) →
      v ∈ mdGet (appendHeaders [] (headerMD sc)) (canonicalHeaderKey (lower (sc.prefH ++ k))) :=
    fun hk hv => mem_headers_of_allowed _ _ _ _ _ _ hk hv
  have hHT : k ∈ sc.allowH → v ∈ mdGet sc.hdr (lower k) →
      v ∈ mdGet (appendHeaders (appendHeaders [] (headerMD sc)) (trailerMD sc)) (canonicalHeaderKey (lower (sc.prefH ++ k))) :=
    fun hk hv => mem_appendHeaders _ _ _ _ (Or.inr (hH hk hv))
  have hT : k ∈ sc.allowT → v ∈ mdGet sc.trl (lower k) →
      v ∈ mdGet (appendHeaders (appendHeaders [] (headerMD sc)) (trailerMD sc)) (canonicalHeaderKey (lower (sc.prefT ++ k))) :=
    fun hk hv => mem_headers_of_allowed _ _ _ _ _ _ hk hv
  have hT0 : k ∈ sc.allowT → v ∈ mdGet sc.trl (lower k) →
      v ∈ mdGet (appendHeaders [] (trailerMD sc)) (canonicalHeaderKey (lower (sc.prefT ++ k))) :=
    fun hk hv => mem_headers_of_allowed _ _ _ _ _ _ hk hv
  unfold serveStream
  repeat' split
  all_goals simp only [(failResp_fields _ _ _ _ _).2.2.2, (failResp_fields _ _ _ _ _).1]
  all_goals first
    | exact ⟨hHT, fun hk hv _ => Or.inl (hT hk hv)⟩
    | exact ⟨hH, fun hk hv _ => Or.inr (hT0 hk hv)⟩
    | (refine ⟨hH, fun hk hv h => ?_⟩; exfalso; simp_all)

/-! ### non-vacuity: concrete scenarios -/

/-- NotFound from the target with details of a type unknown to the target, JSON negotiated, a transcoder that
    cannot encode them: 404 with a non-empty fallback text (the D10 scenario). -/
example :
    (serve (exScenario .target (.status ⟨5, [110, 111], [⟨.unknownType, 117⟩]⟩) 0) exEnv).status = 404 ∧
    (serve (exScenario .target (.status ⟨5, [110, 111], [⟨.unknownType, 117⟩]⟩) 0) exEnv).origin = some .targetStatus ∧
    (serve (exScenario .target (.status ⟨5, [110, 111], [⟨.unknownType, 117⟩]⟩) 0) exEnv).ct = some textPlain ∧
    (serve (exScenario .target (.status ⟨5, [110, 111], [⟨.unknownType, 117⟩]⟩) 0) exEnv).body ≠ .bytes [] := by decide

/-- Router error with an explicit HTTP status: 405, unbound. -/
example :
    (serve (exScenario .router (.http 405 (.status ⟨12, [110, 111], []⟩)) 0) exEnv).status = 405 ∧
    (serve (exScenario .router (.http 405 (.status ⟨12, [110, 111], []⟩)) 0) exEnv).origin = some .router ∧
    (serve (exScenario .router (.http 405 (.status ⟨12, [110, 111], []⟩)) 0) exEnv).bound = false := by decide

/-- Success: 200, application/json, the transcoder's bytes. -/
example :
    (serve (exScenario .none (.plain []) 1) exEnv).status = 200 ∧
    (serve (exScenario .none (.plain []) 1) exEnv).origin = none ∧
    (serve (exScenario .none (.plain []) 1) exEnv).body = .bytes [123, 125] ∧
    (serve (exScenario .none (.plain []) 1) exEnv).ct = some (ascii "application/json") := by decide

/-- An unsupported Content-Type exists: `img/png`. -/
example : negotiatedReq registry [some (ascii "img/png")] = none := by decide

/-! ## `response_body` on NESTED response messages (GB/C10/RespPath.lean, round 5)

  `RP.traverse` = `traverseFieldPath` as coded (the `strings.Cut` loop, statement by statement) on message types with
  scalar / repeated / map fields, singular, repeated and map-of sub-messages; `RP.respond` = what
  `standardResponseTranscoder.Transcode` renders (scalar, list and map-of-scalar selections through GB.C09's field codec,
  message-valued selections through protojson = parameter `REnv.msgJson`). `RP.specSelect` = the specification: the
  elements of `strings.Split(path, ".")`, all but the last naming singular sub-message fields (`RP.descAt`), the last
  naming the field. Tie: harness op `rb` (run-time built nested schemas, real StandardTranscoder). -/

/-- **The coded loop resolves exactly the field the dotted path names**, for every schema and every path on which the
    specification speaks ("" / "*" = whole message; non-empty field names): same selection, same errors. -/
theorem C10_response_body_path_resolution (sch : RP.RSchema) (root : RP.RDesc) (path : Bytes)
    (r : Option (Option (RP.Path × RP.RField))) (h : RP.specSelect sch root path = some r) :
    RP.traverse sch root path = r :=
  RP.traverse_meets_spec sch root path r h

/-- **Never a different field**: a resolved path selects the field whose proto names from the root are literally the
    elements of the path — `pre ++ [fd.name] = Split(path, ".")` — every element before the last being a singular
    sub-message field of the message type reached so far, and `fd` the field of that name in the last one. -/
theorem C10_response_body_addresses_named_field (sch : RP.RSchema) (root : RP.RDesc) (path : Bytes) (pre : RP.Path) (fd : RP.RField)
    (h : RP.specSelect sch root path = some (some (some (pre, fd)))) :
    RP.traverse sch root path = some (some (pre, fd)) ∧ pre ++ [fd.name] = RP.splitDots path ∧
    ∃ md', RP.descAt sch root pre = some md' ∧ md'.byName fd.name = some fd := by
  refine ⟨RP.traverse_meets_spec sch root path _ h, ?_⟩
  unfold RP.specSelect at h
  by_cases hw : (path == [] || path == [42]) = true
  · rw [if_pos hw] at h; cases h
  · rw [if_neg hw] at h
    by_cases hany : (RP.splitDots path).any (fun e => e == []) = true
    · rw [if_pos hany] at h; cases h
    · rw [if_neg hany] at h
      have hres : RP.resolveEls sch root [] (RP.splitDots path) = some (pre, fd) := by
        cases hr : RP.resolveEls sch root [] (RP.splitDots path) with
        | none => rw [hr] at h; cases h
        | some x => rw [hr] at h; simp at h; rw [h]
      obtain ⟨md', last, hl, hd, hb, hp, hfull⟩ := RP.resolveEls_sound sch _ root [] pre fd hres
      simp only [List.nil_append] at hp hfull
      refine ⟨hfull, md', ?_, ?_⟩
      · rw [hp]; exact hd
      · rw [(RP.byName_name hb).1]; exact hb

/-- **The rendered body is exactly the JSON of the addressed sub-value**: a scalar / repeated / map-of-scalar field
    is rendered by the C09 field codec on the value the message holds at that very path (an unset field reads as its
    default), a message-valued field by protojson on the value at that very path; a value the marshaler refuses ⇒
    Internal. Nothing else of the message is looked at. -/
theorem C10_response_body_renders_addressed_value (ops : GB.C09.FloatOps) (sch : RP.RSchema) (root : RP.RDesc) (env : RP.REnv)
    (m : RP.RMsg) (path : Bytes) (pre : RP.Path) (fd : RP.RField)
    (h : RP.specSelect sch root path = some (some (some (pre, fd)))) :
    RP.respond ops sch root env m path =
      match (match fd.ty with
        | .leaf c k => GB.C09.encode ops RP.rpOpts k (RP.fieldValue m (pre ++ [fd.name]) c)
        | _ => env.msgJson (pre ++ [fd.name])) with
      | .ok j => .body j
      | _ => .internal := by
  unfold RP.respond
  rw [RP.traverse_meets_spec sch root path _ h]
  simp only [RP.renderSel]
  cases fd.ty <;> rfl

/-- the whole message ("" or "*") is rendered by protojson on the response itself -/
theorem C10_response_body_whole (ops : GB.C09.FloatOps) (sch : RP.RSchema) (root : RP.RDesc) (env : RP.REnv) (m : RP.RMsg)
    (path : Bytes) (h : path = [] ∨ path = [42]) :
    RP.respond ops sch root env m path = match env.msgJson [] with
      | .ok j => .body j
      | _ => .internal := by
  rcases h with rfl | rfl <;> rfl

/-- **A path that does not resolve is an Internal error** (bad binding), whatever the response message holds:
    unknown field name (JSON names are not accepted), or … -/
theorem C10_response_body_invalid_path_internal (ops : GB.C09.FloatOps) (sch : RP.RSchema) (root : RP.RDesc) (env : RP.REnv)
    (m : RP.RMsg) (path : Bytes) (h : RP.specSelect sch root path = some none) :
    RP.respond ops sch root env m path = .internal := by
  unfold RP.respond
  rw [RP.traverse_meets_spec sch root path _ h]

/-- … **a path that continues after a scalar, a repeated or a map field** (of scalars or of messages): the code
    returns the error "… is not a message" — it never descends into an element or an entry. -/
theorem C10_response_body_through_repeated_or_map_unresolved (sch : RP.RSchema) (md : RP.RDesc) (pre : RP.Path)
    (e e2 : Bytes) (rest : List Bytes) (fd : RP.RField) (hb : md.byName e = some fd) (hty : ∀ ref, fd.ty ≠ .msg ref) :
    RP.resolveEls sch md pre (e :: e2 :: rest) = none :=
  RP.resolveEls_through_non_message sch md pre e e2 rest fd hb hty

/-- **A path through an UNSET sub-message renders the default of the addressed field** — for every well-formed
    response message (populated paths have populated parents): if some sub-message on the way is not set, the body is
    the C09 encoding of the field's default (`0`, `""`, `false`, `[]`, `{}`), never another field's value. -/
theorem C10_response_body_unset_intermediate_default (ops : GB.C09.FloatOps) (sch : RP.RSchema) (root : RP.RDesc) (env : RP.REnv)
    (m : RP.RMsg) (path : Bytes) (pre : RP.Path) (fd : RP.RField) (c : GB.C09.Card) (k : GB.C09.Kind)
    (h : RP.specSelect sch root path = some (some (some (pre, fd)))) (hty : fd.ty = .leaf c k)
    (hwf : RP.WFMsg m) (i : Nat) (hi : 0 < i) (hle : i ≤ pre.length) (hunset : RP.RMsg.get m (pre.take i) = none) :
    RP.respond ops sch root env m path =
      match GB.C09.encode ops RP.rpOpts k (RP.defaultField c) with
      | .ok j => .body j
      | _ => .internal := by
  rw [C10_response_body_renders_addressed_value ops sch root env m path pre fd h, hty]
  simp only [RP.fieldValue, RP.get_none_below_unset m hwf pre fd.name i hi hle hunset]

/-- **The transcoder laws for scalar / list / map response bodies, PROVED from C09** (the laws `C10_success` leaves to
    the parameter `Env.msgEnc`): for a `response_body` path that resolves to a scalar, repeated or map-of-scalar field
    holding a value of the field's type, (success) the transcoder succeeds, (decode-back) decoding the body into a fresh
    message makes the field read back exactly the addressed value (`C09_roundtrip`), (non-empty) the body text is not
    empty and is read back as the same tree (tokenizer = environment, as in `C10_status_body_roundtrip_no_details`). -/
theorem C10_response_body_leaf_laws (ops : GB.C09.FloatOps) (hl : GB.C09.FloatLaws ops) (tk : Tokenizer)
    (sch : RP.RSchema) (root : RP.RDesc) (env : RP.REnv) (m : RP.RMsg) (path : Bytes) (pre : RP.Path) (fd : RP.RField)
    (c : GB.C09.Card) (k : GB.C09.Kind)
    (h : RP.specSelect sch root path = some (some (some (pre, fd)))) (hty : fd.ty = .leaf c k)
    (hn : GB.C09.EnumNamesUnique k) (ht : GB.C09.FieldTyped c k (RP.fieldValue m (pre ++ [fd.name]) c)) :
    ∃ j, RP.respond ops sch root env m path = .body j
      ∧ (∃ g, GB.C09.decode ops RP.rpOpts c k j = .ok g ∧ g.read k = (RP.fieldValue m (pre ++ [fd.name]) c).read k)
      ∧ tk.print j ≠ [] ∧ tk.parse (tk.print j) = some j := by
  obtain ⟨j, hj, g, hg, hr⟩ := C09_roundtrip ops hl RP.rpOpts c k _ hn ht
  refine ⟨j, ?_, ⟨g, hg, hr⟩, tk.nonempty j, tk.roundtrip j⟩
  rw [C10_response_body_renders_addressed_value ops sch root env m path pre fd h, hty]
  simp only [hj]

/-- the default value of every kind and cardinality is a value of the field's type, so the laws hold in particular
    for unset fields and for fields below unset sub-messages -/
theorem C10_response_body_default_typed (m : RP.RMsg) (p : RP.Path) (c : GB.C09.Card) (k : GB.C09.Kind)
    (hkey : ∀ kk, c = .map kk → GB.C09.isKeyKind kk = true) (hunset : RP.RMsg.get m p = none) :
    GB.C09.FieldTyped c k (RP.fieldValue m p c) := by
  simp only [RP.fieldValue, hunset]
  cases c with
  | sing => simp [RP.defaultField, GB.C09.FieldTyped]
  | rep => simp [RP.defaultField, GB.C09.FieldTyped]
  | map kk => simp [RP.defaultField, GB.C09.FieldTyped, hkey kk rfl, GB.C09.keysUnique]

def rpExRoot : RP.RDesc := [⟨[115, 117, 98], .msg 1⟩, ⟨[105, 100], .leaf .sing .int32⟩]
def rpExSch : RP.RSchema := [rpExRoot, [⟨[118, 97, 108], .leaf .sing .string⟩, ⟨[105, 116, 101, 109, 115], .repMsg 1⟩]]

/-- non-vacuity (kernel-evaluated): R { S sub = 1; int32 id = 2 }, S { string val = 1; repeated S items = 2 };
    `sub.val` on the empty response resolves below the unset `sub` and renders `""`; `sub.items.val` is Internal;
    `subVal`-style / unknown names are Internal; "sub." (one trailing dot) is read as "sub" by the code and left
    unspecified by the specification. -/
example :
    (RP.specSelect rpExSch rpExRoot (ascii "sub.val")).isSome = true
    ∧ (RP.traverse rpExSch rpExRoot (ascii "sub.val")).isSome = true
    ∧ (RP.specSelect rpExSch rpExRoot (ascii "sub.items.val")).map Option.isSome = some false
    ∧ (RP.specSelect rpExSch rpExRoot (ascii "nope")).map Option.isSome = some false
    ∧ (RP.specSelect rpExSch rpExRoot (ascii "sub.")).isSome = false
    ∧ (RP.traverse rpExSch rpExRoot (ascii "sub.")).isSome = true
    ∧ (RP.traverse rpExSch rpExRoot (ascii "sub..val")).isSome = false := by
  decide

/-- facts tie for `response_body` selection (extract/c10.go, go/ast over transcoding/http.go, regenerated on every run):
    `traverseFieldPath` looks fields up with `ByName` only (proto names; no `ByJSONName`), refuses to continue after
    `fd.Message() == nil || fd.Cardinality() == protoreflect.Repeated` (scalar, repeated and map fields — `RP.walk`'s
    "only `.msg`" branch), descends with `msg.Mutable(fd).Message()` only; `standardResponseTranscoder.transcodeFunc`
    hands exactly the walk's `msg, fd` to the marshal callback (`f(msg, fd)`; `f(protomsg.ProtoReflect(), nil)` for a
    Status) and assigns `msg` / `fd` once — nothing re-targets the selection after the walk. -/
theorem C10_facts_response_body_selection :
    GB.Generated.c10TraverseLookups = ["ByName"] ∧
    GB.Generated.c10TraverseNotMessageCond = "fd.Message() == nil || fd.Cardinality() == protoreflect.Repeated" ∧
    GB.Generated.c10TraverseDescend = ["msg.Mutable(fd).Message()"] ∧
    GB.Generated.c10RespTranscodeCalls =
      ["f(protomsg.ProtoReflect(), nil)", "traverseFieldPath(protomsg.ProtoReflect(), t.req.Binding.ResponseBodyPath)", "f(msg, fd)"] ∧
    GB.Generated.c10RespTranscodeAssigns = [("fd", 1), ("msg", 1)] := by
  decide

/-- **The flat `response_body` model of the end-to-end scenarios is the nested model on a flat message type**: for every
    message type all of whose fields are scalar (singular / repeated / map of scalars), `GB.C10.traverseFieldPath` — the
    selection `C10_success` speaks about — is `RP.traverse` followed by forgetting the (empty) sub-message path. -/
theorem C10_response_body_flat_agrees (sch : RP.RSchema) (root : RP.RDesc)
    (hflat : ∀ f ∈ root, ∃ c k, f.ty = .leaf c k) (path : Bytes) :
    traverseFieldPath (root.map (·.name)) path =
      (RP.traverse sch root path).map (fun sel => match sel with
        | none => Selected.whole
        | some (_, fd) => Selected.field fd.name) :=
  RP.traverse_flat sch root hflat path

/-- the response type of the e2e scenarios (google.rpc.ResourceInfo: four string fields) as a nested-model descriptor -/
def respFieldsDesc : RP.RDesc := respFields.map (fun n => ⟨n, .leaf .sing .string⟩)

/-- … in particular the selection in `C10_success` / `C10_stream_lts_refines_serve` (`traverseFieldPath respFields sc.rbp`)
    is the nested model's, so `C10_response_body_*` (addressed field, rendered value, laws from C09) apply to it. -/
theorem C10_success_selection_is_nested_model (path : Bytes) :
    traverseFieldPath respFields path =
      (RP.traverse [respFieldsDesc] respFieldsDesc path).map (fun sel => match sel with
        | none => Selected.whole
        | some (_, fd) => Selected.field fd.name) := by
  have h := RP.traverse_flat [respFieldsDesc] respFieldsDesc (by
    intro f hf
    simp only [respFieldsDesc, List.mem_map] at hf
    obtain ⟨n, _, rfl⟩ := hf
    exact ⟨.sing, .string, rfl⟩) path
  have hn : respFieldsDesc.map (·.name) = respFields := by
    simp [respFieldsDesc, List.map_map, Function.comp_def]
  rw [hn] at h
  exact h

/-! ## rendering is history-free: sequences of calls over several targets through one marshaler (GB/C10/TwoTargets.lean)

  One `StandardTranscoder` — by default with the process-wide `DefaultJSONMarshaler` — serves every target the router knows.
  `JSONMarshaler.Marshal(types, …)` copies its options and sets the per-call resolver on the COPY (`TT.marshalUse false`),
  so the marshaler carries no state from call to call. Tie: harness op `seq` (two run-time built targets with one detail
  type each, sequences of successes and failures through `grpcbridge.NewWebBridge`), facts `c10MarshalOptsInit`,
  `c10MarshalerSelfWrites`, `c10MarshalerSelfAddrs`. -/

/-- **What a call renders is a function of (its status / message, the ROUTED target's resolver, the marshaler's
    configuration) only** — for every sequence of earlier calls to any targets and every marshaler configuration:
    the i-th response of a sequence is the response that call gets on its own; the marshaler is unchanged. -/
theorem C10_rendering_history_free (m : TT.MState) (steps : List TT.Step) :
    TT.runSeq false m steps = steps.map (fun s => TT.renderWith (m.resolver.getD s.tgt) s)
    ∧ ∀ t, (TT.marshalUse false m t).1 = m :=
  ⟨TT.runSeq_coded m steps, fun _ => rfl⟩

/-- … with the default marshaler (no resolver override) that is the specification `TT.specOut`: every call is rendered
    with the resolver of the target it was routed to — after any prefix of other calls. -/
theorem C10_rendering_by_routed_target (pre : List TT.Step) (s : TT.Step) :
    TT.runSeq false { resolver := none } (pre ++ [s]) = pre.map TT.specOut ++ [TT.specOut s] := by
  rw [TT.runSeq_coded]
  simp [TT.specOut]

/-- **Decodable error body after any history**: a failure whose details are all declared by the routed target's
    descriptors is answered with the google.rpc.Status (code, details) in the negotiated encoding, whatever was served
    before — never the text/plain fallback. -/
theorem C10_error_details_of_routed_target_decodable (pre : List TT.Step) (s : TT.Step)
    (hfail : s.ok = false) (hknown : s.dets.all (TT.knows s.tgt) = true) :
    (TT.runSeq false { resolver := none } (pre ++ [s])).getLast? = some (.status s.code s.dets) := by
  rw [C10_rendering_by_routed_target]
  simp [TT.specOut, TT.renderWith, hfail, hknown]

/-- kernel-checked witness for the variant that fills `m.MarshalOptions.Resolver` in place (seeded change C10-m1 of
    round 6): after ANY call to target A, a failure of target B with B's own detail type loses its Status body; the
    coded marshaler renders it. Single-target sequences agree. -/
theorem C10_sticky_resolver_fails :
    TT.runSeq true { resolver := none } [⟨.A, false, 5, []⟩, ⟨.B, false, 9, [.b]⟩] = [.status 5 [], .fallback 9]
    ∧ TT.runSeq false { resolver := none } [⟨.A, false, 5, []⟩, ⟨.B, false, 9, [.b]⟩] = [.status 5 [], .status 9 [.b]]
    ∧ TT.runSeq true { resolver := none } [⟨.A, true, 0, []⟩, ⟨.B, false, 9, [.b]⟩] = [.msg, .fallback 9]
    ∧ TT.runSeq true { resolver := none } [⟨.B, false, 5, []⟩, ⟨.B, false, 9, [.b]⟩]
        = TT.runSeq false { resolver := none } [⟨.B, false, 5, []⟩, ⟨.B, false, 9, [.b]⟩] := by
  decide

/-- facts tie (extract/c10.go `c10marshaler`, go/ast over transcoding/json.go, regenerated on every run):
    `Marshal` defines `opts` as `m.MarshalOptions` — a struct copied BY VALUE — and the only `.Resolver` it assigns is
    `opts.Resolver = types` on that copy; no method of `*JSONMarshaler` assigns to anything rooted at its receiver, and
    none takes the address of a receiver field (so no per-call value can be written into the shared instance). -/
theorem C10_facts_marshaler_stateless :
    GB.Generated.c10MarshalOptsInit = [("opts", "m.MarshalOptions"), ("opts.Resolver", "types")] ∧
    GB.Generated.c10MarshalerSelfWrites = [] ∧
    GB.Generated.c10MarshalerSelfAddrs = [] := by
  decide
