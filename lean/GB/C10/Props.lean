import GB.C10.Spec
/-
  C10 — property theorems.
-/
open GB GB.C10

/-- The gateway table the code calls equals the canonical gRPC→HTTP mapping for all 17 codes. -/
theorem C10_table : ∀ c, c < 17 → httpStatusFromCode c = canonicalHttp c := by decide
