import GB.C10.StreamProofs
import GB.C02.Props
/-
  C10 — the call rules of `ProxyForwarder.Forward` towards the incoming stream, imported from the Forward LTS of
  the C01/C02 slices (GB/C01/Forward.lean) and its structural invariant (`SInv`, `C02_cleanup`).

  `Disc` is the tiny automaton that says which call may come when:
    * `Incoming.Recv` is called once, first (methods that are not client-streaming: the only ones the HTTP bridge
      forwards), and nothing else happens on the response side until it returned;
    * `SetHeader / SetTrailer / Send` come from ONE goroutine: never while a `Send` is pending (single owner);
    * `Forward` returns only when no call is pending (both pumps exited, `C02_cleanup`), and calls nothing afterwards.
  `fwd_sim`: every step of the Forward LTS is a step of `Disc` on the projected label — so every run of Forward
  projects to a word `Disc` accepts. `hs_sim`: the httpStream LTS (GB/C10/Stream.lean) offers a call only when `Disc`
  allows it, i.e. its runs are exactly interleavings permitted by these rules.
-/
set_option linter.unusedSimpArgs false
set_option linter.unusedVariables false
set_option linter.unusedSectionVars false
namespace GB.C10.HS
open GB GB.C10 GB.LTS

/-- kinds of calls / returns on the incoming stream, and Forward's own return -/
inductive K | recvCall | recvRet | setHeader | setTrailer | sendCall | sendRet | fwdRet
  deriving DecidableEq, Repr

structure Disc where
  recv : RecvPc
  pendingSend : Bool
  returned : Bool
  deriving DecidableEq, Repr

def dstep (d : Disc) : K → Option Disc
  | .recvCall => if d.recv = .notCalled ∧ d.returned = false then some { d with recv := .pending } else none
  | .recvRet => if d.recv = .pending then some { d with recv := .returned } else none
  | .setHeader => if d.recv = .returned ∧ d.pendingSend = false ∧ d.returned = false then some d else none
  | .setTrailer => if d.recv = .returned ∧ d.pendingSend = false ∧ d.returned = false then some d else none
  | .sendCall =>
    if d.recv = .returned ∧ d.pendingSend = false ∧ d.returned = false then some { d with pendingSend := true } else none
  | .sendRet => if d.pendingSend = true then some { d with pendingSend := false } else none
  | .fwdRet =>
    if d.returned = false ∧ d.pendingSend = false ∧ d.recv ≠ .pending then some { d with returned := true } else none

section Forward
open GB.Fwd
variable {M E : Type} [DecidableEq M] [DecidableEq E]

/-- projection of the Forward LTS' labels: the incoming-stream events and Forward's return -/
def kindOf : Label M E → Option K
  | .incRecvCall => some .recvCall
  | .incRecvRet _ => some .recvRet
  | .incSetHeader => some .setHeader
  | .incSetTrailer => some .setTrailer
  | .incSendCall _ => some .sendCall
  | .incSendRet _ => some .sendRet
  | .ret _ => some .fwdRet
  | _ => none

def recvOf : MPc M E → RecvPc
  | .start => .notCalled
  | .uRecvPending => .pending
  | _ => .returned

/-- the response pump is inside `Incoming.Send` (`OPc.sendPending`): it has called Send and is not gone -/
def isSendPending (o : OPc M E) : Bool := o.sentPhase && !o.gone

/-- the discipline state a Forward state stands for (not client-streaming: `Recv` is main's, in forwardUnaryRequest) -/
def discOf (s : State M E) : Disc :=
  { recv := recvOf s.main, pendingSend := isSendPending s.o2i, returned := s.main.isDone }

set_option maxHeartbeats 4000000 in
/-- **Simulation.** For a method that is not client-streaming, every step of the Forward LTS (any peer behaviour, any
    schedule) is, on the incoming stream, a step the discipline allows; all other labels leave it where it is. -/
theorem fwd_sim (p : Params) (hcs : p.cs = false) (s s' : State M E) (l : Label M E) (hS : SInv p s)
    (hs : GB.Fwd.step p s l = some s') :
    (match kindOf l with
     | some k => dstep (discOf s) k = some (discOf s')
     | none => discOf s' = discOf s) := by
  obtain ⟨s1, hc, rfl⟩ := step_core hs
  clear hs
  have hi := hS.ncs_i hcs
  have hpo := hS.pre_o
  have hdg := hS.done_gone
  have hm := hS.ncs_m hcs
  cases l <;> simp only [stepCore] at hc <;> (repeat' split at hc) <;> (try cases hc) <;>
    simp_all [kindOf, discOf, dstep, pumpsGone, beginReturn, recvOf, isSendPending,
      apply_ite OPc.sentPhase, apply_ite OPc.gone] <;>
    (try (split <;> simp_all)) <;> (try (split <;> simp_all))

/-- run of the discipline automaton over a word -/
def drun : Disc → List K → Option Disc
  | d, [] => some d
  | d, k :: ks => match dstep d k with
    | some d' => drun d' ks
    | none => none

def dinit : Disc := { recv := .notCalled, pendingSend := false, returned := false }

omit [DecidableEq M] [DecidableEq E] in
theorem drun_snoc (d : Disc) (ks : List K) (k : K) :
    drun d (ks ++ [k]) = (drun d ks).bind (fun d' => dstep d' k) := by
  induction ks generalizing d with
  | nil => simp [drun]; cases dstep d k <;> rfl
  | cons a rest ih =>
    simp only [List.cons_append, drun]
    cases dstep d a with
    | none => rfl
    | some d' => exact ih d'

/-- **Every run of Forward obeys the call rules**: the incoming-stream events of any run (any client, any target, any
    schedule, any faults) of a non-client-streaming method form a word the discipline accepts, ending in the
    discipline state of the reached Forward state. -/
theorem fwd_run_accepts (p : Params) (hcs : p.cs = false) (tr : List (Label M E)) (s : State M E) (h : Run p tr s) :
    drun dinit (tr.filterMap kindOf) = some (discOf s) := by
  induction h with
  | init => rfl
  | @step tr s l s' hr hs ih =>
    have hS := sinv_reach p s hr.reachable
    have hsim := fwd_sim p hcs s s' l hS hs
    rw [filterMap_snoc]
    cases hk : kindOf l with
    | none =>
      rw [hk] at hsim
      simp [ih, hsim]
    | some k =>
      rw [hk] at hsim
      simp only [Option.toList]
      rw [drun_snoc, ih]
      exact hsim

/-- When Forward has returned, no call is pending on the incoming stream (from `C02_cleanup`: both pumps exited). -/
theorem fwd_returned_idle (p : Params) (s : State M E) (hr : GB.Fwd.Reachable p s) (hd : isDone s = true) :
    (discOf s).pendingSend = false ∧ (discOf s).recv = .returned := by
  have hg := (C02_cleanup p s hr hd).2.1
  unfold isDone at hd
  cases hm : s.main <;> simp [hm] at hd
  simp only [pumpsGone, Bool.and_eq_true] at hg
  simp [discOf, isSendPending, hg.2, recvOf, hm]

end Forward

/-! ### the httpStream LTS offers calls exactly under these rules -/

def kindEv : Ev → Option K
  | .recvCall => some .recvCall
  | .recvRet _ => some .recvRet
  | .setHeader _ => some .setHeader
  | .setTrailer _ => some .setTrailer
  | .sendCall _ => some .sendCall
  | .sendRet _ => some .sendRet
  | .fwdRet _ => some .fwdRet
  | _ => none

def discOfHS (s : St) : Disc := { recv := s.recv, pendingSend := s.pendingSend, returned := s.fwd.isSome }

/-- Every call / return step of the httpStream LTS is a step of the discipline: its runs are interleavings the
    rules permit (helper and handler steps do not move the discipline state). -/
theorem hs_sim (cfg : Cfg) (s s' : St) (ev : Ev) (hs : step cfg s ev = some s') :
    (match kindEv ev with
     | some k => dstep (discOfHS s) k = some (discOfHS s')
     | none => discOfHS s' = discOfHS s) := by
  cases ev <;> simp only [step] at hs
  all_goals ((repeat' split at hs) <;> (try cases hs) <;> simp_all [kindEv, discOfHS, dstep])

/-- …and it refuses none of them: whenever the rules allow Forward to make a call (or to return), the LTS has the
    step (in states where no `Send` helper was abandoned). -/
theorem hs_offers (cfg : Cfg) (hfx : cfg.fx = true) (s : St) (hr : Reachable cfg s) (ha : s.abandoned = false) :
    (∀ d', dstep (discOfHS s) .recvCall = some d' → (step cfg s .recvCall).isSome = true) ∧
    (∀ d' md, dstep (discOfHS s) .setHeader = some d' → (step cfg s (.setHeader md)).isSome = true) ∧
    (∀ d' md, dstep (discOfHS s) .setTrailer = some d' → (step cfg s (.setTrailer md)).isSome = true) ∧
    (∀ d' x, dstep (discOfHS s) .sendCall = some d' → (step cfg s (.sendCall x)).isSome = true) ∧
    (∀ d' e, dstep (discOfHS s) .fwdRet = some d' → (step cfg s (.fwdRet e)).isSome = true) := by
  have I := (inv_reach cfg hfx s hr).1
  have hnone : s.pendingSend = false → s.sendHelper = .none := by
    intro hp
    cases hsh : s.sendHelper with
    | none => rfl
    | _ => have := I.pend ha (by simp [hsh]); rw [hp] at this; cases this
  have hmu : s.pendingSend = false → s.mu = false := by
    intro hp; rw [I.mu_iff, hnone hp]; rfl
  have hfn : s.fwd.isSome = false → s.fwd.isNone = true := by cases s.fwd <;> simp
  refine ⟨?_, ?_, ?_, ?_, ?_⟩
  · intro d' h
    by_cases hc : ((discOfHS s).recv = RecvPc.notCalled ∧ (discOfHS s).returned = false)
    · obtain ⟨h1, h2⟩ := hc
      simp only [discOfHS] at h1 h2
      simp [step, h1, hfn h2]
    · simp only [dstep] at h; rw [if_neg hc] at h; cases h
  · intro d' md h
    by_cases hc : ((discOfHS s).recv = RecvPc.returned ∧ (discOfHS s).pendingSend = false ∧ (discOfHS s).returned = false)
    · obtain ⟨h1, h2, h3⟩ := hc
      simp only [discOfHS] at h1 h2 h3
      simp [step, h1, h2, hfn h3, hmu h2]
    · simp only [dstep] at h; rw [if_neg hc] at h; cases h
  · intro d' md h
    by_cases hc : ((discOfHS s).recv = RecvPc.returned ∧ (discOfHS s).pendingSend = false ∧ (discOfHS s).returned = false)
    · obtain ⟨h1, h2, h3⟩ := hc
      simp only [discOfHS] at h1 h2 h3
      simp [step, h1, h2, hfn h3, hmu h2]
    · simp only [dstep] at h; rw [if_neg hc] at h; cases h
  · intro d' x h
    by_cases hc : ((discOfHS s).recv = RecvPc.returned ∧ (discOfHS s).pendingSend = false ∧ (discOfHS s).returned = false)
    · obtain ⟨h1, h2, h3⟩ := hc
      simp only [discOfHS] at h1 h2 h3
      simp [step, h1, h2, hfn h3, hnone h2]
    · simp only [dstep] at h; rw [if_neg hc] at h; cases h
  · intro d' e h
    by_cases hc : ((discOfHS s).returned = false ∧ (discOfHS s).pendingSend = false ∧ (discOfHS s).recv ≠ RecvPc.pending)
    · obtain ⟨h1, h2, h3⟩ := hc
      simp only [discOfHS] at h1 h2 h3
      simp [step, h2, h3, hfn h1]
    · simp only [dstep] at h; rw [if_neg hc] at h; cases h

end GB.C10.HS
