import GB.C10.Stream
/-
  C10 — invariants of the httpStream LTS (GB/C10/Stream.lean): as long as no `Send` helper was abandoned, the
  ResponseWriter-side state is exactly what the completed calls, applied one after the other, make of it
  (plus the progress of the one pending `Send`, plus the handler's `writeError`).
-/
set_option linter.unusedSimpArgs false
set_option linter.unusedVariables false
namespace GB.C10.HS
open GB GB.C10 GB.LTS

/-- the completed calls applied in order -/
def base (cfg : Cfg) (s : St) : Core := s.log.foldl (Core.apply cfg) {}

/-- …plus the progress of the pending `Send` -/
def pre (cfg : Cfg) (s : St) : Core :=
  match s.sendHelper with
  | .none => base cfg s
  | .entered _ => base cfg s
  | .pastRead _ => base cfg s
  | .marked _ => (base cfg s).mark cfg
  | .done x => (base cfg s).send cfg x

/-- …plus the handler's write -/
def expected (cfg : Cfg) (s : St) : Core :=
  if s.rendered then
    match s.decision with
    | some d => (pre cfg s).render d
    | none => pre cfg s
  else pre cfg s

structure Inv (cfg : Cfg) (s : St) : Prop where
  core_eq : s.core = expected cfg s
  pend : s.sendHelper ≠ .none → s.pendingSend = true
  guard : ∀ x, (s.sendHelper = .pastRead x ∨ s.sendHelper = .marked x) → ((base cfg s).sent && !cfg.streaming) = false
  fwd_idle : s.fwd.isSome = true → s.pendingSend = false
  dec : ∀ d, s.decision = some d →
    ∃ e, s.fwd = some (some e) ∧ d = writeError (base cfg s).wire.isSome cfg.gone (some cfg.t) e
  rend : s.rendered = true → s.decision.isSome = true
  fin : s.finished = true → (s.fwd = some none ∨ s.rendered = true)
  nodec : s.fwd.isNone = true → s.decision = none ∧ s.rendered = false

theorem abandoned_mono (cfg : Cfg) (s s' : St) (l : Ev) (hs : step cfg s l = some s') (h : s'.abandoned = false) :
    s.abandoned = false := by
  cases l <;> simp only [step] at hs <;> (repeat' split at hs) <;> (try cases hs) <;> simp_all

theorem base_snoc (cfg : Cfg) (s : St) (c : Call) (s' : St) (h : s'.log = s.log ++ [c]) :
    base cfg s' = (base cfg s).apply cfg c := by
  simp [base, h, List.foldl_append]

theorem inv_init (cfg : Cfg) : Inv cfg init := by
  constructor <;> simp [init, expected, pre, base]

set_option maxHeartbeats 1000000 in
theorem inv_step (cfg : Cfg) (s s' : St) (l : Ev) (h : Inv cfg s) (ha : s'.abandoned = false)
    (hs : step cfg s l = some s') : Inv cfg s' := by
  obtain ⟨h1, h2, h3, h4, h5, h6, h7, h8⟩ := h
  cases l <;> simp only [step] at hs <;> (repeat' split at hs) <;> (try cases hs) <;>
    (constructor <;> simp_all [expected, pre, base, List.foldl_append, Core.apply]) <;> (try assumption) <;>
    (try (simp_all [Core.send]; done))

/-- The invariant holds in every reachable state in which no `Send` helper was abandoned. -/
theorem inv_reach (cfg : Cfg) (s : St) (h : Reachable cfg s) (ha : s.abandoned = false) : Inv cfg s := by
  have := invariant (step cfg) init (fun s => s.abandoned = false → Inv cfg s) (fun _ => inv_init cfg)
    (fun s l s' ih hs ha' => inv_step cfg s s' l (ih (abandoned_mono cfg s s' l hs ha')) ha' hs) s h
  exact this ha

/-- **Confluence.** When the handler has returned and no `Send` was abandoned, the ResponseWriter is in exactly the
    state the sequential reading produces: the response-side calls applied one after the other in call order, then
    the handler's `writeError` on the result — whatever the interleaving of helpers, returns and handler steps was. -/
theorem final_core (cfg : Cfg) (s : St) (h : Reachable cfg s) (ha : s.abandoned = false) (hf : s.finished = true) :
    ∃ ret, s.fwd = some ret ∧ s.core = seqCore cfg s.log ret := by
  have I := inv_reach cfg s h ha
  have hidle : s.fwd.isSome = true → s.sendHelper = .none := by
    intro hx
    have hp := I.fwd_idle hx
    cases hsh : s.sendHelper with
    | none => rfl
    | _ => have := I.pend (by simp [hsh]); rw [hp] at this; cases this
  rcases I.fin hf with hn | hr
  · refine ⟨none, hn, ?_⟩
    have hdec : s.decision = none := by
      cases hd : s.decision with
      | none => rfl
      | some d => obtain ⟨e, he, _⟩ := I.dec d hd; rw [hn] at he; cases he
    have hrend : s.rendered = false := by
      cases hr : s.rendered with
      | false => rfl
      | true => have := I.rend hr; rw [hdec] at this; cases this
    have hsh := hidle (by simp [hn])
    rw [I.core_eq]
    simp [expected, hrend, pre, hsh, seqCore, base]
  · have hd := I.rend hr
    cases hdec : s.decision with
    | none => rw [hdec] at hd; cases hd
    | some d =>
      obtain ⟨e, he, hde⟩ := I.dec d hdec
      refine ⟨some e, he, ?_⟩
      have hsh := hidle (by simp [he])
      rw [I.core_eq]
      simp [expected, hr, hdec, pre, hsh, seqCore, base, hde]

/-- **The status line is decided exactly once**: what the first `WriteHeader`/`Write` committed (status, headers,
    content type) is never changed by any later step — in every run. -/
theorem wire_stable (cfg : Cfg) (s s' : St) (l : Ev) (hs : step cfg s l = some s') (w : Wire)
    (hw : s.core.wire = some w) : s'.core.wire = some w := by
  cases l <;> simp only [step] at hs <;> (repeat' split at hs) <;> (try cases hs) <;>
    simp_all [Core.setHeader, Core.setTrailer, Core.mark, Core.write, Core.render] <;>
    (try (split <;> simp_all)) <;> (try (split <;> simp_all)) <;> (try (rename_i d _ _; cases d <;> simp_all <;> split <;> simp_all))

end GB.C10.HS
