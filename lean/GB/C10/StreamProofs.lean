import GB.C10.Stream
/-
  C10 — invariants of the httpStream LTS (GB/C10/Stream.lean) for the REPAIRED epilogue (`cfg.fx = true`):
  in EVERY reachable state — abandoned `Send`s included — the ResponseWriter-side state is exactly what the completed
  calls (an abandoned `Send` counts from the moment its helper got through, and never if it found `finished`), applied
  one after the other, make of it, plus the progress of the one helper that holds `mu`, plus the handler's `writeError`.
-/
set_option linter.unusedSimpArgs false
set_option linter.unusedVariables false
namespace GB.C10.HS
open GB GB.C10 GB.LTS

/-- the completed calls applied in order -/
def base (cfg : Cfg) (s : St) : Core := s.log.foldl (Core.apply cfg) {}

/-- …plus the progress of the running `Send` helper -/
def pre (cfg : Cfg) (s : St) : Core :=
  match s.sendHelper with
  | .none => base cfg s
  | .entered _ => base cfg s
  | .pastRead _ => base cfg s
  | .skipped _ => base cfg s
  | .marked _ => (base cfg s).mark cfg
  | .done x => if s.pendingSend then (base cfg s).send cfg x else base cfg s

/-- …plus the handler's write -/
def expected (cfg : Cfg) (s : St) : Core :=
  if s.rendered then
    match s.decision with
    | some d => (pre cfg s).render d
    | none => pre cfg s
  else pre cfg s

def SendPc.isMarked : SendPc → Bool
  | .marked _ => true
  | _ => false

theorem base_snoc (cfg : Cfg) (s : St) (c : Call) (s' : St) (h : s'.log = s.log ++ [c]) :
    base cfg s' = (base cfg s).apply cfg c := by
  simp [base, h, List.foldl_append]

@[simp] theorem hd_core (s : St) (x : Enc) : (s.helperDone x).core = s.core := by unfold St.helperDone; split <;> rfl
@[simp] theorem hd_read (s : St) (x : Enc) : (s.helperDone x).read = s.read := by unfold St.helperDone; split <;> rfl
@[simp] theorem hd_recv (s : St) (x : Enc) : (s.helperDone x).recv = s.recv := by unfold St.helperDone; split <;> rfl
@[simp] theorem hd_pending (s : St) (x : Enc) : (s.helperDone x).pendingSend = s.pendingSend := by unfold St.helperDone; split <;> rfl
@[simp] theorem hd_helper (s : St) (x : Enc) : (s.helperDone x).sendHelper = .done x := by unfold St.helperDone; split <;> rfl
@[simp] theorem hd_abandoned (s : St) (x : Enc) : (s.helperDone x).abandoned = s.abandoned := by unfold St.helperDone; split <;> rfl
@[simp] theorem hd_mu (s : St) (x : Enc) : (s.helperDone x).mu = s.mu := by unfold St.helperDone; split <;> rfl
@[simp] theorem hd_fin (s : St) (x : Enc) : (s.helperDone x).fin = s.fin := by unfold St.helperDone; split <;> rfl
@[simp] theorem hd_returnedAt (s : St) (x : Enc) : (s.helperDone x).returnedAt = s.returnedAt := by unfold St.helperDone; split <;> rfl
@[simp] theorem hd_writes (s : St) (x : Enc) : (s.helperDone x).writes = s.writes := by unfold St.helperDone; split <;> rfl
@[simp] theorem hd_fwd (s : St) (x : Enc) : (s.helperDone x).fwd = s.fwd := by unfold St.helperDone; split <;> rfl
@[simp] theorem hd_decision (s : St) (x : Enc) : (s.helperDone x).decision = s.decision := by unfold St.helperDone; split <;> rfl
@[simp] theorem hd_rendered (s : St) (x : Enc) : (s.helperDone x).rendered = s.rendered := by unfold St.helperDone; split <;> rfl
@[simp] theorem hd_finished (s : St) (x : Enc) : (s.helperDone x).finished = s.finished := by unfold St.helperDone; split <;> rfl
theorem hd_log (s : St) (x : Enc) :
    (s.helperDone x).log = if s.pendingSend then s.log else s.log ++ [.send x] := by unfold St.helperDone; split <;> simp_all

/-- control part of the invariant: who holds the mutex, what is decided when -/
structure InvC (cfg : Cfg) (s : St) : Prop where
  mu_iff : s.mu = s.sendHelper.isMarked
  fin_nomark : s.fin = true → s.sendHelper.isMarked = false
  pend : s.abandoned = false → s.sendHelper ≠ .none → s.pendingSend = true
  fwd_idle : s.fwd.isSome = true → s.pendingSend = false
  fin_fwd : s.fin = true → s.fwd.isSome = true
  dec_fin : s.decision.isSome = true → s.fin = true ∧ ∃ e, s.fwd = some (some e)
  rend : s.rendered = true → s.decision.isSome = true
  fin : s.finished = true → s.fin = true ∧ (s.fwd = some none ∨ s.rendered = true) ∧ s.returnedAt = some s.writes
  nodec : s.fwd.isNone = true → s.decision = none ∧ s.rendered = false

set_option maxHeartbeats 2000000 in
theorem invC_step (cfg : Cfg) (hfx : cfg.fx = true) (s s' : St) (l : Ev) (h : InvC cfg s)
    (hs : step cfg s l = some s') : InvC cfg s' := by
  obtain ⟨h1, h2, h3, h4, h5, h6, h7, h8, h9⟩ := h
  cases l <;> simp only [step] at hs
  all_goals ((repeat' split at hs) <;> (try cases hs) <;>
    (constructor <;> simp_all [SendPc.isMarked]) <;> (try (cases hfin : s.finished <;> simp_all; done)))

/-- data part: the writer state is the sequential one -/
structure InvD (cfg : Cfg) (s : St) : Prop where
  core_eq : s.core = expected cfg s
  guard : s.sendHelper.isMarked = true → ((base cfg s).sent && !cfg.streaming) = false
  dec_eq : ∀ d e, s.decision = some d → s.fwd = some (some e) →
    d = writeError (base cfg s).wire.isSome cfg.gone (some cfg.t) e

set_option maxHeartbeats 4000000 in
theorem invD_step (cfg : Cfg) (hfx : cfg.fx = true) (s s' : St) (l : Ev) (hc : InvC cfg s) (h : InvD cfg s)
    (hs : step cfg s l = some s') : InvD cfg s' := by
  obtain ⟨c1, c2, c3, c4, c5, c6, c7, c8, c9⟩ := hc
  obtain ⟨h1, h2, h3⟩ := h
  cases l <;> simp only [step] at hs
  all_goals ((repeat' split at hs) <;> (try cases hs) <;>
    (constructor <;> simp_all [expected, pre, base, List.foldl_append, Core.apply, SendPc.isMarked, hd_log]) <;>
    (try assumption) <;> (try (simp_all [Core.send]; done)) <;>
    (try (cases hsh : s.sendHelper <;>
      simp_all [expected, pre, base, List.foldl_append, Core.apply, SendPc.isMarked, hd_log, Core.send]; done)) <;>
    (try (cases hp : s.pendingSend <;> cases hsn : (List.foldl (Core.apply cfg) {} s.log).sent <;>
      cases hst : cfg.streaming <;>
      simp_all [expected, pre, base, List.foldl_append, Core.apply, SendPc.isMarked, hd_log, Core.send]; done)))

theorem invC_init (cfg : Cfg) : InvC cfg init := by
  constructor <;> simp [init, SendPc.isMarked]

theorem invD_init (cfg : Cfg) : InvD cfg init := by
  constructor <;> simp [init, expected, pre, base, SendPc.isMarked]

/-- Both invariants hold in EVERY reachable state of the repaired code — abandoned `Send`s included. -/
theorem inv_reach (cfg : Cfg) (hfx : cfg.fx = true) (s : St) (h : Reachable cfg s) : InvC cfg s ∧ InvD cfg s :=
  invariant (step cfg) init (fun s => InvC cfg s ∧ InvD cfg s) ⟨invC_init cfg, invD_init cfg⟩
    (fun s l s' ih hs => ⟨invC_step cfg hfx s s' l ih.1 hs, invD_step cfg hfx s s' l ih.1 ih.2 hs⟩) s h

/-- **Confluence, all runs.** When the handler has returned, the ResponseWriter is in exactly the state the sequential
    reading produces: the completed response-side calls applied one after the other (an abandoned `Send` is one of
    them iff its helper got `mu` before `finish()`), then the handler's `writeError` on the result — whatever the
    interleaving of helpers, returns, abandonments and handler steps was. -/
theorem final_core (cfg : Cfg) (hfx : cfg.fx = true) (s : St) (h : Reachable cfg s) (hf : s.finished = true) :
    ∃ ret, s.fwd = some ret ∧ s.core = seqCore cfg s.log ret := by
  obtain ⟨C, D⟩ := inv_reach cfg hfx s h
  obtain ⟨hfin, hcase, _⟩ := C.fin hf
  have hfwd := C.fin_fwd hfin
  have hpend := C.fwd_idle hfwd
  have hnm := C.fin_nomark hfin
  have hpre : pre cfg s = base cfg s := by
    unfold pre
    cases hsh : s.sendHelper <;> simp_all [SendPc.isMarked]
  rcases hcase with hn | hr
  · refine ⟨none, hn, ?_⟩
    have hdec : s.decision = none := by
      cases hd : s.decision with
      | none => rfl
      | some d => obtain ⟨_, e, he⟩ := C.dec_fin (by simp [hd]); rw [hn] at he; cases he
    have hrend : s.rendered = false := by
      cases hr : s.rendered with
      | false => rfl
      | true => have := C.rend hr; rw [hdec] at this; cases this
    rw [D.core_eq]
    simp [expected, hrend, hpre, seqCore, base]
  · have hd := C.rend hr
    cases hdec : s.decision with
    | none => rw [hdec] at hd; cases hd
    | some d =>
      obtain ⟨_, e, he⟩ := C.dec_fin (by simp [hdec])
      refine ⟨some e, he, ?_⟩
      have hde := D.dec_eq d e hdec he
      rw [D.core_eq]
      simp [expected, hr, hdec, hpre, seqCore, base, hde]

/-- **No write after the handler returned**, any schedule: the number of steps that touched the ResponseWriter is, in
    every reachable state after the return, the number it was at the return. -/
theorem no_write_after_return (cfg : Cfg) (hfx : cfg.fx = true) (s : St) (h : Reachable cfg s) (hf : s.finished = true) :
    s.returnedAt = some s.writes :=
  ((inv_reach cfg hfx s h).1.fin hf).2.2

/-- **The status line is decided exactly once**: what the first `WriteHeader`/`Write` committed (status, headers,
    content type) is never changed by any later step — in every run, of the original and of the repaired code. -/
theorem wire_stable (cfg : Cfg) (s s' : St) (l : Ev) (hs : step cfg s l = some s') (w : Wire)
    (hw : s.core.wire = some w) : s'.core.wire = some w := by
  cases l <;> simp only [step] at hs
  all_goals ((repeat' split at hs) <;> (try cases hs) <;>
    simp_all [Core.setHeader, Core.setTrailer, Core.mark, Core.write, Core.render] <;>
    (try (split <;> simp_all)) <;> (try (split <;> simp_all)) <;>
    (try (rename_i d _ _; cases d <;> simp_all <;> split <;> simp_all)))

end GB.C10.HS
