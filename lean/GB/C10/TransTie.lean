import GB.Generated.Trans
import GB.Base.TransLemmas
import GB.C10.Model
/-
  C10 — SOURCE-TO-LEAN TRANSLATOR TIE for the gRPC code → HTTP status table.  `webbridge.errorStatus` calls
  `runtime.HTTPStatusFromCode` of the grpc-gateway DEPENDENCY (there is no table of the repository's own); the
  translator regenerates the Lean definition from the dependency's source in the module cache (the version
  go.mod pins), so a bumped dependency with a different table breaks the theorem.  `codes.Code` (uint32) is a
  non-negative `Int` on the generated side (values only — compared and switched on), a `Nat` in the hand model;
  the `grpclog.Infof` call of the default branch is a logging call and is dropped.
-/
set_option linter.unusedSimpArgs false

open GB GB.Trans

/-- the 17 defined codes, by enumeration -/
theorem GB.C10.TransTie.table_small : ∀ n : Fin 17,
    GB.Generated.Trans.HTTPStatusFromCode (n.val : Int) = (GB.C10.httpStatusFromCode n.val : Int) := by decide

/-- grpc-gateway `runtime.HTTPStatusFromCode` = the model's table, for every code value -/
theorem C10_trans_HTTPStatusFromCode : ∀ c : Nat,
    GB.Generated.Trans.HTTPStatusFromCode (c : Int) = (GB.C10.httpStatusFromCode c : Int) := by
  intro c
  by_cases h : c < 17
  · exact GB.C10.TransTie.table_small ⟨c, h⟩
  · have hi : ∀ k : Int, k < 17 → ((c : Int) == k) = false := by
      intro k hk; simp; omega
    have hn : ∀ k : Nat, k < 17 → (k == c) = false := by
      intro k hk; simp; omega
    simp [GB.Generated.Trans.HTTPStatusFromCode, GB.C10.httpStatusFromCode, GB.C10.codeTable, List.find?, hi, hn]

example : GB.Generated.Trans.HTTPStatusFromCode 5 = 404 := by decide
