import GB.C10.Model
/-
  C10 — rendering is HISTORY-FREE: sequences of transcoded calls over two targets with different descriptor sets through
  one bridge / one marshaler instance (round 5 follow-up, seeded change C10-m1 of round 6).

  `JSONMarshaler.Marshal(types, msg, fd)` as coded: `opts := m.MarshalOptions` (a COPY of the struct), then
  `if opts.Resolver == nil { opts.Resolver = types }` — the marshaler itself is never written. So what a call renders is
  a function of (the status / message, the ROUTED target's resolver, the negotiated marshaler's configuration) only.
  `sticky = true` is the variant that fills `m.MarshalOptions.Resolver` in place: the first target's resolver stays.
  Core-only (the driver links this file).
-/
namespace GB.C10.TT
open GB

inductive Tgt where
  | A | B
  deriving DecidableEq, Repr

/-- detail message types: `a` is declared by target A's descriptors only, `b` by target B's only -/
inductive Det where
  | a | b
  deriving DecidableEq, Repr

/-- which detail types a target's TypeResolver resolves -/
def knows : Tgt → Det → Bool
  | .A, .a => true
  | .B, .b => true
  | _, _ => false

structure Step where
  tgt : Tgt
  ok : Bool            -- the target answers with its response message
  code : Nat           -- otherwise: google.rpc.Status code …
  dets : List Det      -- … and details
  deriving DecidableEq, Repr

inductive Out where
  | msg                                    -- 200, the response message in the negotiated encoding
  | status (code : Nat) (dets : List Det)   -- canonical HTTP status, google.rpc.Status body with decodable details
  | fallback (code : Nat)                   -- canonical HTTP status, text/plain "unable to transcode response status …"
  deriving DecidableEq, Repr

/-- the marshaler instance: its configured `MarshalOptions.Resolver` (nil unless the user overrides it) -/
structure MState where
  resolver : Option Tgt
  deriving DecidableEq, Repr

/-- one `Marshal(types, …)` call: the resolver it marshals with, and the marshaler afterwards -/
def marshalUse (sticky : Bool) (m : MState) (types : Tgt) : MState × Tgt :=
  (if sticky && m.resolver.isNone then { resolver := some types } else m, m.resolver.getD types)

/-- what the bridge renders for a step when the marshaler resolves with `used` -/
def renderWith (used : Tgt) (s : Step) : Out :=
  if s.ok then .msg
  else if s.dets.all (knows used) then .status s.code s.dets
  else .fallback s.code

/-- a sequence of calls through one marshaler instance (every step marshals once: the response or the Status) -/
def runSeq (sticky : Bool) : MState → List Step → List Out
  | _, [] => []
  | m, s :: rest =>
    let r := marshalUse sticky m s.tgt
    renderWith r.2 s :: runSeq sticky r.1 rest

/-- the specification: each call on its own, with the resolver of the target it was routed to -/
def specOut (s : Step) : Out := renderWith s.tgt s

theorem runSeq_coded (m : MState) (steps : List Step) :
    runSeq false m steps = steps.map (fun s => renderWith (m.resolver.getD s.tgt) s) := by
  induction steps with
  | nil => rfl
  | cons s rest ih => simp [runSeq, marshalUse, ih]

end GB.C10.TT
