import GB.C10.Options
import GB.C10.Proofs
set_option linter.unusedSimpArgs false
set_option linter.unusedVariables false
namespace GB.C10

theorem foldl_applyOpt (opts : List BOpt) (o : TOpts) :
    opts.foldl applyOpt o =
      { marshalers := match (opts.filterMap marshalersArg).getLast? with
          | some a => a
          | none => o.marshalers,
        default := match (opts.filterMap defaultArg).getLast? with
          | some a => a
          | none => o.default } := by
  induction opts generalizing o with
  | nil => simp
  | cons x rest ih =>
    simp only [List.foldl_cons]
    rw [ih]
    cases x with
    | withMarshalers ms =>
      simp only [applyOpt, List.filterMap_cons, marshalersArg, defaultArg, List.getLast?_cons]
      cases (rest.filterMap marshalersArg).getLast? <;> simp
    | withDefault m =>
      simp only [applyOpt, List.filterMap_cons, marshalersArg, defaultArg, List.getLast?_cons]
      cases (rest.filterMap defaultArg).getLast? <;> simp
    | other => simp [applyOpt, marshalersArg, defaultArg]

theorem plumb_eq (opts : List BOpt) :
    plumb opts = { marshalers := ((opts.filterMap marshalersArg).getLast?).join,
                   default := ((opts.filterMap defaultArg).getLast?).join } := by
  unfold plumb
  rw [foldl_applyOpt]
  cases (opts.filterMap marshalersArg).getLast? <;> cases (opts.filterMap defaultArg).getLast? <;> simp

theorem lookup_mem (r : Registry) (mt : Bytes) (m : Marshaler) (h : r.lookup mt = some m) :
    m ∈ r.marshalers ∧ m.mime = mt := by
  unfold Registry.lookup at h
  exact ⟨List.mem_of_find?_eq_some h, by simpa using List.find?_some h⟩

theorem negotiatedReq_mem (r : Registry) (pm : List (Option Bytes)) (m : Marshaler) (h : negotiatedReq r pm = some m) :
    m ∈ r.marshalers ∨ m = r.default := by
  unfold negotiatedReq at h
  split at h
  · right; injection h with h; exact h.symm
  · left
    obtain ⟨p, _, hp⟩ := List.exists_of_findSome?_eq_some h
    cases p with
    | none => simp at hp
    | some mt => exact (lookup_mem r mt m hp).1

theorem negotiatedResp_mem (r : Registry) (pm : List (Option Bytes)) (acc : List Bytes) (m : Marshaler)
    (h : negotiatedResp r pm acc = some m) : m ∈ r.marshalers ∨ m = r.default := by
  unfold negotiatedResp at h
  split at h
  · rename_i m' hm'
    obtain ⟨a, _, ha⟩ := List.exists_of_findSome?_eq_some hm'
    cases hq : negotiatedReq r pm with
    | none => simp [hq] at h
    | some q =>
      simp [hq] at h
      subst h
      exact Or.inl (lookup_mem r a m' ha).1
  · exact negotiatedReq_mem r pm m h

end GB.C10
