import GB.C10.Model
/-
  C10 — the specification the property is stated against.

  * `canonicalHttp`: the gRPC "closest HTTP mapping" (grpc/doc/statuscodes.md, google/rpc/code.proto),
    written down independently of the gateway table the code calls.
  * what a rendered failure must look like (`failureOk`), a rendered success (`successOk`),
    which media type is the negotiated one (`negotiatedResp`), when a status can be encoded (`encodable`).
  Everything is executable (Bool) so the driver can judge the implementation's output with it; the theorems
  in Props.lean state the same predicates about the model for all inputs.
-/
namespace GB.C10

/-- google/rpc/code.proto: "HTTP Mapping" of each of the 17 codes. -/
def canonicalHttp : Nat → Nat
  | 0 => 200    -- OK
  | 1 => 499    -- CANCELLED: Client Closed Request
  | 2 => 500    -- UNKNOWN: Internal Server Error
  | 3 => 400    -- INVALID_ARGUMENT: Bad Request
  | 4 => 504    -- DEADLINE_EXCEEDED: Gateway Timeout
  | 5 => 404    -- NOT_FOUND
  | 6 => 409    -- ALREADY_EXISTS: Conflict
  | 7 => 403    -- PERMISSION_DENIED: Forbidden
  | 8 => 429    -- RESOURCE_EXHAUSTED: Too Many Requests
  | 9 => 400    -- FAILED_PRECONDITION: Bad Request
  | 10 => 409   -- ABORTED: Conflict
  | 11 => 400   -- OUT_OF_RANGE: Bad Request
  | 12 => 501   -- UNIMPLEMENTED: Not Implemented
  | 13 => 500   -- INTERNAL: Internal Server Error
  | 14 => 503   -- UNAVAILABLE: Service Unavailable
  | 15 => 500   -- DATA_LOSS: Internal Server Error
  | 16 => 401   -- UNAUTHENTICATED: Unauthorized
  | _ => 500    -- not a gRPC code: treated as an unknown error

/-- The message the error was made with (innermost `status.Error(c, msg)` / `errors.New(msg)`). -/
def RawErr.rawMessage : RawErr → Bytes
  | .status st => st.msg
  | .plain m => m
  | .both _ st => st.msg
  | .http _ i => i.rawMessage
  | .wrapf _ i => i.rawMessage

/-- `a` occurs in `b` as a contiguous block. -/
def isInfix (a : Bytes) : Bytes → Bool
  | [] => a.isEmpty
  | c :: rest => a.isPrefixOf (c :: rest) || isInfix a rest

/-- The HTTP status the property demands for an error value. -/
def wantStatus (e : RawErr) : Nat :=
  match explicitOf e with
  | some h => h
  | none => canonicalHttp (convert e).code

/-! ### UTF-8 validity (`unicode/utf8.Valid`): what a proto3 `string` field can carry -/

def isCont (b : UInt8) : Bool := 0x80 ≤ b && b ≤ 0xBF

/-- Consume one well-formed UTF-8 sequence; `none` if the input does not start with one. -/
def utf8Step : Bytes → Option Bytes
  | [] => none
  | b0 :: rest =>
    if b0 < 0x80 then some rest
    else if 0xC2 ≤ b0 && b0 ≤ 0xDF then
      match rest with
      | b1 :: r => if isCont b1 then some r else none
      | _ => none
    else if 0xE0 ≤ b0 && b0 ≤ 0xEF then
      match rest with
      | b1 :: b2 :: r =>
        let lo : UInt8 := if b0 == 0xE0 then 0xA0 else 0x80
        let hi : UInt8 := if b0 == 0xED then 0x9F else 0xBF
        if lo ≤ b1 && b1 ≤ hi && isCont b2 then some r else none
      | _ => none
    else if 0xF0 ≤ b0 && b0 ≤ 0xF4 then
      match rest with
      | b1 :: b2 :: b3 :: r =>
        let lo : UInt8 := if b0 == 0xF0 then 0x90 else 0x80
        let hi : UInt8 := if b0 == 0xF4 then 0x8F else 0xBF
        if lo ≤ b1 && b1 ≤ hi && isCont b2 && isCont b3 then some r else none
      | _ => none
    else none

def validUTF8Fuel : Nat → Bytes → Bool
  | _, [] => true
  | 0, _ => false
  | fuel + 1, s =>
    match utf8Step s with
    | some r => validUTF8Fuel fuel r
    | none => false

def validUTF8 (s : Bytes) : Bool := validUTF8Fuel s.length s

def mimeJSON : Bytes := ascii "application/json"

/-- Can `google.rpc.Status st` be encoded in media type `mime` with the target's descriptors?
    JSON (protojson with the target's TypeResolver) must expand every `Any`, so every detail has to be
    resolvable and well-formed; any protobuf encoding needs a valid UTF-8 message. -/
def encodable (mime : Bytes) (st : St) : Bool :=
  validUTF8 st.msg && (mime != mimeJSON || st.details.all (fun d => d.kind == .resolvable))

/-! ### negotiation, declaratively -/

/-- Request media type: default when there is no Content-Type; otherwise the first line whose media type
    (parameters stripped) is registered; none ⇒ 415. -/
def negotiatedReq (r : Registry) (pm : List (Option Bytes)) : Option Marshaler :=
  if pm.isEmpty then some r.default
  else pm.findSome? (fun p => p.bind r.lookup)

/-- Response media type: the first Accept line that is exactly a registered type, else the request's. -/
def negotiatedResp (r : Registry) (pm : List (Option Bytes)) (accept : List Bytes) : Option Marshaler :=
  match accept.findSome? r.lookup with
  | some m => (negotiatedReq r pm).map (fun _ => m)
  | none => negotiatedReq r pm

/-- SSE is negotiated when no Accept line names a registered type and one of them is exactly `text/event-stream`. -/
def negotiatedSSE (r : Registry) (accept : List Bytes) : Bool :=
  (accept.findSome? r.lookup).isNone && accept.contains eventStream

/-- The content type of a successful response: `text/event-stream` when SSE is negotiated, else the negotiated
    marshaler's. (An error status is always in the marshaler's type: it is one plain document, not an event.) -/
def successType (r : Registry) (accept : List Bytes) (m : Marshaler) : Bytes :=
  if negotiatedSSE r accept then eventStream else m.mime

/-! ### the shape of a rendered failure -/

/-- What the client can decode from the body (the harness decodes with a full resolver). -/
structure Decoded where
  status : Option St     -- body decoded as google.rpc.Status in the response's media type

/-- Failure before the first response byte, client still there: status, non-empty body carrying the message,
    Status body in the negotiated type once bound and encodable, plain text otherwise.
    `none` = satisfied, `some why` = the clause that is violated. -/
def failureWhy (e : RawErr) (bound : Bool) (negotiated : Bytes)
    (status : Nat) (ct : Option Bytes) (body : Bytes) (dec : Decoded) : Option String :=
  let st := convert e
  if status != wantStatus e then some "wrong-http-status"
  else if body.isEmpty then some "empty-body"
  else if bound && encodable negotiated st then
    (if ct != some negotiated then some "status-body-not-in-negotiated-content-type"
     else if dec.status != some st then some "status-body-does-not-decode-to-code-message-details"
     else none)
  else
    (if ct != some textPlain then some "text-error-not-text/plain"
     else if !isInfix st.msg body then some "text-body-does-not-carry-the-message"
     else if !bound && body != st.msg ++ [10] then some "unbound-error-not-plain-message-text"
     else none)

def failureOk (e : RawErr) (bound : Bool) (negotiated : Bytes)
    (status : Nat) (ct : Option Bytes) (body : Bytes) (dec : Decoded) : Bool :=
  (failureWhy e bound negotiated status ct body dec).isNone

/-! ### reading the regenerated facts -/

/-- net/http status constants used by the gateway table (name ↦ number); "499" is a literal there. -/
def httpStatusByName : List (String × Nat) :=
  [("StatusOK", 200), ("499", 499), ("StatusInternalServerError", 500), ("StatusBadRequest", 400),
   ("StatusGatewayTimeout", 504), ("StatusNotFound", 404), ("StatusConflict", 409), ("StatusForbidden", 403),
   ("StatusUnauthorized", 401), ("StatusTooManyRequests", 429), ("StatusNotImplemented", 501),
   ("StatusServiceUnavailable", 503)]

/-- HTTP status the extracted source table gives for code number `c`. -/
def generatedStatus (tbl : List (String × String)) (c : Nat) : Option Nat :=
  match codeNames[c]? with
  | none => none
  | some name =>
    match tbl.find? (fun p => p.1 == name) with
    | none => none
    | some p => (httpStatusByName.find? (fun q => q.1 == p.2)).map (·.2)

/-- `fmt.Sprintf` restricted to `%s` verbs with byte-string arguments. -/
def sprintfS : List Char → List Bytes → Bytes
  | [], _ => []
  | '%' :: 's' :: rest, a :: args => a ++ sprintfS rest args
  | c :: rest, args => UInt8.ofNat c.toNat :: sprintfS rest args

end GB.C10
