import GB.C10.StreamServe
/-
  C10 — the concrete run behind `C10_abandoned_send_breaks_single_writer` (known finding C18-D21).
  Unary call, the target answered, `Incoming.Send` is running when the context ends: `withCtx` returns without its
  helper, Forward returns the context error, the handler's `writeError` reads `writtenStatus = false`, THEN the
  abandoned helper writes the response (status 200), THEN `writeError` writes the error body after it.
-/
namespace GB.C10.HS
open GB GB.C10

/-- a transcoder that renders every status as the one byte `E` -/
def d21Cfg : Cfg :=
  { t := { mime := [106], status := fun _ => .ok [69], streams := true }, streaming := false, gone := false,
    fx := false }      -- the ORIGINAL epilogue: no mutex, no finish()

/-- the same call against the REPAIRED epilogue -/
def d21Fixed : Cfg := { d21Cfg with fx := true }

def d21Err : RawErr := .status ⟨4, [], []⟩      -- DeadlineExceeded

def d21Run : List Ev :=
  [.recvCall, .hRecvDone, .recvRet false,
   .sendCall (.ok [79, 75]), .hSendEnter, .hSendMark,
   .sendRet true,                      -- ctx done: Send returns, its helper is still before the write
   .fwdRet (some d21Err),
   .weDecide,                          -- reads writtenStatus = false: will render 504 + body
   .hSendWrite,                        -- the abandoned helper writes "OK": status 200 goes out
   .weWrite,                           -- the error body follows the success bytes
   .finish]

/-- the same call without the abandonment: Send returns when its helper is done -/
def d21Orderly : List Ev :=
  [.recvCall, .hRecvDone, .recvRet false,
   .sendCall (.ok [79, 75]), .hSendEnter, .hSendMark, .hSendWrite, .sendRet false,
   .fwdRet none, .finish]

/-- repaired code, the abandoned helper loses the race for `mu`: `finish()` first, the helper finds `finished` -/
def d21FenceFirst : List Ev :=
  [.recvCall, .hRecvDone, .recvRet false,
   .sendCall (.ok [79, 75]), .hSendEnter,
   .sendRet true, .fwdRet (some d21Err),
   .weFence,                           -- incoming.finish()
   .hSendMark,                         -- the straggler takes mu, sees finished, touches nothing
   .weDecide, .weWrite, .finish]

/-- repaired code, the abandoned helper wins: it holds `mu` while it writes, `finish()` has to wait -/
def d21HelperFirst : List Ev :=
  [.recvCall, .hRecvDone, .recvRet false,
   .sendCall (.ok [79, 75]), .hSendEnter, .hSendMark,     -- mu taken
   .sendRet true, .fwdRet (some d21Err),
   .hSendWrite,                        -- (weFence is not enabled before this step: mu is held)
   .weFence, .weDecide, .weWrite, .finish]

end GB.C10.HS
