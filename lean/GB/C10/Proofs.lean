import GB.C10.Spec
/-
  C10 — helper lemmas for Props.lean.
-/
namespace GB.C10
open GB

/-! ### the table -/

theorem table_lt17 : ∀ c, c < 17 → httpStatusFromCode c = canonicalHttp c := by decide

theorem table_all (c : Nat) : httpStatusFromCode c = canonicalHttp c := by
  by_cases h : c < 17
  · exact table_lt17 c h
  · obtain ⟨k, rfl⟩ : ∃ k, c = k + 17 := ⟨c - 17, by omega⟩
    rfl

/-! ### infix -/

theorem isInfix_iff (a b : Bytes) : isInfix a b = true ↔ a <:+: b := by
  induction b with
  | nil => simp [isInfix, List.isEmpty_iff]
  | cons c rest ih =>
    simp only [isInfix, Bool.or_eq_true, ih, List.infix_cons_iff, List.isPrefixOf_iff_prefix]

theorem infix_append_right (a b c : Bytes) (h : a <:+: b) : a <:+: b ++ c := by
  obtain ⟨s, t, rfl⟩ := h
  exact ⟨s, t ++ c, by simp⟩

theorem infix_append_left (a b c : Bytes) (h : a <:+: c) : a <:+: b ++ c := by
  obtain ⟨s, t, rfl⟩ := h
  exact ⟨b ++ s, t, by simp⟩

/-! ### status conversion carries the message -/

theorem rawMessage_infix_text (e : RawErr) : e.rawMessage <:+: e.text := by
  induction e with
  | status st => exact infix_append_left _ _ _ (List.infix_refl _)
  | plain m => exact List.infix_refl _
  | both h st => exact infix_append_left _ _ _ (List.infix_refl _)
  | http h i ih => exact ih
  | wrapf p i ih => exact infix_append_left _ _ _ ih

theorem findStatus_of_direct (e : RawErr) (st : St) (h : e.direct = some st) : e.rawMessage = st.msg := by
  cases e <;> simp [RawErr.direct] at h <;> simp [RawErr.rawMessage, h]

theorem rawMessage_infix_convert (e : RawErr) : e.rawMessage <:+: (convert e).msg := by
  unfold convert
  cases hd : e.direct with
  | some st => simp [findStatus_of_direct e st hd]
  | none =>
    cases hf : e.findStatus with
    | some st => exact rawMessage_infix_text e
    | none => exact rawMessage_infix_text e


/-! ### errorStatus / writeError -/

theorem errorStatus_http (e : RawErr) : (errorStatus e).2 = wantStatus e := by
  unfold errorStatus wantStatus
  cases explicitOf e <;> simp [table_all]

theorem errorStatus_fst (e : RawErr) : (errorStatus e).1 = convert e := rfl

theorem writeTextError_eq (e : RawErr) :
    writeTextError e = .resp (wantStatus e) (some textPlain) true ((convert e).msg ++ [10]) := by
  simp [writeTextError, errorStatus_http, errorStatus_fst]

theorem transcodeError_ok (t : RespTranscoder) (e : RawErr) (data : Bytes) (h : t.status (convert e) = .ok data) :
    transcodeError t e = .resp (wantStatus e) (some t.mime) false data := by
  simp [transcodeError, errorStatus_http, errorStatus_fst, h]

theorem transcodeError_err (t : RespTranscoder) (e : RawErr) (terr : Bytes) (h : t.status (convert e) = .error terr) :
    transcodeError t e = .resp (wantStatus e) (some textPlain) true (fallbackText (convert e) terr) := by
  simp [transcodeError, errorStatus_http, errorStatus_fst, h]

theorem fallbackText_ne_nil (st : St) (terr : Bytes) : fallbackText st terr ≠ [] := by
  simp [fallbackText]

theorem msg_infix_fallbackText (st : St) (terr : Bytes) : st.msg <:+: fallbackText st terr := by
  unfold fallbackText
  refine infix_append_right _ _ _ (infix_append_right _ _ _ (infix_append_right _ _ _ ?_))
  exact infix_append_left _ _ _ (List.infix_refl _)

theorem codeName_infix_fallbackText (st : St) (terr : Bytes) : codeName st.code <:+: fallbackText st terr := by
  unfold fallbackText
  refine infix_append_right _ _ _ (infix_append_right _ _ _ (infix_append_right _ _ _ (infix_append_right _ _ _ (infix_append_right _ _ _ ?_))))
  exact infix_append_left _ _ _ (List.infix_refl _)

theorem terr_infix_fallbackText (st : St) (terr : Bytes) : terr <:+: fallbackText st terr := by
  unfold fallbackText
  refine infix_append_right _ _ _ ?_
  exact infix_append_left _ _ _ (List.infix_refl _)

/-! ### negotiation -/

theorem pickRequestLoop_eq (r : Registry) (pm : List (Option Bytes)) :
    pickRequestLoop r pm = pm.findSome? (fun p => p.bind r.lookup) := by
  induction pm with
  | nil => rfl
  | cons p rest ih =>
    cases p with
    | none => simp [pickRequestLoop, ih]
    | some mt =>
      cases hl : r.lookup mt with
      | none => simp [pickRequestLoop, hl, ih]
      | some m => simp [pickRequestLoop, hl]

theorem pickRequestMarshaler_eq (r : Registry) (pm : List (Option Bytes)) :
    pickRequestMarshaler r pm = match negotiatedReq r pm with
      | some m => .ok m
      | none => .error unsupportedMediaTypeErr := by
  unfold pickRequestMarshaler negotiatedReq
  cases pm with
  | nil => simp
  | cons p rest =>
    have h1 : ((p :: rest).length == 0) = false := by simp
    have h2 : (p :: rest).isEmpty = false := rfl
    simp only [h1, h2, pickRequestLoop_eq, Bool.false_eq_true, ↓reduceIte]
    cases List.findSome? (fun p => p.bind r.lookup) (p :: rest) <;> rfl

theorem pickResponseMarshaler_eq (r : Registry) (acc : List Bytes) :
    pickResponseMarshaler r acc = acc.findSome? r.lookup := by
  induction acc with
  | nil => rfl
  | cons a rest ih =>
    cases hl : r.lookup a with
    | none => simp [pickResponseMarshaler, hl, ih]
    | some m => simp [pickResponseMarshaler, hl]

theorem bind_ok_negotiated (r : Registry) (pm : List (Option Bytes)) (acc : List Bytes) (cs ss : Bool) (b : Bound)
    (h : bind r pm acc cs ss = .ok b) :
    negotiatedReq r pm = some b.req ∧ negotiatedResp r pm acc = some b.resp := by
  unfold bind at h
  rw [pickRequestMarshaler_eq] at h
  unfold negotiatedResp
  rw [← pickResponseMarshaler_eq]
  cases hq : negotiatedReq r pm with
  | none => simp [hq] at h
  | some reqM =>
    simp only [hq] at h
    cases hp : pickResponseMarshaler r acc with
    | some m =>
      simp only [hp] at h
      split at h
      · simp at h
      · split at h
        · simp at h
        · injection h with h; subst h; simp
    | none =>
      simp only [hp] at h
      split at h
      · simp at h
      · split at h
        · simp at h
        · injection h with h; subst h; simp

theorem bind_unsupported (r : Registry) (pm : List (Option Bytes)) (acc : List Bytes) (cs ss : Bool)
    (h : negotiatedReq r pm = none) : bind r pm acc cs ss = .error unsupportedMediaTypeErr := by
  unfold bind
  rw [pickRequestMarshaler_eq, h]

/-! ### case analysis of `serve` -/

theorem failResp_fields (o : Origin) (g : Bool) (t : Option RespTranscoder) (e : RawErr) (h : MD) :
    (failResp o g t e h).origin = some o ∧ (failResp o g t e h).err = some e ∧ (failResp o g t e h).bound = t.isSome
    ∧ (failResp o g t e h).hdrs = h := by
  unfold failResp
  split <;> simp

/-- The shape of a rendered success. -/
def SuccessShape (sc : Scenario) (env : Env) (mime : Bytes) (sse : Bool) (r : Resp) : Prop :=
  r.origin = none ∧ r.err = none ∧ r.status = 200 ∧ r.nosniff = false ∧
  ((r.ct = none ∧ r.body = .bytes [] ∧ sc.rpc = .serverStream ∧ sc.n = 0) ∨
   ∃ sel, traverseFieldPath respFields sc.rbp = some sel ∧ r.ct = some mime ∧
     ((r.body = .bytes (env.msgEnc sel) ∧ sc.rpc ≠ .serverStream) ∨ (r.body = .items sel sc.n sse ∧ sc.rpc = .serverStream)))

theorem serveStream_ind (sc : Scenario) (env : Env) (t : RespTranscoder) (sse : Bool) (P : Resp → Prop)
    (hrpc : sc.rpc = .serverStream)
    (hfail : ∀ o g e h, o.bound = true → (g = true → sc.gone = true) → P (failResp o g (some t) e h))
    (hsucc : ∀ r : Resp, SuccessShape sc env t.mime sse r → P r) :
    P (serveStream sc env t sse) := by
  unfold serveStream
  repeat' split
  all_goals first
    | (apply hfail
       · rfl
       · first | (intro h; exact h) | (intro h; cases h))
    | (apply hsucc; refine ⟨rfl, rfl, rfl, rfl, ?_⟩
       first
       | (left; refine ⟨rfl, rfl, hrpc, ?_⟩; simp_all)
       | (right; exact ⟨_, ‹_›, rfl, Or.inr ⟨rfl, hrpc⟩⟩))

theorem serveUnary_ind (sc : Scenario) (env : Env) (t : RespTranscoder) (sse : Bool) (P : Resp → Prop)
    (hrpc : sc.rpc ≠ .serverStream)
    (hfail : ∀ o g e h, o.bound = true → (g = true → sc.gone = true) → P (failResp o g (some t) e h))
    (hsucc : ∀ r : Resp, SuccessShape sc env t.mime sse r → P r) :
    P (serveUnary sc env t) := by
  unfold serveUnary
  repeat' split
  all_goals first
    | (apply hfail
       · rfl
       · first | (intro h; exact h) | (intro h; cases h))
    | (apply hsucc; refine ⟨rfl, rfl, rfl, rfl, ?_⟩
       right; exact ⟨_, ‹_›, rfl, Or.inl ⟨rfl, hrpc⟩⟩)

theorem serveForward_ind (sc : Scenario) (env : Env) (t : RespTranscoder) (sse : Bool) (P : Resp → Prop)
    (hfail : ∀ o g e h, o.bound = true → (g = true → sc.gone = true) → P (failResp o g (some t) e h))
    (hsucc : ∀ r : Resp, SuccessShape sc env t.mime sse r → P r) :
    P (serveForward sc env t sse) := by
  unfold serveForward
  repeat' split
  all_goals first
    | (apply hfail
       · rfl
       · first | (intro h; exact h) | (intro h; cases h))
    | (apply serveStream_ind sc env t sse P (by simp_all) hfail hsucc)
    | (apply serveUnary_ind sc env t sse P (by simp_all) hfail hsucc)

theorem serveBound_ind (sc : Scenario) (env : Env) (b : Bound) (P : Resp → Prop)
    (hfail : ∀ o g t e h, o.bound = true → (g = true → sc.gone = true) → t.status = env.stEnc → t.mime = b.resp.mime →
      P (failResp o g (some t) e h))
    (hsucc : ∀ r : Resp, SuccessShape sc env b.resp.mime b.sse r → P r) :
    P (serveBound sc env b) := by
  unfold serveBound
  repeat' split
  all_goals first
    | (apply hfail
       · rfl
       · first | (intro h; exact h) | (intro h; cases h)
       · rfl
       · rfl)
    | (apply serveForward_ind sc env _ b.sse P
       · intro o g e h ho hg; exact hfail o g _ e h ho hg rfl rfl
       · exact hsucc)

/-- Case analysis of `serve`: every response is either a rendered failure — `writeError` on a response that has
    not started, without a transcoder for the unbound origins (router, Bind) and with the negotiated one for all
    others — or a success of the stated shape. -/
theorem serve_ind (sc : Scenario) (env : Env) (P : Resp → Prop)
    (hunbound : ∀ o g e, o.bound = false → (g = true → sc.gone = true) → P (failResp o g none e []))
    (hbound : ∀ b o g t e h, bind registry env.pm sc.accept (sc.rpc == .clientStream) (sc.rpc == .serverStream) = .ok b →
      o.bound = true → (g = true → sc.gone = true) → t.status = env.stEnc → t.mime = b.resp.mime →
      P (failResp o g (some t) e h))
    (hsucc : ∀ b r, bind registry env.pm sc.accept (sc.rpc == .clientStream) (sc.rpc == .serverStream) = .ok b →
      SuccessShape sc env b.resp.mime b.sse r → P r) :
    P (serve sc env) := by
  unfold serve
  repeat' split
  all_goals first
    | (apply hunbound
       · rfl
       · first | (intro h; exact h) | (intro h; cases h))
    | (apply serveBound_ind sc env _ P
       · intro o g t e h; exact hbound _ o g t e h ‹_›
       · intro r; exact hsucc _ r ‹_›)

/-! ### concrete scenarios for the non-vacuity examples -/

def exScenario (inj : Inj) (e : RawErr) (n : Nat) : Scenario :=
  { rpc := .unary, inj := inj, err := e, gone := false, accept := [], bodyEmpty := true, rbp := [], n := n,
    hdr := [], trl := [], allowH := [], allowT := [], prefH := [], prefT := [] }

/-- a transcoder that cannot encode any status, and encodes every message as `{}` -/
def exEnv : Env :=
  { pm := [], stEnc := fun _ => .error [63], msgEnc := fun _ => [123, 125], natDecode := none, synthMsg := [] }

end GB.C10
