import GB.C10.Spec
/-
  C10 — helper lemmas for Props.lean.
-/
namespace GB.C10
open GB

/-! ### the table -/

theorem table_lt17 : ∀ c, c < 17 → httpStatusFromCode c = canonicalHttp c := by decide

theorem table_all (c : Nat) : httpStatusFromCode c = canonicalHttp c := by
  by_cases h : c < 17
  · exact table_lt17 c h
  · obtain ⟨k, rfl⟩ : ∃ k, c = k + 17 := ⟨c - 17, by omega⟩
    rfl

/-! ### infix -/

theorem isInfix_iff (a b : Bytes) : isInfix a b = true ↔ a <:+: b := by
  induction b with
  | nil => simp [isInfix, List.isEmpty_iff]
  | cons c rest ih =>
    simp only [isInfix, Bool.or_eq_true, ih, List.infix_cons_iff, List.isPrefixOf_iff_prefix]

theorem infix_append_right (a b c : Bytes) (h : a <:+: b) : a <:+: b ++ c := by
  obtain ⟨s, t, rfl⟩ := h
  exact ⟨s, t ++ c, by simp⟩

theorem infix_append_left (a b c : Bytes) (h : a <:+: c) : a <:+: b ++ c := by
  obtain ⟨s, t, rfl⟩ := h
  exact ⟨b ++ s, t, by simp⟩

/-! ### status conversion carries the message -/

theorem rawMessage_infix_text (e : RawErr) : e.rawMessage <:+: e.text := by
  induction e with
  | status st => exact infix_append_left _ _ _ (List.infix_refl _)
  | plain m => exact List.infix_refl _
  | both h st => exact infix_append_left _ _ _ (List.infix_refl _)
  | http h i ih => exact ih
  | wrapf p i ih => exact infix_append_left _ _ _ ih

theorem findStatus_of_direct (e : RawErr) (st : St) (h : e.direct = some st) : e.rawMessage = st.msg := by
  cases e <;> simp [RawErr.direct] at h <;> simp [RawErr.rawMessage, h]

theorem rawMessage_infix_convert (e : RawErr) : e.rawMessage <:+: (convert e).msg := by
  unfold convert
  cases hd : e.direct with
  | some st => simp [findStatus_of_direct e st hd]
  | none =>
    cases hf : e.findStatus with
    | some st => exact rawMessage_infix_text e
    | none => exact rawMessage_infix_text e


/-! ### errorStatus / writeError -/

theorem errorStatus_http (e : RawErr) : (errorStatus e).2 = wantStatus e := by
  unfold errorStatus wantStatus
  cases explicitOf e <;> simp [table_all]

theorem errorStatus_fst (e : RawErr) : (errorStatus e).1 = convert e := rfl

theorem writeTextError_eq (e : RawErr) :
    writeTextError e = .resp (wantStatus e) (some textPlain) true ((convert e).msg ++ [10]) := by
  simp [writeTextError, errorStatus_http, errorStatus_fst]

theorem transcodeError_ok (t : RespTranscoder) (e : RawErr) (data : Bytes) (h : t.status (convert e) = .ok data) :
    transcodeError t e = .resp (wantStatus e) (some t.mime) false data := by
  simp [transcodeError, errorStatus_http, errorStatus_fst, h]

theorem transcodeError_err (t : RespTranscoder) (e : RawErr) (terr : Bytes) (h : t.status (convert e) = .error terr) :
    transcodeError t e = .resp (wantStatus e) (some textPlain) true (fallbackText (convert e) terr) := by
  simp [transcodeError, errorStatus_http, errorStatus_fst, h]

theorem fallbackText_ne_nil (st : St) (terr : Bytes) : fallbackText st terr ≠ [] := by
  simp [fallbackText]

theorem msg_infix_fallbackText (st : St) (terr : Bytes) : st.msg <:+: fallbackText st terr := by
  unfold fallbackText
  refine infix_append_right _ _ _ (infix_append_right _ _ _ (infix_append_right _ _ _ ?_))
  exact infix_append_left _ _ _ (List.infix_refl _)

theorem codeName_infix_fallbackText (st : St) (terr : Bytes) : codeName st.code <:+: fallbackText st terr := by
  unfold fallbackText
  refine infix_append_right _ _ _ (infix_append_right _ _ _ (infix_append_right _ _ _ (infix_append_right _ _ _ (infix_append_right _ _ _ ?_))))
  exact infix_append_left _ _ _ (List.infix_refl _)

theorem terr_infix_fallbackText (st : St) (terr : Bytes) : terr <:+: fallbackText st terr := by
  unfold fallbackText
  refine infix_append_right _ _ _ ?_
  exact infix_append_left _ _ _ (List.infix_refl _)

/-! ### negotiation -/

theorem pickRequestLoop_eq (r : Registry) (pm : List (Option Bytes)) :
    pickRequestLoop r pm = pm.findSome? (fun p => p.bind r.lookup) := by
  induction pm with
  | nil => rfl
  | cons p rest ih =>
    cases p with
    | none => simp [pickRequestLoop, ih]
    | some mt =>
      cases hl : r.lookup mt with
      | none => simp [pickRequestLoop, hl, ih]
      | some m => simp [pickRequestLoop, hl]

theorem pickRequestMarshaler_eq (r : Registry) (pm : List (Option Bytes)) :
    pickRequestMarshaler r pm = match negotiatedReq r pm with
      | some m => .ok m
      | none => .error unsupportedMediaTypeErr := by
  unfold pickRequestMarshaler negotiatedReq
  cases pm with
  | nil => simp
  | cons p rest =>
    have h1 : ((p :: rest).length == 0) = false := by simp
    have h2 : (p :: rest).isEmpty = false := rfl
    simp only [h1, h2, pickRequestLoop_eq, Bool.false_eq_true, ↓reduceIte]
    cases List.findSome? (fun p => p.bind r.lookup) (p :: rest) <;> rfl

theorem pickResponseMarshaler_eq (r : Registry) (acc : List Bytes) :
    pickResponseMarshaler r acc = acc.findSome? r.lookup := by
  induction acc with
  | nil => rfl
  | cons a rest ih =>
    cases hl : r.lookup a with
    | none => simp [pickResponseMarshaler, hl, ih]
    | some m => simp [pickResponseMarshaler, hl]

theorem bind_ok_negotiated (r : Registry) (pm : List (Option Bytes)) (acc : List Bytes) (cs ss : Bool) (b : Bound)
    (h : bind r pm acc cs ss = .ok b) :
    negotiatedReq r pm = some b.req ∧ negotiatedResp r pm acc = some b.resp ∧ b.sse = negotiatedSSE r acc := by
  unfold bind at h
  rw [pickRequestMarshaler_eq] at h
  unfold negotiatedResp negotiatedSSE
  rw [← pickResponseMarshaler_eq]
  cases hq : negotiatedReq r pm with
  | none => simp [hq] at h
  | some reqM =>
    simp only [hq] at h
    cases hp : pickResponseMarshaler r acc with
    | some m =>
      simp only [hp] at h
      split at h
      · simp at h
      · split at h
        · simp at h
        · injection h with h; subst h; simp
    | none =>
      simp only [hp] at h
      split at h
      · simp at h
      · split at h
        · simp at h
        · injection h with h; subst h; simp

theorem bind_unsupported (r : Registry) (pm : List (Option Bytes)) (acc : List Bytes) (cs ss : Bool)
    (h : negotiatedReq r pm = none) : bind r pm acc cs ss = .error unsupportedMediaTypeErr := by
  unfold bind
  rw [pickRequestMarshaler_eq, h]

/-! ### case analysis of `serve` -/

theorem failResp_fields (o : Origin) (g : Bool) (t : Option RespTranscoder) (e : RawErr) (h : MD) :
    (failResp o g t e h).origin = some o ∧ (failResp o g t e h).err = some e ∧ (failResp o g t e h).bound = t.isSome
    ∧ (failResp o g t e h).hdrs = h := by
  unfold failResp
  split <;> simp

/-- The shape of a rendered success. -/
def SuccessShape (sc : Scenario) (env : Env) (mime : Bytes) (sse : Bool) (r : Resp) : Prop :=
  r.origin = none ∧ r.err = none ∧ r.status = 200 ∧ r.nosniff = false ∧
  ((r.ct = none ∧ r.body = .bytes [] ∧ sc.rpc = .serverStream ∧ sc.n = 0) ∨
   ∃ sel, traverseFieldPath respFields sc.rbp = some sel ∧ r.ct = some mime ∧
     ((r.body = .bytes (env.msgEnc sel) ∧ sc.rpc ≠ .serverStream) ∨ (r.body = .items sel sc.n sse ∧ sc.rpc = .serverStream)))

theorem serveStream_ind (sc : Scenario) (env : Env) (t : RespTranscoder) (sse : Bool) (P : Resp → Prop)
    (hrpc : sc.rpc = .serverStream)
    (hfail : ∀ o g e h, o.bound = true → (g = true → sc.gone = true) → P (failResp o g (some t) e h))
    (hsucc : ∀ r : Resp, SuccessShape sc env t.msgType sse r → P r) :
    P (serveStream sc env t sse) := by
  unfold serveStream
  repeat' split
  all_goals first
    | (apply hfail
       · rfl
       · first | (intro h; exact h) | (intro h; cases h))
    | (apply hsucc; refine ⟨rfl, rfl, rfl, rfl, ?_⟩
       first
       | (left; refine ⟨rfl, rfl, hrpc, ?_⟩; simp_all)
       | (right; exact ⟨_, ‹_›, rfl, Or.inr ⟨rfl, hrpc⟩⟩))

theorem serveUnary_ind (sc : Scenario) (env : Env) (t : RespTranscoder) (sse : Bool) (P : Resp → Prop)
    (hrpc : sc.rpc ≠ .serverStream)
    (hfail : ∀ o g e h, o.bound = true → (g = true → sc.gone = true) → P (failResp o g (some t) e h))
    (hsucc : ∀ r : Resp, SuccessShape sc env t.msgType sse r → P r) :
    P (serveUnary sc env t) := by
  unfold serveUnary
  repeat' split
  all_goals first
    | (apply hfail
       · rfl
       · first | (intro h; exact h) | (intro h; cases h))
    | (apply hsucc; refine ⟨rfl, rfl, rfl, rfl, ?_⟩
       right; exact ⟨_, ‹_›, rfl, Or.inl ⟨rfl, hrpc⟩⟩)

theorem serveForward_ind (sc : Scenario) (env : Env) (t : RespTranscoder) (sse : Bool) (P : Resp → Prop)
    (hfail : ∀ o g e h, o.bound = true → (g = true → sc.gone = true) → P (failResp o g (some t) e h))
    (hsucc : ∀ r : Resp, SuccessShape sc env t.msgType sse r → P r) :
    P (serveForward sc env t sse) := by
  unfold serveForward
  repeat' split
  all_goals first
    | (apply hfail
       · rfl
       · first | (intro h; exact h) | (intro h; cases h))
    | (apply serveStream_ind sc env t sse P (by simp_all) hfail hsucc)
    | (apply serveUnary_ind sc env t sse P (by simp_all) hfail hsucc)

theorem serveBound_ind (sc : Scenario) (env : Env) (b : Bound) (P : Resp → Prop)
    (hfail : ∀ o g t e h, o.bound = true → (g = true → sc.gone = true) → t.status = env.stEnc → t.mime = b.resp.mime →
      P (failResp o g (some t) e h))
    (hsucc : ∀ r : Resp, SuccessShape sc env (if b.sse then eventStream else b.resp.mime) b.sse r → P r) :
    P (serveBound sc env b) := by
  unfold serveBound
  repeat' split
  all_goals first
    | (apply hfail
       · rfl
       · first | (intro h; exact h) | (intro h; cases h)
       · rfl
       · rfl)
    | (apply serveForward_ind sc env _ b.sse P
       · intro o g e h ho hg; exact hfail o g _ e h ho hg rfl rfl
       · exact hsucc)

/-- Case analysis of `serve`: every response is either a rendered failure — `writeError` on a response that has
    not started, without a transcoder for the unbound origins (router, Bind) and with the negotiated one for all
    others — or a success of the stated shape. -/
theorem serveWith_ind (r : Registry) (sc : Scenario) (env : Env) (P : Resp → Prop)
    (hunbound : ∀ o g e, o.bound = false → (g = true → sc.gone = true) → P (failResp o g none e []))
    (hbound : ∀ b o g t e h, bind r env.pm sc.accept (sc.rpc == .clientStream) (sc.rpc == .serverStream) = .ok b →
      o.bound = true → (g = true → sc.gone = true) → t.status = env.stEnc → t.mime = b.resp.mime →
      P (failResp o g (some t) e h))
    (hsucc : ∀ b rr, bind r env.pm sc.accept (sc.rpc == .clientStream) (sc.rpc == .serverStream) = .ok b →
      SuccessShape sc env (if b.sse then eventStream else b.resp.mime) b.sse rr → P rr) :
    P (serveWith r sc env) := by
  unfold serveWith
  repeat' split
  all_goals first
    | (apply hunbound
       · rfl
       · first | (intro h; exact h) | (intro h; cases h))
    | (apply serveBound_ind sc env _ P
       · intro o g t e h; exact hbound _ o g t e h ‹_›
       · intro rr; exact hsucc _ rr ‹_›)

theorem serve_ind (sc : Scenario) (env : Env) (P : Resp → Prop)
    (hunbound : ∀ o g e, o.bound = false → (g = true → sc.gone = true) → P (failResp o g none e []))
    (hbound : ∀ b o g t e h, bind registry env.pm sc.accept (sc.rpc == .clientStream) (sc.rpc == .serverStream) = .ok b →
      o.bound = true → (g = true → sc.gone = true) → t.status = env.stEnc → t.mime = b.resp.mime →
      P (failResp o g (some t) e h))
    (hsucc : ∀ b r, bind registry env.pm sc.accept (sc.rpc == .clientStream) (sc.rpc == .serverStream) = .ok b →
      SuccessShape sc env (if b.sse then eventStream else b.resp.mime) b.sse r → P r) :
    P (serve sc env) :=
  serveWith_ind registry sc env P hunbound hbound hsucc

/-! ### metadata → headers -/

theorem mdGet_nil (k : Bytes) : mdGet [] k = [] := rfl

theorem mdGet_cons (p : Bytes × List Bytes) (md : MD) (k : Bytes) :
    mdGet (p :: md) k = if p.1 = k then p.2 else mdGet md k := by
  unfold mdGet
  by_cases h : p.1 = k
  · simp [List.find?, h]
  · have : (p.1 == k) = false := by simpa using h
    simp [List.find?, this, h]

theorem any_key_false_mdGet (md : MD) (k : Bytes) (h : md.any (fun p => p.1 == k) = false) : mdGet md k = [] := by
  induction md with
  | nil => rfl
  | cons p rest ih =>
    simp only [List.any_cons, Bool.or_eq_false_iff] at h
    rw [mdGet_cons]
    have : ¬ p.1 = k := by simpa using h.1
    simp [this, ih h.2]

theorem mdGet_append_single (md : MD) (k k' : Bytes) (vs : List Bytes) :
    mdGet (md ++ [(k, vs)]) k' = if md.any (fun p => p.1 == k') then mdGet md k' else if k = k' then vs else [] := by
  induction md with
  | nil => simp [mdGet_cons, mdGet_nil]
  | cons p rest ih =>
    rw [List.cons_append, mdGet_cons, List.any_cons, mdGet_cons, ih]
    by_cases h : p.1 = k'
    · have hb : (p.1 == k') = true := by simpa using h
      simp [h]
    · have hb : (p.1 == k') = false := by simpa using h
      rw [hb, Bool.false_or]; simp [h]

theorem mdGet_map_replace (md : MD) (k k' : Bytes) (f : List Bytes → List Bytes) :
    mdGet (md.map (fun p => if p.1 == k then (k, f p.2) else p)) k' =
      if k = k' then (if md.any (fun p => p.1 == k) then f (mdGet md k) else []) else mdGet md k' := by
  induction md with
  | nil => simp [mdGet_nil]
  | cons p rest ih =>
    rw [List.map_cons, mdGet_cons, List.any_cons, mdGet_cons, mdGet_cons, ih]
    by_cases hpk : p.1 = k
    · have hb : (p.1 == k) = true := by simpa using hpk
      rw [hb, Bool.true_or]
      by_cases hk : k = k' <;> simp_all
    · have hb : (p.1 == k) = false := by simpa using hpk
      rw [hb, Bool.false_or]
      by_cases hk : k = k'
      · simp_all
      · have hk' : ¬ k' = k := fun h => hk h.symm
        simp_all

theorem mdGet_mdSet (md : MD) (k k' : Bytes) (vs : List Bytes) :
    mdGet (mdSet md k vs) k' = if k = k' then vs else mdGet md k' := by
  unfold mdSet
  by_cases ha : md.any (fun p => p.1 == k) = true
  · simp only [ha, ↓reduceIte]
    have := mdGet_map_replace md k k' (fun _ => vs)
    simp only [ha, ↓reduceIte] at this
    exact this
  · have ha' : md.any (fun p => p.1 == k) = false := Bool.eq_false_iff.2 ha
    simp only [ha', Bool.false_eq_true, ↓reduceIte, mdGet_append_single]
    by_cases hk : k = k'
    · subst hk; simp [ha']
    · simp only [hk, ↓reduceIte]
      split
      · rfl
      · rename_i h; exact (any_key_false_mdGet md k' (Bool.eq_false_iff.2 h)).symm

theorem mdGet_mdAppend (md : MD) (k k' : Bytes) (vs : List Bytes) :
    mdGet (mdAppend md k vs) k' = if k = k' then mdGet md k ++ vs else mdGet md k' := by
  unfold mdAppend
  by_cases ha : md.any (fun p => p.1 == k) = true
  · simp only [ha, ↓reduceIte]
    have := mdGet_map_replace md k k' (fun x => x ++ vs)
    simp only [ha, ↓reduceIte] at this
    exact this
  · have ha' : md.any (fun p => p.1 == k) = false := Bool.eq_false_iff.2 ha
    simp only [ha', Bool.false_eq_true, ↓reduceIte, mdGet_append_single]
    by_cases hk : k = k'
    · subst hk; simp [ha', any_key_false_mdGet md k ha']
    · simp only [hk, ↓reduceIte]
      split
      · rfl
      · rename_i h; exact (any_key_false_mdGet md k' (Bool.eq_false_iff.2 h)).symm

theorem lower_append (a b : Bytes) : lower (a ++ b) = lower a ++ lower b := by simp [lower]

/-- `filterResponse`: an allow-listed key with values ends up under `prefix+key` with exactly those values. -/
theorem mdGet_filterResponse (allow : List Bytes) (pre : Bytes) (md : MD) (k : Bytes)
    (hk : k ∈ allow) (hv : mdGet md (lower k) ≠ []) :
    mdGet (filterResponse allow pre md) (lower (pre ++ k)) = mdGet md (lower k) := by
  unfold filterResponse
  have key : ∀ (l : List Bytes) (acc : MD), (k ∈ l ∨ mdGet acc (lower (pre ++ k)) = mdGet md (lower k)) →
      mdGet (l.foldl (fun out k =>
        let v := mdGet md (lower k)
        if v.length > 0 then mdSet out (lower (pre ++ k)) v else out) acc) (lower (pre ++ k)) = mdGet md (lower k) := by
    intro l
    induction l with
    | nil => intro acc h; rcases h with h | h; · cases h
             · exact h
    | cons a rest ih =>
      intro acc h
      simp only [List.foldl_cons]
      apply ih
      by_cases hr : k ∈ rest
      · exact Or.inl hr
      · right
        rcases h with h | h
        · have hka : k = a := by
            rcases List.mem_cons.1 h with h | h
            · exact h
            · exact absurd h hr
          subst hka
          have hpos : (mdGet md (lower k)).length > 0 := List.length_pos_iff.2 hv
          simp [hpos, mdGet_mdSet]
        · by_cases hpos : (mdGet md (lower a)).length > 0
          · simp only [hpos, ↓reduceIte, mdGet_mdSet]
            by_cases hkey : lower (pre ++ a) = lower (pre ++ k)
            · simp only [hkey, ↓reduceIte]
              rw [lower_append, lower_append] at hkey
              rw [List.append_cancel_left hkey]
            · simp [hkey, h]
          · simp [hpos, h]
  exact key allow [] (Or.inl hk)

/-- `appendHeaders` only ever adds values, under the canonical form of the key. -/
theorem mem_appendHeaders (md : MD) (h0 : MD) (K : Bytes) (v : Bytes)
    (h : v ∈ mdGet md K ∨ v ∈ mdGet h0 (canonicalHeaderKey K)) :
    v ∈ mdGet (appendHeaders h0 md) (canonicalHeaderKey K) := by
  unfold appendHeaders
  induction md generalizing h0 with
  | nil =>
    rcases h with h | h
    · simp [mdGet_nil] at h
    · exact h
  | cons p rest ih =>
    simp only [List.foldl_cons]
    apply ih
    rw [mdGet_cons] at h
    rw [mdGet_mdAppend]
    by_cases hp : p.1 = K
    · subst hp
      simp only [↓reduceIte] at h ⊢
      rcases h with h | h
      · right; exact List.mem_append_right _ h
      · right; exact List.mem_append_left _ h
    · simp only [hp, ↓reduceIte] at h
      rcases h with h | h
      · exact Or.inl h
      · right
        split
        · rename_i hc; rw [hc]; exact List.mem_append_left _ h
        · exact h

/-- An allow-listed key's values appear under the canonical form of `prefix+key`, whatever was there before. -/
theorem mem_headers_of_allowed (allow : List Bytes) (pre : Bytes) (md h0 : MD) (k v : Bytes)
    (hk : k ∈ allow) (hv : v ∈ mdGet md (lower k)) :
    v ∈ mdGet (appendHeaders h0 (filterResponse allow pre md)) (canonicalHeaderKey (lower (pre ++ k))) := by
  have hne : mdGet md (lower k) ≠ [] := by intro h; rw [h] at hv; cases hv
  apply mem_appendHeaders
  left
  rw [mdGet_filterResponse allow pre md k hk hne]
  exact hv

/-! ### concrete scenarios for the non-vacuity examples -/

def exScenario (inj : Inj) (e : RawErr) (n : Nat) : Scenario :=
  { rpc := .unary, inj := inj, err := e, gone := false, accept := [], bodyEmpty := true, rbp := [], n := n,
    hdr := [], trl := [], allowH := [], allowT := [], prefH := [], prefT := [] }

/-- a transcoder that cannot encode any status, and encodes every message as `{}` -/
def exEnv : Env :=
  { pm := [], stEnc := fun _ => .error [63], msgEnc := fun _ => [123, 125], natDecode := none, synthMsg := [] }

end GB.C10
