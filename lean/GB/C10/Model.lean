import GB.Base.Bytes
/-
  C10 — executable model of grpcbridge's error/success rendering for transcoded HTTP calls.

  Code modelled (statement by statement where practical):
    webbridge/webbridge.go   errorStatus, writeTextError, transcodeError (with fix D10), writeError,
                             requestTranscodingError / responseTranscodingError / wrapTranscodingError
    webbridge/http.go        routeTranscodedRequest, TranscodedHTTPBridge.ServeHTTP (decision order),
                             httpStream.send / SetHeader / SetTrailer / appendHeaders
    transcoding/http.go      StandardTranscoder.Bind, pickRequestMarshaler, pickResponseMarshaler,
                             traverseFieldPath (flat messages), google.rpc.Status special case (via RespTranscoder)
    grpcadapter/forwarder.go the unary / server-streaming skeleton of ProxyForwarder.Forward as far as it decides
                             WHICH error reaches writeError and which headers were set before (forwardUnaryRequest,
                             forwardUnaryResponse, forwardOutgoingToIncoming); the concurrency is C01/C02's business
    grpcadapter/metadata.go  ProxyMDFilter.filterResponse
    third party              grpc-gateway runtime.HTTPStatusFromCode (table), grpc status.FromError/Convert,
                             codes.Code.String, net/http CanonicalHeaderKey (token keys), http.Error

  Parameters (post-library inputs, handed over by the harness; see DESIGN 2.3): mime.ParseMediaType results,
  the bytes / error text produced by the bound response transcoder (protojson), the result of decoding the
  request body, the text of error messages that are made inside grpcbridge or a library.
-/
namespace GB.C10

/-! ## gRPC codes -/

/-- Rows of grpc-gateway `runtime.HTTPStatusFromCode` (code, HTTP status); everything else is 500. -/
def codeTable : List (Nat × Nat) :=
  [(0, 200), (1, 499), (2, 500), (3, 400), (4, 504), (5, 404), (6, 409), (7, 403), (8, 429),
   (9, 400), (10, 409), (11, 400), (12, 501), (13, 500), (14, 503), (15, 500), (16, 401)]

def httpStatusFromCode (c : Nat) : Nat :=
  match codeTable.find? (fun p => p.1 == c) with
  | some p => p.2
  | none => 500

/-- `codes.Code.String()` names, indexed by code. -/
def codeNames : List String :=
  ["OK", "Canceled", "Unknown", "InvalidArgument", "DeadlineExceeded", "NotFound", "AlreadyExists",
   "PermissionDenied", "ResourceExhausted", "FailedPrecondition", "Aborted", "OutOfRange", "Unimplemented",
   "Internal", "Unavailable", "DataLoss", "Unauthenticated"]

def codeName (c : Nat) : Bytes :=
  match codeNames[c]? with
  | some n => ascii n
  | none => ascii "Code(" ++ ascii (toString c) ++ ascii ")"

def cUnknown : Nat := 2
def cInvalidArgument : Nat := 3
def cDeadlineExceeded : Nat := 4
def cUnimplemented : Nat := 12
def cInternal : Nat := 13
def cUnavailable : Nat := 14

/-! ## status values and Go error values -/

inductive DetailKind
  | resolvable   -- Any of a type the target's TypeResolver knows, well-formed value
  | unknownType  -- Any of a type unknown to the target's descriptors
  | malformed    -- known type, value bytes are not a valid encoding
  | noTypeURL    -- value set, type URL empty
  | badURL       -- type URL that names no message
  deriving DecidableEq, Repr

/-- One `google.protobuf.Any` in `Status.details`: how the target's resolver sees it + its identity. -/
structure Detail where
  kind : DetailKind
  id : UInt8
  deriving DecidableEq, Repr

/-- `*status.Status` / `google.rpc.Status`. -/
structure St where
  code : Nat
  msg : Bytes
  details : List Detail
  deriving DecidableEq, Repr

/-- The Go error values that can reach `writeError`, by the interfaces they implement. -/
inductive RawErr
  | status (st : St)                          -- implements GRPCStatus() itself (status.Error, Status.Err())
  | plain (msg : Bytes)                       -- errors.New
  | both (http : Nat) (st : St)               -- implements GRPCStatus() and HTTPStatus() itself
  | http (code : Nat) (inner : RawErr)        -- httperr.StatusError: HTTPStatus(), Unwrap(), Error() = inner.Error()
  | wrapf (pre : Bytes) (inner : RawErr)      -- fmt.Errorf("%s: %w", pre, inner)
  deriving DecidableEq, Repr

def rpcErrorText (st : St) : Bytes :=
  ascii "rpc error: code = " ++ codeName st.code ++ ascii " desc = " ++ st.msg

/-- `err.Error()` -/
def RawErr.text : RawErr → Bytes
  | .status st => rpcErrorText st
  | .plain m => m
  | .both _ st => rpcErrorText st
  | .http _ i => i.text
  | .wrapf p i => p ++ ascii ": " ++ i.text

/-- `err.(interface{ GRPCStatus() *status.Status })` — a type assertion, no unwrapping. -/
def RawErr.direct : RawErr → Option St
  | .status st => some st
  | .both _ st => some st
  | _ => none

/-- `errors.As(err, &grpcstatus)` — first status along the Unwrap chain. -/
def RawErr.findStatus : RawErr → Option St
  | .status st => some st
  | .plain _ => none
  | .both _ st => some st
  | .http _ i => i.findStatus
  | .wrapf _ i => i.findStatus

/-- `status.Convert(err)` (grpc v1.63 `FromError`, err ≠ nil, GRPCStatus() ≠ nil). -/
def convert (e : RawErr) : St :=
  match e.direct with
  | some st => st
  | none =>
    match e.findStatus with
    | some st => { st with msg := e.text }          -- p := grpcStatus.Proto(); p.Message = err.Error()
    | none => { code := cUnknown, msg := e.text, details := [] }

/-- `err.(interface{ HTTPStatus() int })` — a type assertion on the outermost value only. -/
def explicitOf : RawErr → Option Nat
  | .both h _ => some h
  | .http h _ => some h
  | _ => none

/-- `errorStatus`: the status and the HTTP response code. -/
def errorStatus (e : RawErr) : St × Nat :=
  let st := convert e
  (st, match explicitOf e with
       | some h => h
       | none => httpStatusFromCode st.code)

/-- `wrapTranscodingError`: status errors pass (manual type check, not errors.As), the rest get `defaultCode`. -/
def wrapTranscodingError (e : RawErr) (defaultCode : Nat) : RawErr :=
  match e.direct with
  | some _ => e
  | none => .status { code := defaultCode, msg := e.text, details := [] }

def requestTranscodingError (e : RawErr) : RawErr := wrapTranscodingError e cInvalidArgument
def responseTranscodingError (e : RawErr) : RawErr := wrapTranscodingError e cInternal

/-! ## what is written to the client -/

def textPlain : Bytes := ascii "text/plain; charset=utf-8"

/-- What `writeError` did to the ResponseWriter. -/
inductive Written
  | nothing                                                              -- response already started: error not rendered
  | resp (status : Nat) (ct : Option Bytes) (nosniff : Bool) (body : Bytes)
  deriving DecidableEq, Repr

/-- A bound `transcoding.HTTPResponseTranscoder`, as far as the bridge can observe it. -/
structure RespTranscoder where
  mime : Bytes                              -- ContentType(): the negotiated response type
  status : St → Except Bytes Bytes          -- Transcode(google.rpc.Status): body bytes, or the error's text
  streams : Bool                            -- implements ResponseStreamTranscoder
  sse : Bool := false                       -- bound in SSE mode (Accept: text/event-stream, no Accept line matched)

/-- `writeTextError` = `http.Error(w, st.Message(), respStatus)`. -/
def writeTextError (e : RawErr) : Written :=
  let (st, hs) := errorStatus e
  .resp hs (some textPlain) true (st.msg ++ [10])

def fallbackText (st : St) (terr : Bytes) : Bytes :=
  ascii "unable to transcode response status code = " ++ codeName st.code ++ ascii " desc = " ++ st.msg
    ++ ascii ": " ++ terr ++ [10]

/-- `transcodeError` with fix D10 (the fallback text is what gets written). -/
def transcodeError (t : RespTranscoder) (e : RawErr) : Written :=
  let (st, hs) := errorStatus e
  match t.status st with
  | .ok data => .resp hs (some t.mime) false data
  | .error terr => .resp hs (some textPlain) true (fallbackText st terr)

/-- The code before fix D10: the text is formatted into `buf`, but `respData` (nil) is written. -/
def transcodeErrorPreFix (t : RespTranscoder) (e : RawErr) : Written :=
  let (st, hs) := errorStatus e
  match t.status st with
  | .ok data => .resp hs (some t.mime) false data
  | .error _ => .resp hs (some textPlain) true []

def httpStatusCanceled : Nat := 499

/-- `writeError(w, r, t, err)`; `written` = `w.writtenStatus`, `gone` = `requestCanceled(r)`. -/
def writeError (written gone : Bool) (t : Option RespTranscoder) (e : RawErr) : Written :=
  if written then .nothing
  else if gone then .resp httpStatusCanceled none false []
  else match t with
    | none => writeTextError e
    | some t => transcodeError t e

/-! ## marshaler negotiation (StandardTranscoder.Bind) -/

/-- A registered marshaler: its MIME type and whether it implements StreamMarshaler. -/
structure Marshaler where
  mime : Bytes
  streams : Bool
  id : Nat := 0        -- which marshaler value it is (two marshalers may claim the same MIME type)
  deriving DecidableEq, Repr

structure Registry where
  marshalers : List Marshaler      -- the mimeMarshalers map (keys are distinct)
  default : Marshaler
  deriving DecidableEq, Repr

def Registry.lookup (r : Registry) (mt : Bytes) : Option Marshaler :=
  r.marshalers.find? (fun m => m.mime == mt)

/-- The loop of `pickRequestMarshaler` over the Content-Type lines; `pm` are the `mime.ParseMediaType`
    results line by line (`none` = parse error ⇒ `continue`). -/
def pickRequestLoop (r : Registry) : List (Option Bytes) → Option Marshaler
  | [] => none
  | none :: rest => pickRequestLoop r rest
  | some mt :: rest =>
    match r.lookup mt with
    | some m => some m
    | none => pickRequestLoop r rest

def statusUnsupportedMediaType : Nat := 415

/-- The 415 error value of `pickRequestMarshaler`. -/
def unsupportedMediaTypeErr : RawErr :=
  .http statusUnsupportedMediaType (.status { code := cInvalidArgument, msg := ascii "Unsupported Media Type", details := [] })

def pickRequestMarshaler (r : Registry) (pm : List (Option Bytes)) : Except RawErr Marshaler :=
  if pm.length == 0 then .ok r.default
  else match pickRequestLoop r pm with
    | some m => .ok m
    | none => .error unsupportedMediaTypeErr

/-- `pickResponseMarshaler`: Accept lines are matched verbatim (no parsing). -/
def pickResponseMarshaler (r : Registry) : List Bytes → Option Marshaler
  | [] => none
  | a :: rest =>
    match r.lookup a with
    | some m => some m
    | none => pickResponseMarshaler r rest

def eventStream : Bytes := ascii "text/event-stream"

/-- `standardResponseTranscoder.ContentType(msg)` for a response message: an SSE-bound transcoder serves
    `text/event-stream`, any other the marshaler's type. For a `google.rpc.Status` it is always the marshaler's type
    (`RespTranscoder.mime`): an error is rendered by `Transcode` as one plain document, never as an event. -/
def RespTranscoder.msgType (t : RespTranscoder) : Bytes := if t.sse then eventStream else t.mime

structure Bound where
  req : Marshaler
  resp : Marshaler
  sse : Bool
  deriving DecidableEq, Repr

def sseClientStreamingErr : RawErr :=
  .status { code := cInvalidArgument, msg := ascii "SSE cannot be used with client streaming methods", details := [] }
def sseNotServerStreamingErr : RawErr :=
  .status { code := cInvalidArgument, msg := ascii "SSE needs to be used with server streaming methods", details := [] }

/-- `StandardTranscoder.Bind`. -/
def bind (r : Registry) (pm : List (Option Bytes)) (accept : List Bytes) (clientStreaming serverStreaming : Bool) :
    Except RawErr Bound :=
  match pickRequestMarshaler r pm with
  | .error e => .error e
  | .ok reqM =>
    let (respM, isSSE) := match pickResponseMarshaler r accept with
      | some m => (m, false)
      | none => (reqM, accept.contains eventStream)
    if isSSE && clientStreaming then .error sseClientStreamingErr
    else if isSSE && !serverStreaming then .error sseNotServerStreamingErr
    else .ok { req := reqM, resp := respM, sse := isSSE }

/-! ## response_body selection (traverseFieldPath on a message whose fields are all scalars) -/

inductive Selected
  | whole
  | field (name : Bytes)
  deriving DecidableEq, Repr

/-- `strings.Cut(s, ".")` -/
def cutDot : Bytes → Bytes × Bytes × Bool
  | [] => ([], [], false)
  | c :: rest =>
    if c == 46 then ([], rest, true)
    else let (a, b, f) := cutDot rest; (c :: a, b, f)

/-- `traverseFieldPath` for a message type with scalar fields `fields` only; `none` = error. -/
def traverseFieldPath (fields : List Bytes) (path : Bytes) : Option Selected :=
  if path == [] || path == [42] then some .whole
  else
    let (elem, rest, found) := cutDot path
    -- loop condition `elem != "" || foundSep` holds because path ≠ ""
    if found && elem == [] then none                -- "contains empty element"
    else if !fields.contains elem then none          -- "no field … found"
    else if rest == [] then some (.field elem)       -- last element
    else none                                        -- "… is not a message" (all fields are scalars)

/-! ## metadata → HTTP headers -/

abbrev MD := List (Bytes × List Bytes)    -- metadata.MD / http.Header as an association list with distinct keys

def lowerByte (b : UInt8) : UInt8 := if 65 ≤ b && b ≤ 90 then b + 32 else b
def upperByte (b : UInt8) : UInt8 := if 97 ≤ b && b ≤ 122 then b - 32 else b
def lower (s : Bytes) : Bytes := s.map lowerByte

def mdGet (md : MD) (k : Bytes) : List Bytes :=
  match md.find? (fun p => p.1 == k) with
  | some p => p.2
  | none => []

/-- `md[k] = vs` (replace) -/
def mdSet (md : MD) (k : Bytes) (vs : List Bytes) : MD :=
  if md.any (fun p => p.1 == k) then md.map (fun p => if p.1 == k then (k, vs) else p) else md ++ [(k, vs)]

/-- `md[k] = append(md[k], vs...)` -/
def mdAppend (md : MD) (k : Bytes) (vs : List Bytes) : MD :=
  if md.any (fun p => p.1 == k) then md.map (fun p => if p.1 == k then (k, p.2 ++ vs) else p) else md ++ [(k, vs)]

/-- `metadata.MD.Append` pair by pair: keys lower-cased, values appended in order. -/
def mdOfPairs (ps : List (Bytes × Bytes)) : MD :=
  ps.foldl (fun md p => mdAppend md (lower p.1) [p.2]) []

/-- `ProxyMDFilter.filterResponse`: for every allow-listed key with values, `out.Set(prefix+k, v...)`. -/
def filterResponse (allow : List Bytes) (pre : Bytes) (md : MD) : MD :=
  allow.foldl (fun out k =>
    let v := mdGet md (lower k)
    if v.length > 0 then mdSet out (lower (pre ++ k)) v else out) []

/-- net/textproto `validHeaderFieldByte` (token characters). -/
def isTokenByte (b : UInt8) : Bool :=
  (48 ≤ b && b ≤ 57) || (65 ≤ b && b ≤ 90) || (97 ≤ b && b ≤ 122) ||
  b == 33 || b == 35 || b == 36 || b == 37 || b == 38 || b == 39 || b == 42 || b == 43 || b == 45 || b == 46 ||
  b == 94 || b == 95 || b == 96 || b == 124 || b == 126

def canonLoop : Bool → Bytes → Bytes
  | _, [] => []
  | up, c :: rest =>
    let c' := if up then upperByte c else lowerByte c
    c' :: canonLoop (c' == 45) rest

/-- `http.CanonicalHeaderKey`: keys with a non-token byte are returned unchanged. -/
def canonicalHeaderKey (k : Bytes) : Bytes :=
  if k.all isTokenByte then canonLoop true k else k

/-- `appendHeaders(w, md)` -/
def appendHeaders (h : MD) (md : MD) : MD :=
  md.foldl (fun h p => mdAppend h (canonicalHeaderKey p.1) p.2) h

/-! ## one transcoded HTTP call -/

inductive Rpc | unary | serverStream | clientStream
  deriving DecidableEq, Repr

/-- Where the harness injects an error (the property's error origins); `none` = nothing injected. -/
inductive Inj | none | router | bind | decode | create | target | deadline
  deriving DecidableEq, Repr

/-- The property's error origins plus the ones that arise inside the bridge itself. -/
inductive Origin
  | router | bind | requestDecode | streamCreate | targetStatus | deadline
  | bridge          -- made by ServeHTTP itself (client streaming unsupported, encoding cannot stream)
  | responseEncode  -- the response message could not be transcoded (bad response_body path)
  deriving DecidableEq, Repr

/-- Is the request bound to a route and a transcoder when an error of this origin is rendered? -/
def Origin.bound : Origin → Bool
  | .router => false
  | .bind => false
  | _ => true

structure Scenario where
  rpc : Rpc
  inj : Inj
  err : RawErr                 -- the injected error (ignored when inj = none / deadline)
  gone : Bool                  -- the client's context is cancelled when the injected error is produced
  accept : List Bytes
  bodyEmpty : Bool
  rbp : Bytes                  -- response_body path
  n : Nat                      -- response messages the target sends before its final status
  hdr : MD                     -- target's header metadata
  trl : MD                     -- target's trailer metadata
  allowH : List Bytes
  allowT : List Bytes
  prefH : Bytes
  prefT : Bytes

/-- Post-library inputs. -/
structure Env where
  pm : List (Option Bytes)                   -- mime.ParseMediaType of each Content-Type line
  stEnc : St → Except Bytes Bytes            -- what the bound transcoder's Transcode(Status) returns
  msgEnc : Selected → Bytes                  -- bytes of a successfully transcoded response value (unary)
  natDecode : Option RawErr                  -- error of the real request transcoder on this body, if any
  synthMsg : Bytes                           -- text of an error message made inside grpcbridge / a library

def registry : Registry :=
  { marshalers := [{ mime := ascii "application/json", streams := true }, { mime := ascii "application/x-test-pb", streams := false }],
    default := { mime := ascii "application/json", streams := true } }

/-- Fields of the response message type used by the harness (google.rpc.ResourceInfo). -/
def respFields : List Bytes :=
  [ascii "resource_type", ascii "resource_name", ascii "owner", ascii "description"]

/-- The body of a rendered call. -/
inductive Body
  | bytes (b : Bytes)                             -- exact bytes
  | items (sel : Selected) (count : Nat) (sse : Bool)   -- a stream of `count` transcoded values
  deriving DecidableEq, Repr

structure Resp where
  status : Nat
  ct : Option Bytes
  nosniff : Bool
  body : Body
  hdrs : MD          -- headers other than Content-Type / X-Content-Type-Options
  trls : MD          -- HTTP trailers
  origin : Option Origin    -- ghost: the origin of the failure that was rendered (none = success)
  err : Option RawErr       -- ghost: the error value handed to writeError
  bound : Bool              -- ghost: writeError was given a transcoder
  deriving DecidableEq, Repr

def unimplementedClientStreaming (env : Env) : RawErr :=
  .status { code := cUnimplemented, msg := env.synthMsg, details := [] }
def cannotStreamErr (env : Env) : RawErr :=
  .status { code := cInvalidArgument, msg := env.synthMsg, details := [] }
def deadlineErr (env : Env) : RawErr :=
  .status { code := cDeadlineExceeded, msg := env.synthMsg, details := [] }
def eofErr (env : Env) : RawErr :=
  .status { code := cUnavailable, msg := env.synthMsg, details := [] }
def respPathErr (env : Env) : RawErr :=
  .status { code := cInternal, msg := env.synthMsg, details := [] }

/-- Assemble the HTTP response after `writeError` on a response that has not started. -/
def failResp (o : Origin) (gone : Bool) (t : Option RespTranscoder) (e : RawErr) (hdrs : MD) : Resp :=
  match writeError false gone t e with
  | .resp s ct ns b =>
    { status := s, ct := ct, nosniff := ns, body := .bytes b, hdrs := hdrs, trls := [], origin := some o, err := some e, bound := t.isSome }
  | .nothing => -- unreachable (written = false); kept total
    { status := 200, ct := none, nosniff := false, body := .bytes [], hdrs := hdrs, trls := [], origin := some o, err := some e, bound := t.isSome }

/-- The texts of the two SSE errors of Bind are made inside grpcbridge: their message is a parameter
    (the 415 error keeps its text, `http.StatusText(415)`). -/
def natBindErr (env : Env) : RawErr → RawErr
  | .status st => .status { st with msg := env.synthMsg }
  | e => e

/-- The headers `SetHeader` / `SetTrailer` put on the response: the target's metadata through the allow-lists. -/
def headerMD (sc : Scenario) : MD := filterResponse sc.allowH sc.prefH sc.hdr
def trailerMD (sc : Scenario) : MD := filterResponse sc.allowT sc.prefT sc.trl

/-- `forwardOutgoingToIncoming` for a server-streaming method: header on the first Recv, `n` messages,
    then the final status. -/
def serveStream (sc : Scenario) (env : Env) (t : RespTranscoder) (sse : Bool) : Resp :=
  let h1 := appendHeaders [] (headerMD sc)
  if sc.n == 0 then
    let h2 := appendHeaders h1 (trailerMD sc)          -- SetTrailer before anything was sent: plain headers
    if sc.inj == .target then failResp .targetStatus sc.gone (some t) sc.err h2
    else { status := 200, ct := none, nosniff := false, body := .bytes [], hdrs := h2, trls := [], origin := none, err := none, bound := true }
  else match traverseFieldPath respFields sc.rbp with
    | none => -- the first Send fails before a byte is written; the pump stops, no SetTrailer
      failResp .responseEncode false (some t) (responseTranscodingError (respPathErr env)) h1
    | some sel =>
      -- n messages were written; a later error is not rendered (writtenStatus), trailers use TrailerPrefix
      { status := 200, ct := some t.msgType, nosniff := false, body := .items sel sc.n sse, hdrs := h1,
        trls := appendHeaders [] (trailerMD sc), origin := none, err := none, bound := true }

/-- `forwardUnaryResponse` followed by `httpStream.send`. -/
def serveUnary (sc : Scenario) (env : Env) (t : RespTranscoder) : Resp :=
  let h1 := appendHeaders [] (headerMD sc)
  if sc.n == 0 then
    let h2 := appendHeaders h1 (trailerMD sc)
    if sc.inj == .target then failResp .targetStatus sc.gone (some t) sc.err h2
    else failResp .targetStatus false (some t) (eofErr env) h2       -- EOF without a response
  else if sc.n == 1 && sc.inj == .target then
    failResp .targetStatus sc.gone (some t) sc.err (appendHeaders h1 (trailerMD sc))
  else
    -- n = 1: response then EOF; n ≥ 2: a second message arrived, trailers are not set
    let h2 := if sc.n == 1 then appendHeaders h1 (trailerMD sc) else h1
    match traverseFieldPath respFields sc.rbp with
    | none => failResp .responseEncode false (some t) (responseTranscodingError (respPathErr env)) h2
    | some sel =>
      { status := 200, ct := some t.msgType, nosniff := false, body := .bytes (env.msgEnc sel), hdrs := h2, trls := [],
        origin := none, err := none, bound := true }

/-- `ProxyForwarder.Forward` for a non-client-streaming method, as far as it decides what `ServeHTTP` renders. -/
def serveForward (sc : Scenario) (env : Env) (t : RespTranscoder) (sse : Bool) : Resp :=
  -- a deadline that expires while the target stays silent: after `n` streamed messages of a server stream the
  -- response has started and the error is not rendered; otherwise (nothing written yet — a unary response message
  -- is held back until the status arrives) it is a failure
  if sc.inj == .deadline && sc.rpc == .serverStream && sc.n != 0 then serveStream sc env t sse
  else if sc.inj == .deadline then failResp .deadline false (some t) (deadlineErr env) []
  -- forwardUnaryRequest: Incoming.Recv ⇒ reqtc.Transcode (the harness' wrapper returns the injected error first)
  else if sc.inj == .decode then failResp .requestDecode sc.gone (some t) (requestTranscodingError sc.err) []
  else match (if sc.bodyEmpty then none else env.natDecode) with
  | some e => failResp .requestDecode false (some t) (requestTranscodingError e) []
  | none =>
    -- Outgoing.Stream
    if sc.inj == .create then failResp .streamCreate sc.gone (some t) sc.err []
    else if sc.rpc == .serverStream then serveStream sc env t sse
    else serveUnary sc env t

/-- `ServeHTTP` after a successful `routeTranscodedRequest`. -/
def serveBound (sc : Scenario) (env : Env) (b : Bound) : Resp :=
  let t : RespTranscoder := { mime := b.resp.mime, status := env.stEnc, streams := b.resp.streams, sse := b.sse }
  if sc.rpc == .clientStream then failResp .bridge false (some t) (unimplementedClientStreaming env) []
  else if sc.rpc == .serverStream && !b.resp.streams then failResp .bridge false (some t) (cannotStreamErr env) []
  else serveForward sc env t b.sse

/-- `TranscodedHTTPBridge.ServeHTTP` on one scenario, for a transcoder built over the marshaler registry `r`. -/
def serveWith (r : Registry) (sc : Scenario) (env : Env) : Resp :=
  -- routeTranscodedRequest: router.RouteHTTP
  if sc.inj == .router then failResp .router sc.gone none sc.err []
  -- transcoder.Bind (the harness' wrapper returns the injected error before calling the real Bind)
  else if sc.inj == .bind then failResp .bind sc.gone none sc.err []
  else match bind r env.pm sc.accept (sc.rpc == .clientStream) (sc.rpc == .serverStream) with
  | .error e => failResp .bind false none (natBindErr env e) []
  | .ok b => serveBound sc env b

/-- …with the registry of the e2e harness (JSON + the binary test double). -/
def serve (sc : Scenario) (env : Env) : Resp := serveWith registry sc env

end GB.C10
