import GB.C10.Model
import GB.Base.LTS
/-
  C10 — `webbridge.httpStream` + `responseWrapper` + the handler's final `writeError` as a small LTS.

  Goroutines: the callers inside `ProxyForwarder.Forward` (main calls `Incoming.Recv`, the response pump calls
  `SetHeader / SetTrailer / Send`), the helper goroutine `withCtx` starts for every `Recv` / `Send`
  (`s.recv` / `s.send`), and the handler goroutine that runs `writeError` after `Forward` returned.

  Labels (`Ev`): the calls and returns (the projection of the Forward LTS' incoming labels, GB/C01/Forward.lean), the
  internal steps of the helpers, the two halves of `writeError` (it READS `writtenStatus` / the request context and
  then WRITES — two steps, because nothing orders them against a helper that is still running), `finish`.

  `withCtx` returns either with the helper's result or — when the context is done — WITHOUT waiting for the helper
  (`sendRet true` / `recvRet true`: the helper is abandoned and keeps running). An abandoned `Recv` helper only
  touches the request side. An abandoned `Send` helper still writes to the ResponseWriter: that is the known
  finding C18-D21 — as the code WAS (`Cfg.fx = false`: the original epilogue). The repaired code (`Cfg.fx = true`,
  repo fix "an abandoned httpStream.Send never touches the response once the handler has taken it over") has a mutex
  `mu` around everything `send / SetHeader / SetTrailer` do to the response and a flag `finished` that the handler sets
  under `mu` (`finish()`, label `weFence`) right after Forward returned and before `writeError` / its own return: a
  helper that already holds `mu` is waited for, one that comes later sees `finished` and does nothing.
-/
namespace GB.C10.HS
open GB GB.C10

/-- What the bound response transcoder makes of the message handed to `Incoming.Send`. -/
inductive Enc
  | ok (b : Bytes)          -- bytes that get written (unary: `Transcode` + `Write`; stream: `respstream.Transcode` + `Flush`)
  | fail (e : RawErr)       -- the transcoder's error, nothing is written
  deriving DecidableEq, Repr

/-- A completed call on the response side, as Forward's response pump makes them (program order). -/
inductive Call
  | setHeader (md : MD)
  | setTrailer (md : MD)
  | send (x : Enc)
  deriving DecidableEq, Repr

inductive Ev
  -- calls into httpStream and their returns
  | recvCall | recvRet (abandoned : Bool)
  | setHeader (md : MD) | setTrailer (md : MD)
  | sendCall (x : Enc) | sendRet (abandoned : Bool)
  | fwdRet (e : Option RawErr)
  -- helper goroutines
  | hRecvDone          -- `s.recv`: body read and transcoded, `s.read = true`, `close(s.readCh)`
  | hSendEnter         -- `s.send`: (original code: the second-response check, then) `<-s.readCh`
  | hSendMark          -- (repaired code: `mu.Lock()`, the `finished` and second-response checks, then)
                       -- Content-Type header (first send only), `s.sent = true`
  | hSendWrite         -- transcode and write: the first write puts status 200 and the headers on the wire (then `mu.Unlock()`)
  -- handler goroutine
  | weFence            -- repaired code only: `incoming.finish()` — `mu.Lock(); finished = true; mu.Unlock()`
  | weDecide           -- writeError: reads `w.writtenStatus` and `requestCanceled(r)`, picks what to write
  | weWrite            -- writeError: sets the headers, `WriteHeader`, `Write`
  | finish             -- ServeHTTP returns
  deriving DecidableEq, Repr

/-- What has been committed to the client by the first `WriteHeader` / `Write`. -/
structure Wire where
  status : Nat
  hdrs : MD
  ct : Option Bytes
  nosniff : Bool
  deriving DecidableEq, Repr

/-- The ResponseWriter-side state: everything the client can observe comes from here. -/
structure Core where
  sent : Bool := false          -- httpStream.sent
  hdrs : MD := []               -- live header map (without Content-Type / X-Content-Type-Options / trailer keys)
  ct : Option Bytes := none
  nosniff : Bool := false
  wire : Option Wire := none    -- `some` ⇔ responseWrapper.writtenStatus
  body : List Bytes := []       -- chunks written after the status line, in order
  trls : MD := []               -- `Trailer:`-prefixed keys
  deriving DecidableEq, Repr

inductive RecvPc | notCalled | pending | returned
  deriving DecidableEq, Repr
inductive HelperPc | none | running | done
  deriving DecidableEq, Repr
/-- helper goroutine of one `Send` -/
inductive SendPc
  | none
  | entered (x : Enc)        -- spawned, before the checks
  | pastRead (x : Enc)       -- `<-s.readCh` passed
  | marked (x : Enc)         -- content type set, `sent = true`
  | done (x : Enc)           -- `s.send` returned
  | skipped (x : Enc)        -- repaired code: `s.send` found `finished` set and returned without touching anything
  deriving DecidableEq, Repr

structure Cfg where
  t : RespTranscoder
  streaming : Bool          -- `incoming.respstream != nil` (server-streaming method)
  gone : Bool               -- `requestCanceled(r)` when writeError looks
  fx : Bool := true         -- the repaired epilogue (mutex + `finish()`); `false` = the code as it was (D21)

structure St where
  core : Core := {}
  read : Bool := false                  -- httpStream.read / readCh closed
  recv : RecvPc := .notCalled
  recvHelper : HelperPc := .none
  pendingSend : Bool := false           -- a `Send` call has not returned yet
  sendHelper : SendPc := .none
  abandoned : Bool := false             -- ghost: some `Send` returned without waiting for its helper (D21 class)
  mu : Bool := false                    -- httpStream.mu is held (by the send helper)
  fin : Bool := false                   -- httpStream.finished
  returnedAt : Option Nat := none       -- ghost: number of writer steps when the handler returned
  writes : Nat := 0                     -- ghost: number of steps that touched the ResponseWriter so far
  fwd : Option (Option RawErr) := none  -- Forward returned this
  decision : Option Written := none     -- writeError decided to write this
  rendered : Bool := false              -- writeError is through
  finished : Bool := false
  log : List Call := []                 -- ghost: completed response-side calls, in order
  deriving DecidableEq, Repr

/-- `responseWrapper.Write` (first write ⇒ implicit `WriteHeader(200)` with the live headers). -/
def Core.write (c : Core) (b : Bytes) : Core :=
  { c with wire := some (c.wire.getD { status := 200, hdrs := c.hdrs, ct := c.ct, nosniff := c.nosniff }),
           body := c.body ++ [b] }

/-- first half of `httpStream.send` after `<-readCh`: Content-Type on the first send, `sent = true`. -/
def Core.mark (cfg : Cfg) (c : Core) : Core :=
  { c with ct := if c.sent then c.ct else some cfg.t.msgType, sent := true }

/-- `httpStream.send` run to completion. -/
def Core.send (cfg : Cfg) (c : Core) (x : Enc) : Core :=
  if c.sent && !cfg.streaming then c          -- "tried sending second response on unary stream"
  else match x with
    | .ok b => (c.mark cfg).write b
    | .fail _ => c.mark cfg

def Core.setHeader (c : Core) (md : MD) : Core :=
  if c.sent then c else { c with hdrs := appendHeaders c.hdrs md }

def Core.setTrailer (c : Core) (md : MD) : Core :=
  if c.sent then { c with trls := appendHeaders c.trls md } else { c with hdrs := appendHeaders c.hdrs md }

def Core.apply (cfg : Cfg) (c : Core) : Call → Core
  | .setHeader md => c.setHeader md
  | .setTrailer md => c.setTrailer md
  | .send x => c.send cfg x

/-- second half of `writeError`: carry out the decision. -/
def Core.render (c : Core) : Written → Core
  | .nothing => c
  | .resp st ct ns b =>
    let ct' := match ct with | some x => some x | none => c.ct      -- 499: the header map is not touched
    let ns' := ns || c.nosniff
    let c1 := { c with ct := ct', nosniff := ns' }
    -- WriteHeader(st): a second WriteHeader is ignored by net/http ("superfluous"), the bytes are appended anyway
    let c2 := { c1 with wire := some (c1.wire.getD { status := st, hdrs := c1.hdrs, ct := ct', nosniff := ns' }) }
    if b.isEmpty then c2 else { c2 with body := c2.body ++ [b] }

/-- bookkeeping of a helper that finishes `s.send` with effect `x`: a `Send` that already returned without it
    (abandoned) is entered into the log of completed calls now, an ordinary one when `Send` returns -/
def St.helperDone (s : St) (x : Enc) : St :=
  if s.pendingSend then { s with sendHelper := .done x }
  else { s with sendHelper := .done x, log := s.log ++ [.send x] }

def step (cfg : Cfg) (s : St) : Ev → Option St
  -- ── Incoming.Recv (called once, by Forward's main goroutine, before the response pump exists)
  | .recvCall =>
    if s.recv = .notCalled ∧ s.fwd.isNone then some { s with recv := .pending, recvHelper := .running } else none
  | .hRecvDone =>
    if s.recvHelper = .running then some { s with recvHelper := .done, read := true } else none
  | .recvRet abandoned =>
    if s.recv = .pending ∧ (abandoned = true ∨ s.recvHelper = .done) then some { s with recv := .returned } else none
  -- ── SetHeader / SetTrailer (atomic, response pump, no Send pending; repaired code: under `mu`)
  | .setHeader md =>
    if s.recv = .returned ∧ s.pendingSend = false ∧ s.fwd.isNone ∧ s.mu = false then
      some { s with core := s.core.setHeader md, log := s.log ++ [.setHeader md], writes := s.writes + 1 } else none
  | .setTrailer md =>
    if s.recv = .returned ∧ s.pendingSend = false ∧ s.fwd.isNone ∧ s.mu = false then
      some { s with core := s.core.setTrailer md, log := s.log ++ [.setTrailer md], writes := s.writes + 1 } else none
  -- ── Incoming.Send
  | .sendCall x =>
    if s.recv = .returned ∧ s.pendingSend = false ∧ s.fwd.isNone ∧ s.sendHelper = .none then
      some { s with pendingSend := true, sendHelper := .entered x } else none
  | .hSendEnter =>
    match s.sendHelper with
    | .entered x =>
      if !cfg.fx && s.core.sent && !cfg.streaming then some (s.helperDone x)   -- original: error before `<-readCh`
      else if s.read then some { s with sendHelper := .pastRead x }
      else none                                                                 -- blocked on readCh
    | _ => none
  | .hSendMark =>
    match s.sendHelper with
    | .pastRead x =>
      if cfg.fx then
        if s.mu then none                                            -- mu.Lock() blocks
        else if s.fin then some { s with sendHelper := .skipped x }   -- finished: touch nothing
        else if s.core.sent && !cfg.streaming then some (s.helperDone x)   -- second response on a unary stream
        else some { s with sendHelper := .marked x, core := s.core.mark cfg, mu := true, writes := s.writes + 1 }
      else some { s with sendHelper := .marked x, core := s.core.mark cfg, writes := s.writes + 1 }
    | _ => none
  | .hSendWrite =>
    match s.sendHelper with
    | .marked (.ok b) => some { (s.helperDone (.ok b)) with core := s.core.write b, mu := false, writes := s.writes + 1 }
    | .marked (.fail e) => some { (s.helperDone (.fail e)) with mu := false }
    | _ => none
  | .sendRet abandoned =>
    if s.pendingSend = false then none
    else match abandoned, s.sendHelper with
      | false, .done x => some { s with pendingSend := false, sendHelper := .none, log := s.log ++ [.send x] }
      | false, .skipped _ => none
      | true, .done _ => none                -- withCtx takes the helper's result when it is there
      | true, .skipped _ => none
      | true, _ => some { s with pendingSend := false, abandoned := true }   -- ctx done: the helper keeps running
      | false, _ => none
  -- ── Forward returns: every call has returned (C02_cleanup: both pumps exited; main is not inside Recv)
  | .fwdRet e =>
    if s.fwd.isNone ∧ s.pendingSend = false ∧ s.recv ≠ .pending then some { s with fwd := some e } else none
  -- ── the handler: (repaired: `incoming.finish()`;) `if err != nil { writeError(...) }`
  | .weFence =>
    if cfg.fx ∧ s.fwd.isSome ∧ s.mu = false ∧ s.fin = false then some { s with fin := true } else none
  | .weDecide =>
    match s.fwd with
    | some (some e) =>
      if s.decision.isNone ∧ s.rendered = false ∧ (cfg.fx = true → s.fin = true) then
        some { s with decision := some (writeError s.core.wire.isSome cfg.gone (some cfg.t) e) }
      else none
    | _ => none
  | .weWrite =>
    match s.decision with
    | some d => if s.rendered then none
                else some { s with core := s.core.render d, rendered := true, writes := s.writes + 1 }
    | none => none
  | .finish =>
    if cfg.fx = true ∧ s.fin = false then none
    else match s.fwd with
    | some none => if s.finished then none else some { s with finished := true, returnedAt := some s.writes }
    | some (some _) =>
      if s.rendered ∧ s.finished = false then some { s with finished := true, returnedAt := some s.writes } else none
    | none => none

/-- What the client gets once the handler returned (an untouched writer answers 200 with the live headers). -/
structure Observed where
  status : Nat
  ct : Option Bytes
  nosniff : Bool
  hdrs : MD
  body : List Bytes
  trls : MD
  deriving DecidableEq, Repr

def Core.observe (c : Core) : Observed :=
  match c.wire with
  | some w => { status := w.status, ct := w.ct, nosniff := w.nosniff, hdrs := w.hdrs, body := c.body, trls := c.trls }
  | none => { status := 200, ct := c.ct, nosniff := c.nosniff, hdrs := c.hdrs, body := c.body, trls := c.trls }

/-- The sequential reading of a whole call: the response-side calls in order, then the handler's error path. -/
def seqCore (cfg : Cfg) (calls : List Call) (ret : Option RawErr) : Core :=
  let c := calls.foldl (Core.apply cfg) {}
  match ret with
  | none => c
  | some e => c.render (writeError c.wire.isSome cfg.gone (some cfg.t) e)

def init : St := {}

abbrev Reachable (cfg : Cfg) (s : St) : Prop := GB.LTS.Reachable (step cfg) init s

end GB.C10.HS
