import GB.C10.Spec
/-
  C10 — the option plumbing of the root constructor, from the caller's option list to the marshaler registry.

    grpcbridge.NewWebBridge(router, opts...)        bridge.go: options := defaultBridgeOptions(); every option is applied
                                                    in order; `options.transcoderOpts` is handed UNCHANGED to
    transcoding.NewStandardTranscoder(opts)         transcoding/http.go: `opts.withDefaults()`, then the MIME map
    StandardTranscoderOpts.withDefaults()           Marshalers == nil ⇒ [DefaultJSONMarshaler];
                                                    DefaultMarshaler == nil ⇒ DefaultJSONMarshaler

  A Go slice / interface can be nil: `Option`. `WithMarshalers(nil)` and `WithDefaultMarshaler(nil)` therefore
  reset to "not given"; `WithMarshalers([]Marshaler{})` is an EMPTY, non-nil list: nothing is registered (as coded).
  The MIME map is filled in list order, so for two marshalers of one MIME type the LAST one is registered.
-/
namespace GB.C10

/-- one `BridgeOption` as far as the transcoder is concerned -/
inductive BOpt
  | withMarshalers (ms : Option (List Marshaler))    -- WithMarshalers(ms); `none` = a nil slice
  | withDefault (m : Option Marshaler)               -- WithDefaultMarshaler(m); `none` = nil
  | other                                            -- WithLogger, WithForwarder, …: do not touch transcoderOpts
  deriving DecidableEq, Repr

/-- `transcoding.StandardTranscoderOpts` -/
structure TOpts where
  marshalers : Option (List Marshaler) := none
  default : Option Marshaler := none
  deriving DecidableEq, Repr

def applyOpt (o : TOpts) : BOpt → TOpts
  | .withMarshalers ms => { o with marshalers := ms }
  | .withDefault m => { o with default := m }
  | .other => o

/-- the loop of `NewWebBridge` over its options; the result is what `NewStandardTranscoder` receives -/
def plumb (opts : List BOpt) : TOpts := opts.foldl applyOpt {}

/-- `DefaultJSONMarshaler`: application/json, a StreamMarshaler -/
def jsonM : Marshaler := { mime := ascii "application/json", streams := true, id := 0 }

/-- `withDefaults` -/
def withDefaults (o : TOpts) : List Marshaler × Marshaler :=
  (match o.marshalers with
   | some ms => ms
   | none => [jsonM],
   match o.default with
   | some m => m
   | none => jsonM)

/-- `NewStandardTranscoder`: the MIME map is written in list order (a later marshaler of the same MIME type
    overwrites an earlier one), so a lookup finds the LAST list element of that type: `find?` on the reversed list. -/
def registryOf (o : TOpts) : Registry :=
  { marshalers := (withDefaults o).1.reverse, default := (withDefaults o).2 }

/-- the registry a `WebBridge` built with these options negotiates with -/
def effectiveRegistry (opts : List BOpt) : Registry := registryOf (plumb opts)

/-! ### the specification: what the options MEAN (documentation of WithMarshalers / WithDefaultMarshaler) -/

def marshalersArg : BOpt → Option (Option (List Marshaler))
  | .withMarshalers ms => some ms
  | _ => none

def defaultArg : BOpt → Option (Option Marshaler)
  | .withDefault m => some m
  | _ => none

/-- the marshaler list in force: the argument of the last `WithMarshalers` (if it is not nil), else exactly [JSON] -/
def specMarshalers (opts : List BOpt) : List Marshaler :=
  match ((opts.filterMap marshalersArg).getLast?).join with
  | some ms => ms
  | none => [jsonM]

/-- the default marshaler in force: the argument of the last `WithDefaultMarshaler` (if not nil), else JSON -/
def specDefault (opts : List BOpt) : Marshaler :=
  match ((opts.filterMap defaultArg).getLast?).join with
  | some m => m
  | none => jsonM

/-- the registered marshaler for a MIME type: the last one in the list in force -/
def specLookup (opts : List BOpt) (mime : Bytes) : Option Marshaler :=
  (specMarshalers opts).reverse.find? (fun m => m.mime == mime)

/-! ### the seeded variant C10-m5 (kept to state what is wrong with it) -/

def hasMarshalerFor (ms : List Marshaler) (m : Marshaler) : Bool := ms.any (fun x => x.mime == m.mime)

/-- `NewWebBridge` of C10-m5: "make the default marshaler selectable" — appends it to the list when its MIME type is
    not listed; `append(nil, dm)` makes the list non-nil, so `withDefaults` no longer installs [JSON]. -/
def plumbM5 (opts : List BOpt) : TOpts :=
  let o := plumb opts
  match o.default with
  | some dm =>
    let ms := o.marshalers.getD []
    if hasMarshalerFor ms dm then o else { o with marshalers := some (ms ++ [dm]) }
  | none => o

/-! ### what `Bind` looks at: the request as far as the negotiation is concerned -/

/-- The `transcoding.HTTPRequest` handed to `Bind`, reduced to what could matter for the choice of marshalers: the
    HTTP method of the raw request, its Content-Type lines (as `mime.ParseMediaType` reads them), its Accept lines,
    and the streaming kind of the bound method. -/
structure NegReq where
  method : Bytes
  pm : List (Option Bytes)
  accept : List Bytes
  cs : Bool
  ss : Bool
  deriving DecidableEq, Repr

/-- `StandardTranscoder.Bind` on such a request: `pickRequestMarshaler` and `pickResponseMarshaler` read
    `req.RawRequest.Header` only (regenerated fact `c10NegotiationReads`), the method is not looked at. -/
def bindReq (r : Registry) (q : NegReq) : Except RawErr Bound := bind r q.pm q.accept q.cs q.ss

def methodGET : Bytes := ascii "GET"
def methodHEAD : Bytes := ascii "HEAD"

/-- the seeded variant C10-m8: `pickRequestMarshaler` returns the default marshaler for GET and HEAD whatever the
    Content-Type says ("bodiless requests have nothing for a Content-Type to describe") -/
def bindReqM8 (r : Registry) (q : NegReq) : Except RawErr Bound :=
  if q.method == methodGET || q.method == methodHEAD then bind r [] q.accept q.cs q.ss
  else bind r q.pm q.accept q.cs q.ss

/-- a custom text codec for the witnesses -/
def m5Custom : Marshaler := { mime := [116], streams := false, id := 1 }
/-- the configuration that exposes C10-m5: a custom default marshaler, no WithMarshalers -/
def m5Opts : List BOpt := [.withDefault (some m5Custom)]

end GB.C10
