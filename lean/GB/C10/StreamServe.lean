import GB.C10.StreamProofs
/-
  C10 — the sequential reading of the calls Forward makes for a scripted target is the response `serve` computes.

  `callsUnary / callsStream` and `retUnary / retStream` are what `forwardUnaryResponse` / `forwardOutgoingToIncoming`
  do for the scenario's target (n messages, then EOF or the injected status) — SetHeader on the first Recv result,
  SetTrailer once the final status is there (not after a second message of a unary method), Send for every message
  that is forwarded — and the value `Forward` returns (the target's error, the synthesized EOF error, or the error
  `Incoming.Send` returned).
-/
set_option linter.unusedSimpArgs false
set_option linter.unusedVariables false
namespace GB.C10.HS
open GB GB.C10

/-- what the bound transcoder makes of the scenario's response message -/
def encOf (sc : Scenario) (env : Env) : Enc :=
  match traverseFieldPath respFields sc.rbp with
  | none => .fail (respPathErr env)
  | some sel => .ok (env.msgEnc sel)

/-- what `Incoming.Send` returns, hence what Forward returns when that is an error -/
def retOfEnc : Enc → Option RawErr
  | .ok _ => none
  | .fail e => some (responseTranscodingError e)

def cfgUnary (sc : Scenario) (t : RespTranscoder) : Cfg :=
  { t := t, streaming := false, gone := sc.gone && sc.inj == .target && decide (sc.n ≤ 1) }

def callsUnary (sc : Scenario) (env : Env) : List Call :=
  if sc.n == 0 || (sc.n == 1 && sc.inj == .target) then [.setHeader (headerMD sc), .setTrailer (trailerMD sc)]
  else if sc.n == 1 then [.setHeader (headerMD sc), .setTrailer (trailerMD sc), .send (encOf sc env)]
  else [.setHeader (headerMD sc), .send (encOf sc env)]

def retUnary (sc : Scenario) (env : Env) : Option RawErr :=
  if sc.n == 0 then some (if sc.inj == .target then sc.err else eofErr env)
  else if sc.n == 1 && sc.inj == .target then some sc.err
  else retOfEnc (encOf sc env)

/-- `Resp` of the `serve` model against what the client observes; `item` = the bytes of one streamed value. -/
def Matches (r : Resp) (o : Observed) (item : Bytes) : Prop :=
  o.status = r.status ∧ o.ct = r.ct ∧ o.nosniff = r.nosniff ∧ o.hdrs = r.hdrs ∧ o.trls = r.trls ∧
  (match r.body with
   | .bytes b => o.body.flatten = b
   | .items _ n _ => o.body = List.replicate n item)

theorem writeError_false_resp (g : Bool) (t : RespTranscoder) (e : RawErr) :
    ∃ st ct ns b, writeError false g (some t) e = .resp st ct ns b ∧ (ct = none → g = true) := by
  cases g with
  | true => exact ⟨_, _, _, _, rfl, fun _ => rfl⟩
  | false =>
    simp only [writeError, Bool.false_eq_true, ↓reduceIte, transcodeError]
    cases t.status (errorStatus e).1 with
    | ok d => exact ⟨_, _, _, _, rfl, by simp⟩
    | error x => exact ⟨_, _, _, _, rfl, by simp⟩

/-- `writeError` on a writer nothing was written to yet, against `failResp` of the `serve` model. -/
theorem fail_matches (o : Origin) (g : Bool) (t : RespTranscoder) (e : RawErr) (c : Core) (item : Bytes)
    (hw : c.wire = none) (hn : c.nosniff = false) (ht : c.trls = []) (hb : c.body = []) (hct : g = true → c.ct = none) :
    Matches (failResp o g (some t) e c.hdrs) ((c.render (writeError false g (some t) e)).observe) item := by
  obtain ⟨st, ct, ns, b, hwe, hctn⟩ := writeError_false_resp g t e
  simp only [failResp, hwe, Core.render, hw, Option.getD_none, hn, Bool.or_false]
  by_cases hbe : b.isEmpty = true
  · have : b = [] := by simpa using hbe
    subst this
    cases ct with
    | none => simp [Matches, Core.observe, hb, ht, hct (hctn rfl)]
    | some x => simp [Matches, Core.observe, hb, ht]
  · cases ct with
    | none => simp [Matches, Core.observe, hb, ht, hct (hctn rfl), hbe]
    | some x => simp [Matches, Core.observe, hb, ht, hbe]

theorem unary_seq_is_serve (sc : Scenario) (env : Env) (t : RespTranscoder) (item : Bytes) :
    Matches (serveUnary sc env t) (seqCore (cfgUnary sc t) (callsUnary sc env) (retUnary sc env)).observe item := by
  unfold serveUnary callsUnary retUnary
  by_cases h0 : (sc.n == 0) = true
  · -- status only / EOF without a response
    have hn : sc.n = 0 := by simpa using h0
    simp only [h0, Bool.true_or, ↓reduceIte]
    by_cases hi : (sc.inj == Inj.target) = true
    · simp only [hi, ↓reduceIte]
      have := fail_matches .targetStatus sc.gone t sc.err
        (((({} : Core).setHeader (headerMD sc)).setTrailer (trailerMD sc))) item rfl rfl rfl rfl (fun _ => rfl)
      simpa [seqCore, Core.apply, Core.setHeader, Core.setTrailer, cfgUnary, hi, hn] using this
    · have hif : (sc.inj == Inj.target) = false := by simpa using hi
      simp only [hif, Bool.false_eq_true, ↓reduceIte]
      have := fail_matches .targetStatus false t (eofErr env)
        (((({} : Core).setHeader (headerMD sc)).setTrailer (trailerMD sc))) item rfl rfl rfl rfl (fun h => by cases h)
      simpa [seqCore, Core.apply, Core.setHeader, Core.setTrailer, cfgUnary, hif] using this
  · have h0f : (sc.n == 0) = false := by simpa using h0
    simp only [h0f, Bool.false_or, Bool.false_eq_true, ↓reduceIte]
    by_cases h1t : (sc.n == 1 && sc.inj == Inj.target) = true
    · -- response message first, then the target's error
      simp only [h1t, ↓reduceIte]
      have hn : sc.n = 1 := by simp at h1t; exact h1t.1
      have hi : (sc.inj == Inj.target) = true := by simp at h1t; simpa using h1t.2
      have := fail_matches .targetStatus sc.gone t sc.err
        (((({} : Core).setHeader (headerMD sc)).setTrailer (trailerMD sc))) item rfl rfl rfl rfl (fun _ => rfl)
      simpa [seqCore, Core.apply, Core.setHeader, Core.setTrailer, cfgUnary, hi, hn] using this
    · have h1tf : (sc.n == 1 && sc.inj == Inj.target) = false := by simpa using h1t
      simp only [h1tf, Bool.false_eq_true, ↓reduceIte]
      have hg : (sc.gone && sc.inj == Inj.target && decide (sc.n ≤ 1)) = false := by
        by_cases hi : (sc.inj == Inj.target) = true
        · have : ¬ sc.n ≤ 1 := by
            intro hle
            have : sc.n = 1 := by
              have : sc.n ≠ 0 := by simpa using h0
              omega
            simp [this, hi] at h1tf
          simp [this]
        · have : (sc.inj == Inj.target) = false := by simpa using hi
          simp [this]
      by_cases h1 : (sc.n == 1) = true
      · simp only [h1, ↓reduceIte, encOf]
        cases htr : traverseFieldPath respFields sc.rbp with
        | none =>
          have := fail_matches .responseEncode false t (responseTranscodingError (respPathErr env))
            ((((({} : Core).setHeader (headerMD sc)).setTrailer (trailerMD sc))).mark (cfgUnary sc t)) item rfl rfl rfl rfl
            (fun h => by cases h)
          simpa [seqCore, Core.apply, Core.setHeader, Core.setTrailer, Core.send, Core.mark, retOfEnc, hg, cfgUnary] using this
        | some sel =>
          simp [seqCore, Core.apply, Core.setHeader, Core.setTrailer, Core.send, Core.mark, Core.write, retOfEnc,
            Matches, Core.observe, cfgUnary]
      · have h1f : (sc.n == 1) = false := by simpa using h1
        simp only [h1f, Bool.false_eq_true, ↓reduceIte, encOf]
        cases htr : traverseFieldPath respFields sc.rbp with
        | none =>
          have := fail_matches .responseEncode false t (responseTranscodingError (respPathErr env))
            (((({} : Core).setHeader (headerMD sc))).mark (cfgUnary sc t)) item rfl rfl rfl rfl
            (fun h => by cases h)
          simpa [seqCore, Core.apply, Core.setHeader, Core.setTrailer, Core.send, Core.mark, retOfEnc, hg, cfgUnary] using this
        | some sel =>
          simp [seqCore, Core.apply, Core.setHeader, Core.setTrailer, Core.send, Core.mark, Core.write, retOfEnc,
            Matches, Core.observe, cfgUnary]

def cfgStream (sc : Scenario) (t : RespTranscoder) : Cfg :=
  { t := t, streaming := true, gone := sc.gone && sc.inj == .target && sc.n == 0 }

/-- `item` = the bytes one streamed value is written as (value + delimiter, or an SSE record) -/
def callsStream (sc : Scenario) (env : Env) (item : Bytes) : List Call :=
  if sc.n == 0 then [.setHeader (headerMD sc), .setTrailer (trailerMD sc)]
  else match traverseFieldPath respFields sc.rbp with
    | none => [.setHeader (headerMD sc), .send (.fail (respPathErr env))]
    | some _ => [.setHeader (headerMD sc)] ++ List.replicate sc.n (.send (.ok item)) ++ [.setTrailer (trailerMD sc)]

def retStream (sc : Scenario) (env : Env) : Option RawErr :=
  if sc.n == 0 then (if sc.inj == .target then some sc.err else none)
  else match traverseFieldPath respFields sc.rbp with
    | none => some (responseTranscodingError (respPathErr env))
    | some _ => if sc.inj == .target then some sc.err else none

/-- once a stream has started, every further `Send` only appends its bytes -/
theorem sends_steady (cfg : Cfg) (hs : cfg.streaming = true) (item : Bytes) (k : Nat) (c : Core)
    (hsent : c.sent = true) (hw : c.wire.isSome = true) :
    (List.replicate k (Call.send (.ok item))).foldl (Core.apply cfg) c = { c with body := c.body ++ List.replicate k item } := by
  induction k generalizing c with
  | zero => simp
  | succ k ih =>
    simp only [List.replicate_succ, List.foldl_cons]
    have h1 : Core.apply cfg c (Call.send (.ok item)) = { c with body := c.body ++ [item] } := by
      obtain ⟨w, hw'⟩ := Option.isSome_iff_exists.1 hw
      simp [Core.apply, Core.send, hsent, hs, Core.mark, Core.write, hw']
    rw [h1]
    have := ih { c with body := c.body ++ [item] } hsent hw
    rw [this]
    simp [List.append_assoc]

theorem stream_seq_is_serve (sc : Scenario) (env : Env) (t : RespTranscoder) (sse : Bool) (item : Bytes) :
    Matches (serveStream sc env t sse)
      (seqCore (cfgStream sc t) (callsStream sc env item) (retStream sc env)).observe item := by
  unfold serveStream callsStream retStream
  by_cases h0 : (sc.n == 0) = true
  · have hn : sc.n = 0 := by simpa using h0
    simp only [h0, ↓reduceIte]
    by_cases hi : (sc.inj == Inj.target) = true
    · simp only [hi, ↓reduceIte]
      have := fail_matches .targetStatus sc.gone t sc.err
        (((({} : Core).setHeader (headerMD sc)).setTrailer (trailerMD sc))) item rfl rfl rfl rfl (fun _ => rfl)
      simpa [seqCore, Core.apply, Core.setHeader, Core.setTrailer, cfgStream, hi, hn] using this
    · have hif : (sc.inj == Inj.target) = false := by simpa using hi
      simp [hif, seqCore, Core.apply, Core.setHeader, Core.setTrailer, Matches, Core.observe]
  · have h0f : (sc.n == 0) = false := by simpa using h0
    have hg : (sc.gone && sc.inj == Inj.target && sc.n == 0) = false := by simp [h0f]
    simp only [h0f, Bool.false_eq_true, ↓reduceIte]
    cases htr : traverseFieldPath respFields sc.rbp with
    | none =>
      have := fail_matches .responseEncode false t (responseTranscodingError (respPathErr env))
        (((({} : Core).setHeader (headerMD sc))).mark (cfgStream sc t)) item rfl rfl rfl rfl (fun h => by cases h)
      simpa [seqCore, Core.apply, Core.setHeader, Core.setTrailer, Core.send, Core.mark, hg, cfgStream] using this
    | some sel =>
      have hne : sc.n ≠ 0 := by simpa using h0
      obtain ⟨k, hk⟩ : ∃ k, sc.n = k + 1 := ⟨sc.n - 1, by omega⟩
      simp only []
      have hfirst : Core.apply (cfgStream sc t) (({} : Core).setHeader (headerMD sc)) (Call.send (.ok item)) =
          { sent := true, hdrs := appendHeaders [] (headerMD sc), ct := some t.msgType,
            wire := some { status := 200, hdrs := appendHeaders [] (headerMD sc), ct := some t.msgType, nosniff := false },
            body := [item] } := by
        simp [Core.apply, Core.send, Core.setHeader, Core.mark, Core.write, cfgStream]
      have hst := sends_steady (cfgStream sc t) rfl item k
        { sent := true, hdrs := appendHeaders [] (headerMD sc), ct := some t.msgType,
          wire := some { status := 200, hdrs := appendHeaders [] (headerMD sc), ct := some t.msgType, nosniff := false },
          body := [item] } rfl rfl
      have hcore : (([Call.setHeader (headerMD sc)] ++ List.replicate sc.n (Call.send (.ok item)) ++
            [Call.setTrailer (trailerMD sc)]).foldl (Core.apply (cfgStream sc t)) {}) =
          { sent := true, hdrs := appendHeaders [] (headerMD sc), ct := some t.msgType,
            wire := some { status := 200, hdrs := appendHeaders [] (headerMD sc), ct := some t.msgType, nosniff := false },
            body := List.replicate sc.n item, trls := appendHeaders [] (trailerMD sc) } := by
        rw [hk]
        simp only [List.foldl_append, List.foldl_cons, List.foldl_nil, List.replicate_succ]
        have : Core.apply (cfgStream sc t) {} (Call.setHeader (headerMD sc)) = ({} : Core).setHeader (headerMD sc) := rfl
        rw [this, hfirst, hst]
        simp [Core.apply, Core.setTrailer]
      by_cases hi : (sc.inj == Inj.target) = true
      · simp only [hi, ↓reduceIte, seqCore, hcore]
        simp [Matches, Core.observe, writeError, Core.render]
      · have hif : (sc.inj == Inj.target) = false := by simpa using hi
        simp only [hif, Bool.false_eq_true, ↓reduceIte, seqCore, hcore]
        simp [Matches, Core.observe]

end GB.C10.HS
