import GB.C10.RespPath
/-
  C10 — lemmas about nested `response_body` selection: the coded `strings.Cut` loop (`walk`) equals the declarative
  resolution of `strings.Split(path, ".")` (`resolveEls`) on clean paths; what a resolution means (`descAt`).
-/
set_option linter.unusedSimpArgs false
set_option linter.unusedVariables false
namespace GB.C10.RP
open GB GB.C09

theorem splitDots_ne_nil (s : Bytes) : splitDots s ≠ [] := by
  cases s with
  | nil => simp [splitDots]
  | cons c rest =>
    simp only [splitDots]
    split
    · simp
    · split <;> simp

theorem cutDot_cons (c : UInt8) (rest : Bytes) :
    cutDot (c :: rest) = if c == 46 then ([], rest, true) else (c :: (cutDot rest).1, (cutDot rest).2.1, (cutDot rest).2.2) := by
  simp only [cutDot]

/-- `strings.Cut` against `strings.Split` -/
theorem cutDot_spec : ∀ (s : Bytes),
    splitDots s = (if (cutDot s).2.2 then (cutDot s).1 :: splitDots (cutDot s).2.1 else [(cutDot s).1])
    ∧ ((cutDot s).2.2 = false → (cutDot s).2.1 = [])
    ∧ ((cutDot s).2.2 = true → (cutDot s).2.1.length < s.length) := by
  intro s
  induction s with
  | nil => simp [cutDot, splitDots]
  | cons c rest ih =>
    rw [cutDot_cons]
    by_cases hc : c = 46
    · subst hc
      simp [splitDots]
    · have hc' : (c == 46) = false := by simp [hc]
      obtain ⟨ih1, ih2, ih3⟩ := ih
      simp only [hc', Bool.false_eq_true, if_false, splitDots]
      refine ⟨?_, ?_, ?_⟩
      · rw [ih1]
        by_cases hf : (cutDot rest).2.2 = true
        · simp [hf]
        · simp [hf]
      · intro hf; exact ih2 hf
      · intro hf
        exact Nat.lt_succ_of_lt (ih3 hf)

theorem resolveEls_cons_cons (sch : RSchema) (md : RDesc) (pre : Path) (e e2 : Bytes) (rest : List Bytes) :
    resolveEls sch md pre (e :: e2 :: rest) =
      match md.byName e with
      | none => none
      | some fd =>
        match fd.ty with
        | .msg ref =>
          match sch[ref]? with
          | some sub => resolveEls sch sub (pre ++ [fd.name]) (e2 :: rest)
          | none => none
        | _ => none := by
  cases h : md.byName e with
  | none => simp [resolveEls, h]
  | some fd =>
    cases hty : fd.ty with
    | msg ref => simp only [resolveEls, h, hty]; cases sch[ref]? <;> rfl
    | leaf c k => simp [resolveEls, h, hty]
    | repMsg ref => simp [resolveEls, h, hty]
    | mapMsg ref => simp [resolveEls, h, hty]

/-- on a path all of whose elements are non-empty the coded loop is the declarative resolution -/
theorem walk_eq_resolve (sch : RSchema) : ∀ (fuel : Nat) (md : RDesc) (pre : Path) (s : Bytes),
    s.length < fuel → (splitDots s).all (fun e => !(e == [])) = true →
    walk sch fuel md pre s = resolveEls sch md pre (splitDots s) := by
  intro fuel
  induction fuel with
  | zero => intro md pre s h; omega
  | succ fuel ih =>
    intro md pre s hlen hall
    obtain ⟨h1, h2, h3⟩ := cutDot_spec s
    rw [walk]
    cases hcut : cutDot s with
    | mk elem r2 =>
      obtain ⟨rest, found⟩ := r2
      rw [hcut] at h1 h2 h3
      simp only at h1 h2 h3 ⊢
      cases found with
      | false =>
        have hr := h2 rfl
        subst hr
        simp only [Bool.false_eq_true, if_false] at h1
        rw [h1]
        simp only [Bool.false_and, Bool.false_eq_true, if_false, resolveEls]
        cases md.byName elem with
        | none => rfl
        | some fd => simp
      | true =>
        simp only [if_true] at h1
        rw [h1] at hall ⊢
        simp only [List.all_cons, Bool.and_eq_true, Bool.not_eq_true'] at hall
        obtain ⟨helem, hrest⟩ := hall
        have hlt := h3 rfl
        -- the remainder is not empty: its split would contain an empty element
        have hrne : (rest == []) = false := by
          cases rest with
          | nil => simp [splitDots] at hrest
          | cons a b => rfl
        cases hsp : splitDots rest with
        | nil => exact absurd hsp (splitDots_ne_nil rest)
        | cons e2 r =>
          rw [resolveEls_cons_cons]
          simp only [Bool.true_and, helem, Bool.false_eq_true, if_false, hrne]
          cases md.byName elem with
          | none => rfl
          | some fd =>
            simp only
            cases hty : fd.ty with
            | msg ref =>
              simp only
              cases sch[ref]? with
              | none => rfl
              | some sub =>
                simp only
                rw [ih sub (pre ++ [fd.name]) rest (by omega) hrest, hsp]
            | leaf c k => rfl
            | repMsg ref => rfl
            | mapMsg ref => rfl

/-- the coded `traverseFieldPath` meets the specification wherever the specification speaks -/
theorem traverse_meets_spec (sch : RSchema) (root : RDesc) (path : Bytes) (r : Option (Option (Path × RField)))
    (h : specSelect sch root path = some r) : traverse sch root path = r := by
  unfold specSelect at h
  unfold traverse
  by_cases hw : (path == [] || path == [42]) = true
  · simp only [hw, if_true, Option.some.injEq] at h ⊢
    exact h
  · simp only [hw, Bool.false_eq_true, if_false] at h ⊢
    by_cases hany : (splitDots path).any (fun e => e == []) = true
    · rw [if_pos hany] at h; cases h
    · simp only [hany, Bool.false_eq_true, if_false, Option.some.injEq] at h
      rw [← h]
      have hall : (splitDots path).all (fun e => !(e == [])) = true := by
        rw [List.all_eq_true]
        intro e he
        cases hee : (e == []) with
        | false => rfl
        | true =>
          exfalso
          apply hany
          rw [List.any_eq_true]
          exact ⟨e, he, hee⟩
      rw [walk_eq_resolve sch _ root [] path (by omega) hall]

theorem byName_name {md : RDesc} {n : Bytes} {fd : RField} (h : md.byName n = some fd) : fd.name = n ∧ fd ∈ md := by
  unfold RDesc.byName at h
  have h1 := List.find?_some h
  have h2 := List.mem_of_find?_eq_some h
  simp only [beq_iff_eq] at h1
  exact ⟨h1, h2⟩

/-- what a resolution is: the elements before the last lead, through singular sub-message fields, to a message type
    that has a field named like the last element — and that field, below exactly those sub-messages, is the result -/
theorem resolveEls_sound (sch : RSchema) : ∀ (els : List Bytes) (md : RDesc) (pre pre' : Path) (fd : RField),
    resolveEls sch md pre els = some (pre', fd) →
    ∃ md' last, els.getLast? = some last ∧ descAt sch md els.dropLast = some md' ∧ md'.byName last = some fd
      ∧ pre' = pre ++ els.dropLast ∧ pre' ++ [fd.name] = pre ++ els := by
  intro els
  induction els with
  | nil => intro md pre pre' fd h; simp [resolveEls] at h
  | cons e rest ih =>
    intro md pre pre' fd h
    cases rest with
    | nil =>
      simp only [resolveEls, Option.map_eq_some_iff] at h
      obtain ⟨fd0, hb, heq⟩ := h
      simp only [Prod.mk.injEq] at heq
      obtain ⟨rfl, rfl⟩ := heq
      refine ⟨md, e, rfl, by simp [descAt], hb, by simp, ?_⟩
      rw [(byName_name hb).1]
    | cons e2 r =>
      rw [resolveEls_cons_cons] at h
      cases hb : md.byName e with
      | none => simp [hb] at h
      | some f0 =>
        simp only [hb] at h
        cases hty : f0.ty with
        | msg ref =>
          simp only [hty] at h
          cases hsub : sch[ref]? with
          | none => simp [hsub] at h
          | some sub =>
            simp only [hsub] at h
            obtain ⟨md', last, hl, hd, hbn, hp, hfull⟩ := ih sub (pre ++ [f0.name]) pre' fd h
            have hn := (byName_name hb).1
            refine ⟨md', last, ?_, ?_, hbn, ?_, ?_⟩
            · simpa [List.getLast?_cons_cons] using hl
            · simp only [List.dropLast_cons_cons, descAt, hb, hty, hsub]
              exact hd
            · rw [hp, hn]; simp [List.dropLast_cons_cons]
            · rw [hfull, hn]; simp
        | leaf c k => simp [hty] at h
        | repMsg ref => simp [hty] at h
        | mapMsg ref => simp [hty] at h

/-- a path that continues after a scalar, repeated or map field does not resolve -/
theorem resolveEls_through_non_message (sch : RSchema) (md : RDesc) (pre : Path) (e e2 : Bytes) (rest : List Bytes) (fd : RField)
    (hb : md.byName e = some fd) (hty : ∀ ref, fd.ty ≠ .msg ref) :
    resolveEls sch md pre (e :: e2 :: rest) = none := by
  rw [resolveEls_cons_cons, hb]
  cases h : fd.ty with
  | msg ref => exact absurd h (hty ref)
  | leaf c k => simp [h]
  | repMsg ref => simp [h]
  | mapMsg ref => simp [h]

theorem take_append_singleton {α} (l : List α) (a : α) (i : Nat) (h : i ≤ l.length) : (l ++ [a]).take i = l.take i := by
  rw [List.take_append_of_le_length h]

/-- below an unset sub-message nothing is populated -/
theorem get_none_below_unset (m : RMsg) (hwf : WFMsg m) (pre : Path) (n : Bytes) (i : Nat) (hi : 0 < i) (hle : i ≤ pre.length)
    (hunset : RMsg.get m (pre.take i) = none) : RMsg.get m (pre ++ [n]) = none := by
  cases hg : RMsg.get m (pre ++ [n]) with
  | none => rfl
  | some c =>
    exfalso
    obtain ⟨c', hc'⟩ := hwf (pre ++ [n]) c hg i hi (by simp; omega)
    rw [take_append_singleton pre n i hle] at hc'
    rw [hunset] at hc'
    cases hc'

end GB.C10.RP

namespace GB.C10.RP
open GB GB.C09

theorem contains_names (root : RDesc) (e : Bytes) :
    (root.map (·.name)).contains e = (root.byName e).isSome := by
  rw [Bool.eq_iff_iff]
  simp only [List.contains_iff_mem, List.mem_map, RDesc.byName, List.find?_isSome, beq_iff_eq]

/-- the flat model of round 1 (`GB.C10.traverseFieldPath`, all fields scalar) is the nested model on a flat message type -/
theorem traverse_flat (sch : RSchema) (root : RDesc) (hflat : ∀ f ∈ root, ∃ c k, f.ty = .leaf c k) (path : Bytes) :
    GB.C10.traverseFieldPath (root.map (·.name)) path =
      (traverse sch root path).map (fun sel => match sel with
        | none => Selected.whole
        | some (_, fd) => Selected.field fd.name) := by
  unfold GB.C10.traverseFieldPath traverse
  by_cases hw : (path == [] || path == [42]) = true
  · simp only [hw, if_true, Option.map_some]
  · simp only [hw, Bool.false_eq_true, if_false]
    rw [walk]
    cases hcut : cutDot path with
    | mk elem r2 =>
      obtain ⟨rest, found⟩ := r2
      simp only
      by_cases he : (found && elem == []) = true
      · simp only [he, if_true, Option.map_none]
      · simp only [he, Bool.false_eq_true, if_false, contains_names]
        cases hb : root.byName elem with
        | none => simp
        | some fd =>
          obtain ⟨hn, hmem⟩ := byName_name hb
          obtain ⟨c, k, hty⟩ := hflat fd hmem
          simp only [Option.isSome_some, Bool.not_true, Bool.false_eq_true, if_false]
          by_cases hr : (rest == []) = true
          · simp [hr, hn]
          · simp [hr, hty]

end GB.C10.RP
