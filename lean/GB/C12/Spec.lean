import GB.C12.Model
/-
  C12 — the gRPC PROTOCOL-HTTP2 reading of `grpc-timeout`:
    Timeout → TimeoutValue TimeoutUnit ; TimeoutValue → 1..8 ASCII digits ; TimeoutUnit ∈ {H,M,S,m,u,n}
  A well-formed header bounds the call by exactly value × unit (saturating at the largest
  representable duration); anything else is ignored (`none`).
-/
namespace GB.C12

def specUnit (u : UInt8) : Option Int :=
  if u = 72 then some 3600000000000       -- 'H'
  else if u = 77 then some 60000000000    -- 'M'
  else if u = 83 then some 1000000000     -- 'S'
  else if u = 109 then some 1000000       -- 'm'
  else if u = 117 then some 1000          -- 'u'
  else if u = 110 then some 1             -- 'n'
  else none

def specTimeout (s : Bytes) : Option Int :=
  match s.getLast? with
  | none => none
  | some u =>
    let ds := s.dropLast
    if 1 ≤ ds.length ∧ ds.length ≤ 8 ∧ ds.all isDigit = true then
      (specUnit u).map (fun d => min ((digitsValue ds : Int) * d) 9223372036854775807)
    else none

end GB.C12
