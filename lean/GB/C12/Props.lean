import GB.C12.Proofs
import GB.Generated.Facts
import GB.C02.Props   -- enforcement block at the end of this file
import GB.C16.Props   -- idem (deadline handed to the target)
import GB.C10.Props   -- idem (HTTP 504)
/-
  C12 — property theorems (decoder part). Theorems only; helper lemmas live in Proofs.lean.
  The enforcement clauses (deadline stops the whole call, DeadlineExceeded / 504, deadline seen by the target)
  are carried by the Forward LTS (C02), the AdaptedClientConn model (C16) and the HTTP status table (C10); they are
  restated for this property in the ENFORCEMENT block at the end of this file.
-/
open GB GB.C12

/-- Facts tie: the unit table and size bounds the model uses are the ones in the source now. -/
theorem C12_facts_units :
    GB.Generated.timeoutUnits = [(72, "Hour"), (77, "Minute"), (83, "Second"), (109, "Millisecond"), (117, "Microsecond"), (110, "Nanosecond")] := by
  decide

theorem C12_facts_sizes : GB.Generated.timeoutSizeBounds = (2, 9) := by decide

/-- The decoder equals the gRPC-spec reading for **every** byte string. -/
theorem C12_decode (s : Bytes) : decodeTimeout s = specTimeout s := by
  unfold decodeTimeout specTimeout minSize maxSize
  cases hl : s.getLast? with
  | none =>
    simp
  | some u =>
    have hne : s ≠ [] := by intro e; subst e; simp at hl
    have hlen : s.dropLast.length = s.length - 1 := by simp
    have hpos : 1 ≤ s.length := by cases s with | nil => exact absurd rfl hne | cons _ _ => simp
    simp only [unit_eq_spec]
    by_cases hsz : s.length < 2 ∨ s.length > 9
    · have : ¬ (1 ≤ s.dropLast.length ∧ s.dropLast.length ≤ 8 ∧ s.dropLast.all isDigit = true) := by
        rw [hlen]; omega
      rw [if_neg this]
      simp [hsz]
    · have hsz' : ¬ (s.length < 2 ∨ s.length > 9) := hsz
      have h1 : 1 ≤ s.dropLast.length := by rw [hlen]; omega
      have h8 : s.dropLast.length ≤ 8 := by rw [hlen]; omega
      simp only [Bool.or_eq_true, decide_eq_true_eq, hsz', ↓reduceIte]
      cases hu : specUnit u with
      | none => simp
      | some d =>
        by_cases hd : s.dropLast.all isDigit = true
        · have hp := parseInt10_digits _ hd h1 h8
          have hv := digitsValue_lt_1e8 _ hd h8
          simp only [hd, Bool.not_true, Bool.false_eq_true, ↓reduceIte, hp, h1, h8, and_self, Option.map_some]
          -- the hour clamp is exactly saturation at MaxInt64
          have hdcases : d = 3600000000000 ∨ d = 60000000000 ∨ d = 1000000000 ∨ d = 1000000 ∨ d = 1000 ∨ d = 1 := by
            unfold specUnit at hu
            split at hu <;> first | (injection hu with hu; omega) | skip
            split at hu <;> first | (injection hu with hu; omega) | skip
            split at hu <;> first | (injection hu with hu; omega) | skip
            split at hu <;> first | (injection hu with hu; omega) | skip
            split at hu <;> first | (injection hu with hu; omega) | skip
            split at hu <;> first | (injection hu with hu; omega) | skip
            simp at hu
          simp only [hour, maxHours, maxInt64, Bool.and_eq_true, beq_iff_eq, decide_eq_true_eq]
          rcases hdcases with h | h | h | h | h | h <;> subst h
          · by_cases ht : (digitsValue s.dropLast : Int) > 2562047
            · simp only [ht, decide_true, and_self, ↓reduceIte, Option.some.injEq]
              rw [Int.min_def]; split <;> omega
            · simp only [ht, decide_false, Bool.false_eq_true, and_false, ↓reduceIte, Option.some.injEq]
              rw [Int.min_def]; split <;> omega
          all_goals (simp; omega)
        · simp [hd]

/-- Declarative form: what is accepted, and with which value. -/
theorem C12_decode_iff (s : Bytes) (n : Int) :
    decodeTimeout s = some n ↔
      ∃ ds u d, s = ds ++ [u] ∧ 1 ≤ ds.length ∧ ds.length ≤ 8 ∧ (∀ b ∈ ds, isDigit b = true) ∧
        specUnit u = some d ∧ n = min ((digitsValue ds : Int) * d) 9223372036854775807 := by
  rw [C12_decode]
  unfold specTimeout
  constructor
  · intro h
    cases hl : s.getLast? with
    | none => simp [hl] at h
    | some u =>
      simp only [hl] at h
      split at h
      · rename_i hc
        cases hu : specUnit u with
        | none => simp [hu] at h
        | some d =>
          simp only [hu, Option.map_some, Option.some.injEq] at h
          refine ⟨s.dropLast, u, d, ?_, hc.1, hc.2.1, ?_, hu, h.symm⟩
          · have hne : s ≠ [] := by intro e; subst e; simp at hl
            have hg : s.getLast hne = u := by
              have := List.getLast?_eq_some_getLast hne
              rw [hl] at this; exact (Option.some.inj this).symm
            rw [← hg]; exact (List.dropLast_concat_getLast hne).symm
          · simpa [List.all_eq_true] using hc.2.2
      · simp at h
  · rintro ⟨ds, u, d, rfl, h1, h8, hd, hu, rfl⟩
    have hall : ds.all isDigit = true := by simpa [List.all_eq_true] using hd
    simp [h1, h8, hall, hu]

/-- Malformed values are ignored: signs, spaces, `_`, empty or over-long digit runs, bad units. -/
theorem C12_malformed_ignored (s : Bytes)
    (h : ¬ ∃ ds u, s = ds ++ [u] ∧ 1 ≤ ds.length ∧ ds.length ≤ 8 ∧ (∀ b ∈ ds, isDigit b = true) ∧ (specUnit u).isSome) :
    decodeTimeout s = none := by
  cases hr : decodeTimeout s with
  | none => rfl
  | some n =>
    obtain ⟨ds, u, d, e, h1, h8, hd, hu, _⟩ := (C12_decode_iff s n).1 hr
    exact absurd ⟨ds, u, e, h1, h8, hd, by simp [hu]⟩ h

/-- A value that contains a space, a tab or a sign ANYWHERE (padding included) is malformed, hence ignored: the decoder
    never strips white space. So the carriage decides what padding means — `_metadata[grpc-timeout]=%20400m` reaches the
    decoder as sent and is ignored, a header value reaches it after net/http's OWS stripping (`raw` cases of area c12e2e;
    seeded change C12-m10 trimmed the query values). -/
theorem C12_padding_is_malformed (s : Bytes) (b : UInt8) (hb : b ∈ s)
    (hw : b = 32 ∨ b = 9 ∨ b = 43 ∨ b = 45) : decodeTimeout s = none := by
  cases hr : decodeTimeout s with
  | none => rfl
  | some n =>
    obtain ⟨ds, u, d, e, _, _, hd, hu, _⟩ := (C12_decode_iff s n).1 hr
    subst e
    rcases List.mem_append.1 hb with hin | hin
    · have := hd b hin
      rcases hw with rfl | rfl | rfl | rfl <;> simp [isDigit] at this
    · have hbu : b = u := by simpa using hin
      subst hbu
      rcases hw with rfl | rfl | rfl | rfl <;> simp [specUnit] at hu

example : decodeTimeout [32, 52, 48, 48, 109] = none ∧ decodeTimeout [52, 48, 48, 109, 32] = none ∧
    decodeTimeout [52, 48, 48, 109] = some 400000000 := by decide

/-- The product the code computes in int64 never overflows (so `Int` models it exactly),
    and the decoded duration is never negative (no instantly-expired calls from a valid header). -/
theorem C12_no_overflow (s : Bytes) (n : Int) (h : decodeTimeout s = some n) :
    0 ≤ n ∧ n ≤ 9223372036854775807 := by
  obtain ⟨ds, u, d, _, _, h8, hd, hu, rfl⟩ := (C12_decode_iff s n).1 h
  have hall : ds.all isDigit = true := by simpa [List.all_eq_true] using hd
  have hv := digitsValue_lt_1e8 ds hall h8
  have hdpos : 0 ≤ d := by
    unfold specUnit at hu
    repeat' split at hu
    all_goals first | (injection hu with hu; omega) | simp at hu
  constructor
  · have : 0 ≤ (digitsValue ds : Int) * d := Int.mul_nonneg (by omega) hdpos
    omega
  · omega

/-- Enforcement value: the deadline the bridge puts on the whole call is decided by the first
    `grpc-timeout` value alone, read per the spec; a well-formed zero is an already-expired deadline,
    never "no timeout". (That the deadline then stops the call is the Forward LTS's progress theorem, C02.) -/
theorem C12_first_value_decides (vals : List Bytes) :
    callDeadline vals = vals.head?.bind specTimeout := by
  cases vals with
  | nil => rfl
  | cons v vs => simp [callDeadline, C12_decode]

theorem C12_zero_is_a_deadline (ds : Bytes) (u : UInt8) (h1 : 1 ≤ ds.length) (h8 : ds.length ≤ 8)
    (hz : ∀ b ∈ ds, b = 48) (hu : (specUnit u).isSome) (rest : List Bytes) :
    callDeadline ((ds ++ [u]) :: rest) = some 0 := by
  have hd : ∀ b ∈ ds, isDigit b = true := fun b hb => by rw [hz b hb]; decide
  have hv : digitsValue ds = 0 := digitsValue_zeros ds hz
  cases hsu : specUnit u with
  | none => simp [hsu] at hu
  | some d =>
    have := (C12_decode_iff (ds ++ [u]) 0).2 ⟨ds, u, d, rfl, h1, h8, hd, hsu, by simp [hv]; decide⟩
    simpa [callDeadline] using this

/-- What fix D14 removed: before it, a signed value was mis-read instead of ignored. -/
theorem C12_prefix_misread_signs :
    decodeTimeoutPreFix [43, 49, 83] = some 1000000000 ∧ decodeTimeoutPreFix [45, 49, 83] = some (-1000000000) ∧
    specTimeout [43, 49, 83] = none ∧ specTimeout [45, 49, 83] = none := by
  decide

/-- Non-vacuity: concrete accepted headers, including the saturating one. -/
example : decodeTimeout [49, 48, 83] = some 10000000000 := by decide          -- "10S"
example : decodeTimeout [57, 57, 57, 57, 57, 57, 57, 57, 72] = some 9223372036854775807 := by decide  -- "99999999H"
example : decodeTimeout [43, 49, 83] = none := by decide                      -- "+1S"
example : callDeadline [[48, 83], [55, 83]] = some 0 := by decide               -- ["0S", "7S"]: first value, zero = expired


/-! ## ENFORCEMENT block: the decoded value bounds the whole call (composition with C02 / C16 / C10)

  `callDeadline vals = some d` is what `ProxyForwarder.baseContext` turns into `context.WithTimeout(ctx, d)`
  (area c12 op `ctx` ties that step to the real Forward; area c12e2e ties the end-to-end behaviour per entry point).
  From there on the property's clauses are statements about the Forward LTS `GB.Fwd` (every client, every target,
  every interleaving), about the context `AdaptedClientConn.Stream` derives for the target, and about the HTTP
  status table. -/
section Enforcement
open GB.Fwd GB.LTS
variable {M E : Type} [DecidableEq M] [DecidableEq E]

/-- "The call never outlives that deadline … even if client and target are both idle or the target is unreachable":
    in EVERY reachable state of Forward over the repository's adapters (their context-awareness is a regenerated
    fact, `C02_facts_ctx_aware`) — before stream creation, while waiting for the target, mid-stream, both sides
    silent — once the deadline has fired Forward can and does return within 19 of its OWN steps; no step of the
    client or of the target is needed (`unilateral`). -/
theorem C12_deadline_stops_call (e0 : E) (cs ss : Bool) (s : State M E)
    (hr : Reachable (C02_repoParams cs ss) s) (hc : s.ctx = some .deadline) :
    ∃ ls s', GB.LTS.run (step (C02_repoParams cs ss)) s ls = some s' ∧ isDone s' = true ∧ ls.length ≤ 19 :=
  C02_deadline_enforced e0 (C02_repoParams cs ss) s hr .deadline hc
    (show GB.Generated.ctxAwareIncoming.all (·.2) = true by decide)
    (show GB.Generated.ctxAwareOutgoing.all (·.2) = true by decide)

/-- "ending with DeadlineExceeded when the deadline is what stops it": whenever Forward returns a context error,
    it is the error of the FIRST expiry/cancellation the context saw — DeadlineExceeded iff the deadline struck
    first, Canceled iff the client went away first; never one for the other, in any run. -/
theorem C12_deadline_exceeded_origin (p : Params) (tr : List (Label M E)) (s : State M E) (h : Run p tr s)
    (w : Why) (hd : s.main = .done (some (.ctx w))) : firstCtxDone tr = some w := by
  have := C02_status p tr s h _ hd
  simpa [originOK, origin, firstCtxDone] using this

/-- …and a call in which no deadline fired and nobody cancelled never ends with a context error. -/
theorem C12_no_spurious_deadline (p : Params) (tr : List (Label M E)) (s : State M E) (h : Run p tr s)
    (w : Why) (hn : firstCtxDone tr = none) : s.main ≠ .done (some (.ctx w)) := by
  intro hd
  have := C12_deadline_exceeded_origin p tr s h w hd
  rw [hn] at this; cases this

/-- "the target never observes a later deadline than the client asked for": the context of the stream towards the
    target inherits the call deadline, which is at most `now + d` for the decoded first value `d` and never later
    than a deadline the incoming context already carried; with no decodable value it is the incoming one. -/
theorem C12_target_deadline (now : Nat) (incoming : GB.C16.Conn.Ctx) (vals : List Bytes) :
    let b := GB.C16.Conn.baseContext now incoming vals
    (∀ d, callDeadline vals = some d → ∃ x, GB.C16.Conn.streamDeadline b = some x ∧ x ≤ now + d.toNat) ∧
    (∀ p, incoming.deadline = some p → ∃ x, GB.C16.Conn.streamDeadline b = some x ∧ x ≤ p) ∧
    (callDeadline vals = none → GB.C16.Conn.streamDeadline b = incoming.deadline) := by
  intro b
  have h := C16_forward_stream_deadline now incoming vals
  exact ⟨h.2.2.1, h.2.2.2.1, h.2.2.2.2⟩

/-- HTTP form of the outcome: an expired deadline is rendered as 504 (DeadlineExceeded in the status table). -/
theorem C12_http_504 (env : GB.C10.Env) : GB.C10.wantStatus (GB.C10.deadlineErr env) = 504 := by
  simp [GB.C10.wantStatus, GB.C10.explicitOf, GB.C10.deadlineErr, GB.C10.convert, GB.C10.RawErr.direct,
    GB.C10.cDeadlineExceeded, GB.C10.canonicalHttp]

/-- Non-vacuity: a bidirectional call with both sides idle in which the deadline strikes mid-stream is reachable,
    and the run that follows returns DeadlineExceeded. -/
example :
    (GB.LTS.run (step (C02_repoParams true true)) (init Nat Nat)
      [.outStreamCall, .outStreamRet .ok, .incRecvCall, .outRecvCall, .ctxDone .deadline]).map (·.ctx) =
      some (some .deadline) := by decide

end Enforcement
