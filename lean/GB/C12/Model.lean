import GB.Base.Bytes
/-
  C12 — model of `grpcadapter.decodeTimeout` / `timeoutUnitToDuration`
  (grpcadapter/forwarder.go) and of the `strconv.ParseInt(s, 10, 64)` call it makes.
  `time.Duration` (int64 nanoseconds) is modelled as `Int`; `C12_no_overflow` shows the
  product the code computes stays inside int64, so `Int` arithmetic is the code's arithmetic.
-/
namespace GB.C12

def nanosecond : Int := 1
def microsecond : Int := 1000
def millisecond : Int := 1000000
def second : Int := 1000000000
def minute : Int := 60000000000
def hour : Int := 3600000000000
def maxInt64 : Int := 9223372036854775807
/-- `math.MaxInt64 / int64(time.Hour)` -/
def maxHours : Int := 2562047

/-- (unit byte, duration) rows of `timeoutUnitToDuration`, tied to the source by `FactsTie`. -/
def unitTable : List (UInt8 × Int) :=
  [(72, hour), (77, minute), (83, second), (109, millisecond), (117, microsecond), (110, nanosecond)]

def timeoutUnitToDuration (u : UInt8) : Option Int :=
  (unitTable.find? (fun p => p.1 == u)).map (·.2)

def isDigit (b : UInt8) : Bool := 48 ≤ b && b ≤ 57

/-- value of a string of ASCII digits, most significant first (what ParseUint accumulates) -/
def digitsValue (ds : Bytes) : Nat := ds.foldl (fun acc b => acc * 10 + (b.toNat - 48)) 0

/-- `strconv.ParseUint(s, 10, 64)`: non-empty, digits only (no `_` in base 10), value < 2^64. -/
def parseUint10 (s : Bytes) : Option Nat :=
  if s.isEmpty then none
  else if !s.all isDigit then none
  else if digitsValue s < 2 ^ 64 then some (digitsValue s) else none

/-- `strconv.ParseInt(s, 10, 64)`: optional sign, then ParseUint, then the int64 range check. -/
def parseInt10 (s : Bytes) : Option Int :=
  match s with
  | [] => none
  | c :: rest =>
    let neg := c == 45
    let body := if c == 43 || c == 45 then rest else s
    match parseUint10 body with
    | none => none
    | some un =>
      if !neg && un ≥ 2 ^ 63 then none
      else if neg && un > 2 ^ 63 then none
      else some (if neg then -(un : Int) else (un : Int))

/-- Size bounds `size < 2 || size > 9` of the code (tied by `FactsTie`). -/
def minSize : Nat := 2
def maxSize : Nat := 9

/-- `decodeTimeout`, statement by statement (including the digits-only guard of fix D14). -/
def decodeTimeout (s : Bytes) : Option Int :=
  if s.length < minSize || s.length > maxSize then none
  else match s.getLast? with
    | none => none
    | some u =>
      match timeoutUnitToDuration u with
      | none => none
      | some d =>
        let ds := s.dropLast
        if !ds.all isDigit then none
        else match parseInt10 ds with
          | none => none
          | some t =>
            if d == hour && t > maxHours then some maxInt64
            else some (d * t)

/-- `ProxyForwarder.baseContext`: `if v := md.Get("grpc-timeout"); len(v) > 0 { … decodeTimeout(v[0]) … }` —
    the FIRST value decides; `some d` = `context.WithTimeout(ctx, d)` (so `some 0` is a deadline that has
    already passed), `none` = no deadline of the bridge's own (plain `WithCancel`). -/
def callDeadline (vals : List Bytes) : Option Int :=
  match vals with
  | [] => none
  | v :: _ => decodeTimeout v

/-- The code before fix D14 (no digits-only guard): kept to state what was wrong. -/
def decodeTimeoutPreFix (s : Bytes) : Option Int :=
  if s.length < minSize || s.length > maxSize then none
  else match s.getLast? with
    | none => none
    | some u =>
      match timeoutUnitToDuration u with
      | none => none
      | some d =>
        match parseInt10 s.dropLast with
        | none => none
        | some t =>
          if d == hour && t > maxHours then some maxInt64
          else some (d * t)

end GB.C12
