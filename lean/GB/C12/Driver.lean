import GB.Base.Proto
import GB.C12.Spec
namespace GB.C12
open GB GB.Proto

/-- Margins for the wall-clock observation (ms): the call may end up to `lateMargin` after the deadline
    (scheduling, connection teardown) and — because client and bridge clocks start a few ms apart — up to
    `earlyMargin` before it; the target may see the deadline `skew` ms later than the client's start + timeout
    (the time the request needed to reach the bridge). -/
def lateMargin : Int := 600
def earlyMargin : Int := 40
def skew : Int := 150

/-- C12 enforcement clauses judged on one observed call. -/
def judgeDeadline (entry shape : String) (toMs : Nat) (elapsed tdl closed : Int) (outcome : String) : String :=
  let to : Int := toMs
  if outcome ≠ "deadline" then s!"VIOL deadline-outcome entry={entry} shape={shape} outcome={outcome}"
  else if elapsed < to - earlyMargin then s!"VIOL deadline-early entry={entry} shape={shape} elapsed={elapsed} timeout={to}"
  else if elapsed > to + lateMargin then s!"VIOL deadline-late entry={entry} shape={shape} elapsed={elapsed} timeout={to}"
  else if tdl == -1 then s!"VIOL target-no-deadline entry={entry} shape={shape}"
  else if tdl ≠ -2 && tdl > to + skew then s!"VIOL target-later-deadline entry={entry} shape={shape} tdl={tdl} timeout={to}"
  else if shape ≠ "unreachable" && tdl ≠ -2 && (closed < 0 || closed > to + lateMargin) then
    s!"VIOL outgoing-not-closed-in-time entry={entry} shape={shape} closed={closed} timeout={to}"
  else s!"OK nt b={entry}-{shape}"

/-- `dec <hex> => none | some:<int>` -/
def handle : Handler
  | ["dec", hx], [out] =>
    match parseHex hx with
    | none => "BAD hex"
    | some s =>
      let m := showOptInt (decodeTimeout s)
      let sp := showOptInt (specTimeout s)
      let br := match decodeTimeout s with
        | some n => if n = maxInt64 then "b=clamp" else "b=ok"
        | none => if s.length < 2 || s.length > 9 then "b=size" else "b=reject"
      let nt := if (decodeTimeout s).isSome || (2 ≤ s.length && s.length ≤ 9) then " nt" else ""
      if out ≠ sp then s!"VIOL decode impl={out} spec={sp} model={m}"
      else if out ≠ m then s!"DIFF model={m}"
      else s!"OK{nt} {br}"
  | "ctx" :: vals, [out] =>
    -- `ctx <hex value>… => nodl | dl:<ns> | notcalled`: the deadline Forward gives the outgoing stream.
    -- Spec: the FIRST grpc-timeout value decides; well-formed ⇒ deadline = call start + exactly that duration
    -- (observed within [−5 ms, +250 ms] of it: the start is measured just before the call); malformed or absent ⇒ none.
    match vals.mapM parseHex with
    | none => "BAD hex"
    | some [] => "BAD ctx without values"
    | some (v :: _) =>
      match callDeadline (v :: []), out.splitOn ":" with
      | none, ["nodl"] => "OK nt b=ctx-ignored"
      | none, _ => s!"VIOL malformed-timeout-enforced out={out}"
      | some _, ["nodl"] => s!"VIOL well-formed-timeout-not-enforced spec={showOptInt (specTimeout v)}"
      | some d, ["dl", ns] =>
        match ns.toInt? with
        | none => "BAD ctx ns"
        | some n =>
          if n < d - 5000000 then s!"VIOL deadline-earlier-than-asked got={n} want={d}"
          else if n > d + 250000000 then s!"VIOL deadline-later-than-asked got={n} want={d}"
          else if d = 0 then "OK nt b=ctx-zero" else "OK nt b=ctx-deadline"
      | some _, _ => s!"VIOL target-not-reached-or-bad out={out}"
  | ["dl", entry, shape, toS], [el, oc, tdl, cl] =>
    -- timed end-to-end observation (area c12e2e): `dl <entry> <shape> <timeout ms> => elapsed=<ms> outcome=<..> tdl=<ms> closed=<ms>`
    let num (s : String) : Option Int := match s.splitOn "=" with | [_, v] => v.toInt? | _ => none
    match toS.toNat?, num el, num tdl, num cl, oc.splitOn "=" with
    | some to, some e, some td, some c, [_, outcome] =>
      judgeDeadline entry shape to e td c outcome
    | _, _, _, _, _ => "BAD c12 dl fields"
  | _, _ => "BAD c12 line"

end GB.C12
