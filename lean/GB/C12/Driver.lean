import GB.Base.Proto
import GB.C12.Spec
namespace GB.C12
open GB GB.Proto

/-- `dec <hex> => none | some:<int>` -/
def handle : Handler
  | ["dec", hx], [out] =>
    match parseHex hx with
    | none => "BAD hex"
    | some s =>
      let m := showOptInt (decodeTimeout s)
      let sp := showOptInt (specTimeout s)
      let br := match decodeTimeout s with
        | some n => if n = maxInt64 then "b=clamp" else "b=ok"
        | none => if s.length < 2 || s.length > 9 then "b=size" else "b=reject"
      let nt := if (decodeTimeout s).isSome || (2 ≤ s.length && s.length ≤ 9) then " nt" else ""
      if out ≠ sp then s!"VIOL decode impl={out} spec={sp} model={m}"
      else if out ≠ m then s!"DIFF model={m}"
      else s!"OK{nt} {br}"
  | _, _ => "BAD c12 line"

end GB.C12
