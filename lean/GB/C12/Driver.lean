import GB.Base.Proto
import GB.C12.Spec
namespace GB.C12
open GB GB.Proto

/-- Margins for the wall-clock observation (ms): the call may end up to `lateMargin` after the deadline
    (scheduling, connection teardown) and — because client and bridge clocks start a few ms apart — up to
    `earlyMargin` before it; the target may see the deadline `skew` ms later than the client's start + timeout
    (the time the request needed to reach the bridge). -/
def lateMargin : Int := 600
def earlyMargin : Int := 40
def skew : Int := 150

/-- C12 enforcement clauses judged on one observed call. -/
def judgeDeadline (entry shape : String) (toMs : Nat) (elapsed tdl closed : Int) (outcome : String) : String :=
  let to : Int := toMs
  if outcome ≠ "deadline" then s!"VIOL deadline-outcome entry={entry} shape={shape} outcome={outcome}"
  else if elapsed < to - earlyMargin then s!"VIOL deadline-early entry={entry} shape={shape} elapsed={elapsed} timeout={to}"
  else if elapsed > to + lateMargin then s!"VIOL deadline-late entry={entry} shape={shape} elapsed={elapsed} timeout={to}"
  else if tdl == -1 then s!"VIOL target-no-deadline entry={entry} shape={shape}"
  else if tdl ≠ -2 && tdl > to + skew then s!"VIOL target-later-deadline entry={entry} shape={shape} tdl={tdl} timeout={to}"
  else if shape ≠ "unreachable" && tdl ≠ -2 && (closed < 0 || closed > to + lateMargin) then
    s!"VIOL outgoing-not-closed-in-time entry={entry} shape={shape} closed={closed} timeout={to}"
  else s!"OK nt b={entry}-{shape}"

/-- Optional white space (SP / HTAB) stripped from both ends: what net/http (textproto) does to a header value. -/
def trimOWS (s : Bytes) : Bytes :=
  let isWS (b : UInt8) : Bool := b == 32 || b == 9
  ((s.dropWhile isWS).reverse.dropWhile isWS).reverse

/-- `dec <hex> => none | some:<int>` -/
def handle : Handler
  | ["dec", hx], [out] =>
    match parseHex hx with
    | none => "BAD hex"
    | some s =>
      let m := showOptInt (decodeTimeout s)
      let sp := showOptInt (specTimeout s)
      let br := match decodeTimeout s with
        | some n => if n = maxInt64 then "b=clamp" else "b=ok"
        | none => if s.length < 2 || s.length > 9 then "b=size" else "b=reject"
      let nt := if (decodeTimeout s).isSome || (2 ≤ s.length && s.length ≤ 9) then " nt" else ""
      if out ≠ sp then s!"VIOL decode impl={out} spec={sp} model={m}"
      else if out ≠ m then s!"DIFF model={m}"
      else s!"OK{nt} {br}"
  | "ctx" :: vals, [out] =>
    -- `ctx <hex value>… => nodl | dl:<ns> | notcalled`: the deadline Forward gives the outgoing stream.
    -- Spec: the FIRST grpc-timeout value decides; well-formed ⇒ deadline = call start + exactly that duration
    -- (observed within [−5 ms, +250 ms] of it: the start is measured just before the call); malformed or absent ⇒ none.
    match vals.mapM parseHex with
    | none => "BAD hex"
    | some [] => "BAD ctx without values"
    | some (v :: _) =>
      match callDeadline (v :: []), out.splitOn ":" with
      | none, ["nodl"] => "OK nt b=ctx-ignored"
      | none, _ => s!"VIOL malformed-timeout-enforced out={out}"
      | some _, ["nodl"] => s!"VIOL well-formed-timeout-not-enforced spec={showOptInt (specTimeout v)}"
      | some d, ["dl", ns] =>
        match ns.toInt? with
        | none => "BAD ctx ns"
        | some n =>
          if n < d - 5000000 then s!"VIOL deadline-earlier-than-asked got={n} want={d}"
          else if n > d + 250000000 then s!"VIOL deadline-later-than-asked got={n} want={d}"
          else if d = 0 then "OK nt b=ctx-zero" else "OK nt b=ctx-deadline"
      | some _, _ => s!"VIOL target-not-reached-or-bad out={out}"
  | ["dl", entry, shape, toS], [el, oc, tdl, cl] =>
    -- timed end-to-end observation (area c12e2e): `dl <entry> <shape> <timeout ms> => elapsed=<ms> outcome=<..> tdl=<ms> closed=<ms>`
    let num (s : String) : Option Int := match s.splitOn "=" with | [_, v] => v.toInt? | _ => none
    match toS.toNat?, num el, num tdl, num cl, oc.splitOn "=" with
    | some to, some e, some td, some c, [_, outcome] =>
      judgeDeadline entry shape to e td c outcome
    | _, _, _, _, _ => "BAD c12 dl fields"
  | ["raw", carry, hx], [td] =>
    -- `raw <carriage> <hex value> => tdl=<ms>`: a RAW grpc-timeout value carried in a `_metadata[grpc-timeout]` query entry
    -- of a WebSocket upgrade (`wsq`: the value reaches the decoder as sent) or in a header line (`wsh`, `httph`, `grpcwebh`:
    -- net/http strips optional white space around a header value, so the stripped value reaches the decoder). Spec: the
    -- target is given a deadline iff that value is well-formed (`specTimeout`), and then the client's.
    let num (s : String) : Option Int := match s.splitOn "=" with | [_, v] => v.toInt? | _ => none
    match parseHex hx, num td with
    | some raw, some t =>
      let v := if carry == "wsq" then raw else trimOWS raw
      match specTimeout v with
      | none =>
        if t == -1 then "OK nt b=raw-ignored"
        else if t == -2 then "DIFF model=called-without-deadline (target not reached)"
        else s!"VIOL malformed-timeout-enforced carriage={carry} tdl={t}"
      | some ns =>
        let ms : Int := ns / 1000000
        if t == -1 then s!"VIOL well-formed-timeout-not-enforced carriage={carry} want={ms}ms"
        else if t == -2 then (if ms < 100 then "OK b=raw-expired" else "DIFF model=deadline (target not reached)")
        else if t > ms + skew then s!"VIOL target-later-deadline carriage={carry} tdl={t} timeout={ms}"
        else if t < ms - 60 then s!"VIOL target-earlier-deadline carriage={carry} tdl={t} timeout={ms}"
        else "OK nt b=raw-deadline"
    | _, _ => "BAD c12 raw fields"
  | _, _ => "BAD c12 line"

end GB.C12
