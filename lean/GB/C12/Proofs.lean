import GB.C12.Spec
namespace GB.C12

set_option linter.unusedSimpArgs false

theorem unit_eq_spec (u : UInt8) : timeoutUnitToDuration u = specUnit u := by
  unfold timeoutUnitToDuration specUnit unitTable
  simp only [List.find?, hour, minute, second, millisecond, microsecond, nanosecond]
  by_cases h1 : u = 72
  · subst h1; rfl
  by_cases h2 : u = 77
  · subst h2; rfl
  by_cases h3 : u = 83
  · subst h3; rfl
  by_cases h4 : u = 109
  · subst h4; rfl
  by_cases h5 : u = 117
  · subst h5; rfl
  by_cases h6 : u = 110
  · subst h6; rfl
  have e1 : ((72 : UInt8) == u) = false := by simp; exact fun h => h1 h.symm
  have e2 : ((77 : UInt8) == u) = false := by simp; exact fun h => h2 h.symm
  have e3 : ((83 : UInt8) == u) = false := by simp; exact fun h => h3 h.symm
  have e4 : ((109 : UInt8) == u) = false := by simp; exact fun h => h4 h.symm
  have e5 : ((117 : UInt8) == u) = false := by simp; exact fun h => h5 h.symm
  have e6 : ((110 : UInt8) == u) = false := by simp; exact fun h => h6 h.symm
  simp [e1, e2, e3, e4, e5, e6, h1, h2, h3, h4, h5, h6]

theorem isDigit_iff (b : UInt8) : isDigit b = true ↔ 48 ≤ b.toNat ∧ b.toNat ≤ 57 := by
  unfold isDigit
  simp [UInt8.le_iff_toNat_le]

theorem foldl_digits_bound (ds : Bytes) (acc : Nat) (h : ds.all isDigit = true) :
    ds.foldl (fun acc b => acc * 10 + (b.toNat - 48)) acc < (acc + 1) * 10 ^ ds.length := by
  induction ds generalizing acc with
  | nil => simp
  | cons b bs ih =>
    simp only [List.all_cons, Bool.and_eq_true] at h
    have hb := (isDigit_iff b).1 h.1
    have := ih (acc * 10 + (b.toNat - 48)) h.2
    simp only [List.foldl_cons, List.length_cons]
    calc _ < (acc * 10 + (b.toNat - 48) + 1) * 10 ^ bs.length := this
      _ ≤ ((acc + 1) * 10) * 10 ^ bs.length := by
          apply Nat.mul_le_mul_right; omega
      _ = (acc + 1) * 10 ^ (bs.length + 1) := by rw [Nat.pow_succ, Nat.mul_assoc, Nat.mul_comm 10]

theorem digitsValue_lt (ds : Bytes) (h : ds.all isDigit = true) : digitsValue ds < 10 ^ ds.length := by
  have := foldl_digits_bound ds 0 h
  simpa [digitsValue] using this

theorem digitsValue_lt_1e8 (ds : Bytes) (h : ds.all isDigit = true) (hl : ds.length ≤ 8) :
    digitsValue ds < 100000000 := by
  have h1 := digitsValue_lt ds h
  have h2 : 10 ^ ds.length ≤ 10 ^ 8 := Nat.pow_le_pow_right (by decide) hl
  omega

/-- On 1..8 ASCII digits, Go's ParseInt returns exactly the decimal value. -/
theorem parseInt10_digits (ds : Bytes) (h : ds.all isDigit = true) (h1 : 1 ≤ ds.length) (h8 : ds.length ≤ 8) :
    parseInt10 ds = some (digitsValue ds : Int) := by
  have hv := digitsValue_lt_1e8 ds h h8
  cases ds with
  | nil => simp at h1
  | cons c rest =>
    have hc : isDigit c = true := by simp only [List.all_cons, Bool.and_eq_true] at h; exact h.1
    have hc' := (isDigit_iff c).1 hc
    have n43 : (c == 43) = false := by
      simp; intro e; subst e; simp at hc'
    have n45 : (c == 45) = false := by
      simp; intro e; subst e; simp at hc'
    have hpu : parseUint10 (c :: rest) = some (digitsValue (c :: rest)) := by
      unfold parseUint10
      simp only [List.isEmpty_cons, h]
      have : digitsValue (c :: rest) < 2 ^ 64 := by omega
      simp [this]
    unfold parseInt10
    simp only [n43, n45, Bool.or_self, Bool.false_eq_true, ↓reduceIte, hpu]
    have : ¬ (digitsValue (c :: rest) ≥ 2 ^ 63) := by omega
    simp [this]

theorem foldl_zeros (ds : Bytes) (hz : ∀ b ∈ ds, b = 48) :
    ds.foldl (fun acc b => acc * 10 + (b.toNat - 48)) 0 = 0 := by
  induction ds with
  | nil => rfl
  | cons b bs ih =>
    have hb : b = 48 := hz b (by simp)
    subst hb
    simp only [List.foldl_cons]
    exact ih (fun b hb => hz b (by simp [hb]))

theorem digitsValue_zeros (ds : Bytes) (hz : ∀ b ∈ ds, b = 48) : digitsValue ds = 0 :=
  foldl_zeros ds hz

end GB.C12
