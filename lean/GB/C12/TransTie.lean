import GB.Generated.Trans
import GB.Base.TransLemmas
import GB.C12.Model
/-
  C12 — SOURCE-TO-LEAN TRANSLATOR TIE.  `GB.Generated.Trans.decodeTimeout` / `timeoutUnitToDuration` are
  regenerated from grpcadapter/forwarder.go on every run (extract/trans); the theorems prove for ALL inputs
  that they compute what the hand-written `GB.C12.decodeTimeout` / `timeoutUnitToDuration` compute.
  The Go functions return `(time.Duration, bool)`, the hand model `Option Int`: the exact relation is
  `some d ↦ (d, true)`, `none ↦ (0, false)` (`ofOption`).  `time.Duration` is `Int` on both sides
  (no wrap-around; `C12_no_overflow` shows the product stays inside int64).
-/
set_option linter.unusedSimpArgs false
set_option linter.unusedVariables false

open GB GB.Trans

/-- the Go result `(value, ok)` of a model result -/
def GB.C12.TransTie.ofOption : Option Int → Int × Bool
  | some d => (d, true)
  | none => (0, false)

open GB.C12.TransTie

/-- library model of `strconv.ParseUint(·, 10, 64)` = the one of the C12 model -/
theorem GB.C12.TransTie.parseUint10_eq (s : Bytes) : GB.Trans.parseUint10 s = GB.C12.parseUint10 s := rfl

/-- library model of `strconv.ParseInt(·, 10, 64)` = the one of the C12 model (`err != nil` ⇔ `none`) -/
theorem GB.C12.TransTie.parseInt10_eq (s : Bytes) :
    GB.Trans.parseInt10 s = (match GB.C12.parseInt10 s with | some t => (t, false) | none => (0, true)) := by
  cases s with
  | nil => rfl
  | cons c rest =>
    simp only [GB.Trans.parseInt10, GB.C12.parseInt10, parseUint10_eq]
    cases GB.C12.parseUint10 (if (c == 43 || c == 45) = true then rest else c :: rest) with
    | none => rfl
    | some un =>
      simp only []
      split
      · rfl
      · split <;> rfl

theorem GB.C12.TransTie.idx_last (s : Bytes) (u : UInt8) (h : s.getLast? = some u) : idx s (len s - 1) = u := by
  have hne : s ≠ [] := by intro h0; simp [h0] at h
  have hpos : 0 < s.length := List.length_pos_iff.mpr hne
  have h1 : ¬ ((s.length : Int) - 1 < 0) := by omega
  have h2 : ((s.length : Int) - 1).toNat = s.length - 1 := by omega
  rw [List.getLast?_eq_getElem?] at h
  simp [idx, len, h1, h2, List.getD_eq_getElem?_getD, h]

theorem GB.C12.TransTie.nondigit (ch : UInt8) : (decide (ch < 48) || decide (ch > 57)) = !GB.C12.isDigit ch := by
  simp only [GB.C12.isDigit]
  rw [Bool.eq_iff_iff]
  simp [UInt8.not_le]

theorem GB.C12.TransTie.any_nondigit (ds : Bytes) :
    ds.any (fun ch => (decide (ch < 48) || decide (ch > 57))) = !ds.all GB.C12.isDigit := by
  rw [List.all_eq_not_any_not, Bool.not_not]
  congr 1; funext ch
  exact nondigit ch

/-- grpcadapter `timeoutUnitToDuration` (the unit table) -/
theorem C12_trans_timeoutUnitToDuration : ∀ u : UInt8,
    GB.Generated.Trans.timeoutUnitToDuration u = ofOption (GB.C12.timeoutUnitToDuration u) := by
  intro u
  unfold GB.Generated.Trans.timeoutUnitToDuration GB.C12.timeoutUnitToDuration GB.C12.unitTable
  by_cases h1 : u = 72
  · subst h1; rfl
  by_cases h2 : u = 77
  · subst h2; rfl
  by_cases h3 : u = 83
  · subst h3; rfl
  by_cases h4 : u = 109
  · subst h4; rfl
  by_cases h5 : u = 117
  · subst h5; rfl
  by_cases h6 : u = 110
  · subst h6; rfl
  have e : ∀ k : UInt8, u ≠ k → (k == u) = false := by intro k hk; simp; exact fun h => hk h.symm
  simp [h1, h2, h3, h4, h5, h6, List.find?, e, ofOption]

/-- grpcadapter `decodeTimeout`, statement by statement -/
theorem C12_trans_decodeTimeout : ∀ s : GB.Bytes,
    GB.Generated.Trans.decodeTimeout s = ofOption (GB.C12.decodeTimeout s) := by
  intro s
  have hlen : len s = (s.length : Int) := rfl
  unfold GB.Generated.Trans.decodeTimeout GB.C12.decodeTimeout
  by_cases hsz : (decide (s.length < GB.C12.minSize) || decide (s.length > GB.C12.maxSize)) = true
  · have hP : s.length < 2 ∨ s.length > 9 := by
      rcases (Bool.or_eq_true _ _).mp hsz with h | h
      · exact Or.inl (of_decide_eq_true h)
      · exact Or.inr (of_decide_eq_true h)
    have hsz' : (decide (len s < 2) || decide (len s > 9)) = true := by
      simp only [Bool.or_eq_true, decide_eq_true_eq, hlen]; omega
    rw [if_pos hsz, if_pos hsz']; rfl
  · have hP : ¬ (s.length < 2 ∨ s.length > 9) := by
      intro h; apply hsz; rcases h with h | h
      · exact (Bool.or_eq_true _ _).mpr (Or.inl (decide_eq_true h))
      · exact (Bool.or_eq_true _ _).mpr (Or.inr (decide_eq_true h))
    have hsz' : ¬ (decide (len s < 2) || decide (len s > 9)) = true := by
      simp only [Bool.or_eq_true, decide_eq_true_eq, hlen]; omega
    have hn : 2 ≤ s.length := by omega
    rw [if_neg hsz, if_neg hsz']
    cases hl : s.getLast? with
    | none =>
      have : s = [] := by simpa using hl
      simp [this] at hn
    | some u =>
      simp only [idx_last s u hl, C12_trans_timeoutUnitToDuration]
      cases GB.C12.timeoutUnitToDuration u with
      | none => rfl
      | some d =>
        simp only [ofOption, Bool.not_true, Bool.false_eq_true, if_false]
        have hr : rangeInt 0 (len s - 1) = rangeFrom 0 (s.length - 1) := by
          simp only [rangeInt, hlen]; congr 1; omega
        have hs : slice s 0 (len s - 1) = s.dropLast := by
          have : ((s.length : Int) - 1).toNat = s.length - 1 := by omega
          simp [slice, hlen, this, List.dropLast_eq_take]
        rw [hr, hs]
        rw [loop_range_idx_take s (s.length - 1) (by omega) () _
          (fun ch _ => if (decide (ch < 48) || decide (ch > 57)) then Ctl.ret ((0 : Int), false) else Ctl.next ())
          (by intro i st; rfl)]
        rw [← List.dropLast_eq_take]
        rw [loop_unit_any (ρ := Int × Bool) s.dropLast (fun ch => (decide (ch < 48) || decide (ch > 57))) ((0 : Int), false)]
        rw [any_nondigit]
        cases hd : s.dropLast.all GB.C12.isDigit with
        | false => rfl
        | true =>
          simp only [Bool.not_true, Bool.false_eq_true, if_false, parseInt10_eq]
          cases GB.C12.parseInt10 s.dropLast with
          | none => rfl
          | some t =>
            simp only [GB.C12.hour, GB.C12.maxHours, GB.C12.maxInt64, gt_iff_lt, Bool.false_eq_true, if_false]
            by_cases hc : (d == 3600000000000 && decide (2562047 < t)) = true
            · rw [if_pos hc, if_pos hc]
            · rw [if_neg hc, if_neg hc]

/-- not vacuous: the regenerated definition computes ("10S" = 10 s, "1H" = 1 h) -/
example : GB.Generated.Trans.decodeTimeout [49, 48, 83] = (10000000000, true) := by decide
example : GB.Generated.Trans.decodeTimeout [49, 48, 120] = (0, false) := by decide

/-! ## Wave 4: `ProxyForwarder.baseContext` — grpc-timeout presence test and first-value selection (IF-HEAD fragments)

`baseContext_present md` = init + condition of `if v := md.Get("grpc-timeout"); len(v) > 0` (forwarder.go:158),
`baseContext_decode v`  = init + condition of `if d, ok := decodeTimeout(v[0]); ok` (forwarder.go:161);
`metadata.MD` is modelled by its `Get` function (key lower-casing is grpc's). -/

/-- the control skeleton of `baseContext` over the two regenerated if-heads: `some d` = the `context.WithTimeout(ctx, d)`
    exit, `none` = the `context.WithCancel` exit -/
def GB.C12.TransTie.baseContextDeadline (md : GB.Bytes → List GB.Bytes) : Option Int :=
  match GB.Generated.Trans.baseContext_present md with
  | (v, true) =>
    (match GB.Generated.Trans.baseContext_decode v with
     | (d, true) => some d
     | (_, false) => none)
  | (_, false) => none

/-- "grpc-timeout" (the Go constant `metadataTimeout`, inlined by value by the translator) -/
def GB.C12.TransTie.keyTimeout : GB.Bytes := [103, 114, 112, 99, 45, 116, 105, 109, 101, 111, 117, 116]

/-- presence test: `v` is the value list of the key "grpc-timeout", the branch is taken iff it is non-empty -/
theorem C12_trans_baseContext_present : ∀ md : GB.Bytes → List GB.Bytes,
    GB.Generated.Trans.baseContext_present md = (md keyTimeout, !(md keyTimeout).isEmpty) := by
  intro md
  unfold GB.Generated.Trans.baseContext_present keyTimeout
  cases md [103, 114, 112, 99, 45, 116, 105, 109, 101, 111, 117, 116] with
  | nil => rfl
  | cons a r =>
    simp only [len, List.length_cons, List.isEmpty_cons, Bool.not_false, Prod.mk.injEq, true_and, decide_eq_true_eq]
    have : Int.ofNat (r.length + 1) > 0 := by simp only [Int.ofNat_eq_natCast]; omega
    simp [this]

/-- first-value selection: on a non-empty value list only `v[0]` is decoded (the model's `decodeTimeout`) -/
theorem C12_trans_baseContext_decode : ∀ (v : GB.Bytes) (rest : List GB.Bytes),
    GB.Generated.Trans.baseContext_decode (v :: rest) = ofOption (GB.C12.decodeTimeout v) := by
  intro v rest
  unfold GB.Generated.Trans.baseContext_decode
  have h0 : idxS (v :: rest) 0 = v := by simp [idxS]
  rw [h0, C12_trans_decodeTimeout]

/-- `callDeadline` (the model function all C12 deadline theorems are about) applied to the grpc-timeout values IS the
    skeleton of `baseContext` over the regenerated presence test and first-value decode -/
theorem C12_trans_baseContext : ∀ md : GB.Bytes → List GB.Bytes,
    baseContextDeadline md = GB.C12.callDeadline (md keyTimeout) := by
  intro md
  unfold baseContextDeadline
  rw [C12_trans_baseContext_present]
  cases h : md keyTimeout with
  | nil => rfl
  | cons a r =>
    simp only [List.isEmpty_cons, Bool.not_false, C12_trans_baseContext_decode, GB.C12.callDeadline]
    cases GB.C12.decodeTimeout a <;> rfl

example : baseContextDeadline (fun k => if k == keyTimeout then [[49, 48, 83], [55, 72]] else []) = some 10000000000 := by decide
example : baseContextDeadline (fun _ => []) = none := by decide
