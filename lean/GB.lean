-- This module serves as the root of the `GB` library.
-- Import modules here that should be built as part of the library.
import GB.Basic
