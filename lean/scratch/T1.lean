import GB.C01.Lemmas
open GB.Fwd GB.LTS
namespace GB.Fwd
variable {M E : Type} [DecidableEq M] [DecidableEq E]

def MPc.pre : MPc M E → Bool
  | .start => true | .uRecvPending => true | .streamCall _ => true | .streamPending _ => true
  | .uSendCall _ => true | .uSendPending => true | .uCloseErr _ => true | .uCloseSend => true
  | .loop => false | .loopCloseSend => false | .deferClose _ => false | .deferCancel _ => false
  | .deferWait _ => false | .done _ => false

/-- unary-request pcs of main -/
def MPc.unary : MPc M E → Bool
  | .uRecvPending => true | .streamCall (some _) => true | .streamPending (some _) => true
  | .uSendCall _ => true | .uSendPending => true | .uCloseErr _ => true | .uCloseSend => true
  | .start => false | .streamCall none => false | .streamPending none => false
  | .loop => false | .loopCloseSend => false | .deferClose _ => false | .deferCancel _ => false
  | .deferWait _ => false | .done _ => false

structure SInv (p : Params) (s : State M E) : Prop where
  pre_i : s.main.pre = true → s.i2o = .absent
  pre_o : s.main.pre = true → s.o2i = .absent
  ncs : p.cs = false → s.i2o = .absent
  cs : p.cs = true → s.main.unary = false

set_option maxHeartbeats 2000000 in
theorem sinv_step (p : Params) (s s' : State M E) (l : Label M E) (h : SInv p s) (hs : step p s l = some s') : SInv p s' := by
  obtain ⟨s1, hc, rfl⟩ := step_core hs
  clear hs
  obtain ⟨h1, h2, h3, h4⟩ := h
  cases l <;> simp only [stepCore] at hc <;> (repeat' split at hc) <;> (try cases hc) <;>
    (constructor <;> simp_all [MPc.pre, MPc.unary])
end GB.Fwd
