import GB.C03.Spec
open GB GB.C03
theorem escapesOk_cons (c : UInt8) (rest : Bytes) : escapesOk (c :: rest) =
    if c = 37 then (match rest with | h :: l :: r => ishex h && ishex l && escapesOk r | _ => false) else escapesOk rest := by
  conv => lhs; unfold escapesOk
  rfl
theorem unescapeBuild_cons (m : Bool) (c : UInt8) (rest : Bytes) : unescapeBuild m (c :: rest) =
    if c = 37 then
      match rest with
      | h :: l :: r =>
        if m && isRFC6570Reserved ((unhex h <<< 4) ||| unhex l) then 37 :: h :: l :: unescapeBuild m r
        else ((unhex h <<< 4) ||| unhex l) :: unescapeBuild m r
      | _ => 37 :: rest
    else c :: unescapeBuild m rest := by
  conv => lhs; unfold unescapeBuild
  rfl
theorem decodeOnce_cons (m : Bool) (c : UInt8) (rest : Bytes) : decodeOnce m (c :: rest) =
    if c = 37 then
      match rest with
      | h :: l :: r =>
        match hexVal h, hexVal l, decodeOnce m r with
        | some a, some b, some d =>
          if m && isRFC6570Reserved (a <<< 4 ||| b) then some (37 :: h :: l :: d) else some ((a <<< 4 ||| b) :: d)
        | _, _, _ => none
      | _ => none
    else (decodeOnce m rest).map (c :: ·) := by
  conv => lhs; unfold decodeOnce
  rfl
theorem escapesOk_cons_ne {c : UInt8} {rest : Bytes} (h : c ≠ 37) : escapesOk (c :: rest) = escapesOk rest := by
  rw [escapesOk_cons]; simp [h]
theorem escapesOk_pct3 (h l : UInt8) (r : Bytes) : escapesOk (37 :: h :: l :: r) = (ishex h && ishex l && escapesOk r) := by
  rw [escapesOk_cons]; simp
theorem escapesOk_pct_short {rest : Bytes} (hne : ∀ h l r, rest = h :: l :: r → False) : escapesOk (37 :: rest) = false := by
  rw [escapesOk_cons]
  match rest, hne with
  | [], _ => rfl
  | [_], _ => rfl
  | x :: y :: zs, hne => exact absurd rfl (fun e => hne x y zs e)
