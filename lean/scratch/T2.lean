inductive P | a | b (n : Nat) | c
def P.f : P → Bool
  | .a => true | .b _ => false | .c => true
attribute [simp] P.f.eq_1 P.f.eq_2 P.f.eq_3
example (x : P) (h : x.f = true) (h2 : x = .b 3) : False := by
  simp at h
  trace_state
  simp_all
