import GB.C20.Model
import GB.C20.Spec
open GB GB.C20
theorem x : ∀ l : Bytes, stCheckLiteral l = pcharsB l := by
  intro l
  fun_induction pcharsB l with
  | case1 => simp [stCheckLiteral]
  | case2 c r h ih => trace_state; sorry
  | _ => sorry
